#!/bin/sh
# usage: tools/run_all.sh quick|thorough [ids...]   -- runs the registered checks one after another (each uses all cores)
# and appends one summary line per check to build/runall-<tier>.log. Development aid; not a registered command.
cd "$(dirname "$0")/.." || exit 2
TIER=${1:-quick}; shift
IDS=${*:-$(python3 -c "import json;print(' '.join(c['property_id'] for c in json.load(open('MANIFEST.json'))['checks']))")}
mkdir -p build; LOG=build/runall-$TIER.log
for id in $IDS; do
  s=$(date +%s)
  ./check $id --tier $TIER > build/runall-$id-$TIER.out 2>&1; rc=$?
  echo "$(date -u +%FT%TZ) $id rc=$rc $(( $(date +%s) - s ))s load=$(cut -d' ' -f1 /proc/loadavg) $(grep -E "tier=|CHECK-BROKEN" build/runall-$id-$TIER.out | tail -1)" >> $LOG
  grep -E "^VIOLATION|^KNOWN-FINDING" build/runall-$id-$TIER.out >> $LOG
done
echo "done $TIER" >> $LOG
