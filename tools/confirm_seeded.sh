#!/bin/sh
# usage: tools/confirm_seeded.sh seeded/<id> [...]
# Confirms in a scratch worktree of /repo's HEAD that the seeded change (patch.diff) compiles, that the repository's whole
# unedited test suite passes with it, and that the demonstration fails with it and passes without it. Writes the outcome
# into <dir>/confirmed.txt. The worktree and its build are removed afterwards.
for D in "$@"; do
  D=$(readlink -f "$D"); W=$(mktemp -d /tmp/confirm.XXXXXX)
  git -C /repo worktree add --detach "$W" HEAD >/dev/null 2>&1
  DEMO=$(ls "$D"/demo*.cpp | head -1)
  INC=""; for d in common theta tuple hll cpc kll req quantiles fi count sampling tdigest filters density; do INC="$INC -I$W/$d/include"; done
  {
    echo "repo HEAD: $(git -C /repo rev-parse --short HEAD)   date: $(date -u +%FT%TZ)"
    g++ -std=c++11 -O1 -DDATASKETCHES_VERIF $INC "$DEMO" -o "$W/demo_without" 2>&1 | tail -3
    "$W/demo_without" >/dev/null 2>&1; echo "demo WITHOUT the change: exit $?"
    git -C "$W" apply "$D/patch.diff" && echo "patch applies: yes"
    g++ -std=c++11 -O1 -DDATASKETCHES_VERIF $INC "$DEMO" -o "$W/demo_with" 2>&1 | tail -3
    "$W/demo_with" >/dev/null 2>&1; echo "demo WITH the change: exit $?"
    cmake -S "$W" -B "$W/_b" -G Ninja -DCMAKE_BUILD_TYPE=Release -DFETCHCONTENT_TRY_FIND_PACKAGE_MODE=ALWAYS -DCatch2_DIR=/usr/lib/cmake/Catch2 -DCMAKE_CXX_FLAGS=-Wno-error >/dev/null 2>&1
    cmake --build "$W/_b" -j12 >/dev/null 2>&1; echo "test suite builds with the change: exit $?"
    ctest --test-dir "$W/_b" -j8 --timeout 900 2>&1 | grep -E "tests passed|tests failed"
  } > "$D/confirmed.txt" 2>&1
  git -C /repo worktree remove --force "$W" >/dev/null 2>&1
  echo "== $D"; cat "$D/confirmed.txt"
done
