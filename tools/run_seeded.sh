#!/bin/sh
# usage: tools/run_seeded.sh <property-id> <patch.diff> [tier] [extra check args]
# Applies a seeded change to a scratch worktree of /repo's HEAD (never to /repo), runs the property's check against it
# with its own build directory, prints the verdict, and removes the worktree and the build directory.
set -e
ID=$1; PATCH=$(readlink -f "$2"); TIER=${3:-quick}; shift 3 2>/dev/null || shift $#
cd /verif
W=$(mktemp -d /tmp/seeded-run.XXXXXX)
git -C /repo worktree add --detach "$W" HEAD >/dev/null 2>&1
B=build-seed-$$
trap 'git -C /repo worktree remove --force "$W" >/dev/null 2>&1; rm -rf /verif/$B' EXIT
git -C "$W" apply "$PATCH"
set +e
VERIF_REPO="$W" VERIF_BUILD=$B ./check "$ID" --tier "$TIER" "$@" > /tmp/seeded-run.$$.out 2>&1
RC=$?
grep -c '^VIOLATION' /tmp/seeded-run.$$.out | sed "s/^/violations reported: /"
grep -A2 '^VIOLATION' /tmp/seeded-run.$$.out | grep 'key:' | cut -c1-260 | head -8
tail -1 /tmp/seeded-run.$$.out | cut -c1-300
echo "exit code: $RC"
rm -f /tmp/seeded-run.$$.out
exit $RC
