#!/usr/bin/env python3
"""Regenerates /verif/MANIFEST.json from the table below and the harnesses that exist under harness/."""
import json, os, subprocess
ROOT = os.path.dirname(os.path.dirname(os.path.abspath(__file__)))

P = {
 "C01": dict(engine="E1+E2", design="3/C01", technique="explicit-state BFS to fixpoint on (sketch x seen-set model) at tiny sizes + deviation-bounded path enumeration at legal sizes + complete typed input grid",
   text="Every reachable state of the update Theta sketch under update/trim/reset over finite colliding value alphabets (lg_k 1..3 via the private constructor, all resize factors, p in {1,0.5}, two seeds) is enumerated to a fixpoint and, in each state, the retained set is compared with {seen hashes < theta} computed by an independent MurmurHash3; theta monotonicity/provenance, trim, emptiness, exactness, compact and copy forms are asserted in every state. Legal sizes (lg_k 5,6) are covered by all paths with <=1 (quick) / <=2 (thorough) deviations from a 136..520 step stream crossing several rebuilds.",
   note="Bounded to small lg_k and finite alphabets; trusts the harness's MurmurHash3 (validated against published vectors) and -fno-access-control reads of table fields (cross-checked against the public API)."),
 "C02": dict(engine="E1", design="3/C02", technique="exhaustive operand-pair enumeration + BFS over the stateful union/intersection object against a set-algebra model",
   text="All ordered pairs of an operand menu (update/compact ordered/unordered/deserialized/wrapped/compressed-wrapped forms x exact/estimation/empty/zero-retained modes) through A-not-B and Jaccard, and BFS to fixpoint/depth bound over the stateful theta_union and theta_intersection objects, each result compared with exact set algebra on the hash samples.",
   note="Finite operand menu over a small item universe and lg_k in {tiny, 5}; same trusted base as C01."),
 "C03": dict(engine="E1+E2", design="3/C03", technique="coupon-injection path enumeration and seeded BFS, four sketch variants in lock-step against a register/coupon-set model",
   text="HLL_4/6/8 and start-full-size HLL_8 run in lock-step on every explored coupon history (default paths through every mode transition and HLL_4 cur-min shift with <=d deviations; BFS over small slot/value alphabets from seeded backgrounds); registers, coupon sets, cur_min, num_at_cur_min, kxq, estimates and bounds are compared with an independent per-slot-max model and across types in every state.",
   note="lg_k 4..8; coupons injected after hashing (hashing decided separately on a typed grid)."),
 "C04": dict(engine="E1", design="3/C04", technique="BFS over the union object with an operand menu (modes x types x lg_k) against the folded-coupon model",
   text="Every sequence (to the depth bound) of operand updates by lvalue/rvalue, raw updates, mutating observers, get_result and reset on hll_union for several lg_max_k is explored; the result is compared with a control sketch / register model of everything offered, folded to min lg_k.",
   note="Operand menu of a few dozen sketches, lg_k 4..9, depth <= 3 operand updates plus observers."),
 "C05": dict(engine="E2+E1", design="3/C05", technique="pair-injection path enumeration through all flavors and window shifts + BFS over cpc_union, against a bit-matrix model",
   text="CPC sketches at lg_k 4,5 are driven by (row,col) injection along column-major and row-major default paths through every flavor boundary and window shift with <=d deviations; in every state coupon count, rebuilt bit matrix, flavor/offset functions, kxp, ICON estimate, bounds and the serialize->deserialize->serialize fixpoint are compared with the model; cpc_union is explored by BFS over an operand menu.",
   note="lg_k 4..6 only; compressor tables exercised only on the column distributions these sizes produce."),
 "C06": dict(engine="grids+family", design="3/C06", technique="complete grid enumeration of the estimator/bound functions + complete enumeration of a fixed deterministic stream family",
   text="Complete grids: binomial_bounds (every num_samples to 4096/8192 + geometric grid to 2^26 x 102-290 thetas x sd 1..3, against an exact binomial-tail oracle where the header documents exactness), ICON estimator for lg_k 4..26 and every C to 2^16/2^18 (monotone, continuity at the switch, against the definition of the estimator), HLL tables, and the order / nesting / exactness clauses through the API of Theta, Tuple, HLL (3 types in lock-step), CPC and their set-operation results after every update to 16k. The statistical clauses are evaluated exactly over the fixed family of streams {t*2^32 .. +n-1}, t < 1024 (family_enumeration) against the published RSE with a 5-sigma allowance.",
   note="Statistical clauses decided only over the stated deterministic family; calibration gates set at >= 4x the value measured on the unchanged tree where the documentation gives no exact figure."),
 "C07": dict(engine="E1xE3", design="3/C07", technique="BFS over update/merge histories with every coin outcome as a branch, against an exact multiset model",
   text="KLL (k=8; float and string with a reversing comparator), REQ (k=4, HRA/LRA, both construction coins) and classic quantiles (k=2,4; int and string): BFS over update / query / merge histories (merge operands from an enumerated menu incl. unequal k and operands that are themselves merge results, by lvalue, rvalue and in the reverse direction) with every outcome of the internal coin flips and of the down-sampling offset as a branch; in every state n, exact min/max, iterator termination / count / weights (2^level) / sum, retained bound, sorted view, rank and quantile monotonicity and coherence, CDF/PMF, rejection of invalid queries and exactness before compaction are compared with the exact multiset of accepted items. Merge-then-long scenarios follow merges (also into the operand) by a macro step of 100-300 further updates under a fixed coin schedule with the space bound checked after every update (KLL k=8, REQ k=4 and k=6, the smallest k whose nominal capacity changes with the number of compactions; and the largest legal and the default sizes: KLL k=65535/200, REQ k=254/12, classic k=32768/128).",
   note="Smallest legal k; 3-4 value domains; unsorted level 0 canonicalised as a multiset (sortedness flags and the cached-view flag are part of the state); depth bounds per scenario in the evidence."),
 "C08": dict(engine="E3", design="3/C08", technique="complete coin-tree enumeration with Markov state merging; exact integer unbiasedness identity",
   text="(1) BFS over distribution-states: every update sequence over a 3-value domain up to a length bound with the complete coin tree and Markov merging; (2) complete coin trees for distinct-valued stream shapes and merge trees (A.merge(B), rvalue, reverse direction, three-way, unequal k) with the exact identity E[n*rank(v)] == true count for every grid value and both criteria, and outcome-independence of the number of flips; (3) complete coin trees over long small-domain streams with live (cloned, validated) states - REQ to n=460/900 so that several levels grow; (4) one-step martingale checks along long distinct-valued streams under fixed coin schedules for KLL and classic (not REQ, whose odd compactions reuse the complement of the previous coin); (5) the published error follows the smallest contributing k through merge chains; (5b) complete trees over classic down-sampling merges with k ratios 4 and 8 whose larger-k side is in estimation mode (the stride offset is a raw draw); (6) long streams over a fixed enumerated family of bit sources against the published error (family_enumeration).",
   note="Exhaustive parts at the smallest legal k; raw-draw interval discovery assumes that a difference between two values of one draw shows under one of the enumerated continuations; clones are validated against the canonical state on every use."),
 "C09": dict(engine="E1-corpus", design="3/C09", technique="one-step differential (serialize/deserialize/continue) from every state of enumerated per-family corpora",
   text="For every state of the enumerated corpora of all 34 (type, image kind) families (every n to a bound x patterns x configurations x coin schedules, post-merge states incl. merges across different k in both directions, union results, intersection / A-not-B results that are non-empty yet retain nothing, sampling probabilities down to 0.01, HLL_4 aux exceptions, every theta bit-packing width 1..63 x count 1..17): byte-vector image == stream image, advertised size, header reservation (h in {1,7,8,13}), exact-size buffer under ASan, exact stream consumption with a sentinel tail, observational equality of the restored objects (bytes, stream, wrap), re-serialization identity (content identity for hash-table layouts), release of everything on destruction, and identical observations under a chain of continuation operations with identical draw schedules.",
   note="Corpus = explicit enumerations in harness/fam_*.hpp, not every reachable state; observation vectors are the public API plus a few private fields that are serialized."),
 "C10": dict(engine="E1-corpus", design="3/C10", technique="documentation-derived decoders and golden images checked over enumerated corpora; hash functions against independent implementations",
   text="(1) MurmurHash3_x64_128, XXHash64 (one-shot and incremental) and compute_seed_hash against independent implementations for every length 0..80 x 8 seeds x 4 patterns; (2) golden corpus of ~8000 images written by the baseline commit: each still deserializes (bytes and stream) to the recorded observation, and the same states written by the current tree reproduce the golden bytes (listed exceptions for fix: commits); (3) the 15 shipped reference images incl. Java theta v1/v2, KLL v1, classic quantiles 0.3.0-0.8.3, t-digest reference files; theta v1/v2 images synthesised from the documentation for every theta corpus state; (4) decoders written only from the documented layouts for all 34 families recover from every corpus image what the API reports.",
   note="Golden corpus limited to images <= 2 KiB of the quick corpus; CPC payload checked through its preamble and the golden bytes only (table-compressed)."),
 "C11": dict(engine="E4", design="3/C11", technique="exhaustive fault enumeration: every prefix length and every preamble byte x replacement set, on exact-size buffers under ASan, bytes and stream paths",
   text="For every selected corpus image (one per distinct (size, first 8 bytes) shape, <= 4 KiB, all 34 families) and every reader path (bytes on an exactly sized heap block, stream ending there, wrap): every strict prefix length and every preamble byte x 13 replacement values is executed under AddressSanitizer with an arena-tracking allocator (request cap), an instrumented item type and a per-case alarm; accepted corrupt images are driven through a usability script (all getters, other serialization formats, conversions, every continuation operation). ~0.7 M cases quick, ~4 M thorough.",
   note="Oracle follows the clauses of the statement (see DESIGN 0.2); ASan in recover mode reports a given PC once per process, so repeated faults at one site count once; requests within the documented maximum of a format are refused by the harness allocator and classified as rejection."),
 "C12": dict(engine="E1", design="3/C12", technique="BFS over weighted updates/merges/round-trips with a slot-controlling hasher, against an exact counter map",
   text="Frequent-items sketch at the smallest map sizes with a harness hasher that places items in chosen slots (distinct, wrapping cluster, all-colliding): every history to the depth bound, with bounds, estimates, max error, total weight, and both error-type result sets compared with exact counts for every item in every state.",
   note="lg_max_map_size 3..4, 8 items, weights {1,2,5}."),
 "C13": dict(engine="E1", design="3/C13", technique="C01/C02 explorers instantiated for tuple sketches with a non-commutative summary fold model",
   text="Tuple update sketch, union (tiny sizes through the private constructor and lg_k 5 through each family's builder, p in {1, 0.5}), intersection, A-not-B, filter and array-of-doubles explored like C01/C02 with summary policy s<-31s+v so that dropped, repeated or reordered folds are visible; keys compared with a lock-step theta sketch. Every update() overload is swept over a typed boundary grid and all 2^16 / 2^8 values of the 16- and 8-bit integer types against the theta sketch and the independent hash.",
   note="Same bounds as C01/C02."),
 "C14": dict(engine="E1", design="3/C14", technique="BFS over updates/merges against an exact counter map and an independently hashed cell model",
   text="Count-min sketches for several (num_hashes, num_buckets, seed): every history to the depth bound; the cell array is predicted with the oracle MurmurHash3; estimates/bounds/total weight/merge linearity/refused merges (self, other seed, a different seed with the same 16-bit seed hash, other shapes incl. equal cell count) checked in every state.",
   note="Confidence clause only over a fixed enumerated family."),
 "C15": dict(engine="E1", design="3/C15", technique="BFS over views of one logical filter (owned, writable wrap, read-only wrap, deserialized) against a bit-vector model",
   text="Bloom filter operations on owned and caller-memory filters with injected hash pairs and typed inputs; in every state every view's bits, popcount and queries are compared with the model; set operations are bitwise; refusals leave state unchanged.",
   note="num_bits in {1,63,64,65,128}, num_hashes in {1,3}, 4-item universe."),
 "C16": dict(engine="E3", design="3/C16", technique="probabilistic choice-tree exploration with interval discovery over raw draws; exact expectation identities",
   text="VarOpt sketches for k 1..4 over all weight sequences to a bound: every outcome of every random draw is enumerated with its probability (decision intervals discovered on the raw 64-bit draw); per-branch invariants (sample count, heavy items exact, total weight conserved, bounds) and exact unbiasedness of every item's adjusted weight; unions of operand distributions in every feeding order at max_k 2..3 (gadget overflows) and at max_k 16 (pseudo-exact: equal and different tau, exact operands in between).",
   note="Integer weights; minimum decision-interval width assumption recorded in the evidence."),
 "C17": dict(engine="E1+E2", design="3/C17", technique="BFS over short value/merge/query sequences and deviation-bounded long streams against an exact multiset",
   text="t-digest (k=10,11,20; double/float): E1 BFS by history replay over updates (incl. a huge value and NaN), rank/quantile queries, serialize, compress, merge(self), merge with a menu of 7 operands in both directions (depth 6/8 values, 4/5 merges) and from four hand-built reference-format images with heavy extreme centroids; E2 all paths with <=1 (every position) / <=2 (block granularity) deviations from six 650..900-step streams crossing several compressions with alternating merge direction. Oracle in every state against the exact multiset: total weight, emptiness, centroid weights, centroid and buffer bounds, exact extremes, sorted means, rank in [0,1] non-decreasing with 0 below min and 1 above max, quantile non-decreasing within [min,max] with quantile(0)==min and quantile(1)==max, CDF/PMF consistent, invalid queries rejected; rank error against q(1-q)/k + 1/n scaled (tighter in the tails) for n >= 200.",
   note="k <= 20 (plus k = 32767, 32768, 65535 on two skewed streams), n <= 900; every query clause is also evaluated as the first query on a fresh copy; accuracy multiples (45 middle, 6 tails) set above the worst ratios measured on the unchanged tree (20.9, 2.0) because the documentation gives no figure; with an infinity accepted only weight, extremes and memory safety are demanded; one known finding (rank decreasing after an update below a heavy first centroid of a reference-format image)."),
 "C18": dict(engine="E3", design="3/C18", technique="probabilistic choice-tree exploration with interval discovery over raw draws and Markov merging; exact inclusion-probability identities",
   text="EBPPS for k 1..3 (k 4..5 in a few special merge pairs whose lighter operand holds the partial item and the heaviest weight), weights {1,2,4}: DFS over every weight sequence to a length bound with the exact distribution over canonical states (every next_double / random_idx draw of ebpps_sample owned by the harness, incl. the draws of get_result and of iteration); every ordered pair of an operand menu merged by const& and by && (swap and no-swap, unequal k, empty operands, restored operands; joint distribution = product of operand distributions), chains (A<-B)<-C, further updates after merges, round trips by bytes and stream as distributions. On every branch: n, cumulative weight and k exact, c == min(k, W/wmax), merge adds n and W and takes the smaller k, every result has floor(c) or ceil(c) items all from the input and none twice, equal weights and n <= k keep everything; exactly over all branches (1e-9): P(i in result) == c*w_i/W for every item, E|result| == c, P(non-input) == 0.",
   note="Lengths <= 4 (quick) / <= k+4, 6 at k=3 (thorough); merge pairs n_A+n_B <= 3 / 5; grid 4096 for update and merge draws (thresholds are rationals with denominators <= 1344), 256 for the query draw; probes start from a clone of the replayed pre-state, every state entering a distribution is re-created by a from-scratch replay with identical canon."),
 "C19": dict(engine="E5", design="3/C19", technique="BFS over lifecycle operations on 2-3 slots per family with a tracking allocator and instrumented items under ASan",
   text="For 26 sketch / operator families (incl. tuple sketches and unions with instrumented-item summaries and array-of-doubles sketches whose tables grow, and an HLL_4 sketch driven by injected coupons through creation, survival and emptying of its exception map) instantiated with the arena-tracking allocator (a separate arena per slot) and the instrumented item type: BFS to depth 6 (quick) / 8 (thorough) over construct, light update, mode-changing update, merge by reference and by move, copy- and move-construction, copy- and move-assignment, self-assignment, reset, serialize and destroy on 2 (and 3) slots; after every operation copies equal their source, other slots are unchanged, moved-from objects accept destruction and assignment, the ledgers show no arena / size mismatch and no item misuse, no ASan report; every new state is then destroyed completely and nothing may remain allocated, items constructed == destroyed.",
   note="Content alphabet of at most 2 light and 1 mode-changing operation per slot; transient scratch obtained through std::allocator is not gated."),
 "C20": dict(engine="E3", design="3/C20", technique="BFS over point sequences/merges with every coin and shuffle outcome as a branch",
   text="Density sketch k 2..4, dim 1..2, double and float, Gaussian and a harness kernel: E1 BFS over the product (sketch x exact multiset) under update by lvalue/rvalue, wrong-dimension update, merge / merge(move) / reverse merge with an operand menu (empty, k-1, k+1 with one entry per compaction outcome, other k, a much larger k holding an uncompacted level, wrong dimension), update-only to 2k+3 and deep merges needing two compactions; every coin and shuffle outcome of a compaction is a branch (interval discovery on the raw draws, cross-checked against direct enumeration for levels of 2..6 points). In every state: n exact, retained == iterated == sum of level sizes, weights 2^level in level order, retained <= k x levels, retained points are inputs with at most their multiplicity, estimates finite and >= 0, estimate == exact kernel mean (1e-12) while nothing has been compacted, is_estimation_mode iff compacted, merge adds n, const operand unchanged, wrong dimension refused with both sides unchanged, plain round trip.",
   note="4- and 7-point grids and a grid of far-apart points (Gaussian kernel exactly 0 between different points); levels of more than 6 points would be capped (did not occur); tape values with 32 zero low bits are nudged because libstdc++'s uniform_int_distribution rejects exactly dyadic raw values for ranges 6, 12, 20, ..."),
}

# harnesses that are committed but whose triage on the unchanged tree is still in progress
NOT_YET = set()

BUILT_REASON = "check under construction in this revision (design in DESIGN.md section 3); not claimed until its harness is committed and has run clean end-to-end"

def main():
    checks, na = [], []
    tracked = set(subprocess.run(["git", "-C", ROOT, "ls-files", "harness"], stdout=subprocess.PIPE, text=True).stdout.split())
    for pid in sorted(P):
        m = P[pid]
        if "harness/%s.cpp" % pid in tracked and pid not in NOT_YET:   # only harnesses that are committed are claimed
            checks.append({
                "property_id": pid,
                "quick_cmd": "./check %s --tier quick" % pid,
                "thorough_cmd": "./check %s --tier thorough" % pid,
                "evidence_file": "/verif/evidence/%s.json" % pid,
                "replay_cmd_template": "./check %s --replay {path}" % pid,
                "engine": m["engine"],
                "level_claimed": {"category": "fault_enumeration" if pid == "C11" else "model_checking", "text": m["text"], "design_ref": m["design"]},
                "level_note": m["note"],
                "technique": m["technique"],
            })
        else:
            na.append({"property_id": pid, "reason": BUILT_REASON})
    hook_commits = subprocess.run(["git", "-C", "/repo", "log", "--format=%H", "--grep=^verif hook"], stdout=subprocess.PIPE, text=True).stdout.split()
    man = {
        "version": 1,
        "setup_cmd": "make -C /verif -j16 all",
        "hooks": {
            "guard": "DATASKETCHES_VERIF",
            "enable": "harnesses are compiled with -DDATASKETCHES_VERIF against the headers in /repo's working tree (header-only library; see /verif/Makefile)",
            "baseline_off_cmd": "cmake --build /repo/_build && ctest --test-dir /repo/_build -j8 --timeout 900",
            "source_commits": hook_commits,
            "add_only": True,
        },
        "engines": [
            {"name": "E1/E5 bfs", "path": "mc/bfs.hpp", "serves_properties": ["C01", "C02", "C03", "C04", "C05", "C07", "C09", "C12", "C13", "C14", "C15", "C17", "C19", "C20"], "kind_free_text": "explicit-state BFS by history replay on the real code with a lock-step reference model; canon-on-replay; crash journaling"},
            {"name": "E2 paths", "path": "mc/paths.hpp", "serves_properties": ["C01", "C03", "C05", "C17"], "kind_free_text": "all paths with <= d deviations from a long default path"},
            {"name": "E3 choice", "path": "mc/choice.hpp", "serves_properties": ["C07", "C08", "C16", "C18", "C20"], "kind_free_text": "complete enumeration of the library's internal random draws (bits 2-way, raw 64-bit draws by decision-interval discovery) with exact probabilities"},
            {"name": "E4 fault", "path": "mc/fault.hpp", "serves_properties": ["C11"], "kind_free_text": "every prefix / preamble corruption on exact-size buffers under ASan"},
            {"name": "driver", "path": "check", "serves_properties": sorted(P), "kind_free_text": "build, run, known-findings, evidence"},
        ],
        "checks": checks,
        "not_applicable": na,
        "notes": "All checks explore the implementation itself (header-only library compiled into the harness); 'model' means the lock-step reference model inside the explorer. See DESIGN.md.",
    }
    with open(os.path.join(ROOT, "MANIFEST.json"), "w") as f:
        json.dump(man, f, indent=1)
    print("claimed:", [c["property_id"] for c in checks])

if __name__ == "__main__":
    main()
