#!/usr/bin/env python3
"""Regenerates /verif/MANIFEST.json from the table below and the harnesses that exist under harness/."""
import json, os, subprocess
ROOT = os.path.dirname(os.path.dirname(os.path.abspath(__file__)))

P = {
 "C01": dict(engine="E1+E2", design="3/C01", technique="explicit-state BFS to fixpoint on (sketch x seen-set model) at tiny sizes + deviation-bounded path enumeration at legal sizes + complete typed input grid",
   text="Every reachable state of the update Theta sketch under update/trim/reset over finite colliding value alphabets (lg_k 1..3 via the private constructor, all resize factors, p in {1,0.5}, two seeds) is enumerated to a fixpoint and, in each state, the retained set is compared with {seen hashes < theta} computed by an independent MurmurHash3; theta monotonicity/provenance, trim, emptiness, exactness, compact and copy forms are asserted in every state. Legal sizes (lg_k 5,6) are covered by all paths with <=1 (quick) / <=2 (thorough) deviations from a 136..520 step stream crossing several rebuilds.",
   note="Bounded to small lg_k and finite alphabets; trusts the harness's MurmurHash3 (validated against published vectors) and -fno-access-control reads of table fields (cross-checked against the public API)."),
 "C02": dict(engine="E1", design="3/C02", technique="exhaustive operand-pair enumeration + BFS over the stateful union/intersection object against a set-algebra model",
   text="All ordered pairs of an operand menu (update/compact ordered/unordered/deserialized/wrapped/compressed-wrapped forms x exact/estimation/empty/zero-retained modes) through A-not-B and Jaccard, and BFS to fixpoint/depth bound over the stateful theta_union and theta_intersection objects, each result compared with exact set algebra on the hash samples.",
   note="Finite operand menu over a small item universe and lg_k in {tiny, 5}; same trusted base as C01."),
 "C03": dict(engine="E1+E2", design="3/C03", technique="coupon-injection path enumeration and seeded BFS, four sketch variants in lock-step against a register/coupon-set model",
   text="HLL_4/6/8 and start-full-size HLL_8 run in lock-step on every explored coupon history (default paths through every mode transition and HLL_4 cur-min shift with <=d deviations; BFS over small slot/value alphabets from seeded backgrounds); registers, coupon sets, cur_min, num_at_cur_min, kxq, estimates and bounds are compared with an independent per-slot-max model and across types in every state.",
   note="lg_k 4..8; coupons injected after hashing (hashing decided separately on a typed grid)."),
 "C04": dict(engine="E1", design="3/C04", technique="BFS over the union object with an operand menu (modes x types x lg_k) against the folded-coupon model",
   text="Every sequence (to the depth bound) of operand updates by lvalue/rvalue, raw updates, mutating observers, get_result and reset on hll_union for several lg_max_k is explored; the result is compared with a control sketch / register model of everything offered, folded to min lg_k.",
   note="Operand menu of a few dozen sketches, lg_k 4..9, depth <= 3 operand updates plus observers."),
 "C05": dict(engine="E2+E1", design="3/C05", technique="pair-injection path enumeration through all flavors and window shifts + BFS over cpc_union, against a bit-matrix model",
   text="CPC sketches at lg_k 4,5 are driven by (row,col) injection along column-major and row-major default paths through every flavor boundary and window shift with <=d deviations; in every state coupon count, rebuilt bit matrix, flavor/offset functions, kxp, ICON estimate, bounds and the serialize->deserialize->serialize fixpoint are compared with the model; cpc_union is explored by BFS over an operand menu.",
   note="lg_k 4..6 only; compressor tables exercised only on the column distributions these sizes produce."),
 "C06": dict(engine="grids+family", design="3/C06", technique="complete grid enumeration of the estimator/bound functions + complete enumeration of a fixed deterministic stream family",
   text="Order/nesting/exactness clauses are decided over complete grids of binomial_bounds, ICON, HLL tables and over every state visited by small sketches; the statistical clauses are evaluated exactly over a fixed enumerated family of streams (labelled family_enumeration), not claimed beyond it.",
   note="Statistical clauses are only decided over the stated family; thresholds derived from the published RSE with a 5-sigma allowance."),
 "C07": dict(engine="E1xE3", design="3/C07", technique="BFS over update/merge histories with every coin outcome as a branch, against an exact multiset model",
   text="KLL (k=8), REQ (k=4, HRA/LRA) and classic quantiles (k=2) with float/string/custom-comparator items: every update/merge sequence over a small value domain up to a depth bound, on every outcome of the internal coin flips, checked in every state for n, exact min/max, iterator weights, retained bound, sorted view, rank/quantile monotonicity and coherence, CDF/PMF, rejection of invalid queries, and exactness before compaction.",
   note="Smallest legal k; value domain of 4 values; merge operands from a fixed menu."),
 "C08": dict(engine="E3", design="3/C08", technique="complete coin-tree enumeration with Markov state merging; exact integer unbiasedness identity",
   text="For every explored history the full tree of coin outcomes is enumerated and the expectation of every rank estimate is compared exactly with the true rank; flips per history are asserted outcome-independent; exact error distributions are compared with the published rank error; long streams over a fixed enumerated family of bit sources.",
   note="Short streams exhaustively; long-stream clause only over a fixed family of deterministic bit sources."),
 "C09": dict(engine="E1-corpus", design="3/C09", technique="one-step differential (serialize/deserialize/continue) from every state of enumerated per-family corpora",
   text="For every corpus state of every serializable family: bytes==stream image, advertised size, header reservation, exact stream consumption, observational equality of restored sketches, re-serialization identity, and agreement after one further step of every alphabet operation.",
   note="Corpora are depth-bounded enumerations at small sizes."),
 "C10": dict(engine="E1-corpus", design="3/C10", technique="documentation-derived decoders and golden images checked over enumerated corpora; hash functions against independent implementations",
   text="Images of every corpus state are decoded by independent readers written from the documented layouts; golden images written by the baseline commit must still deserialize to the recorded observations and be reproduced byte-for-byte; shipped legacy .sk files are read; MurmurHash3/XXH64 are compared with independent implementations for all lengths 0..80.",
   note="Golden corpus generated once from the baseline commit."),
 "C11": dict(engine="E4", design="3/C11", technique="exhaustive fault enumeration: every prefix length and every preamble byte x replacement set, on exact-size buffers under ASan, bytes and stream paths",
   text="For every image in the corpus and every reader path, every strict prefix and every preamble-byte corruption from a fixed replacement set is executed on an exactly sized heap block under AddressSanitizer with a tracking allocator, allocation cap and per-case alarm.",
   note="Replacement set of 13 values per preamble byte; images <= 4 KiB."),
 "C12": dict(engine="E1", design="3/C12", technique="BFS over weighted updates/merges/round-trips with a slot-controlling hasher, against an exact counter map",
   text="Frequent-items sketch at the smallest map sizes with a harness hasher that places items in chosen slots (distinct, wrapping cluster, all-colliding): every history to the depth bound, with bounds, estimates, max error, total weight, and both error-type result sets compared with exact counts for every item in every state.",
   note="lg_max_map_size 3..4, 8 items, weights {1,2,5}."),
 "C13": dict(engine="E1", design="3/C13", technique="C01/C02 explorers instantiated for tuple sketches with a non-commutative summary fold model",
   text="Tuple update sketch, union, intersection, A-not-B, filter and array-of-doubles explored like C01/C02 with summary policy s<-31s+v so that dropped, repeated or reordered folds are visible; keys compared with a lock-step theta sketch.",
   note="Same bounds as C01/C02."),
 "C14": dict(engine="E1", design="3/C14", technique="BFS over updates/merges against an exact counter map and an independently hashed cell model",
   text="Count-min sketches for several (num_hashes, num_buckets, seed): every history to the depth bound; the cell array is predicted with the oracle MurmurHash3; estimates/bounds/total weight/merge linearity/refused merges checked in every state.",
   note="Confidence clause only over a fixed enumerated family."),
 "C15": dict(engine="E1", design="3/C15", technique="BFS over views of one logical filter (owned, writable wrap, read-only wrap, deserialized) against a bit-vector model",
   text="Bloom filter operations on owned and caller-memory filters with injected hash pairs and typed inputs; in every state every view's bits, popcount and queries are compared with the model; set operations are bitwise; refusals leave state unchanged.",
   note="num_bits in {1,63,64,65,128}, num_hashes in {1,3}, 4-item universe."),
 "C16": dict(engine="E3", design="3/C16", technique="probabilistic choice-tree exploration with interval discovery over raw draws; exact expectation identities",
   text="VarOpt sketches for k 1..4 over all weight sequences to a bound: every outcome of every random draw is enumerated with its probability (decision intervals discovered on the raw 64-bit draw); per-branch invariants (sample count, heavy items exact, total weight conserved, bounds) and exact unbiasedness of every item's adjusted weight; unions of reached sketches.",
   note="Integer weights; minimum decision-interval width assumption recorded in the evidence."),
 "C17": dict(engine="E1+E2", design="3/C17", technique="BFS over short value/merge/query sequences and deviation-bounded long streams against an exact multiset",
   text="t-digest (k=10,20; double/float): total weight, exact extremes, monotone rank/quantile, CDF/PMF, centroid bound in every state; accuracy clause over the enumerated long streams.",
   note="Accuracy thresholds set with margin over the enumerated family."),
 "C18": dict(engine="E3", design="3/C18", technique="probabilistic choice-tree exploration; exact inclusion probabilities",
   text="EBPPS for k 1..3 over all weight sequences to a bound and merges in both directions: n, cumulative weight, c, sample sizes on every branch; inclusion probability of every item equals c*w/W exactly in expectation.",
   note="Integer weights {1,2,4}."),
 "C19": dict(engine="E5", design="3/C19", technique="BFS over lifecycle operations on 2-3 slots per family with a tracking allocator and instrumented items under ASan",
   text="For each sketch/operator family: every interleaving (to the depth bound) of construct/update/merge/copy/move/assign/self-assign/reset/destroy over slots; copies equal and independent, moved-from objects destructible and assignable, allocator ledger balanced and arena-consistent, items constructed/destroyed exactly once, no ASan report.",
   note="Transient scratch via std::allocator is listed, not gated."),
 "C20": dict(engine="E3", design="3/C20", technique="BFS over point sequences/merges with every coin and shuffle outcome as a branch",
   text="Density sketch k 2..4, dim 1..2, Gaussian and harness kernels: n, retained==iterated==sum of levels, weights 2^level, retained bound, exact estimate before first compaction, finiteness/non-negativity, merge adds n, wrong dimension refused.",
   note="4-point grid; shuffle outcomes discovered as equal intervals of the raw draw."),
}

# harnesses that are committed but whose triage on the unchanged tree is still in progress
NOT_YET = set()

BUILT_REASON = "check under construction in this revision (design in DESIGN.md section 3); not claimed until its harness is committed and has run clean end-to-end"

def main():
    checks, na = [], []
    tracked = set(subprocess.run(["git", "-C", ROOT, "ls-files", "harness"], stdout=subprocess.PIPE, text=True).stdout.split())
    for pid in sorted(P):
        m = P[pid]
        if "harness/%s.cpp" % pid in tracked and pid not in NOT_YET:   # only harnesses that are committed are claimed
            checks.append({
                "property_id": pid,
                "quick_cmd": "./check %s --tier quick" % pid,
                "thorough_cmd": "./check %s --tier thorough" % pid,
                "evidence_file": "/verif/evidence/%s.json" % pid,
                "replay_cmd_template": "./check %s --replay {path}" % pid,
                "engine": m["engine"],
                "level_claimed": {"category": "fault_enumeration" if pid == "C11" else "model_checking", "text": m["text"], "design_ref": m["design"]},
                "level_note": m["note"],
                "technique": m["technique"],
            })
        else:
            na.append({"property_id": pid, "reason": BUILT_REASON})
    hook_commits = subprocess.run(["git", "-C", "/repo", "log", "--format=%H", "--grep=^verif hook"], stdout=subprocess.PIPE, text=True).stdout.split()
    man = {
        "version": 1,
        "setup_cmd": "make -C /verif -j16 all",
        "hooks": {
            "guard": "DATASKETCHES_VERIF",
            "enable": "harnesses are compiled with -DDATASKETCHES_VERIF against the headers in /repo's working tree (header-only library; see /verif/Makefile)",
            "baseline_off_cmd": "cmake --build /repo/_build && ctest --test-dir /repo/_build -j8 --timeout 900",
            "source_commits": hook_commits,
            "add_only": True,
        },
        "engines": [
            {"name": "E1/E5 bfs", "path": "mc/bfs.hpp", "serves_properties": ["C01", "C02", "C03", "C04", "C05", "C07", "C09", "C12", "C13", "C14", "C15", "C17", "C19", "C20"], "kind_free_text": "explicit-state BFS by history replay on the real code with a lock-step reference model; canon-on-replay; crash journaling"},
            {"name": "E2 paths", "path": "mc/paths.hpp", "serves_properties": ["C01", "C03", "C05", "C17"], "kind_free_text": "all paths with <= d deviations from a long default path"},
            {"name": "E3 choice", "path": "mc/choice.hpp", "serves_properties": ["C07", "C08", "C16", "C18", "C20"], "kind_free_text": "complete enumeration of the library's internal random draws (bits 2-way, raw 64-bit draws by decision-interval discovery) with exact probabilities"},
            {"name": "E4 fault", "path": "mc/fault.hpp", "serves_properties": ["C11"], "kind_free_text": "every prefix / preamble corruption on exact-size buffers under ASan"},
            {"name": "driver", "path": "check", "serves_properties": sorted(P), "kind_free_text": "build, run, known-findings, evidence"},
        ],
        "checks": checks,
        "not_applicable": na,
        "notes": "All checks explore the implementation itself (header-only library compiled into the harness); 'model' means the lock-step reference model inside the explorer. See DESIGN.md.",
    }
    with open(os.path.join(ROOT, "MANIFEST.json"), "w") as f:
        json.dump(man, f, indent=1)
    print("claimed:", [c["property_id"] for c in checks])

if __name__ == "__main__":
    main()
