#!/usr/bin/env python3
"""Rewrites the as-built table of DESIGN.md (between the ASBUILT markers) from MANIFEST.json and evidence/*.json."""
import json, os
root = os.path.dirname(os.path.dirname(os.path.abspath(__file__)))
m = json.load(open(os.path.join(root, 'MANIFEST.json')))
rows = []
for c in m['checks']:
    pid = c['property_id']
    num = ''
    for d, label in (('evidence', None), ('evidence-thorough', 'thorough')):
        f = os.path.join(root, d, pid + '.json')
        if os.path.exists(f):
            e = json.load(open(f)); cov = e['coverage']
            num += '%s: %s states, %s transitions, %s oracle outcomes, %s, %.0f s. ' % (label or e['tier'], format(cov['states'], ','), format(cov['transitions'], ','), cov['distinct_nontrivial'], 'all bounds completed' if cov['exhaustive'] else 'CAPPED (see evidence)', e['wall_s'])
    rows.append('| %s | %s | %s | %s | %s |' % (pid, c['engine'], c['level_claimed']['text'].replace('|', '/'), c['level_note'].replace('|', '/'), num))
table = '| property | engines | explored, and the oracle | bounds / trusted base | last runs |\n|---|---|---|---|---|\n' + '\n'.join(rows) + '\n'
p = os.path.join(root, 'DESIGN.md'); s = open(p).read()
a, b = '<!-- ASBUILT-BEGIN -->', '<!-- ASBUILT-END -->'
assert a in s and b in s
s = s[:s.index(a) + len(a)] + '\n' + table + s[s.index(b):]
open(p, 'w').write(s)
print(len(rows), 'rows')
