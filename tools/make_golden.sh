#!/bin/sh
# Writes /verif/golden/*.txt from the BASELINE tree (the pinned snapshot plus the RNG hook commit), in a scratch worktree that is
# removed afterwards. Run once; re-run only if the observation functions of the corpus adapters change.
set -e
cd /verif
BASE=$(git -C /repo log --format=%H --grep='^verif hook' | tail -1)
W=$(mktemp -d /tmp/golden-base.XXXXXX)
git -C /repo worktree add --detach "$W" "$BASE" >/dev/null
trap 'git -C /repo worktree remove --force "$W"; rm -rf /verif/build-golden' EXIT
make -s -B REPO="$W" BUILD=build-golden build-golden/C10
mkdir -p golden
ASAN_OPTIONS=halt_on_error=0:detect_leaks=0 ./build-golden/C10 --emit-golden 2>golden/GENERATION.log || true
echo "baseline commit: $BASE" > golden/BASELINE.txt
grep -c . golden/*.txt | tail -40
