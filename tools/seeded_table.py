#!/usr/bin/env python3
"""Rewrites the detection table of DESIGN.md (between the SEEDED-TABLE markers) from seeded/*/meta.json."""
import json, glob, os, re
root = os.path.dirname(os.path.dirname(os.path.abspath(__file__)))
rows = []
for d in sorted(glob.glob(os.path.join(root, 'seeded', '*', ''))):
    m = json.load(open(d + 'meta.json')); sid = d.rstrip('/').split('/')[-1]
    cb = m.get('caught_by', '').replace('|', '/').replace('\n', ' ')
    first = 'no - strengthened' if cb.upper().startswith('MISSED') else 'yes'
    needs = m.get('needs_to_manifest', '').replace('|', '/').replace('\n', ' ')
    conf = 'yes' if os.path.exists(d + 'confirmed.txt') and 'demo WITH the change: exit 1' in open(d + 'confirmed.txt').read() else 'pending'
    rows.append('| %s | %s | %s | %s | %s |' % (sid, needs, first, cb, conf))
missed = sum(1 for r in rows if '| no - strengthened |' in r)
table = ('%d changes, %d caught by the check as it stood, %d missed at first and caught after the driver was widened.\n\n'
         '| change | needs, in order to manifest | caught on first run | reported by | confirmed |\n|---|---|---|---|---|\n' % (len(rows), len(rows) - missed, missed)) + '\n'.join(rows) + '\n'
p = os.path.join(root, 'DESIGN.md'); s = open(p).read()
a, b = '<!-- SEEDED-TABLE-BEGIN -->', '<!-- SEEDED-TABLE-END -->'
assert a in s and b in s
s = s[:s.index(a) + len(a)] + '\n' + table + s[s.index(b):]
open(p, 'w').write(s)
print(len(rows), 'rows,', missed, 'missed at first')
