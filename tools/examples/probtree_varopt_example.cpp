#define MC_MAIN
#include "core.hpp"
#include "choice.hpp"
#include "bfs.hpp"
#include "prob.hpp"
#include <var_opt_sketch.hpp>
using namespace mc; using namespace datasketches;
struct VO {
  struct State { var_opt_sketch<int> sk; int n; State(int k): sk(k), n(0) {} };
  int k; std::vector<double> w;
  std::string name() const { return "vo"; }
  State* make() { return new State(k); }
  size_t nops() const { return w.size(); }
  std::string opname(size_t i) const { return "u" + std::to_string(i); }
  bool apply(State& s, size_t op, Ctx*) { s.sk.update(s.n, w[op]); s.n++; return true; }
  std::string canon(State& s) {
    std::string c;
    std::vector<std::pair<int,double>> v;
    for (auto it = s.sk.begin(); it != s.sk.end(); ++it) v.push_back(std::make_pair((*it).first, (*it).second));
    // order matters internally; use raw arrays
    c += str(s.sk.h_) + "," + str(s.sk.r_) + "," + str(s.sk.m_) + "," + str(s.sk.total_wt_r_) + "," + str(s.sk.n_) + "|";
    for (uint32_t i = 0; i < s.sk.h_; ++i) c += str(s.sk.data_[i]) + ":" + str(s.sk.weights_[i]) + ",";
    c += "|";
    for (uint32_t i = s.sk.h_ + 1; i < s.sk.h_ + 1 + s.sk.r_ && s.sk.r_ > 0; ++i) c += str(s.sk.data_[i]) + ",";
    return c;
  }
  void check(State&, Ctx&) {}
};
int main(int argc, char** argv) {
  forbid_unowned_draws();
  Report rep; rep.property = "T";
  VO sys; sys.k = atoi(argv[1]); 
  for (int i = 2; i < argc; ++i) sys.w.push_back(atof(argv[i]));
  double t0 = now_s();
  ProbTree<VO> pt(sys, rep, 512);
  std::vector<Leaf> d = pt.root();
  for (size_t i = 0; i < sys.w.size(); ++i) d = pt.step(d, i);
  double mass = 0; std::vector<double> ew(sys.w.size(), 0);
  for (auto& l : d) { mass += l.prob; auto s = pt.replay(l.hist, nullptr); for (auto it = s->sk.begin(); it != s->sk.end(); ++it) ew[(*it).first] += l.prob * (*it).second; }
  printf("leaves=%zu mass=%.12f runs=%llu replays=%llu maxiv=%llu draws_dep=%d cov=%d %.2fs\n", d.size(), mass, (unsigned long long)pt.st.runs, (unsigned long long)pt.replays, (unsigned long long)pt.st.max_intervals, (int)pt.draws_outcome_dependent, (int)g_cov_present, now_s() - t0);
  for (size_t i = 0; i < ew.size(); ++i) printf("  item %zu w=%g E=%.9f\n", i, sys.w[i], ew[i]);
}
