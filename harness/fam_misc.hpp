// corpus adapters: frequent items, count-min, VarOpt sketch and union, EBPPS, t-digest, Bloom (owned and wrapped), density
#ifndef FAM_MISC_HPP
#define FAM_MISC_HPP
#include "families.hpp"
#include "fam_quant.hpp"   // Gen<T>, SerdeOf
#include <frequent_items_sketch.hpp>
#include <count_min.hpp>
#include <var_opt_sketch.hpp>
#include <var_opt_union.hpp>
#include <ebpps_sketch.hpp>
#include <tdigest.hpp>
#include <bloom_filter.hpp>
#include <density_sketch.hpp>

namespace fam {
using namespace datasketches;

// ---------------- frequent items ----------------
template<class T> struct HashOf { typedef std::hash<T> type; }; template<> struct HashOf<mc::Item> { typedef mc::ItemHash type; };
template<class T> struct EqOf { typedef std::equal_to<T> type; }; template<> struct EqOf<mc::Item> { typedef mc::ItemEqual type; };
template<class T> struct FiObj : Obj {
  typedef frequent_items_sketch<T, uint64_t, typename HashOf<T>::type, typename EqOf<T>::type, mc::TrackAlloc<T> > Sk; typedef typename SerdeOf<T>::type SD;
  Sk sk;
  explicit FiObj(Sk&& s): sk(std::move(s)) {}
  std::string obs() { return obs_of(sk); }
  static std::string obs_of(const Sk& sk) {
    std::string o = "empty=" + str(sk.is_empty()) + "|active=" + str(sk.get_num_active_items()) + "|W=" + str(sk.get_total_weight()) + "|maxerr=" + str(sk.get_maximum_error()) + "|eps=" + str(sk.get_epsilon());
    for (int i = 0; i < 24; ++i) { T v = Gen<T>::make(i); o += "|" + str(sk.get_lower_bound(v)) + "," + str(sk.get_estimate(v)) + "," + str(sk.get_upper_bound(v)); }
    for (int e = 0; e < 2; ++e) { auto rows = sk.get_frequent_items(e ? NO_FALSE_NEGATIVES : NO_FALSE_POSITIVES); std::vector<std::string> r;
      for (size_t i = 0; i < rows.size(); ++i) r.push_back(vstr(rows[i].get_item()) + ":" + str(rows[i].get_lower_bound()) + ":" + str(rows[i].get_upper_bound()));
      std::sort(r.begin(), r.end()); o += "|rows" + str(e) + "="; for (size_t i = 0; i < r.size(); ++i) o += r[i] + ","; }
    return o;
  }
  bool unordered_layout() { return true; }   // the counters are written in hash-table order
  Bytes ser(unsigned h) { return to_bytes(sk.serialize(h, SD())); }
  Bytes ser_stream() { std::ostringstream os; sk.serialize(os, SD()); std::string s = os.str(); return Bytes(s.begin(), s.end()); }
  long advertised_size() { return (long)sk.get_serialized_size_bytes(SD()); }
  size_t ncont() { return 3; }
  std::string cont_name(size_t i) { return i == 0 ? "update(new,3)" : i == 1 ? "update x12 distinct" : "merge(operand)"; }
  void cont(size_t i) {
    if (i == 0) sk.update(Gen<T>::make(500), 3);
    else if (i == 1) for (int j = 0; j < 12; ++j) sk.update(Gen<T>::make(600 + j), 1 + j % 3);
    else { Sk o(4, 3, typename EqOf<T>::type(), mc::TrackAlloc<T>(1)); for (int j = 0; j < 9; ++j) o.update(Gen<T>::make(j * 2), 2); sk.merge(o); }
  }
};
template<class T> void register_fi(const std::string& tname) {
  typedef FiObj<T> O; typedef typename O::Sk Sk; typedef typename O::SD SD;
  Family f; f.name = "frequent_items<" + tname + ">"; f.preamble_bytes = 32;
  f.states = [](bool quick, const StateCb& cb) {
    for (int lgmax = 3; lgmax <= 5; ++lgmax) for (int pat = 0; pat < 3; ++pat) {
      int nmax = quick ? 30 : 70;
      for (int n = 0; n <= nmax; ++n) {
        if (lgmax == 5 && n % 3) continue;
        O o(Sk((uint8_t)lgmax, 3, typename EqOf<T>::type(), mc::TrackAlloc<T>(1)));
        // pat 0: all distinct weight 1 (counters can all be purged); pat 1: skewed; pat 2: few items heavy
        for (int i = 0; i < n; ++i) { int v = pat == 0 ? i : pat == 1 ? (i * i) % 11 : i % 3; o.sk.update(Gen<T>::make(v), pat == 0 ? 1 : 1 + (uint64_t)(i % 4)); }
        cb("lgmax" + str(lgmax) + "/pat" + str(pat) + "/n" + str(n), o);
      }
    }
  };
  f.from_bytes = [](const void* p, size_t n) { return ObjP(new O(Sk::deserialize(p, n, SD(), typename EqOf<T>::type(), mc::TrackAlloc<T>(1)))); };
  f.from_stream = [](std::istream& is) { return ObjP(new O(Sk::deserialize(is, SD(), typename EqOf<T>::type(), mc::TrackAlloc<T>(1)))); };
  registry().push_back(f);
}

// ---------------- count-min ----------------
struct CmObj : Obj {
  typedef count_min_sketch<uint64_t, mc::TrackAlloc<uint64_t> > Sk;
  Sk sk;
  explicit CmObj(Sk&& s): sk(std::move(s)) {}
  std::string obs() { return obs_of(sk); }
  static std::string obs_of(const Sk& sk) {
    std::string o = "h=" + str((int)sk.get_num_hashes()) + "|b=" + str(sk.get_num_buckets()) + "|seed=" + str(sk.get_seed()) + "|W=" + str(sk.get_total_weight()) + "|empty=" + str(sk.is_empty()) + "|relerr=" + str(sk.get_relative_error()) + "|cells=";
    { size_t i = 0; uint64_t h = 1469598103934665603ULL; for (auto it = sk.begin(); it != sk.end(); ++it, ++i) { if (i < 256) o += str(*it) + ","; uint64_t v = (uint64_t)*it; h = mc::fnv1a(&v, 8, h); } o += "#" + mc::hex64(h); }   // large tables: first cells plus a hash of all
    for (int i = 0; i < 12; ++i) o += "|" + str(sk.get_lower_bound((uint64_t)i)) + "," + str(sk.get_estimate((uint64_t)i)) + "," + str(sk.get_upper_bound((uint64_t)i));
    o += "|s=" + str(sk.get_estimate(std::string("abc")));
    return o;
  }
  Bytes ser(unsigned h) { return to_bytes(sk.serialize(h)); }
  Bytes ser_stream() { std::ostringstream os; sk.serialize(os); std::string s = os.str(); return Bytes(s.begin(), s.end()); }
  long advertised_size() { return (long)sk.get_serialized_size_bytes(); }
  size_t ncont() { return 2; }
  std::string cont_name(size_t i) { return i == 0 ? "update x5" : "merge(operand)"; }
  void cont(size_t i) {
    if (i == 0) { for (int j = 0; j < 5; ++j) sk.update((uint64_t)(100 + j), (uint64_t)(j + 1)); sk.update(std::string("abc"), 2); }
    else { Sk o(sk.get_num_hashes(), sk.get_num_buckets(), sk.get_seed(), mc::TrackAlloc<uint64_t>(1)); for (int j = 0; j < 7; ++j) o.update((uint64_t)j, 3); sk.merge(o); }
  }
};
inline void register_cm() {
  typedef CmObj::Sk Sk;
  Family f; f.name = "count_min"; f.preamble_bytes = 16;
  f.alloc_cap = (size_t)64 << 20; f.alloc_legal_max = (size_t)8 << 30;   // the format itself allows 2^30 cells of 8 bytes: a 16-byte image can legally describe a table of gigabytes
  f.states = [](bool quick, const StateCb& cb) {
    const int hs[] = {1, 2, 5}; const int bs[] = {3, 8, 37};
    for (int hi = 0; hi < 3; ++hi) for (int bi = 0; bi < 3; ++bi) for (int n = 0; n <= (quick ? 12 : 40); ++n) {
      CmObj o(Sk((uint8_t)hs[hi], (uint32_t)bs[bi], DEFAULT_SEED, mc::TrackAlloc<uint64_t>(1)));
      for (int i = 0; i < n; ++i) { o.sk.update((uint64_t)(i % 9), (uint64_t)(1 + i % 3)); if (i % 5 == 0) o.sk.update(std::string("abc"), 1); }
      cb("h" + str(hs[hi]) + "/b" + str(bs[bi]) + "/n" + str(n), o);
    }
  };
  f.from_bytes = [](const void* p, size_t n) { return ObjP(new CmObj(Sk::deserialize(p, n, DEFAULT_SEED, mc::TrackAlloc<uint64_t>(1)))); };
  f.from_stream = [](std::istream& is) { return ObjP(new CmObj(Sk::deserialize(is, DEFAULT_SEED, mc::TrackAlloc<uint64_t>(1)))); };
  registry().push_back(f);
}

// ---------------- VarOpt sketch ----------------
template<class T, class Sk> std::string varopt_obs(const Sk& sk) {
  std::string o = "k=" + str(sk.get_k()) + "|n=" + str(sk.get_n()) + "|samples=" + str(sk.get_num_samples()) + "|empty=" + str(sk.is_empty()) + "|items=";
  std::vector<std::string> it; for (auto i = sk.begin(); i != sk.end(); ++i) it.push_back(vstr((*i).first) + ":" + str((*i).second));
  std::sort(it.begin(), it.end()); for (size_t i = 0; i < it.size(); ++i) o += it[i] + ",";
  subset_summary s = sk.estimate_subset_sum([](const T&) { return true; });
  o += "|sum=" + str(s.lower_bound) + "," + str(s.estimate) + "," + str(s.upper_bound) + "," + str(s.total_sketch_weight);
  return o;
}
template<class T> struct VoObj : Obj {
  typedef var_opt_sketch<T, mc::TrackAlloc<T> > Sk; typedef typename SerdeOf<T>::type SD;
  Sk sk; int next;
  explicit VoObj(Sk&& s): sk(std::move(s)), next(900) {}
  std::string obs() { return varopt_obs<T>(sk); }
  Bytes ser(unsigned h) { return to_bytes(sk.serialize(h, SD())); }
  Bytes ser_stream() { std::ostringstream os; sk.serialize(os, SD()); std::string s = os.str(); return Bytes(s.begin(), s.end()); }
  long advertised_size() { return (long)sk.get_serialized_size_bytes(SD()); }
  size_t ncont() { return 4; }
  std::string cont_name(size_t i) { return i == 0 ? "update(light)" : i == 1 ? "update(heavy)" : i == 2 ? "update x9" : "reset, update x (k+3)"; }
  void cont(size_t i) { if (i == 0) sk.update(Gen<T>::make(next++), 1.0); else if (i == 1) sk.update(Gen<T>::make(next++), 1000.0); else if (i == 2) for (int j = 0; j < 9; ++j) sk.update(Gen<T>::make(next++), 1.0 + j);
    else { sk.reset(); const int m = (int)std::min<uint32_t>(sk.get_k(), 600) + 3; for (int j = 0; j < m; ++j) sk.update(Gen<T>::make(next++), 1.0 + j % 5); } }   // a restored object must take a reset like any other
};
template<class T> void register_varopt(const std::string& tname) {
  typedef VoObj<T> O; typedef typename O::Sk Sk; typedef typename O::SD SD;
  Family f; f.name = "var_opt_sketch<" + tname + ">"; f.preamble_bytes = 32;
  f.alloc_cap = (size_t)64 << 20; f.alloc_legal_max = (size_t)1 << 37;   // with resize factor X1 the arrays are allocated at k+1 up front, k legal up to 2^31-2 (as the public constructor does)
  f.states = [](bool quick, const StateCb& cb) {
    const int ks[] = {1, 2, 5, 16}; const resize_factor rfs[] = {resize_factor::X1, resize_factor::X2, resize_factor::X8};
    for (int ki = 0; ki < 4; ++ki) for (int ri = 0; ri < 3; ++ri) for (int pat = 0; pat < 3; ++pat) for (uint64_t sd = 1; sd <= 2; ++sd) {
      if (ri != 2 && pat != 0) continue; if (sd == 2 && pat == 2) continue;
      int k = ks[ki]; int nmax = quick ? k + 8 : 3 * k + 12;
      for (int n = 0; n <= nmax; ++n) {
        Sched sc(0, 1000 * sd + 17);
        O o(Sk((uint32_t)k, rfs[ri], mc::TrackAlloc<T>(1)));
        for (int i = 0; i < n; ++i) { double w = pat == 0 ? 1.0 : pat == 1 ? 1.0 + i : (i == 2 ? 1e6 : 1.0 + (i % 3)); o.sk.update(Gen<T>::make(i), w); }
        cb("k" + str(k) + "/rf" + str(ri) + "/pat" + str(pat) + "/draws" + str(sd) + "/n" + str(n), o);
      }
    }
  };
  f.from_bytes = [](const void* p, size_t n) { return ObjP(new O(Sk::deserialize(p, n, SD(), mc::TrackAlloc<T>(1)))); };
  f.from_stream = [](std::istream& is) { return ObjP(new O(Sk::deserialize(is, SD(), mc::TrackAlloc<T>(1)))); };
  registry().push_back(f);
}
// ---------------- VarOpt union ----------------
struct VuObj : Obj {
  typedef var_opt_sketch<int64_t, mc::TrackAlloc<int64_t> > Sk; typedef var_opt_union<int64_t, mc::TrackAlloc<int64_t> > Un;
  Un un;
  explicit VuObj(Un&& u): un(std::move(u)) {}
  std::string obs() { Sched sc(0, 4242); Sk r = un.get_result(); return "result:" + varopt_obs<int64_t>(r) + "|outer_tau=" + str(un.get_outer_tau()); }
  Bytes ser(unsigned h) { return to_bytes(un.serialize(h)); }
  Bytes ser_stream() { std::ostringstream os; un.serialize(os); std::string s = os.str(); return Bytes(s.begin(), s.end()); }
  long advertised_size() { return (long)un.get_serialized_size_bytes(); }
  size_t ncont() { return 1; }
  std::string cont_name(size_t) { return "update(operand)"; }
  void cont(size_t) { Sk o(3, resize_factor::X8, mc::TrackAlloc<int64_t>(1)); for (int j = 0; j < 7; ++j) o.update((int64_t)(7000 + j), 1.0 + j); un.update(o); }
};
inline void register_varopt_union() {
  typedef VuObj::Sk Sk; typedef VuObj::Un Un;
  Family f; f.name = "var_opt_union"; f.preamble_bytes = 32;
  f.states = [](bool quick, const StateCb& cb) {
    const int ns[] = {0, 1, 3, 4, 9, 30};
    for (int mk = 2; mk <= 6; mk += 2) for (int a = 0; a < 6; ++a) for (int b = 0; b < 6; ++b) {
      if (quick && (a + b) % 2 && mk == 4) continue;
      Sched sc(0, 31337 + a * 7 + b);
      VuObj o(Un((uint32_t)mk, mc::TrackAlloc<int64_t>(1)));
      Sk s1(4, resize_factor::X8, mc::TrackAlloc<int64_t>(1)), s2(3, resize_factor::X8, mc::TrackAlloc<int64_t>(1));
      for (int i = 0; i < ns[a]; ++i) s1.update((int64_t)i, 1.0 + (i % 4));
      for (int i = 0; i < ns[b]; ++i) s2.update((int64_t)(100 + i), i == 1 ? 500.0 : 2.0);
      if (ns[a] || a == 0) o.un.update(s1); if (b) o.un.update(s2);
      cb("maxk" + str(mk) + "/n" + str(ns[a]) + "+" + str(ns[b]), o);
    }
    // pseudo-exact gadgets (max_k never reached) whose H region spans several mark bytes with marked (from a sampling-mode input)
    // and unmarked (from exact inputs) items in both orders
    const int big[3][2] = {{30, 12}, {25, 9}, {41, 20}};
    for (int bi = 0; bi < 3; ++bi) for (int ord = 0; ord < 2; ++ord) {
      Sched sc(0, 4242 + bi);
      VuObj o(Un(64, mc::TrackAlloc<int64_t>(1)));
      Sk s1(10, resize_factor::X8, mc::TrackAlloc<int64_t>(1)), s2(32, resize_factor::X8, mc::TrackAlloc<int64_t>(1));
      for (int i = 0; i < big[bi][0]; ++i) s1.update((int64_t)i, 1.0 + (i % 3));
      for (int i = 0; i < big[bi][1]; ++i) s2.update((int64_t)(100 + i), 2.0 + i);
      if (ord) { o.un.update(s2); o.un.update(s1); } else { o.un.update(s1); o.un.update(s2); }
      cb("maxk64/sampling" + str(big[bi][0]) + (ord ? "-after-" : "-before-") + "exact" + str(big[bi][1]), o);
    }
  };
  f.from_bytes = [](const void* p, size_t n) { return ObjP(new VuObj(Un::deserialize(p, n, serde<int64_t>(), mc::TrackAlloc<int64_t>(1)))); };
  f.from_stream = [](std::istream& is) { return ObjP(new VuObj(Un::deserialize(is, serde<int64_t>(), mc::TrackAlloc<int64_t>(1)))); };
  registry().push_back(f);
}

// ---------------- EBPPS ----------------
template<class T> struct EbObj : Obj {
  typedef ebpps_sketch<T, mc::TrackAlloc<T> > Sk; typedef typename SerdeOf<T>::type SD;
  Sk sk; int next;
  explicit EbObj(Sk&& s): sk(std::move(s)), next(900) {}
  std::string obs() { return obs_of(sk); }
  static std::string obs_of(const Sk& sk) {
    std::string o = "k=" + str(sk.get_k()) + "|n=" + str(sk.get_n()) + "|W=" + str(sk.get_cumulative_weight()) + "|c=" + str(sk.get_c()) + "|empty=" + str(sk.is_empty()) + "|items=";
    // iteration draws (the partial item is included with probability frac(c)): observe under a fixed schedule, both outcomes
    for (int b = 0; b < 2; ++b) { mc::Tape t; t.raw_fill = b ? mc::raw_from_unit(0.999) : mc::raw_from_unit(0.001); mc::TapeScope sc(t);
      o += b ? "|hi=" : "lo="; for (auto i = sk.begin(); i != sk.end(); ++i) o += vstr(*i) + ","; }
    return o;
  }
  Bytes ser(unsigned h) { return to_bytes(sk.serialize(h, SD())); }
  Bytes ser_stream() { std::ostringstream os; sk.serialize(os, SD()); std::string s = os.str(); return Bytes(s.begin(), s.end()); }
  long advertised_size() { return (long)sk.get_serialized_size_bytes(SD()); }
  size_t ncont() { return 3; }
  std::string cont_name(size_t i) { return i == 0 ? "update x4" : i == 1 ? "merge(operand)" : "reset, update x6"; }
  void cont(size_t i) { if (i == 0) for (int j = 0; j < 4; ++j) sk.update(Gen<T>::make(next++), 1.0 + j); else if (i == 2) { sk.reset(); for (int j = 0; j < 6; ++j) sk.update(Gen<T>::make(next++), 1.0 + j % 2); } else { Sk o(3, mc::TrackAlloc<T>(1)); for (int j = 0; j < 6; ++j) o.update(Gen<T>::make(300 + j), 2.0); sk.merge(o); } }
};
template<class T> void register_ebpps(const std::string& tname) {
  typedef EbObj<T> O; typedef typename O::Sk Sk; typedef typename O::SD SD;
  Family f; f.name = "ebpps<" + tname + ">"; f.preamble_bytes = 40;
  f.alloc_cap = (size_t)64 << 20; f.alloc_legal_max = (size_t)1 << 37;   // ebpps_sketch(k) reserves k items by design
  f.states = [](bool quick, const StateCb& cb) {
    const int ks[] = {1, 2, 3, 6};
    for (int ki = 0; ki < 4; ++ki) for (int pat = 0; pat < 3; ++pat) for (uint64_t sd = 1; sd <= 2; ++sd) {
      int k = ks[ki]; int nmax = quick ? k + 8 : 2 * k + 16;
      for (int n = 0; n <= nmax; ++n) {
        Sched sc(0, 2000 * sd + 5);
        O o(Sk((uint32_t)k, mc::TrackAlloc<T>(1)));
        for (int i = 0; i < n; ++i) { double w = pat == 0 ? 1.0 : pat == 1 ? 1.0 + (i % 4) : (i == 3 ? 50.0 : 1.0); o.sk.update(Gen<T>::make(i), w); }
        cb("k" + str(k) + "/pat" + str(pat) + "/draws" + str(sd) + "/n" + str(n), o);
      }
    }
  };
  f.from_bytes = [](const void* p, size_t n) { return ObjP(new O(Sk::deserialize(p, n, SD(), mc::TrackAlloc<T>(1)))); };
  f.from_stream = [](std::istream& is) { return ObjP(new O(Sk::deserialize(is, SD(), mc::TrackAlloc<T>(1)))); };
  registry().push_back(f);
}

// ---------------- t-digest ----------------
template<class T> struct TdObj : Obj {
  typedef tdigest<T, mc::TrackAlloc<T> > Sk;
  Sk sk; bool with_buffer; int next;
  TdObj(Sk&& s, bool wb): sk(std::move(s)), with_buffer(wb), next(0) {}
  std::string obs() { return obs_of(sk); }
  static std::string obs_of(const Sk& sk) {
    // queries compress the buffer: observe a copy so that the object under test keeps its buffer
    Sk c(sk);
    std::string o = "k=" + str(c.get_k()) + "|W=" + str(c.get_total_weight()) + "|empty=" + str(c.is_empty());
    if (c.is_empty()) return o;
    o += "|min=" + vstr(c.get_min_value()) + "|max=" + vstr(c.get_max_value()) + "|q=";
    for (int j = 0; j <= 10; ++j) o += vstr(c.get_quantile(j / 10.0)) + ",";
    o += "|r=";
    for (int j = -2; j < 40; j += 3) o += str(c.get_rank((T)j)) + ",";
    return o;
  }
  Bytes ser(unsigned h) { return to_bytes(sk.serialize(h, with_buffer)); }
  Bytes ser_stream() { std::ostringstream os; sk.serialize(os, with_buffer); std::string s = os.str(); return Bytes(s.begin(), s.end()); }
  long advertised_size() { return (long)sk.get_serialized_size_bytes(with_buffer); }
  size_t ncont() { return 3; }
  std::string cont_name(size_t i) { return i == 0 ? "update x7" : i == 1 ? "merge(operand)" : "update x300"; }
  void cont(size_t i) {
    if (i == 0) for (int j = 0; j < 7; ++j) sk.update((T)(50 + next++));
    else if (i == 1) { Sk o(sk.get_k(), mc::TrackAlloc<T>(1)); for (int j = 0; j < 40; ++j) o.update((T)(j * 0.5)); sk.merge(o); }
    else for (int j = 0; j < 300; ++j) sk.update((T)((j * 37) % 101));
  }
};
template<class T> void register_tdigest(const std::string& tname) {
  typedef TdObj<T> O; typedef typename O::Sk Sk;
  for (int wb = 0; wb < 2; ++wb) {
    bool with_buffer = wb == 1;
    Family f; f.name = "tdigest<" + tname + ">" + (with_buffer ? "+buffer" : ""); f.preamble_bytes = 16;
    f.rebuild_changes_bytes = !with_buffer;   // serialize(with_buffer=false) compresses first
    f.states = [with_buffer](bool quick, const StateCb& cb) {
      const int ks[] = {10, 20, 100};
      for (int ki = 0; ki < 3; ++ki) for (int pat = 0; pat < 3; ++pat) {
        std::vector<int> ns; for (int n = 0; n <= (quick ? 12 : 30); ++n) ns.push_back(n);
        const int more[] = {49, 50, 51, 199, 200, 201, 250, 401, 1000}; for (int i = 0; i < 9; ++i) if (!(quick && ki == 2 && i > 5)) ns.push_back(more[i]);
        for (size_t ni = 0; ni < ns.size(); ++ni) for (int q = 0; q < 2; ++q) {
          int n = ns[ni]; if (q && (n < 3 || pat != 0)) continue;
          O o(Sk((uint16_t)ks[ki], mc::TrackAlloc<T>(1)), with_buffer);
          for (int i = 0; i < n; ++i) { o.sk.update((T)(pat == 0 ? i : pat == 1 ? (i * 37) % 101 : 7)); if (q && i == n / 2) o.sk.get_rank((T)1); }
          cb("k" + str(ks[ki]) + "/pat" + str(pat) + (q ? "/midquery" : "") + "/n" + str(n), o);
        }
      }
    };
    f.from_bytes = [with_buffer](const void* p, size_t n) { return ObjP(new O(Sk::deserialize(p, n, mc::TrackAlloc<T>(1)), with_buffer)); };
    f.from_stream = [with_buffer](std::istream& is) { return ObjP(new O(Sk::deserialize(is, mc::TrackAlloc<T>(1)), with_buffer)); };
    registry().push_back(f);
  }
}

// ---------------- Bloom filter ----------------
typedef bloom_filter_alloc<mc::TrackAlloc<uint8_t> > Bloom;
struct BloomObj : Obj {
  Bytes mem; Bloom bf;   // mem is the caller buffer when the filter is wrapped
  explicit BloomObj(Bloom&& b): bf(std::move(b)) {}
  BloomObj(Bytes&& m, bool writable): mem(std::move(m)), bf(writable ? Bloom::writable_wrap(mem.data(), mem.size(), mc::TrackAlloc<uint8_t>(1)) : Bloom::wrap(mem.data(), mem.size(), mc::TrackAlloc<uint8_t>(1))) {}
  std::string obs() { return obs_of(bf); }
  static std::string obs_of(Bloom& bf) {
    std::string o = "cap=" + str(bf.get_capacity()) + "|h=" + str(bf.get_num_hashes()) + "|seed=" + str(bf.get_seed()) + "|empty=" + str(bf.is_empty()) + "|used=" + str(bf.get_bits_used()) + "|q=";
    for (int i = 0; i < 40; ++i) o += bf.query((uint64_t)i) ? "1" : "0";
    o += bf.query(std::string("abc")) ? "1" : "0";
    return o;
  }
  Bytes ser(unsigned h) { return to_bytes(bf.serialize(h)); }
  Bytes ser_stream() { std::ostringstream os; bf.serialize(os); std::string s = os.str(); return Bytes(s.begin(), s.end()); }
  long advertised_size() { return (long)bf.get_serialized_size_bytes(); }
  size_t ncont() { return bf.is_read_only() ? 0 : 4; }
  std::string cont_name(size_t i) { return i == 0 ? "update x4" : i == 1 ? "invert" : i == 2 ? "union(operand)" : "reset, update x3"; }
  void cont(size_t i) {
    if (i == 3) { bf.reset(); for (int j = 0; j < 3; ++j) bf.update((uint64_t)(300 + j)); }
    else if (i == 0) { for (int j = 0; j < 4; ++j) bf.update((uint64_t)(100 + j)); bf.update(std::string("abc")); }
    else if (i == 1) bf.invert();
    else { Bloom o = Bloom::builder::create_by_size(bf.get_capacity(), bf.get_num_hashes(), bf.get_seed(), mc::TrackAlloc<uint8_t>(1)); for (int j = 0; j < 6; ++j) o.update((uint64_t)(j * 5)); bf.union_with(o); }
  }
};
inline void register_bloom() {
  const char* kinds[] = {"bloom-owned", "bloom-writable-wrap"};
  for (int kind = 0; kind < 2; ++kind) {
    Family f; f.name = kinds[kind]; f.preamble_bytes = 32;
    f.alloc_cap = (size_t)64 << 20; f.alloc_legal_max = (size_t)4 << 30;   // an empty filter image legally describes a bit array up to the maximum filter size
    f.states = [kind](bool quick, const StateCb& cb) {
      const uint64_t bits[] = {1, 63, 64, 65, 128, 1000}; const int hs[] = {1, 3, 7};
      for (int bi = 0; bi < 6; ++bi) for (int hi = 0; hi < 3; ++hi) for (int inv = 0; inv < 2; ++inv) for (int n = 0; n <= (quick ? 8 : 24); ++n) {
        if (inv && n % 4) continue;
        if (kind == 0) {
          BloomObj o(Bloom::builder::create_by_size(bits[bi], (uint16_t)hs[hi], 9001 + bi, mc::TrackAlloc<uint8_t>(1)));
          for (int i = 0; i < n; ++i) o.bf.update((uint64_t)(i * 3)); if (inv) o.bf.invert();
          cb("bits" + str(bits[bi]) + "/h" + str(hs[hi]) + (inv ? "/inverted" : "") + "/n" + str(n), o);
        } else {
          Bytes m(Bloom::get_serialized_size_bytes(bits[bi]), 0);
          { Bloom init = Bloom::builder::initialize_by_size(m.data(), m.size(), bits[bi], (uint16_t)hs[hi], 9001 + bi, mc::TrackAlloc<uint8_t>(1)); }
          BloomObj o(std::move(m), true);
          for (int i = 0; i < n; ++i) o.bf.update((uint64_t)(i * 3)); if (inv) o.bf.invert();
          cb("bits" + str(bits[bi]) + "/h" + str(hs[hi]) + (inv ? "/inverted" : "") + "/n" + str(n), o);
        }
      }
    };
    f.from_bytes = [](const void* p, size_t n) { return ObjP(new BloomObj(Bloom::deserialize(p, n, mc::TrackAlloc<uint8_t>(1)))); };
    f.from_stream = [](std::istream& is) { return ObjP(new BloomObj(Bloom::deserialize(is, mc::TrackAlloc<uint8_t>(1)))); };
    f.wrap = [](const void* p, size_t n) { return ObjP(new BloomObj(Bytes((const uint8_t*)p, (const uint8_t*)p + n), false)); };
    registry().push_back(f);
  }
}

// ---------------- density ----------------
// the library's gaussian_kernel only accepts std::vector<T> with the default allocator: same formula, any vector type
struct GaussAny { template<class V1, class V2> double operator()(const V1& a, const V2& b) const { double s = 0; for (size_t i = 0; i < a.size(); ++i) s += (a[i] - b[i]) * (a[i] - b[i]); return std::exp(-s); } };
struct DensObj : Obj {
  typedef density_sketch<double, GaussAny, mc::TrackAlloc<double> > Sk; typedef std::vector<double, mc::TrackAlloc<double> > Pt;
  Sk sk; int next;
  explicit DensObj(Sk&& s): sk(std::move(s)), next(0) {}
  std::string obs() { return obs_of(sk); }
  static Pt pt(int i, uint32_t dim) { Pt p(dim, 0.0, mc::TrackAlloc<double>(1)); for (uint32_t d = 0; d < dim; ++d) p[d] = ((i * 7 + (int)d * 3) % 11) * 0.25; return p; }
  static std::string obs_of(const Sk& sk) {
    std::string o = "k=" + str(sk.get_k()) + "|dim=" + str(sk.get_dim()) + "|n=" + str(sk.get_n()) + "|ret=" + str(sk.get_num_retained()) + "|empty=" + str(sk.is_empty()) + "|est=" + str(sk.is_estimation_mode()) + "|pts=";
    std::vector<std::string> it; for (auto i = sk.begin(); i != sk.end(); ++i) { std::string s = str((*i).second) + ":"; for (size_t d = 0; d < (*i).first.size(); ++d) s += str((*i).first[d]) + ";"; it.push_back(s); }
    std::sort(it.begin(), it.end()); for (size_t i = 0; i < it.size(); ++i) o += it[i] + ",";
    if (!sk.is_empty() && sk.get_dim() <= 64) for (int q = 0; q < 4; ++q) { Pt p = pt(q, sk.get_dim()); o += "|e=" + str(sk.get_estimate(std::vector<double>(p.begin(), p.end()))); }   // get_estimate takes a std::vector<T>
    return o;
  }
  Bytes ser(unsigned h) { return to_bytes(sk.serialize(h)); }
  Bytes ser_stream() { std::ostringstream os; sk.serialize(os); std::string s = os.str(); return Bytes(s.begin(), s.end()); }
  size_t ncont() { return 2; }
  std::string cont_name(size_t i) { return i == 0 ? "update x3" : "update x 3k"; }
  // (an accepted corrupted image may carry a huge but legal k or dim: the script's own cost must not depend on them)
  void cont(size_t i) { if (sk.get_dim() > 64) return; int m = (i == 0 || sk.get_k() > 64) ? 3 : 3 * sk.get_k(); for (int j = 0; j < m; ++j) sk.update(pt(1000 + next++, sk.get_dim())); }
};
inline void register_density() {
  typedef DensObj::Sk Sk;
  Family f; f.name = "density"; f.preamble_bytes = 16;
  f.states = [](bool quick, const StateCb& cb) {
    for (int k = 2; k <= 6; k += 2) for (uint32_t dim = 1; dim <= 3; dim += 2) for (uint64_t sd = 1; sd <= 2; ++sd) for (int n = 0; n <= (quick ? 3 * k + 4 : 8 * k + 5); ++n) {
      Sched sc(sd & 1, 555 * sd);
      DensObj o(Sk((uint16_t)k, dim, GaussAny(), mc::TrackAlloc<double>(1)));
      for (int i = 0; i < n; ++i) o.sk.update(DensObj::pt(i, dim));
      cb("k" + str(k) + "/dim" + str(dim) + "/draws" + str(sd) + "/n" + str(n), o);
    }
  };
  f.from_bytes = [](const void* p, size_t n) { return ObjP(new DensObj(Sk::deserialize(p, n, GaussAny(), mc::TrackAlloc<double>(1)))); };
  f.from_stream = [](std::istream& is) { return ObjP(new DensObj(Sk::deserialize(is, GaussAny(), mc::TrackAlloc<double>(1)))); };
  registry().push_back(f);
}

inline void register_misc_families() {
  register_fi<int64_t>("i64"); register_fi<std::string>("string"); register_fi<mc::Item>("item");
  register_cm();
  register_varopt<int64_t>("i64"); register_varopt<std::string>("string"); register_varopt<mc::Item>("item");
  register_varopt_union();
  register_ebpps<int64_t>("i64"); register_ebpps<std::string>("string");
  register_tdigest<double>("double"); register_tdigest<float>("float");
  register_bloom();
  register_density();
}

} // namespace fam
#endif
