// C09: serialization round-trips every sketch to an observationally identical one.
// One-step differential (E1-corpus): for EVERY state of the enumerated per-family corpora: bytes == stream image,
// advertised size, header reservation, exact stream consumption, obs(restored) == obs(original), re-serialization
// identity, and agreement of original and restored under a chain of continuation operations with identical draws.
#define MC_MAIN
#include "families.hpp"
#include "fam_all.hpp"
using namespace mc;
using namespace fam;

static void check_state(const Family& f, const std::string& label, Obj& o, Report& rep) {
  Ctx c(rep, f.name, label);
  int a0 = asan_errors();
  try {
    const std::string obs0 = o.obs();
    Bytes b0 = o.ser(0);
    Bytes bs = o.ser_stream();
    const long live0 = (long)ledger().live.size();   // blocks alive that belong to `o` (incl. caches built by obs) and the enumerator
    c.ok("bytes==stream-image", b0 == bs, "byte-vector image (" + str(b0.size()) + " bytes) differs from stream image (" + str(bs.size()) + " bytes)");
    long adv = o.advertised_size();
    if (adv >= 0) c.eq("advertised-size", (long)b0.size(), adv);
    long mx = o.max_size();
    if (mx >= 0) c.ok("size<=max-serialized-size", (long)b0.size() <= mx, "image " + str(b0.size()) + " > advertised maximum " + str(mx));
    if (f.has_header) {
      const unsigned hs[] = {1, 7, 8, 13};
      for (int i = 0; i < 4; ++i) {
        Bytes bh = o.ser(hs[i]);
        if (c.eq("header-image-size", bh.size(), b0.size() + hs[i]))
          c.ok("header-then-same-image", std::equal(b0.begin(), b0.end(), bh.begin() + hs[i]), "image after a " + str(hs[i]) + "-byte header differs from the plain image");
      }
    }
    // readers
    ObjP r1, r2, r3;
    { // exact-size heap block so that an over-read is an ASan report
      uint8_t* blk = (uint8_t*)malloc(b0.size() ? b0.size() : 1); memcpy(blk, b0.data(), b0.size());
      try { r1 = f.from_bytes(blk, b0.size()); } catch (const std::exception& e) { c.fail("deserialize-bytes-accepts-own-image", std::string("threw: ") + e.what()); }
      if (f.wrap) { try { r3 = f.wrap(blk, b0.size()); if (r3) c.ok("wrap-obs==original", r3->obs() == obs0, "wrapped view differs: " + r3->obs().substr(0, 300) + " VS " + obs0.substr(0, 300)); } catch (const std::exception& e) { c.fail("wrap-accepts-own-image", std::string("threw: ") + e.what()); } r3.reset(); }
      free(blk);
    }
    { std::string tail = "\xAA\xBB\xCC\xDD\xEE sentinel"; std::string all(b0.begin(), b0.end()); all += tail;
      std::istringstream is(all);
      try { r2 = f.from_stream(is); } catch (const std::exception& e) { c.fail("deserialize-stream-accepts-own-image", std::string("threw: ") + e.what()); }
      if (r2) { c.ok("stream-good-after-read", is.good(), "stream in a failed state after reading a complete image");
        c.eq("stream-consumed-exactly-the-image", (long)is.tellg(), (long)b0.size()); }
    }
    if (r1) c.ok("obs(deserialized-bytes)==obs(original)", r1->obs() == obs0, "restored: " + r1->obs().substr(0, 400) + " VS original: " + obs0.substr(0, 400));
    if (r2) c.ok("obs(deserialized-stream)==obs(original)", r2->obs() == obs0, "restored: " + r2->obs().substr(0, 400) + " VS original: " + obs0.substr(0, 400));
    if (r1) {
      Bytes b1 = r1->ser(0);
      const bool unordered = f.unordered_entries || o.unordered_layout();
      if (!unordered) c.ok("reserialize-identical-bytes", b1 == b0, "re-serialized image differs (" + str(b1.size()) + " vs " + str(b0.size()) + " bytes): " + hexs(b1, 48) + " VS " + hexs(b0, 48));
      else { c.eq("reserialize-same-size", b1.size(), b0.size()); ObjP r4; try { r4 = f.from_bytes(b1.data(), b1.size()); } catch (const std::exception& e) { c.fail("reserialized-image-readable", e.what()); } if (r4) c.ok("reserialize-same-content", r4->obs() == obs0, "content changed after two round trips"); }
      if (adv >= 0) c.eq("advertised-size(restored)", r1->advertised_size(), adv);
    }
    // everything created from the image is released when the restored objects die
    const bool have = r1 && r2; r1.reset(); r2.reset();
    c.ok("restored-objects-released", (long)ledger().live.size() == live0, "blocks alive before " + str(live0) + " after " + str(ledger().live.size()));
    if (have) { r1 = f.from_bytes(b0.data(), b0.size()); std::istringstream is2(std::string(b0.begin(), b0.end())); r2 = f.from_stream(is2); }
    // continue: the same operations with the same draws on original and restored
    if (r1 && r2) for (size_t i = 0; i < o.ncont(); ++i) {
      { Sched sc(i & 1, 77 + i); o.cont(i); } { Sched sc(i & 1, 77 + i); r1->cont(i); } { Sched sc(i & 1, 77 + i); r2->cont(i); }
      std::string oa = o.obs(), ob = r1->obs(), oc = r2->obs();
      c.ok("continue-keeps-content-identical", oa == ob && oa == oc, "after " + o.cont_name(i) + ": original " + oa.substr(0, 300) + " VS restored " + (oa == ob ? oc : ob).substr(0, 300));
      rep.transitions++;
      // serialization can be a mutating operation (t-digest compresses): apply it to all three or to none
      { Bytes x = o.ser(0), y = r1->ser(0), z = r2->ser(0); if (!(f.unordered_entries || o.unordered_layout()) && (x != y || x != z)) rep.count("continued_images_differ_bytewise(diagnostic)"); }
    }
    // every continuation also as the FIRST operation on a freshly restored object (in the chain above a later continuation meets an
    // object that earlier ones have already grown): no exception, no memory error, and both restored forms agree
    if (r1 && r2) for (size_t i = 1; i < o.ncont(); ++i) {
      ObjP q1 = f.from_bytes(b0.data(), b0.size()); std::istringstream is3(std::string(b0.begin(), b0.end())); ObjP q2 = f.from_stream(is3);
      { Sched sc(i & 1, 77 + i); q1->cont(i); } { Sched sc(i & 1, 77 + i); q2->cont(i); }
      std::string qa = q1->obs(), qb = q2->obs();
      c.ok("fresh-restored-object-takes-continuation", qa == qb, "after " + o.cont_name(i) + " as the first operation: restored from bytes " + qa.substr(0, 200) + " VS restored from stream " + qb.substr(0, 200));
      rep.transitions++;
    }
  } catch (const std::exception& e) { c.fail("unexpected-exception", std::string("threw: ") + e.what()); }
  if (asan_errors() != a0) c.fail("asan", "AddressSanitizer report while round-tripping this state");
  if (!ledger().errors.empty()) { c.fail("allocator-discipline", ledger().errors[0]); ledger().errors.clear(); }
  if (!items().errors.empty()) { c.fail("item-discipline", items().errors[0]); items().errors.clear(); }
  rep.flush_ctx_fails(c.fails, f.name, label);
  rep.states++; rep.traces++; rep.evaluations++;
}

int main(int argc, char** argv) {
  Config cfg = parse_args(argc, argv);
  forbid_unowned_draws();
  register_all_families();
  std::vector<Task> tasks;
  { Task t; t.name = "meta"; t.fn = [](Report& rep) {
      rep.assumptions.push_back("corpus = every state of the per-family enumerations in harness/fam_*.hpp (all n up to a bound x patterns x coin schedules x configurations, plus post-merge states); not every reachable state");
      rep.assumptions.push_back("continuations are chained (op 0, then op 1, ...) with identical draw schedules on original and restored objects");
      rep.sets("rule", "for every corpus state: 12 round-trip checks and a chain of continuation operations; distinct = distinct (family, image size class) tag");
    }; tasks.push_back(t); }
  for (size_t i = 0; i < registry().size(); ++i) {
    const Family f = registry()[i];
    Task t; t.name = f.name; t.fn = [f, &cfg](Report& rep) {
      if (!cfg.replay_scenario.empty() && cfg.replay_scenario != f.name) return;
      size_t n = 0; std::string last;
      f.states(cfg.quick(), [&](const std::string& label, Obj& o) {
        if (!cfg.replay_history.empty() && cfg.replay_history != label) return;
        if (rep.past_deadline()) { rep.cap("global deadline reached in " + f.name); return; }
        if (!journal(f.name, label)) return;
        size_t sz = o.ser(0).size();
        check_state(f, label, o, rep); ++n; last = label;
        rep.outcome(f.name + "|size" + (sz <= 8 ? "<=8" : sz <= 64 ? "<=64" : sz <= 1024 ? "<=1K" : ">1K"));
      });
      journal_clear();
      rep.scenarios.push_back(f.name + ": corpus states=" + str(n));
      rep.sample(f.name + ": " + last);
    };
    tasks.push_back(t);
  }
  return run_tasks(cfg, "C09", tasks);
}
