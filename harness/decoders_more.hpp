// decoders_more.hpp -- further documented-layout decoders (one per family) and further reference-image checks.
// Every decoder is written from the layout documentation only (the "Serialized sketch layout" comments and named offset constants in the
// headers, and the DataSketches Java memory-layout documentation they mirror), parses with the bounds-checked reader Rd, must consume the
// image exactly, and compares what it recovered with what the live object reports.
#ifndef DECODERS_MORE_HPP
#define DECODERS_MORE_HPP
namespace dec {

// ---------------- item encodings ----------------
// arithmetic items: raw little-endian; std::string (serde<std::string>): 4-byte length + bytes; mc::Item (mc::ItemSerde): 4 bytes
template<class T> struct ItemIO;
template<> struct ItemIO<float> { typedef float K; static K get(Rd& r) { return r.f32(); } static K key(const float& v) { return v; } static float make(const K& k) { return k; } };
template<> struct ItemIO<double> { typedef double K; static K get(Rd& r) { return r.f64(); } static K key(const double& v) { return v; } static double make(const K& k) { return k; } };
template<> struct ItemIO<int64_t> { typedef int64_t K; static K get(Rd& r) { return (int64_t)r.u64(); } static K key(const int64_t& v) { return v; } static int64_t make(const K& k) { return k; } };
template<> struct ItemIO<std::string> { typedef std::string K;
  static K get(Rd& r) { uint32_t n = r.u32(); if (!r.ok || r.p + (size_t)n > r.b.size()) { r.ok = false; return K(); } K s((const char*)r.b.data() + r.p, (size_t)n); r.p += n; return s; }
  static K key(const std::string& v) { return v; } static std::string make(const K& k) { return k; } };
template<> struct ItemIO<mc::Item> { typedef int K; static K get(Rd& r) { return (int)r.u32(); } static K key(const mc::Item& v) { return v.get(); } static mc::Item make(const K& k) { return mc::Item(k); } };

template<class K> std::string kstr(const K& k) { return str(k); }

// ---------------- KLL<T> (kll_sketch.hpp "Serialized sketch layout") ----------------
// same layout as kll_float in decoders.hpp; items, min and max are written by the item serde
template<class T> void kll_any(const Bytes& img, Obj& live, mc::Ctx& c) {
  typedef typename QuantTypes<T, 0>::Sk Sk; typedef QObj<Sk, T, 0> O; typedef ItemIO<T> IO; typedef typename IO::K K;
  O* o = dynamic_cast<O*>(&live); if (!o) { c.fail("decoder-type", "unexpected object type"); return; }
  const Sk& sk = o->sk; Rd r(img);
  uint8_t pre = r.u8(), ver = r.u8(), famid = r.u8(), flags = r.u8(); uint16_t k = r.u16(); uint8_t m = r.u8(); r.u8();
  if (!c.ok("kll.header-in-bounds", r.ok, "image shorter than 8 bytes")) return;
  c.eq("kll.family-id", (int)famid, 15); c.eq("kll.k", (int)k, (int)sk.get_k()); c.eq("kll.m", (int)m, 8);
  const bool empty = flags & 1, l0sorted = flags & 2, single = flags & 4;
  c.ok("kll.flags-reserved-zero", (flags & 0xf8) == 0, "flags " + str((int)flags));
  c.eq("kll.flag-empty", empty, sk.is_empty());
  c.eq("kll.flag-single-item", single, sk.get_n() == 1);
  c.eq("kll.preamble-ints", (int)pre, (empty || single) ? 2 : 5);
  c.eq("kll.serial-version", (int)ver, single ? 2 : 1);
  if (empty) { c.ok("kll.empty-image-is-8-bytes", r.ok && r.at_end(), "size " + str(img.size())); return; }
  if (single) { K v = IO::get(r); c.ok("kll.single-item", r.ok && r.at_end() && v == IO::key(sk.get_min_item()) && v == IO::key(sk.get_max_item()), "single item image"); return; }
  uint64_t n = r.u64(); uint16_t min_k = r.u16(); uint8_t nl = r.u8(); r.u8();
  c.eq("kll.n", n, (uint64_t)sk.get_n()); c.ok("kll.min_k<=k", min_k <= k && min_k >= 8, "min_k " + str(min_k)); c.eq("kll.min_k", (int)min_k, (int)sk.min_k_);
  std::vector<uint32_t> lv(nl); for (uint8_t i = 0; i < nl; ++i) lv[i] = r.u32();
  K mn = IO::get(r), mx = IO::get(r);
  if (!c.ok("kll.header-in-bounds", r.ok && nl >= 1, "image too short")) return;
  c.eq("kll.min", mn, IO::key(sk.get_min_item())); c.eq("kll.max", mx, IO::key(sk.get_max_item()));
  c.ok("kll.levels-nondecreasing", std::is_sorted(lv.begin(), lv.end()), "level offsets decrease");
  // the last offset (= capacity) is not stored: the last level takes the items that remain; the retained count is what the API reports
  const uint32_t ret = sk.get_num_retained(); const uint32_t cap = lv[0] + ret;
  if (!c.ok("kll.level-offsets-within-capacity", lv[nl - 1] <= cap, "last level offset " + str(lv[nl - 1]) + " capacity " + str(cap))) return;
  std::vector<std::pair<K, uint64_t> > items; uint64_t wsum = 0; bool l0ok = true;
  for (uint8_t l = 0; l < nl; ++l) { uint32_t from = lv[l], to = l + 1 < nl ? lv[l + 1] : cap;
    for (uint32_t i = from; i < to && r.ok; ++i) { K v = IO::get(r); if (l == 0 && i > from && v < items.back().first) l0ok = false; items.push_back(std::make_pair(v, (uint64_t)1 << l)); wsum += (uint64_t)1 << l; } }
  c.ok("kll.image-fully-consumed", r.ok && r.at_end(), "trailing or missing bytes: consumed " + str(r.p) + " of " + str(img.size()));
  c.eq("kll.weights-sum==n", wsum, n);
  c.eq("kll.flag-level-zero-sorted", l0sorted, (bool)sk.is_level_zero_sorted_);
  if (l0sorted) c.ok("kll.level-zero-sorted-as-flagged", l0ok, "flag says level 0 is sorted but the items are not");
  std::vector<std::pair<K, uint64_t> > api; for (auto it = sk.begin(); it != sk.end(); ++it) api.push_back(std::make_pair(IO::key((*it).first), (uint64_t)(*it).second));
  c.ok("kll.item-order==iterator", items == api, "items in image order differ from iteration order");
  std::sort(items.begin(), items.end()); std::sort(api.begin(), api.end());
  c.ok("kll.items-and-weights==api", items == api, "items decoded from the image differ from the iterator");
}

// ---------------- REQ<T> (Java ReqSerDe layout; constants in req_sketch.hpp) ----------------
// byte 0 preamble ints (2; 4 in estimation mode), 1 serial version 1, 2 family 17, 3 flags (bit2 empty, bit3 high-rank accuracy, bit4 raw items,
// bit5 level zero sorted), 4-5 k, 6 number of compactors, 7 number of raw items. Estimation mode: N (8), min item, max item. Raw items
// (n <= 4): the items follow directly. Otherwise each compactor: state (8), section size (float), lg weight (1), number of sections (1),
// 2 unused, item count (4), items.
template<class T> void req_any(const Bytes& img, Obj& live, mc::Ctx& c) {
  typedef typename QuantTypes<T, 1>::Sk Sk; typedef QObj<Sk, T, 1> O; typedef ItemIO<T> IO; typedef typename IO::K K;
  O* o = dynamic_cast<O*>(&live); if (!o) { c.fail("decoder-type", "unexpected object type"); return; }
  const Sk& sk = o->sk; Rd r(img);
  uint8_t pre = r.u8(), ver = r.u8(), famid = r.u8(), flags = r.u8(); uint16_t k = r.u16(); uint8_t nlev = r.u8(), nraw = r.u8();
  if (!c.ok("req.header-in-bounds", r.ok, "image shorter than 8 bytes")) return;
  c.eq("req.serial-version", (int)ver, 1); c.eq("req.family-id", (int)famid, 17); c.eq("req.k", (int)k, (int)sk.get_k());
  const bool empty = flags & 4, hra = flags & 8, raw = flags & 16, l0sorted = flags & 32;
  c.ok("req.flags-reserved-zero", (flags & 0xc3) == 0, "flags " + str((int)flags));
  c.eq("req.flag-empty", empty, sk.is_empty()); c.eq("req.flag-high-rank-accuracy", hra, sk.is_HRA());
  if (empty) { c.eq("req.preamble-ints", (int)pre, 2); c.ok("req.empty-image-is-8-bytes", r.at_end(), "size " + str(img.size())); return; }
  c.eq("req.preamble-ints", (int)pre, sk.is_estimation_mode() ? 4 : 2);
  const bool est = pre == 4; uint64_t n = 0; K mn = K(), mx = K();
  if (est) { n = r.u64(); mn = IO::get(r); mx = IO::get(r); }
  c.eq("req.num-compactors", (int)nlev, (int)sk.compactors_.size());
  std::vector<std::pair<K, uint64_t> > items; uint64_t wsum = 0;
  if (raw) {
    c.ok("req.raw-items-only-when-n<=4", sk.get_n() <= 4 && !est, "n " + str(sk.get_n()));
    for (uint8_t i = 0; i < nraw && r.ok; ++i) { items.push_back(std::make_pair(IO::get(r), (uint64_t)1)); ++wsum; }
  } else {
    c.eq("req.num-raw-items-zero", (int)nraw, 0);
    for (uint8_t l = 0; l < nlev && r.ok; ++l) {
      uint64_t state = r.u64(); float ssr = r.f32(); uint8_t lgw = r.u8(), nsec = r.u8(); r.u16(); uint32_t ni = r.u32();
      if (!r.ok) break;
      c.eq("req.compactor-lg-weight==level", (int)lgw, (int)l);
      if (l < sk.compactors_.size()) { const typename Sk::Compactor& cp = sk.compactors_[l];
        c.eq("req.compactor-state", state, (uint64_t)cp.state_); c.eq("req.compactor-section-size", ssr, cp.section_size_raw_);
        c.eq("req.compactor-num-sections", (int)nsec, (int)cp.num_sections_); c.eq("req.compactor-num-items", ni, (uint32_t)cp.num_items_); }
      bool sorted = true;
      for (uint32_t i = 0; i < ni && r.ok; ++i) { K v = IO::get(r); if (i && v < items.back().first) sorted = false; items.push_back(std::make_pair(v, (uint64_t)1 << lgw)); wsum += (uint64_t)1 << lgw; }
      if (l > 0 || l0sorted) c.ok("req.compactor-sorted", sorted, "level " + str((int)l) + " is not sorted");
    }
  }
  c.ok("req.image-fully-consumed", r.ok && r.at_end(), "trailing or missing bytes: consumed " + str(r.p) + " of " + str(img.size()));
  if (!r.ok || items.empty()) { c.ok("req.non-empty-image-has-items", !items.empty(), "no items"); return; }
  c.eq("req.flag-level-zero-sorted", l0sorted, (bool)sk.compactors_[0].is_sorted());
  if (!est) { n = wsum; mn = mx = items[0].first; for (size_t i = 0; i < items.size(); ++i) { if (items[i].first < mn) mn = items[i].first; if (mx < items[i].first) mx = items[i].first; } }   // exact mode: N, min and max follow from the items
  c.eq("req.n", n, (uint64_t)sk.get_n()); c.eq("req.weights-sum==n", wsum, (uint64_t)sk.get_n());
  c.eq("req.min", mn, IO::key(sk.get_min_item())); c.eq("req.max", mx, IO::key(sk.get_max_item()));
  c.eq("req.retained", items.size(), (size_t)sk.get_num_retained());
  std::vector<std::pair<K, uint64_t> > api; size_t guard = items.size() + 4;
  for (auto it = sk.begin(); !(it == sk.end()) && api.size() < guard; ++it) api.push_back(std::make_pair(IO::key((*it).first), (uint64_t)(*it).second));
  c.ok("req.item-order==iterator", items == api, "items in image order differ from iteration order");
  std::sort(items.begin(), items.end()); std::sort(api.begin(), api.end());
  c.ok("req.items-and-weights==api", items == api, "items decoded from the image differ from the iterator");
}

// ---------------- classic quantiles<T> (quantiles_sketch.hpp "Serialized sketch layout", Java DoublesSketch compact form) ----------------
// byte 0 preamble longs (1 empty, 2 otherwise), 1 serial version 3, 2 family 8, 3 flags (bit2 empty, bit3 compact, bit4 sorted), 4-5 k, 6-7 unused;
// long 1: N; then min, max, the base buffer (N mod 2k items, weight 1) and, for every set bit b of N / 2k, one level of k sorted items of weight 2^(b+1).
template<class T> void classic_any(const Bytes& img, Obj& live, mc::Ctx& c) {
  typedef typename QuantTypes<T, 2>::Sk Sk; typedef QObj<Sk, T, 2> O; typedef ItemIO<T> IO; typedef typename IO::K K;
  O* o = dynamic_cast<O*>(&live); if (!o) { c.fail("decoder-type", "unexpected object type"); return; }
  const Sk& sk = o->sk; Rd r(img);
  uint8_t pre = r.u8(), ver = r.u8(), famid = r.u8(), flags = r.u8(); uint16_t k = r.u16(); r.u16();
  if (!c.ok("classic.header-in-bounds", r.ok, "image shorter than 8 bytes")) return;
  c.eq("classic.serial-version", (int)ver, 3); c.eq("classic.family-id", (int)famid, 8); c.eq("classic.k", (int)k, (int)sk.get_k());
  const bool empty = flags & 4, compact = flags & 8, sorted = flags & 16;
  c.ok("classic.flags-reserved-zero", (flags & 0xe3) == 0, "flags " + str((int)flags));
  c.eq("classic.flag-empty", empty, sk.is_empty()); c.ok("classic.flag-compact", compact, "the image holds only the used part of the buffers: the compact flag must say so");
  c.eq("classic.preamble-longs", (int)pre, empty ? 1 : 2);
  if (empty) { c.ok("classic.empty-image-is-8-bytes", r.at_end(), "size " + str(img.size())); return; }
  uint64_t n = r.u64(); K mn = IO::get(r), mx = IO::get(r);
  if (!c.ok("classic.header-in-bounds", r.ok && k >= 1, "image too short")) return;
  c.eq("classic.n", n, (uint64_t)sk.get_n()); c.eq("classic.min", mn, IO::key(sk.get_min_item())); c.eq("classic.max", mx, IO::key(sk.get_max_item()));
  std::vector<std::pair<K, uint64_t> > items; uint64_t wsum = 0; bool bbsorted = true, lvsorted = true;
  const uint64_t bb = n % (2 * (uint64_t)k); uint64_t pattern = n / (2 * (uint64_t)k);
  for (uint64_t i = 0; i < bb && r.ok; ++i) { K v = IO::get(r); if (i && v < items.back().first) bbsorted = false; items.push_back(std::make_pair(v, (uint64_t)1)); ++wsum; }
  for (int b = 0; pattern >> b; ++b) if ((pattern >> b) & 1) for (uint16_t i = 0; i < k && r.ok; ++i) { K v = IO::get(r); if (i && v < items.back().first) lvsorted = false; items.push_back(std::make_pair(v, (uint64_t)2 << b)); wsum += (uint64_t)2 << b; }
  c.ok("classic.image-fully-consumed", r.ok && r.at_end(), "trailing or missing bytes: consumed " + str(r.p) + " of " + str(img.size()));
  if (!r.ok) return;
  c.eq("classic.weights-sum==n", wsum, n); c.ok("classic.levels-sorted", lvsorted, "a level is not sorted");
  if (sorted) c.ok("classic.base-buffer-sorted-as-flagged", bbsorted, "sorted flag set but the base buffer is not");
  c.eq("classic.retained", items.size(), (size_t)sk.get_num_retained());
  std::vector<std::pair<K, uint64_t> > api; for (auto it = sk.begin(); it != sk.end(); ++it) api.push_back(std::make_pair(IO::key((*it).first), (uint64_t)(*it).second));
  c.ok("classic.item-order==iterator", items == api, "items in image order differ from iteration order");
  std::sort(items.begin(), items.end()); std::sort(api.begin(), api.end());
  c.ok("classic.items-and-weights==api", items == api, "items decoded from the image differ from the iterator");
}

// ---------------- theta: uncompressed v3 body (same layout as theta_v3 in decoders.hpp; used for the images serialize_compressed() writes uncompressed) ----------------
inline void theta_v3_body(const Bytes& img, const CTheta& sk, mc::Ctx& c) {
  Rd r(img);
  uint8_t pre = r.u8(), ver = r.u8(), famid = r.u8(); r.u8(); r.u8(); uint8_t flags = r.u8(); uint16_t sh = r.u16();
  if (!c.ok("theta.header-in-bounds", r.ok, "image shorter than 8 bytes")) return;
  c.eq("theta.serial-version", (int)ver, 3); c.eq("theta.family-id", (int)famid, 3); c.eq("theta.seed-hash", sh, oracle::seed_hash(datasketches::DEFAULT_SEED));
  c.ok("theta.flag-compact-readonly", (flags & 8) && (flags & 2), "compact/read-only flags not set"); c.ok("theta.flag-little-endian", !(flags & 1), "big-endian flag set");
  c.eq("theta.flag-empty", (bool)(flags & 4), sk.is_empty()); c.eq("theta.flag-ordered", (bool)(flags & 16), sk.is_ordered());
  uint32_t n = 0; uint64_t theta = 0x7fffffffffffffffULL;
  if (sk.is_empty()) { c.eq("theta.preamble-longs-empty", (int)pre, 1); c.ok("theta.empty-image-is-8-bytes", r.at_end(), "size " + str(img.size())); return; }
  if (pre == 1) n = 1; else { n = r.u32(); r.u32(); if (pre >= 3) theta = r.u64(); }
  c.eq("theta.preamble-longs", (int)pre, sk.is_estimation_mode() ? 3 : (sk.get_num_retained() == 1 ? 1 : 2));
  c.eq("theta.num-entries", n, sk.get_num_retained()); c.eq("theta.theta", theta, sk.get_theta64());
  if (!c.ok("theta.count-fits-image", r.ok && (uint64_t)n * 8 <= img.size() - r.p, "count " + str(n))) return;
  std::vector<uint64_t> e(n); for (uint32_t i = 0; i < n; ++i) e[i] = r.u64();
  c.ok("theta.image-fully-consumed", r.ok && r.at_end(), "trailing or missing bytes");
  std::vector<uint64_t> api; for (auto it = sk.begin(); it != sk.end(); ++it) api.push_back(*it);
  c.ok("theta.entries-in-api-order", e == api, "entries in the image differ from iteration order");
  if (flags & 16) c.ok("theta.ordered-entries-sorted", std::is_sorted(e.begin(), e.end()), "ordered flag set but entries unsorted");
  for (size_t i = 0; i < e.size(); ++i) if (!(e[i] != 0 && e[i] < theta)) { c.fail("theta.entries-below-theta", "entry " + mc::hex64(e[i])); break; }
}

// ---------------- theta compressed, serial version 4 (Java CompactSketch "compressed" layout; offsets named in compact_theta_sketch_parser.hpp) ----------------
// byte 0 preamble longs (1 exact, 2 estimation), 1 serial version 4, 2 family 3, 3 entry bits, 4 number of bytes of the entry count, 5 flags
// (compact, read-only, ordered; never empty), 6-7 seed hash; estimation: theta (8); then the entry count in that many little-endian bytes;
// then the deltas between consecutive sorted hashes (the first against 0), entry-bits each, packed most significant bit first, blocks of 8
// entries take entry-bits bytes, the tail is padded to a whole byte. Unordered, empty and single-item sketches are written uncompressed (v3).
struct BitRd {   // plain most-significant-bit-first bit reader over the rest of the image
  Rd& r; uint8_t cur; int left; uint64_t pad_bits_set;
  explicit BitRd(Rd& rd): r(rd), cur(0), left(0), pad_bits_set(0) {}
  uint64_t get(int bits) { uint64_t v = 0; for (int i = 0; i < bits; ++i) { if (!left) { cur = r.u8(); left = 8; } v = (v << 1) | ((cur >> 7) & 1); cur = (uint8_t)(cur << 1); --left; } return v; }
  bool padding_zero() const { return left == 0 || cur == 0; }
};
inline void theta_v4(const Bytes& img, Obj& live, mc::Ctx& c) {
  ThetaObj* o = dynamic_cast<ThetaObj*>(&live); if (!o) { c.fail("decoder-type", "unexpected object type"); return; }
  const CTheta& sk = o->sk;
  if (!c.ok("theta4.header-in-bounds", img.size() >= 8, "image shorter than 8 bytes")) return;
  const bool compressible = sk.is_ordered() && !sk.is_empty() && sk.get_num_retained() > 0 && !(sk.get_num_retained() == 1 && !sk.is_estimation_mode());
  if (img[1] != 4) { c.ok("theta4.uncompressed-only-for-unordered-empty-single", !compressible, "an ordered multi-entry sketch was written uncompressed"); c.rep.outcome("layout|theta-compressed|v3-fallback"); theta_v3_body(img, sk, c); return; }
  c.ok("theta4.compressed-only-for-ordered-multi-entry", compressible, "serial version 4 used for an unordered, empty or single-item sketch");
  Rd r(img);
  uint8_t pre = r.u8(), ver = r.u8(), famid = r.u8(), ebits = r.u8(), nbytes = r.u8(), flags = r.u8(); uint16_t sh = r.u16();
  c.eq("theta4.serial-version", (int)ver, 4); c.eq("theta4.family-id", (int)famid, 3); c.eq("theta4.seed-hash", sh, oracle::seed_hash(datasketches::DEFAULT_SEED));
  c.eq("theta4.seed-hash==api", sh, sk.get_seed_hash());
  c.ok("theta4.flag-compact-readonly", (flags & 8) && (flags & 2), "compact/read-only flags not set"); c.ok("theta4.flag-little-endian", !(flags & 1), "big-endian flag set");
  c.ok("theta4.flag-ordered", (flags & 16) != 0, "a compressed image is always ordered"); c.ok("theta4.flag-not-empty", !(flags & 4), "empty flag in a compressed image");
  c.eq("theta4.preamble-longs", (int)pre, sk.is_estimation_mode() ? 2 : 1);
  uint64_t theta = 0x7fffffffffffffffULL; if (pre >= 2) theta = r.u64();
  c.eq("theta4.theta", theta, sk.get_theta64());
  if (!c.ok("theta4.num-entries-bytes-1..4", nbytes >= 1 && nbytes <= 4, str((int)nbytes)) || !c.ok("theta4.entry-bits-1..63", ebits >= 1 && ebits <= 63, str((int)ebits))) return;
  uint32_t n = 0; for (uint8_t i = 0; i < nbytes; ++i) n |= (uint32_t)r.u8() << (8 * i);
  c.eq("theta4.num-entries", n, sk.get_num_retained());
  if (!c.ok("theta4.count-fits-image", r.ok && ((uint64_t)n * ebits + 7) / 8 <= img.size() - r.p, "count " + str(n))) return;
  BitRd br(r); std::vector<uint64_t> e(n); uint64_t prev = 0, ored = 0;
  for (uint32_t i = 0; i < n; ++i) { uint64_t d = br.get(ebits); ored |= d; prev += d; e[i] = prev; }
  c.ok("theta4.image-fully-consumed", r.ok && r.at_end(), "trailing or missing bytes: consumed " + str(r.p) + " of " + str(img.size()));
  c.ok("theta4.padding-bits-zero", br.padding_zero(), "bits after the last delta are set");
  c.ok("theta4.entry-bits-needed", ebits == 64 || (ored >> (ebits - 1)) == 1, "entry bits " + str((int)ebits) + " but no delta uses the top bit");
  c.ok("theta4.num-entries-bytes-needed", nbytes == 1 || (n >> (8 * (nbytes - 1))) != 0, "count bytes " + str((int)nbytes) + " for " + str(n) + " entries");
  std::vector<uint64_t> api; for (auto it = sk.begin(); it != sk.end(); ++it) api.push_back(*it);
  c.ok("theta4.entries==sorted-api-entries", e == api && std::is_sorted(api.begin(), api.end()), "the decoded entries differ from the sorted entry list");
  for (size_t i = 0; i < e.size(); ++i) if (!(e[i] != 0 && e[i] < theta)) { c.fail("theta4.entries-below-theta", "entry " + mc::hex64(e[i])); break; }
  c.rep.outcome("layout|theta-compressed|v4");
}

// ---------------- theta serial versions 1 and 2, synthesised from the documentation (Java ForwardCompatibility / PreambleUtil) ----------------
// v1: always 3 preamble longs: byte 0 = 3, byte 1 = 1, byte 2 = 3, bytes 3-7 unused; long 1: count (4) + unused (4); long 2: theta; sorted hashes.
//     No empty flag and no seed hash: empty means count 0 and theta = max.
// v2: byte 0 = 1 (empty), 2 (exact: count) or 3 (count and theta), byte 1 = 2, byte 2 = 3, bytes 3-4 unused, byte 5 flags, 6-7 seed hash; sorted hashes.
inline void put_le(Bytes& b, uint64_t v, int nbytes) { for (int i = 0; i < nbytes; ++i) b.push_back((uint8_t)(v >> (8 * i))); }
struct ThetaView { bool empty, ordered; uint64_t theta; uint16_t seed_hash; std::vector<uint64_t> e; };
template<class Sk> ThetaView theta_view(const Sk& sk) { ThetaView v; v.empty = sk.is_empty(); v.ordered = sk.is_ordered(); v.theta = sk.get_theta64(); v.seed_hash = sk.get_seed_hash(); for (auto it = sk.begin(); it != sk.end(); ++it) v.e.push_back(*it); return v; }
inline Bytes theta_synth(int version, bool empty, uint64_t theta, const std::vector<uint64_t>& sorted) {
  const uint64_t MAXT = 0x7fffffffffffffffULL; Bytes b; const uint32_t n = (uint32_t)sorted.size();
  if (version == 1) { b.push_back(3); b.push_back(1); b.push_back(3); put_le(b, 0, 5); put_le(b, n, 4); put_le(b, 0, 4); put_le(b, empty ? MAXT : theta, 8); }
  else {
    const uint8_t pre = empty ? 1 : theta < MAXT ? 3 : 2;
    b.push_back(pre); b.push_back(2); b.push_back(3); b.push_back(0); b.push_back(0);
    b.push_back((uint8_t)(2 | 8 | 16 | (empty ? 4 : 0)));   // read-only, compact, ordered (+ empty)
    put_le(b, oracle::seed_hash(datasketches::DEFAULT_SEED), 2);
    if (pre >= 2) { put_le(b, n, 4); put_le(b, 0, 4); } if (pre >= 3) put_le(b, theta, 8);
  }
  if (!empty) for (uint32_t i = 0; i < n; ++i) put_le(b, sorted[i], 8);
  return b;
}
inline void theta_legacy_synth(const Bytes&, Obj& live, mc::Ctx& c) {
  ThetaObj* o = dynamic_cast<ThetaObj*>(&live); if (!o) { c.fail("decoder-type", "unexpected object type"); return; }
  const CTheta& sk = o->sk; const uint64_t MAXT = 0x7fffffffffffffffULL;
  ThetaView want = theta_view(sk); std::sort(want.e.begin(), want.e.end());
  if (!want.empty && want.e.empty() && want.theta == MAXT) { c.rep.outcome("legacy-synth|not-representable"); return; }   // the old formats read "no entries, theta 1.0" as empty
  for (int version = 1; version <= 2; ++version) {
    const Bytes b = theta_synth(version, want.empty, want.theta, want.e); const std::string v = "v" + str(version);
    for (int path = 0; path < 3; ++path) {
      const std::string pn = path == 0 ? "bytes" : path == 1 ? "stream" : "wrap";
      try {
        ThetaView got;
        if (path == 0) { CTheta s = CTheta::deserialize(b.data(), b.size(), datasketches::DEFAULT_SEED, A64(1)); got = theta_view(s); }
        else if (path == 1) { std::istringstream is(std::string(b.begin(), b.end())); CTheta s = CTheta::deserialize(is, datasketches::DEFAULT_SEED, A64(1)); got = theta_view(s); }
        else { WTheta s = WTheta::wrap(b.data(), b.size()); got = theta_view(s); }
        c.eq("theta-legacy-synth." + v + "-emptiness", got.empty, want.empty);
        c.eq("theta-legacy-synth." + v + "-theta", got.theta, want.empty ? MAXT : want.theta);
        c.ok("theta-legacy-synth." + v + "-entries", got.e == want.e, pn + ": " + str(got.e.size()) + " entries read, " + str(want.e.size()) + " written");
        c.ok("theta-legacy-synth." + v + "-ordered", got.ordered, pn + ": an old-format image is always ordered");
        c.eq("theta-legacy-synth." + v + "-seed-hash", got.seed_hash, oracle::seed_hash(datasketches::DEFAULT_SEED));
      } catch (const std::exception& e) { c.fail("theta-legacy-synth." + v + "-readable", pn + ": " + e.what() + " image " + hexs(b, 40)); }
    }
  }
  c.rep.outcome(want.empty ? "legacy-synth|empty" : want.theta < MAXT ? "legacy-synth|estimation" : want.e.size() == 1 ? "legacy-synth|single" : "legacy-synth|exact");
}
inline void theta_v3_and_legacy(const Bytes& img, Obj& live, mc::Ctx& c) { theta_v3(img, live, c); theta_legacy_synth(img, live, c); }

// ---------------- tuple compact, serial version 3 (Java tuple CompactSketch layout: the theta v3 preamble with a sketch type byte) ----------------
// byte 0 preamble longs (1 empty or single exact entry, 2 exact, 3 estimation), 1 serial version 3, 2 family 9, 3 sketch type 1, 4 unused,
// 5 flags (bit1 read-only, bit2 empty, bit3 compact, bit4 ordered), 6-7 seed hash; long 1: count (4) + unused (4); long 2: theta;
// then the entries, each a 64-bit hash followed by its summary as written by the summary serde.
template<class S> void tuple_any(const Bytes& img, Obj& live, mc::Ctx& c) {
  typedef TupleObj<S> O; typedef ItemIO<S> IO; typedef typename IO::K K;
  O* o = dynamic_cast<O*>(&live); if (!o) { c.fail("decoder-type", "unexpected object type"); return; }
  const typename O::CT& sk = o->sk; Rd r(img);
  uint8_t pre = r.u8(), ver = r.u8(), famid = r.u8(), type = r.u8(); r.u8(); uint8_t flags = r.u8(); uint16_t sh = r.u16();
  if (!c.ok("tuple.header-in-bounds", r.ok, "image shorter than 8 bytes")) return;
  c.eq("tuple.serial-version", (int)ver, 3); c.eq("tuple.family-id", (int)famid, 9); c.eq("tuple.sketch-type", (int)type, 1);
  c.eq("tuple.seed-hash", sh, oracle::seed_hash(datasketches::DEFAULT_SEED)); c.eq("tuple.seed-hash==api", sh, sk.get_seed_hash());
  c.ok("tuple.flag-compact-readonly", (flags & 8) && (flags & 2), "compact/read-only flags not set"); c.ok("tuple.flag-little-endian", !(flags & 1), "big-endian flag set");
  c.eq("tuple.flag-empty", (bool)(flags & 4), sk.is_empty()); c.eq("tuple.flag-ordered", (bool)(flags & 16), sk.is_ordered());
  const uint64_t MAXT = 0x7fffffffffffffffULL; uint32_t n = 0; uint64_t theta = MAXT;
  const bool est = sk.get_theta64() < MAXT && !sk.is_empty();
  c.eq("tuple.preamble-longs", (int)pre, est ? 3 : (sk.is_empty() || sk.get_num_retained() == 1) ? 1 : 2);
  if (sk.is_empty()) { c.ok("tuple.empty-image-is-8-bytes", r.at_end(), "size " + str(img.size())); return; }
  if (pre == 1) n = 1; else { n = r.u32(); r.u32(); if (pre >= 3) theta = r.u64(); }
  c.eq("tuple.num-entries", n, sk.get_num_retained()); c.eq("tuple.theta", theta, sk.get_theta64());
  if (!c.ok("tuple.count-fits-image", r.ok && (uint64_t)n * 8 <= img.size() - r.p, "count " + str(n))) return;
  std::vector<std::pair<uint64_t, K> > e; for (uint32_t i = 0; i < n && r.ok; ++i) { uint64_t h = r.u64(); K s = IO::get(r); e.push_back(std::make_pair(h, s)); }
  c.ok("tuple.image-fully-consumed", r.ok && r.at_end(), "trailing or missing bytes: consumed " + str(r.p) + " of " + str(img.size()));
  std::vector<std::pair<uint64_t, K> > api; for (auto it = sk.begin(); it != sk.end(); ++it) api.push_back(std::make_pair((uint64_t)it->first, IO::key(it->second)));
  c.ok("tuple.entries-and-summaries-in-api-order", e == api, "entries in the image differ from iteration order");
  bool sorted = true; for (size_t i = 1; i < e.size(); ++i) if (e[i].first < e[i - 1].first) sorted = false;
  if (flags & 16) c.ok("tuple.ordered-entries-sorted", sorted, "ordered flag set but entries unsorted");
  for (size_t i = 0; i < e.size(); ++i) if (!(e[i].first != 0 && e[i].first < theta)) { c.fail("tuple.entries-below-theta", "entry " + mc::hex64(e[i].first)); break; }
}

// ---------------- array of doubles compact (Java ArrayOfDoublesCompactSketch layout) ----------------
// byte 0 preamble longs 1, 1 serial version 1, 2 family 9, 3 sketch type 3, 4 flags (bit2 empty, bit3 has entries, bit4 ordered), 5 number of
// values per entry, 6-7 seed hash; long 1: theta; if there are entries: count (4) + unused (4), all hashes, then all values (count x num values doubles).
inline void aod_any(const Bytes& img, Obj& live, mc::Ctx& c) {
  AodObj* o = dynamic_cast<AodObj*>(&live); if (!o) { c.fail("decoder-type", "unexpected object type"); return; }
  const AodObj::CA& sk = o->sk; Rd r(img);
  uint8_t pre = r.u8(), ver = r.u8(), famid = r.u8(), type = r.u8(), flags = r.u8(), nv = r.u8(); uint16_t sh = r.u16(); uint64_t theta = r.u64();
  if (!c.ok("aod.header-in-bounds", r.ok, "image shorter than 16 bytes")) return;
  c.eq("aod.preamble-longs", (int)pre, 1); c.eq("aod.serial-version", (int)ver, 1); c.eq("aod.family-id", (int)famid, 9); c.eq("aod.sketch-type", (int)type, 3);
  c.eq("aod.num-values", (int)nv, (int)sk.get_num_values()); c.eq("aod.seed-hash", sh, oracle::seed_hash(datasketches::DEFAULT_SEED)); c.eq("aod.seed-hash==api", sh, sk.get_seed_hash());
  c.ok("aod.flags-reserved-zero", (flags & 0xe3) == 0, "flags " + str((int)flags));
  c.eq("aod.flag-empty", (bool)(flags & 4), sk.is_empty()); c.eq("aod.flag-has-entries", (bool)(flags & 8), sk.get_num_retained() > 0); c.eq("aod.flag-ordered", (bool)(flags & 16), sk.is_ordered());
  c.eq("aod.theta", theta, sk.get_theta64());
  uint32_t n = 0; if (flags & 8) { n = r.u32(); r.u32(); }
  c.eq("aod.num-entries", n, sk.get_num_retained());
  if (!c.ok("aod.count-fits-image", r.ok && (uint64_t)n * 8 * (1 + (uint64_t)nv) <= img.size() - r.p, "count " + str(n))) return;
  std::vector<uint64_t> h(n); for (uint32_t i = 0; i < n; ++i) h[i] = r.u64();
  std::vector<double> v((size_t)n * nv); for (size_t i = 0; i < v.size(); ++i) v[i] = r.f64();
  c.ok("aod.image-fully-consumed", r.ok && r.at_end(), "trailing or missing bytes: consumed " + str(r.p) + " of " + str(img.size()));
  std::vector<uint64_t> ah; std::vector<double> av;
  for (auto it = sk.begin(); it != sk.end(); ++it) { ah.push_back(it->first); for (uint8_t j = 0; j < it->second.size(); ++j) av.push_back(it->second[j]); }
  c.ok("aod.hashes-in-api-order", h == ah, "hashes in the image differ from iteration order"); c.ok("aod.values-in-api-order", v == av, "values in the image differ from iteration order");
  if (flags & 16) c.ok("aod.ordered-entries-sorted", std::is_sorted(h.begin(), h.end()), "ordered flag set but entries unsorted");
  for (size_t i = 0; i < h.size(); ++i) if (!(h[i] != 0 && h[i] < theta)) { c.fail("aod.entries-below-theta", "entry " + mc::hex64(h[i])); break; }
}

// ---------------- HLL (byte offsets named in hll/include/HllUtil.hpp; Java hll PreambleUtil layouts) ----------------
// byte 0 preamble ints (LIST 2, SET 3, HLL 10), 1 serial version 1, 2 family 7, 3 lg_k, 4 lg of the coupon / aux array length in ints, 5 flags
// (bit2 empty, bit3 compact, bit4 out of order, bit5 started full size), 6 LIST: coupon count / HLL: cur_min, 7 mode: low 2 bits current mode
// (LIST 0, SET 1, HLL 2), next 2 bits target type (HLL_4 0, HLL_6 1, HLL_8 2).
// LIST: coupons from byte 8 (compact: count of them; updatable: 2^lg_arr ints). SET: count int at 8, coupons from 12 (compact: count; updatable: 2^lg_arr).
// HLL: HIP accumulator (8), KxQ0 (16), KxQ1 (24) doubles, number of registers at cur_min (32), aux count (36), registers from 40: HLL_8 one byte each;
// HLL_6 six bits each, little-endian bit order, 3k/4+1 bytes; HLL_4 a nibble each (even slot low nibble) holding value - cur_min, 15 = look in the
// aux map; then for HLL_4 the aux map as (slot | value << 26) ints (compact: aux count of them; updatable: the whole 2^lg_arr table).
inline void hll_any(const Bytes& img, Obj& live, mc::Ctx& c) {
  HllObj* o = dynamic_cast<HllObj*>(&live); if (!o) { c.fail("decoder-type", "unexpected object type"); return; }
  const Hll& sk = o->sk; const bool upd = o->updatable; Rd r(img);
  uint8_t pre = r.u8(), ver = r.u8(), famid = r.u8(), lgk = r.u8(), lgarr = r.u8(), flags = r.u8(), b6 = r.u8(), mb = r.u8();
  if (!c.ok("hll.header-in-bounds", r.ok, "image shorter than 8 bytes")) return;
  c.eq("hll.serial-version", (int)ver, 1); c.eq("hll.family-id", (int)famid, 7); c.eq("hll.lg-k", (int)lgk, (int)sk.get_lg_config_k());
  const int mode = mb & 3, tgt = (mb >> 2) & 3;
  c.eq("hll.cur-mode", mode, (int)sk.get_current_mode()); c.eq("hll.target-type", tgt, (int)sk.get_target_type()); c.ok("hll.mode-byte-high-bits-zero", (mb >> 4) == 0, "mode byte " + str((int)mb));
  c.eq("hll.flag-empty", (bool)(flags & 4), sk.is_empty()); c.eq("hll.flag-compact", (bool)(flags & 8), !upd); c.eq("hll.flag-out-of-order", (bool)(flags & 16), sk.is_out_of_order_flag());
  c.ok("hll.flag-little-endian", !(flags & 1), "big-endian flag set"); c.ok("hll.flags-reserved-zero", (flags & 0xc2) == 0, "flags " + str((int)flags));
  if (!c.ok("hll.lg-k-in-range", lgk >= 4 && lgk <= 21, str((int)lgk)) || !c.ok("hll.lg-arr-in-range", lgarr <= 26, str((int)lgarr))) return;
  std::vector<uint32_t> got;   // logical content: coupons, or (slot | value << 26) for every non-zero register
  if (mode == 0 || mode == 1) {
    c.eq("hll.preamble-ints", (int)pre, mode == 0 ? 2 : 3);
    uint32_t count = mode == 0 ? b6 : r.u32();
    const uint64_t ints = upd ? (uint64_t)1 << lgarr : count;
    if (!c.ok("hll.coupon-array-fits-image", r.ok && ints * 4 <= img.size() - r.p, "ints " + str(ints))) return;
    for (uint64_t i = 0; i < ints; ++i) { uint32_t cp = r.u32(); if (cp != 0) got.push_back(cp); else if (!upd) c.fail("hll.compact-coupons-non-zero", "an empty coupon in a compact image"); }
    c.eq("hll.coupon-count", (size_t)count, got.size());
    for (size_t i = 0; i < got.size(); ++i) if ((got[i] >> 26) == 0) { c.fail("hll.coupon-value-non-zero", "coupon " + str(got[i])); break; }
    const CouponList<A8>* cl = static_cast<const CouponList<A8>*>(sk.sketch_impl);
    c.eq("hll.coupon-count==api", count, cl->getCouponCount());
    std::vector<uint32_t> api; for (auto it = cl->begin(false); it != cl->end(); ++it) api.push_back(*it);
    std::sort(got.begin(), got.end()); std::sort(api.begin(), api.end());
    c.ok("hll.image-fully-consumed", r.ok && r.at_end(), "trailing or missing bytes: consumed " + str(r.p) + " of " + str(img.size()));
    c.ok("hll.coupons==api", got == api, "coupons in the image differ from the sketch's");
    c.rep.outcome(std::string("layout|hll|") + (mode == 0 ? "list" : "set") + (upd ? "|updatable" : "|compact"));
    return;
  }
  if (!c.ok("hll.mode-known", mode == 2, "mode " + str(mode)) || !c.ok("hll.type-known", tgt <= 2, "type " + str(tgt))) return;
  c.eq("hll.preamble-ints", (int)pre, 10);
  const uint8_t cur_min = b6; const double hip = r.f64(), kxq0 = r.f64(), kxq1 = r.f64(); const uint32_t nacm = r.u32(), auxc = r.u32();
  const uint32_t k = (uint32_t)1 << lgk; const uint32_t arr = tgt == 2 ? k : tgt == 1 ? (k * 3) / 4 + 1 : k / 2;
  if (!c.ok("hll.register-array-fits-image", r.ok && arr <= img.size() - r.p, "bytes " + str(arr))) return;
  const uint8_t* a = img.data() + r.p; r.skip(arr);
  std::vector<int> val(k, 0); std::vector<uint32_t> exc_slots;
  for (uint32_t i = 0; i < k; ++i) {
    if (tgt == 2) val[i] = a[i];
    else if (tgt == 1) { const uint32_t bit = i * 6; const uint32_t w = (uint32_t)a[bit >> 3] | ((uint32_t)a[(bit >> 3) + 1] << 8); val[i] = (w >> (bit & 7)) & 0x3f; }
    else { const int nib = (i & 1) ? a[i >> 1] >> 4 : a[i >> 1] & 0xf; if (nib == 15) { val[i] = -1; exc_slots.push_back(i); } else val[i] = nib + cur_min; }
  }
  if (tgt == 0) {
    static const uint8_t LG_AUX[] = {0, 2, 2, 2, 2, 2, 2, 3, 3, 3, 4, 4, 5, 5, 6, 7, 8, 9, 10, 11, 12, 13};
    const uint64_t ints = !upd ? auxc : (uint64_t)1 << (auxc > 0 ? lgarr : LG_AUX[lgk]);
    if (!c.ok("hll.aux-array-fits-image", r.ok && ints * 4 <= img.size() - r.p, "ints " + str(ints))) return;
    std::map<uint32_t, int> aux;
    for (uint64_t i = 0; i < ints; ++i) { uint32_t p = r.u32(); if (p == 0) { if (!upd) c.fail("hll.compact-aux-non-zero", "an empty pair in a compact aux list"); continue; }
      const uint32_t slot = p & 0x3ffffff; const int v = (int)(p >> 26); if (aux.count(slot)) c.fail("hll.aux-slot-unique", "slot " + str(slot) + " twice"); aux[slot] = v;
      c.ok("hll.aux-slot-in-range", slot < k, "slot " + str(slot)); c.ok("hll.aux-value-is-exception", v - (int)cur_min >= 15, "aux value " + str(v) + " cur_min " + str((int)cur_min)); }
    c.eq("hll.aux-count", (size_t)auxc, aux.size());
    c.eq("hll.aux-count==exception-nibbles", aux.size(), exc_slots.size());
    for (size_t i = 0; i < exc_slots.size(); ++i) { std::map<uint32_t, int>::iterator it = aux.find(exc_slots[i]); if (it == aux.end()) { c.fail("hll.aux-covers-exception-nibbles", "slot " + str(exc_slots[i])); val[exc_slots[i]] = 0; } else val[exc_slots[i]] = it->second; }
  } else c.eq("hll.aux-count", auxc, 0u);
  c.ok("hll.image-fully-consumed", r.ok && r.at_end(), "trailing or missing bytes: consumed " + str(r.p) + " of " + str(img.size()));
  int mn = 64; uint32_t at_min = 0; double s0 = 0, s1 = 0;
  for (uint32_t i = 0; i < k; ++i) { const int v = val[i]; if (v < mn) { mn = v; at_min = 0; } if (v == mn) ++at_min; if (v < 32) s0 += std::ldexp(1.0, -v); else s1 += std::ldexp(1.0, -v); if (v > 0) got.push_back(((uint32_t)v << 26) | i); }
  const HllArray<A8>* ha = static_cast<const HllArray<A8>*>(sk.sketch_impl);
  c.eq("hll.cur-min", (int)cur_min, (int)ha->getCurMin()); c.eq("hll.num-at-cur-min", nacm, ha->getNumAtCurMin());
  c.eq("hll.hip-accum", hip, ha->getHipAccum()); c.eq("hll.kxq0", kxq0, ha->getKxQ0()); c.eq("hll.kxq1", kxq1, ha->getKxQ1());
  // HLL_4 stores values relative to cur_min, the smallest register; HLL_6 and HLL_8 store absolute values: cur_min stays 0 and the count is that of the empty registers
  uint32_t zeros = 0; for (uint32_t i = 0; i < k; ++i) if (val[i] == 0) ++zeros;
  if (tgt == 0) { c.eq("hll.cur-min==min-register", (int)cur_min, mn); c.eq("hll.num-at-cur-min==registers", nacm, at_min); }
  else { c.eq("hll.cur-min==0-for-hll6-hll8", (int)cur_min, 0); c.eq("hll.num-at-cur-min==empty-registers", nacm, zeros); }
  c.near("hll.kxq0==registers", kxq0, s0, 1e-9); c.near("hll.kxq1==registers", kxq1, s1, 1e-9);
  if (!(flags & 16)) c.eq("hll.hip-accum==estimate", hip, sk.get_estimate());   // in-order HLL mode: the estimate is the HIP accumulator
  AuxHashMap<A8>* am = ha->getAuxHashMap(); c.eq("hll.aux-count==api", auxc, am ? am->getAuxCount() : 0u);
  std::vector<uint32_t> api; for (auto it = ha->begin(false); it != ha->end(); ++it) api.push_back(*it);
  std::sort(got.begin(), got.end()); std::sort(api.begin(), api.end());
  c.ok("hll.registers==api", got == api, "register values in the image differ from the sketch's");
  c.rep.outcome(std::string("layout|hll|hll") + str(tgt == 0 ? 4 : tgt == 1 ? 6 : 8) + (upd ? "|updatable" : "|compact") + (auxc ? "|aux" : "") + (cur_min ? "|curmin>0" : ""));
}

// ---------------- CPC preamble (Java cpc PreambleUtil: field offsets per format; the payload streams are table-compressed) ----------------
// byte 0 preamble ints, 1 serial version 1, 2 family 16, 3 lg_k, 4 first interesting column, 5 flags (bit1 compressed, bit2 HIP registers present,
// bit3 surprising-value table present, bit4 window present), 6-7 seed hash. Empty: 2 ints. Otherwise: number of coupons; if table AND window:
// number of table entries, then (if HIP) KxP and HIP accumulator doubles; table length in words (if table); window length in words (if window);
// if HIP and not both streams: KxP, HIP accumulator; then the window words, then the table words. Nothing else.
inline void cpc_any(const Bytes& img, Obj& live, mc::Ctx& c) {
  CpcObj* o = dynamic_cast<CpcObj*>(&live); if (!o) { c.fail("decoder-type", "unexpected object type"); return; }
  const Cpc& sk = o->sk; Rd r(img);
  uint8_t pre = r.u8(), ver = r.u8(), famid = r.u8(), lgk = r.u8(), fic = r.u8(), flags = r.u8(); uint16_t sh = r.u16();
  if (!c.ok("cpc.header-in-bounds", r.ok, "image shorter than 8 bytes")) return;
  c.eq("cpc.serial-version", (int)ver, 1); c.eq("cpc.family-id", (int)famid, 16); c.eq("cpc.lg-k", (int)lgk, (int)sk.get_lg_k());
  c.eq("cpc.first-interesting-column", (int)fic, (int)sk.first_interesting_column); c.eq("cpc.seed-hash", sh, oracle::seed_hash(datasketches::DEFAULT_SEED));
  const bool hip = flags & 4, table = flags & 8, window = flags & 16;
  c.ok("cpc.flag-compressed", (flags & 2) != 0, "compressed flag not set"); c.ok("cpc.flag-little-endian", !(flags & 1), "big-endian flag set"); c.ok("cpc.flags-reserved-zero", (flags & 0xe0) == 0, "flags " + str((int)flags));
  c.eq("cpc.flag-hip==not-merged", hip, !sk.was_merged);
  const uint32_t numc = sk.get_num_coupons(); c.eq("cpc.empty==no-coupons", sk.is_empty(), numc == 0);
  if (numc == 0) { c.eq("cpc.preamble-ints", (int)pre, 2); c.ok("cpc.empty-has-no-streams", !table && !window, "stream flags on an empty sketch"); c.ok("cpc.image-fully-consumed", r.at_end(), "size " + str(img.size())); c.rep.outcome("layout|cpc|empty"); return; }
  c.eq("cpc.preamble-ints", (int)pre, 3 + (hip ? 4 : 0) + (table ? 1 : 0) + (table && window ? 1 : 0) + (window ? 1 : 0));
  const uint32_t nc = r.u32(); c.eq("cpc.num-coupons", nc, numc);
  uint32_t nsv = nc, tw = 0, ww = 0; double kxp = 0, acc = 0;
  if (table && window) { nsv = r.u32(); if (hip) { kxp = r.f64(); acc = r.f64(); } }
  if (table) tw = r.u32(); if (window) ww = r.u32();
  if (hip && !(table && window)) { kxp = r.f64(); acc = r.f64(); }
  c.ok("cpc.preamble-ints-account-for-the-fields", r.ok && r.p == (size_t)pre * 4, "fields end at byte " + str(r.p) + ", preamble ints " + str((int)pre));
  c.ok("cpc.stream-lengths-account-for-image", r.ok && ((uint64_t)pre + tw + ww) * 4 == img.size(), "preamble " + str((int)pre) + " + table " + str(tw) + " + window " + str(ww) + " words, image " + str(img.size()) + " bytes");
  if (table) c.ok("cpc.table-stream-non-empty", tw > 0, "table flag with zero words"); if (window) c.ok("cpc.window-stream-non-empty", ww > 0, "window flag with zero words");
  // flavour follows from (lg_k, coupons): sparse / hybrid images carry only the table (all coupons), pinned / sliding carry the window and the table if it has entries
  const uint64_t kk = (uint64_t)1 << lgk; const bool windowed = (uint64_t)numc * 2 >= kk;
  c.eq("cpc.flag-window==pinned-or-sliding", window, windowed);
  if (!windowed) c.ok("cpc.flag-table-in-sparse-hybrid", table, "a sparse or hybrid image must carry its coupons in the table");
  else { c.eq("cpc.num-table-entries", table ? nsv : 0u, (uint32_t)sk.surprising_value_table.get_num_items()); }
  if (hip) { c.eq("cpc.kxp", kxp, sk.kxp); c.eq("cpc.hip-accum", acc, sk.hip_est_accum); c.eq("cpc.hip-accum==estimate", acc, sk.get_estimate()); }
  c.rep.outcome(std::string("layout|cpc|") + (windowed ? "windowed" : "sparse-hybrid") + (table ? "|table" : "") + (hip ? "|hip" : "|merged"));
}

// ---------------- frequent items (Java ItemsSketch layout; constants in frequent_items_sketch.hpp) ----------------
// byte 0 preamble longs (1 empty, 4 otherwise), 1 serial version 1, 2 family 10, 3 lg max map size, 4 lg current map size, 5 flags (empty: bit 2, and
// for historical reasons also bit 0), 6-7 unused; long 1: active items (4) + unused (4); long 2: total weight; long 3: offset; then the active
// counters' weights (8 bytes each), then their items in the same order.
template<class T> void fi_any(const Bytes& img, Obj& live, mc::Ctx& c) {
  typedef FiObj<T> O; typedef ItemIO<T> IO; typedef typename IO::K K;
  O* o = dynamic_cast<O*>(&live); if (!o) { c.fail("decoder-type", "unexpected object type"); return; }
  const typename O::Sk& sk = o->sk; Rd r(img);
  uint8_t pre = r.u8(), ver = r.u8(), famid = r.u8(), lgmax = r.u8(), lgcur = r.u8(), flags = r.u8(); r.u16();
  if (!c.ok("fi.header-in-bounds", r.ok, "image shorter than 8 bytes")) return;
  c.eq("fi.serial-version", (int)ver, 1); c.eq("fi.family-id", (int)famid, 10);
  c.eq("fi.lg-max-map-size", (int)lgmax, (int)sk.map.get_lg_max_size()); c.eq("fi.lg-cur-map-size", (int)lgcur, (int)sk.map.get_lg_cur_size());
  c.near("fi.lg-max-map-size==epsilon", sk.get_epsilon(), 3.5 / std::ldexp(1.0, lgmax), 1e-12);
  const bool empty = flags & 4;
  c.eq("fi.flag-empty", empty, sk.is_empty()); c.eq("fi.flag-empty-both-bits", (bool)(flags & 1), empty); c.ok("fi.flags-reserved-zero", (flags & 0xfa) == 0, "flags " + str((int)flags));
  c.eq("fi.preamble-longs", (int)pre, empty ? 1 : 4);
  if (empty) { c.ok("fi.empty-image-is-8-bytes", r.at_end(), "size " + str(img.size())); c.eq("fi.total-weight", (uint64_t)0, (uint64_t)sk.get_total_weight()); c.eq("fi.active-items", 0u, (uint32_t)sk.get_num_active_items()); return; }
  uint32_t active = r.u32(); r.u32(); uint64_t total = r.u64(), offset = r.u64();
  c.eq("fi.active-items", active, (uint32_t)sk.get_num_active_items()); c.eq("fi.total-weight", total, (uint64_t)sk.get_total_weight()); c.eq("fi.offset", offset, (uint64_t)sk.get_maximum_error());
  if (!c.ok("fi.count-fits-image", r.ok && (uint64_t)active * 8 <= img.size() - r.p, "active " + str(active))) return;
  std::vector<uint64_t> w(active); for (uint32_t i = 0; i < active; ++i) w[i] = r.u64();
  std::vector<std::pair<K, uint64_t> > got; for (uint32_t i = 0; i < active && r.ok; ++i) got.push_back(std::make_pair(IO::get(r), w[i]));
  c.ok("fi.image-fully-consumed", r.ok && r.at_end(), "trailing or missing bytes: consumed " + str(r.p) + " of " + str(img.size()));
  if (!r.ok) return;
  uint64_t wsum = 0;
  for (size_t i = 0; i < got.size(); ++i) { T item = IO::make(got[i].first); wsum += got[i].second;
    c.eq("fi.counter==lower-bound", got[i].second, (uint64_t)sk.get_lower_bound(item)); c.eq("fi.counter+offset==upper-bound", got[i].second + offset, (uint64_t)sk.get_upper_bound(item)); c.ok("fi.counter-positive", got[i].second > 0, "zero counter"); }
  c.ok("fi.counters<=total-weight", wsum <= total, "counters sum " + str(wsum) + " total " + str(total));
  std::vector<std::pair<K, uint64_t> > api; for (auto it = sk.map.begin(); it != sk.map.end(); ++it) api.push_back(std::make_pair(IO::key((*it).first), (uint64_t)(*it).second));
  std::sort(got.begin(), got.end()); std::sort(api.begin(), api.end());
  c.ok("fi.counters==api", got == api, "counters in the image differ from the sketch's");
  for (size_t i = 1; i < got.size(); ++i) if (got[i].first == got[i - 1].first) { c.fail("fi.items-unique", "item " + kstr(got[i].first) + " twice"); break; }
}

// ---------------- count-min (count_min.hpp layout table and constants; Java CountMinSketch) ----------------
// long 0: byte 0 preamble longs (named constants: PREAMBLE_LONGS_SHORT 2 "empty", PREAMBLE_LONGS_FULL 3 "not empty: third long for the total weight"),
// 1 serial version 1, 2 family 18, 3 flags (bit0 empty), 4-7 unused; long 1: number of buckets (4), number of hashes (1), seed hash (2), unused (1);
// long 2: total weight; then num_hashes x num_buckets cells of 8 bytes, row by row.
inline void cm_any(const Bytes& img, Obj& live, mc::Ctx& c) {
  CmObj* o = dynamic_cast<CmObj*>(&live); if (!o) { c.fail("decoder-type", "unexpected object type"); return; }
  const CmObj::Sk& sk = o->sk; Rd r(img);
  uint8_t pre = r.u8(), ver = r.u8(), famid = r.u8(), flags = r.u8(); r.u32(); uint32_t nb = r.u32(); uint8_t nh = r.u8(); uint16_t sh = r.u16(); r.u8();
  if (!c.ok("cm.header-in-bounds", r.ok, "image shorter than 16 bytes")) return;
  c.eq("cm.serial-version", (int)ver, 1); c.eq("cm.family-id", (int)famid, 18);
  const bool empty = flags & 1; c.eq("cm.flag-empty", empty, sk.is_empty()); c.ok("cm.flags-reserved-zero", (flags & 0xfe) == 0, "flags " + str((int)flags));
  // the header comments disagree with each other about byte 0 ("1 iff empty"; PREAMBLE_LONGS_FULL = 3 for non-empty); the exhaustive list of valid
  // headers in check_header_validity and the Java CountMinSketch (Family COUNTMIN: 2..2 preamble longs) say 2 for every image, followed by the total weight
  c.eq("cm.preamble-longs", (int)pre, 2);
  c.eq("cm.num-buckets", nb, (uint32_t)sk.get_num_buckets()); c.eq("cm.num-hashes", (int)nh, (int)sk.get_num_hashes());
  c.eq("cm.seed-hash", sh, oracle::seed_hash(sk.get_seed()));
  if (empty) { c.ok("cm.empty-image-is-16-bytes", r.at_end(), "size " + str(img.size())); c.eq("cm.total-weight", (uint64_t)0, (uint64_t)sk.get_total_weight()); return; }
  uint64_t total = r.u64(); c.eq("cm.total-weight", total, (uint64_t)sk.get_total_weight());
  const uint64_t cells = (uint64_t)nb * nh;
  if (!c.ok("cm.cells-fit-image", r.ok && cells * 8 <= img.size() - r.p, "cells " + str(cells))) return;
  std::vector<uint64_t> got((size_t)cells); for (size_t i = 0; i < got.size(); ++i) got[i] = r.u64();
  c.ok("cm.image-fully-consumed", r.ok && r.at_end(), "trailing or missing bytes: consumed " + str(r.p) + " of " + str(img.size()));
  std::vector<uint64_t> api; for (auto it = sk.begin(); it != sk.end(); ++it) api.push_back((uint64_t)*it);
  c.ok("cm.cells==api", got == api, "cells in the image differ from the sketch's");
  for (uint8_t h = 0; h < nh; ++h) { uint64_t row = 0; for (uint32_t b = 0; b < nb; ++b) row += got[(size_t)h * nb + b]; if (row != total) { c.fail("cm.row-sum==total-weight", "row " + str((int)h) + " sums to " + str(row) + ", total " + str(total)); break; } }
}

// ---------------- VarOpt sketch and union (layout comments in var_opt_sketch_impl.hpp / var_opt_union_impl.hpp) ----------------
// sketch: byte 0 preamble longs in the low 6 bits (1 empty, 3 warm-up, 4 sampling) and the resize factor (lg) in the top 2, 1 serial version 2,
// 2 family 13, 3 flags (bit2 empty, bit7 gadget), 4-7 k; long 1: N; long 2: H count (4), R count (4); long 3 (sampling): total weight of R;
// then H weights (doubles), for a gadget the H marks packed 8 per byte (least significant bit first), then the H items and the R items.
template<class T> struct VoImg { uint8_t pre, rf, ver, fam, flags; uint32_t k, h, r; uint64_t n; double wr; std::vector<double> w; std::vector<bool> marks; std::vector<typename ItemIO<T>::K> items; };
template<class T> bool varopt_parse(Rd& r, VoImg<T>& v, mc::Ctx& c, const std::string& p) {
  uint8_t b0 = r.u8(); v.pre = b0 & 0x3f; v.rf = b0 >> 6; v.ver = r.u8(); v.fam = r.u8(); v.flags = r.u8(); v.k = r.u32(); v.h = v.r = 0; v.n = 0; v.wr = 0;
  if (!c.ok(p + "header-in-bounds", r.ok, "image shorter than 8 bytes")) return false;
  c.eq(p + "serial-version", (int)v.ver, 2); c.eq(p + "family-id", (int)v.fam, 13); c.ok(p + "flags-reserved-zero", (v.flags & 0x7b) == 0, "flags " + str((int)v.flags));
  if (v.flags & 4) { c.eq(p + "preamble-longs", (int)v.pre, 1); return true; }
  v.n = r.u64(); v.h = r.u32(); v.r = r.u32();
  if (!c.ok(p + "preamble-longs-3-or-4", v.pre == 3 || v.pre == 4, str((int)v.pre))) return false;
  if (v.pre == 4) v.wr = r.f64();
  if (!c.ok(p + "counts-fit-image", r.ok && (uint64_t)v.h * 8 <= r.b.size() - r.p && (uint64_t)v.r <= r.b.size(), "h " + str(v.h) + " r " + str(v.r))) return false;
  for (uint32_t i = 0; i < v.h; ++i) v.w.push_back(r.f64());
  if (v.flags & 128) { uint8_t cur = 0; for (uint32_t i = 0; i < v.h; ++i) { if ((i & 7) == 0) cur = r.u8(); v.marks.push_back((cur >> (i & 7)) & 1); } if (v.h & 7) c.ok(p + "mark-padding-bits-zero", (cur >> (v.h & 7)) == 0, "bits after the last mark are set"); }
  for (uint32_t i = 0; i < v.h + v.r && r.ok; ++i) v.items.push_back(ItemIO<T>::get(r));
  return r.ok;
}
template<class T, class Sk> void varopt_compare(const VoImg<T>& v, const Sk& sk, mc::Ctx& c, const std::string& p) {
  typedef ItemIO<T> IO;
  c.eq(p + "k", v.k, (uint32_t)sk.k_); c.eq(p + "resize-factor", (int)v.rf, (int)sk.rf_);
  const bool empty = v.flags & 4; c.eq(p + "flag-empty", empty, sk.h_ == 0 && sk.r_ == 0); c.eq(p + "flag-gadget", (bool)(v.flags & 128), sk.marks_ != nullptr);
  if (empty) return;
  c.eq(p + "n", v.n, (uint64_t)sk.n_); c.eq(p + "h-count", v.h, (uint32_t)sk.h_); c.eq(p + "r-count", v.r, (uint32_t)sk.r_);
  c.eq(p + "preamble-longs", (int)v.pre, v.r > 0 ? 4 : 3); if (v.r > 0) c.eq(p + "total-weight-r", v.wr, sk.total_wt_r_);
  c.ok(p + "h+r<=k", (uint64_t)v.h + v.r <= v.k, "h " + str(v.h) + " r " + str(v.r) + " k " + str(v.k)); c.ok(p + "h+r<=n", (uint64_t)v.h + v.r <= v.n, "n " + str(v.n));
  if (v.h != sk.h_ || v.r != sk.r_ || v.items.size() != (size_t)v.h + v.r) return;
  bool same = true, marks = true; for (uint32_t i = 0; i < v.h; ++i) { if (v.w[i] != sk.weights_[i] || !(v.items[i] == IO::key(sk.data_[i]))) same = false; if (!v.marks.empty() && v.marks[i] != (bool)sk.marks_[i]) marks = false; if (!(v.w[i] > 0)) c.fail(p + "h-weight-positive", str(v.w[i])); }
  for (uint32_t j = 0; j < v.r; ++j) if (!(v.items[v.h + j] == IO::key(sk.data_[sk.h_ + 1 + j]))) same = false;
  c.ok(p + "items-and-weights==sketch", same, "H weights / items or R items differ from the sketch's arrays"); c.ok(p + "marks==sketch", marks, "marks differ");
}
template<class T> void varopt_any(const Bytes& img, Obj& live, mc::Ctx& c) {
  typedef VoObj<T> O; typedef ItemIO<T> IO; typedef typename IO::K K;
  O* o = dynamic_cast<O*>(&live); if (!o) { c.fail("decoder-type", "unexpected object type"); return; }
  const typename O::Sk& sk = o->sk; Rd r(img); VoImg<T> v;
  const bool ok = varopt_parse<T>(r, v, c, "varopt.");
  c.ok("varopt.image-fully-consumed", ok && r.at_end(), "trailing or missing bytes: consumed " + str(r.p) + " of " + str(img.size()));
  if (!ok) return;
  varopt_compare<T>(v, sk, c, "varopt.");
  c.ok("varopt.flag-gadget-clear", !(v.flags & 128), "a plain sketch is not a gadget");
  c.eq("varopt.k==api", v.k, (uint32_t)sk.get_k()); c.eq("varopt.n==api", v.n, (uint64_t)sk.get_n()); c.eq("varopt.flag-empty==api", (bool)(v.flags & 4), sk.is_empty()); c.eq("varopt.samples==api", v.h + v.r, (uint32_t)sk.get_num_samples());
  // what the public iterator reports: the H items with their own weights, then the R items, each with weight total_weight_r / r
  std::vector<std::pair<K, double> > got, api;
  for (uint32_t i = 0; i < v.h && i < v.items.size(); ++i) got.push_back(std::make_pair(v.items[i], v.w[i]));
  for (uint32_t j = 0; j < v.r && v.h + j < v.items.size(); ++j) got.push_back(std::make_pair(v.items[v.h + j], v.wr / v.r));
  for (auto it = sk.begin(); it != sk.end(); ++it) api.push_back(std::make_pair(IO::key((*it).first), (double)(*it).second));
  c.ok("varopt.items-and-weights==iterator", got == api, "H items with weights then R items with weight tau differ from iteration");
  c.rep.outcome(std::string("layout|varopt|") + ((v.flags & 4) ? "empty" : v.r ? (v.h ? "sampling|h+r" : "sampling|r-only") : "warmup"));
}
// union: byte 0 preamble longs (1 empty, 4 otherwise), 1 serial version 2, 2 family 14, 3 flags (bit2 empty), 4-7 max k; long 1: N; long 2: outer tau
// numerator (double); long 3: outer tau denominator (8); then the gadget, a complete VarOpt sketch image.
inline void varopt_union_any(const Bytes& img, Obj& live, mc::Ctx& c) {
  VuObj* o = dynamic_cast<VuObj*>(&live); if (!o) { c.fail("decoder-type", "unexpected object type"); return; }
  const VuObj::Un& un = o->un; Rd r(img);
  uint8_t pre = r.u8(), ver = r.u8(), famid = r.u8(), flags = r.u8(); uint32_t maxk = r.u32();
  if (!c.ok("vou.header-in-bounds", r.ok, "image shorter than 8 bytes")) return;
  c.eq("vou.serial-version", (int)ver, 2); c.eq("vou.family-id", (int)famid, 14); c.eq("vou.max-k", maxk, (uint32_t)un.max_k_); c.ok("vou.flags-reserved-zero", (flags & 0xfb) == 0, "flags " + str((int)flags));
  const bool empty = flags & 4; c.eq("vou.flag-empty", empty, un.n_ == 0); c.eq("vou.preamble-longs", (int)pre, empty ? 1 : 4);
  if (empty) { c.ok("vou.empty-image-is-8-bytes", r.at_end(), "size " + str(img.size())); c.rep.outcome("layout|varopt-union|empty"); return; }
  uint64_t n = r.u64(); double num = r.f64(); uint64_t den = r.u64();
  c.eq("vou.n", n, (uint64_t)un.n_); c.eq("vou.outer-tau-numerator", num, un.outer_tau_numer_); c.eq("vou.outer-tau-denominator", den, (uint64_t)un.outer_tau_denom_);
  c.eq("vou.outer-tau==api", den == 0 ? 0.0 : num / (double)den, un.get_outer_tau());
  VoImg<int64_t> v; const bool ok = varopt_parse<int64_t>(r, v, c, "vou.gadget-");
  c.ok("vou.image-fully-consumed", ok && r.at_end(), "trailing or missing bytes: consumed " + str(r.p) + " of " + str(img.size()));
  if (!ok) return;
  varopt_compare<int64_t>(v, un.gadget_, c, "vou.gadget-");
  c.ok("vou.gadget-flag-set", (v.flags & 128) || (v.flags & 4), "the union's inner sketch must be flagged as a gadget");
  c.eq("vou.gadget-k==max-k", v.k, maxk);
  c.rep.outcome(std::string("layout|varopt-union|") + ((v.flags & 4) ? "gadget-empty" : v.r ? "gadget-sampling" : "gadget-warmup") + (den ? "|outer-tau" : ""));
}

// ---------------- EBPPS (layout comment in ebpps_sketch_impl.hpp) ----------------
// byte 0 preamble longs (1 empty, 5 otherwise), 1 serial version 1, 2 family 19, 3 flags (bit2 empty, bit3 has partial item), 4-7 k; long 1: N;
// long 2: cumulative weight; long 3: max item weight; long 4: rho; long 5: C; then floor(C) items and, if flagged, the partial item.
template<class T> void ebpps_any(const Bytes& img, Obj& live, mc::Ctx& c) {
  typedef EbObj<T> O; typedef ItemIO<T> IO; typedef typename IO::K K;
  O* o = dynamic_cast<O*>(&live); if (!o) { c.fail("decoder-type", "unexpected object type"); return; }
  const typename O::Sk& sk = o->sk; Rd r(img);
  uint8_t pre = r.u8(), ver = r.u8(), famid = r.u8(), flags = r.u8(); uint32_t k = r.u32();
  if (!c.ok("ebpps.header-in-bounds", r.ok, "image shorter than 8 bytes")) return;
  c.eq("ebpps.serial-version", (int)ver, 1); c.eq("ebpps.family-id", (int)famid, 19); c.eq("ebpps.k", k, (uint32_t)sk.get_k()); c.ok("ebpps.flags-reserved-zero", (flags & 0xf3) == 0, "flags " + str((int)flags));
  const bool empty = flags & 4, partial = flags & 8; c.eq("ebpps.flag-empty", empty, sk.is_empty()); c.eq("ebpps.preamble-longs", (int)pre, empty ? 1 : 5);
  if (empty) { c.ok("ebpps.empty-image-is-8-bytes", r.at_end(), "size " + str(img.size())); c.ok("ebpps.empty-has-no-partial-item", !partial, "partial flag on an empty sketch"); return; }
  uint64_t n = r.u64(); double cw = r.f64(), wmax = r.f64(), rho = r.f64(), cc = r.f64();
  c.eq("ebpps.n", n, (uint64_t)sk.get_n()); c.eq("ebpps.cumulative-weight", cw, sk.get_cumulative_weight()); c.eq("ebpps.max-weight", wmax, sk.wt_max_); c.eq("ebpps.rho", rho, sk.rho_); c.eq("ebpps.c", cc, sk.get_c());
  if (!c.ok("ebpps.c-in-range", r.ok && cc >= 0 && cc <= (double)k + 1e-9, "c " + str(cc))) return;
  const uint32_t full = (uint32_t)std::floor(cc);
  c.eq("ebpps.flag-partial==fraction-of-c", partial, cc != std::floor(cc));
  std::vector<K> got; for (uint32_t i = 0; i < full + (partial ? 1u : 0u) && r.ok; ++i) got.push_back(IO::get(r));
  c.ok("ebpps.image-fully-consumed", r.ok && r.at_end(), "trailing or missing bytes: consumed " + str(r.p) + " of " + str(img.size()));
  std::vector<K> api; for (size_t i = 0; i < sk.sample_.data_.size(); ++i) api.push_back(IO::key(sk.sample_.data_[i])); if (sk.sample_.partial_item_) api.push_back(IO::key(*sk.sample_.partial_item_));
  c.eq("ebpps.flag-partial==sketch", partial, (bool)sk.sample_.partial_item_);
  c.ok("ebpps.items==sketch", got == api, "full items then the partial item differ from the sketch's sample");
  // public iteration: with a draw below frac(C) the partial item is included, so the iterator must then report exactly the image's items
  { mc::Tape t; t.raw_fill = mc::raw_from_unit(0.0); mc::TapeScope sc(t); std::vector<K> it; for (auto i = sk.begin(); i != sk.end(); ++i) it.push_back(IO::key(*i)); c.ok("ebpps.items==iterator", it == got, "iteration (partial item included) differs from the image's items: " + str(it.size()) + " vs " + str(got.size())); }
  c.rep.outcome(std::string("layout|ebpps|") + (partial ? "partial" : "whole"));
}

// ---------------- t-digest (Java TDigestDouble layout; constants in tdigest.hpp) ----------------
// byte 0 preamble longs (1 empty or single value, 2 otherwise), 1 serial version 1, 2 sketch type 20, 3-4 k, 5 flags (bit0 empty, bit1 single value,
// bit2 reverse merge), 6-7 unused; single value: the value; otherwise long 1: number of centroids (4), number of buffered values (4); min, max;
// the centroids (mean, weight: double + 8-byte count, or float + 4-byte count), then the buffered values.
template<class T> struct TdW; template<> struct TdW<double> { static uint64_t get(Rd& r) { return r.u64(); } }; template<> struct TdW<float> { static uint64_t get(Rd& r) { return r.u32(); } };
template<class T> void tdigest_any(const Bytes& img, Obj& live, mc::Ctx& c) {
  typedef TdObj<T> O; typedef ItemIO<T> IO;
  O* o = dynamic_cast<O*>(&live); if (!o) { c.fail("decoder-type", "unexpected object type"); return; }
  const typename O::Sk& sk = o->sk; Rd r(img);
  uint8_t pre = r.u8(), ver = r.u8(), type = r.u8(); uint16_t k = r.u16(); uint8_t flags = r.u8(); r.u16();
  if (!c.ok("tdigest.header-in-bounds", r.ok, "image shorter than 8 bytes")) return;
  c.eq("tdigest.serial-version", (int)ver, 1); c.eq("tdigest.sketch-type", (int)type, 20); c.eq("tdigest.k", (int)k, (int)sk.get_k()); c.ok("tdigest.flags-reserved-zero", (flags & 0xf8) == 0, "flags " + str((int)flags));
  const bool empty = flags & 1, single = flags & 2; const uint64_t W = sk.get_total_weight();
  c.eq("tdigest.flag-empty", empty, sk.is_empty()); c.eq("tdigest.flag-single-value", single, W == 1); c.eq("tdigest.flag-reverse-merge", (bool)(flags & 4), (bool)sk.reverse_merge_);
  c.eq("tdigest.preamble-longs", (int)pre, (empty || single) ? 1 : 2);
  if (empty) { c.ok("tdigest.empty-image-is-8-bytes", r.at_end(), "size " + str(img.size())); c.eq("tdigest.total-weight", (uint64_t)0, W); c.rep.outcome("layout|tdigest|empty"); return; }
  if (single) { T v = IO::get(r); c.ok("tdigest.image-fully-consumed", r.ok && r.at_end(), "single value image of " + str(img.size()) + " bytes"); c.eq("tdigest.single-value==min", v, sk.get_min_value()); c.eq("tdigest.single-value==max", v, sk.get_max_value()); c.rep.outcome("layout|tdigest|single"); return; }
  uint32_t nc = r.u32(), nbuf = r.u32(); T mn = IO::get(r), mx = IO::get(r);
  c.eq("tdigest.min", mn, sk.get_min_value()); c.eq("tdigest.max", mx, sk.get_max_value());
  c.eq("tdigest.num-centroids", nc, (uint32_t)sk.centroids_.size()); c.eq("tdigest.num-buffered", nbuf, (uint32_t)sk.buffer_.size());
  if (!o->with_buffer) c.eq("tdigest.no-buffer-when-not-requested", nbuf, 0u);
  if (!c.ok("tdigest.counts-fit-image", r.ok && ((uint64_t)nc + nbuf) * sizeof(T) <= img.size() - r.p, "centroids " + str(nc) + " buffered " + str(nbuf))) return;
  std::vector<std::pair<T, uint64_t> > cen; uint64_t wsum = 0; bool sorted = true, inrange = true;
  for (uint32_t i = 0; i < nc; ++i) { T m = IO::get(r); uint64_t w = TdW<T>::get(r); if (i && m < cen.back().first) sorted = false; if (!(m >= mn && m <= mx) || w == 0) inrange = false; cen.push_back(std::make_pair(m, w)); wsum += w; }
  std::vector<T> buf; for (uint32_t i = 0; i < nbuf; ++i) { T v = IO::get(r); if (!(v >= mn && v <= mx)) inrange = false; buf.push_back(v); }
  c.ok("tdigest.image-fully-consumed", r.ok && r.at_end(), "trailing or missing bytes: consumed " + str(r.p) + " of " + str(img.size()));
  c.eq("tdigest.total-weight", wsum + nbuf, W); c.ok("tdigest.centroids-sorted-by-mean", sorted, "centroid means decrease"); c.ok("tdigest.values-within-min-max", inrange, "a centroid or buffered value outside [min, max] or a zero weight");
  std::vector<std::pair<T, uint64_t> > acen; for (size_t i = 0; i < sk.centroids_.size(); ++i) acen.push_back(std::make_pair(sk.centroids_[i].get_mean(), (uint64_t)sk.centroids_[i].get_weight()));
  std::vector<T> abuf(sk.buffer_.begin(), sk.buffer_.end());
  c.ok("tdigest.centroids==sketch", cen == acen, "centroids differ"); c.ok("tdigest.buffer==sketch", buf == abuf, "buffered values differ");
  c.rep.outcome(std::string("layout|tdigest|") + (nc ? "centroids" : "no-centroids") + (nbuf ? "+buffer" : ""));
}

// ---------------- Bloom filter (layout comment in bloom_filter_impl.hpp) ----------------
// byte 0 preamble longs (3 empty, 4 otherwise), 1 serial version 1, 2 family 21, 3 flags (bit2 empty), 4-5 number of hashes, 6-7 unused; long 1: hash seed;
// long 2: bit array length in longs (4) + unused (4); long 3 (not empty): number of bits set; then the bit array.
inline void bloom_any(const Bytes& img, Obj& live, mc::Ctx& c) {
  BloomObj* o = dynamic_cast<BloomObj*>(&live); if (!o) { c.fail("decoder-type", "unexpected object type"); return; }
  Bloom& bf = o->bf; Rd r(img);
  uint8_t pre = r.u8(), ver = r.u8(), famid = r.u8(), flags = r.u8(); uint16_t nh = r.u16(); r.u16(); uint64_t seed = r.u64(); uint32_t longs = r.u32(); r.u32();
  if (!c.ok("bloom.header-in-bounds", r.ok, "image shorter than 24 bytes")) return;
  c.eq("bloom.serial-version", (int)ver, 1); c.eq("bloom.family-id", (int)famid, 21); c.eq("bloom.num-hashes", (int)nh, (int)bf.get_num_hashes()); c.eq("bloom.seed", seed, (uint64_t)bf.get_seed());
  c.eq("bloom.capacity", (uint64_t)longs * 64, (uint64_t)bf.get_capacity()); c.ok("bloom.flags-reserved-zero", (flags & 0xfb) == 0, "flags " + str((int)flags));
  const bool empty = flags & 4; c.eq("bloom.flag-empty", empty, bf.is_empty()); c.eq("bloom.preamble-longs", (int)pre, empty ? 3 : 4);
  if (empty) { c.ok("bloom.empty-image-is-24-bytes", r.at_end(), "size " + str(img.size())); c.eq("bloom.bits-used", (uint64_t)0, (uint64_t)bf.get_bits_used()); c.rep.outcome("layout|bloom|empty"); return; }
  uint64_t nset = r.u64();
  if (!c.ok("bloom.bit-array-fits-image", r.ok && (uint64_t)longs * 8 <= img.size() - r.p, "longs " + str(longs))) return;
  const uint8_t* bits = img.data() + r.p; uint64_t pop = 0; for (size_t i = 0; i < (size_t)longs * 8; ++i) pop += (uint64_t)__builtin_popcount(bits[i]);
  r.skip((size_t)longs * 8);
  c.ok("bloom.image-fully-consumed", r.ok && r.at_end(), "trailing or missing bytes: consumed " + str(r.p) + " of " + str(img.size()));
  // the count field may hold the documented "dirty" marker (all ones: DIRTY_BITS_VALUE, Java -1): the reader then recounts the bit array
  const bool dirty = nset == ~(uint64_t)0;
  if (!dirty) { c.eq("bloom.num-bits-set", nset, (uint64_t)bf.get_bits_used()); c.eq("bloom.num-bits-set==popcount", nset, pop); }
  c.eq("bloom.popcount==bits-used", pop, (uint64_t)bf.get_bits_used()); c.ok("bloom.non-empty-image-has-bits", pop > 0, "not flagged empty but no bit is set");
  c.ok("bloom.bit-array==filter", bf.bit_array_ != nullptr && memcmp(bits, bf.bit_array_, (size_t)longs * 8) == 0, "the bit array in the image differs from the filter's");
  c.rep.outcome(std::string(pop == (uint64_t)longs * 64 ? "layout|bloom|full" : "layout|bloom|partial") + (dirty ? "|dirty-count" : "|count"));
}

// ---------------- density (layout comment in density_sketch_impl.hpp) ----------------
// byte 0 preamble ints (3 empty, 6 otherwise), 1 serial version 1, 2 family 19, 3 flags (bit2 empty), 4-5 k, 6-7 unused, 8-11 dimensions; not empty:
// 12-15 retained points, 16-23 N; then per level: the level's size (4) and that many points of `dimensions` doubles; a point of level h weighs 2^h.
inline void density_any(const Bytes& img, Obj& live, mc::Ctx& c) {
  DensObj* o = dynamic_cast<DensObj*>(&live); if (!o) { c.fail("decoder-type", "unexpected object type"); return; }
  const DensObj::Sk& sk = o->sk; Rd r(img);
  uint8_t pre = r.u8(), ver = r.u8(), famid = r.u8(), flags = r.u8(); uint16_t k = r.u16(); r.u16(); uint32_t dim = r.u32();
  if (!c.ok("density.header-in-bounds", r.ok, "image shorter than 12 bytes")) return;
  c.eq("density.serial-version", (int)ver, 1); c.eq("density.family-id", (int)famid, 19); c.eq("density.k", (int)k, (int)sk.get_k()); c.eq("density.dim", dim, (uint32_t)sk.get_dim()); c.ok("density.flags-reserved-zero", (flags & 0xfb) == 0, "flags " + str((int)flags));
  const bool empty = flags & 4; c.eq("density.flag-empty", empty, sk.is_empty()); c.eq("density.preamble-ints", (int)pre, empty ? 3 : 6);
  if (empty) { c.ok("density.empty-image-is-12-bytes", r.at_end(), "size " + str(img.size())); return; }
  uint32_t ret = r.u32(); uint64_t n = r.u64();
  c.eq("density.num-retained", ret, (uint32_t)sk.get_num_retained()); c.eq("density.n", n, (uint64_t)sk.get_n());
  if (!c.ok("density.dim-positive", r.ok && dim > 0, "dim " + str(dim))) return;
  std::vector<std::pair<std::vector<double>, uint64_t> > got; size_t level = 0;
  while (r.ok && !r.at_end()) {
    uint32_t sz = r.u32(); if (!c.ok("density.level-fits-image", r.ok && (uint64_t)sz * dim * 8 <= img.size() - r.p, "level " + str(level) + " size " + str(sz))) return;
    for (uint32_t i = 0; i < sz; ++i) { std::vector<double> p(dim); for (uint32_t d = 0; d < dim; ++d) p[d] = r.f64(); got.push_back(std::make_pair(p, (uint64_t)1 << level)); }
    ++level; if (!c.ok("density.level-count-sane", level <= 64, "more than 64 levels")) return;
  }
  c.ok("density.image-fully-consumed", r.ok && r.at_end(), "trailing or missing bytes");
  c.eq("density.levels", level, (size_t)sk.levels_.size()); c.eq("density.points==num-retained", got.size(), (size_t)ret);   // (the compaction keeps a discrepancy-chosen subset, not exactly half: the weights need not sum to N)
  std::vector<std::pair<std::vector<double>, uint64_t> > api; for (auto it = sk.begin(); it != sk.end(); ++it) api.push_back(std::make_pair(std::vector<double>((*it).first.begin(), (*it).first.end()), (uint64_t)(*it).second));
  c.ok("density.point-order==iterator", got == api, "points in image order differ from iteration order");
  std::sort(got.begin(), got.end()); std::sort(api.begin(), api.end());
  c.ok("density.points-and-weights==api", got == api, "points decoded from the image differ from the iterator");
}

//@@MORE@@

inline void register_more() {
  table()["kll<string>"] = kll_any<std::string>; table()["kll<item>"] = kll_any<mc::Item>;
  table()["req<float>"] = req_any<float>; table()["req<string>"] = req_any<std::string>; table()["req<item>"] = req_any<mc::Item>;
  table()["classic<float>"] = classic_any<float>; table()["classic<string>"] = classic_any<std::string>; table()["classic<item>"] = classic_any<mc::Item>;
  table()["theta-compact"] = theta_v3_and_legacy; table()["theta-compressed"] = theta_v4;
  table()["tuple<i64>"] = tuple_any<int64_t>; table()["tuple<string>"] = tuple_any<std::string>; table()["array-of-doubles"] = aod_any;
  table()["hll-compact"] = hll_any; table()["hll-updatable"] = hll_any; table()["cpc"] = cpc_any;
  table()["frequent_items<i64>"] = fi_any<int64_t>; table()["frequent_items<string>"] = fi_any<std::string>; table()["frequent_items<item>"] = fi_any<mc::Item>;
  table()["count_min"] = cm_any;
  table()["var_opt_sketch<i64>"] = varopt_any<int64_t>; table()["var_opt_sketch<string>"] = varopt_any<std::string>; table()["var_opt_sketch<item>"] = varopt_any<mc::Item>;
  table()["var_opt_union"] = varopt_union_any;
  table()["ebpps<i64>"] = ebpps_any<int64_t>; table()["ebpps<string>"] = ebpps_any<std::string>;
  table()["tdigest<double>"] = tdigest_any<double>; table()["tdigest<double>+buffer"] = tdigest_any<double>; table()["tdigest<float>"] = tdigest_any<float>; table()["tdigest<float>+buffer"] = tdigest_any<float>;
  table()["bloom-owned"] = bloom_any; table()["bloom-writable-wrap"] = bloom_any; table()["density"] = density_any;
}

// ---------------- shipped reference images, read by independent old-format readers ----------------
// The Java-written theta v1 / v2 images and the KLL v1 one-item image are parsed here from the documented old layouts; the content must equal what
// the library reads on every path, and re-synthesising the theta images with theta_synth must reproduce the files (apart from documented-unused bytes),
// which ties the synthesised images of theta_legacy_synth to real Java output.
inline bool theta_old_parse(const Bytes& b, int& version, bool& empty, uint64_t& theta, std::vector<uint64_t>& e) {
  const uint64_t MAXT = 0x7fffffffffffffffULL; Rd r(b); uint8_t pre = r.u8(); version = r.u8(); uint8_t fam = r.u8(); r.skip(5); theta = MAXT; empty = false; e.clear(); uint32_t n = 0;
  if (!r.ok || fam != 3) return false;
  if (version == 1) { if (pre != 3) return false; n = r.u32(); r.u32(); theta = r.u64(); }
  else if (version == 2) { if (pre < 1 || pre > 3) return false; if (pre >= 2) { n = r.u32(); r.u32(); } if (pre == 3) theta = r.u64(); }
  else return false;
  empty = n == 0 && theta == MAXT;
  if (!r.ok || (uint64_t)n * 8 > b.size() - r.p) return false;
  for (uint32_t i = 0; i < n; ++i) e.push_back(r.u64());
  return r.ok && r.at_end();
}
inline void legacy_more(mc::Report& rep, const mc::Config& cfg) {
  using namespace datasketches;
  const std::string root = getenv("VERIF_REPO") ? getenv("VERIF_REPO") : "/repo"; size_t n = 0;
  const char* ts[] = {"theta_compact_empty_from_java_v1.sk", "theta_compact_empty_from_java_v2.sk", "theta_compact_estimation_from_java_v1.sk", "theta_compact_estimation_from_java_v2.sk"};
  for (int i = 0; i < 4; ++i) {
    const std::string h = ts[i]; if (!mc::journal("legacy-layout", h)) continue; mc::Ctx c(rep, "legacy-layout", h); const Bytes b = slurp(root + "/theta/test/" + h);
    int version = 0; bool empty = false; uint64_t theta = 0; std::vector<uint64_t> e;
    if (c.ok("legacy-file-present", !b.empty(), "cannot read " + h) && c.ok("theta-old.parsed-by-documented-layout", theta_old_parse(b, version, empty, theta, e), "the independent reader cannot parse " + h)) {
      c.eq("theta-old.version-as-named", version, (i & 1) ? 2 : 1); c.eq("theta-old.emptiness-as-named", empty, i < 2); c.ok("theta-old.entries-sorted", std::is_sorted(e.begin(), e.end()), "old images are ordered");
      if (i >= 2) c.ok("theta-old.estimation-as-named", theta < 0x7fffffffffffffffULL && !e.empty(), "theta " + mc::hex64(theta));
      for (size_t j = 0; j < e.size(); ++j) if (!(e[j] != 0 && e[j] < theta)) { c.fail("theta-old.entries-below-theta", mc::hex64(e[j])); break; }
      if (version == 2) { uint16_t sh; memcpy(&sh, b.data() + 6, 2); c.eq("theta-old.v2-seed-hash", sh, oracle::seed_hash(DEFAULT_SEED)); }
      for (int path = 0; path < 3; ++path) {
        const std::string pn = path == 0 ? "bytes" : path == 1 ? "stream" : "wrap";
        try { ThetaView got;
          if (path == 0) { CTheta s = CTheta::deserialize(b.data(), b.size(), DEFAULT_SEED, A64(1)); got = theta_view(s); }
          else if (path == 1) { std::istringstream is(std::string(b.begin(), b.end())); CTheta s = CTheta::deserialize(is, DEFAULT_SEED, A64(1)); got = theta_view(s); }
          else { WTheta s = WTheta::wrap(b.data(), b.size()); got = theta_view(s); }
          c.eq("theta-old.emptiness==library", empty, got.empty); c.eq("theta-old.theta==library", theta, got.theta); c.ok("theta-old.entries==library", e == got.e, pn + ": " + str(got.e.size()) + " entries read by the library, " + str(e.size()) + " in the file"); c.ok("theta-old.ordered", got.ordered, pn);
        } catch (const std::exception& ex) { c.fail("legacy-image-readable", pn + ": " + ex.what()); }
      }
      // the synthesised image of the same content equals the Java file except in bytes the old layouts leave unused (v1: 3-7 and 12-15; v2: 3-5 and 12-15)
      Bytes syn = theta_synth(version, empty, theta, e), ref = b;
      if (c.eq("theta-old.synthesised-size==file", syn.size(), ref.size())) {
        for (size_t j = 3; j < 8 && j < ref.size(); ++j) if (version == 1 || j < 6) syn[j] = ref[j] = 0;
        for (size_t j = 12; j < 16 && j < ref.size(); ++j) syn[j] = ref[j] = 0;
        c.ok("theta-old.synthesised==file", syn == ref, "synthesised " + hexs(syn, 32) + " file " + hexs(ref, 32));
      }
    }
    rep.flush_ctx_fails(c.fails, "legacy-layout", h); ++n;
  }
  { const std::string h = "kll_sketch_float_one_item_v1.sk"; mc::Ctx c(rep, "legacy-layout", h); const Bytes b = slurp(root + "/kll/test/" + h);
    if (mc::journal("legacy-layout", h) && c.ok("legacy-file-present", !b.empty(), "cannot read " + h)) {
      // serial version 1 (before the single-item format): the full layout with 5 preamble ints even for one item
      Rd r(b); uint8_t pre = r.u8(), ver = r.u8(), fam = r.u8(), flags = r.u8(); uint16_t k = r.u16(); uint8_t m = r.u8(); r.u8(); uint64_t nn = r.u64(); uint16_t mink = r.u16(); uint8_t nl = r.u8(); r.u8();
      c.eq("kll-old.preamble-ints", (int)pre, 5); c.eq("kll-old.serial-version", (int)ver, 1); c.eq("kll-old.family-id", (int)fam, 15); c.eq("kll-old.flags", (int)(flags & 5), 0); c.eq("kll-old.m", (int)m, 8); c.eq("kll-old.n", nn, (uint64_t)1); c.eq("kll-old.num-levels", (int)nl, 1);
      uint32_t l0 = r.u32(); float mn = r.f32(), mx = r.f32(), item = r.f32();
      c.ok("kll-old.image-fully-consumed", r.ok && r.at_end(), "consumed " + str(r.p) + " of " + str(b.size())); c.eq("kll-old.level-offset==k-1", l0, (uint32_t)k - 1);
      try { kll_sketch<float> sk = kll_sketch<float>::deserialize(b.data(), b.size());
        c.eq("kll-old.k==library", (int)k, (int)sk.get_k()); c.eq("kll-old.min-k==library", (int)mink, (int)sk.min_k_); c.eq("kll-old.min==library", mn, sk.get_min_item()); c.eq("kll-old.max==library", mx, sk.get_max_item());
        std::vector<float> it; for (auto i = sk.begin(); i != sk.end(); ++i) it.push_back((*i).first); c.ok("kll-old.item==library", it.size() == 1 && it[0] == item, "items " + str(it.size()));
      } catch (const std::exception& ex) { c.fail("legacy-image-readable", ex.what()); }
    }
    rep.flush_ctx_fails(c.fails, "legacy-layout", h); ++n; }
  mc::journal_clear();
  rep.evaluations += n; rep.states += n; rep.transitions += n; rep.traces += n;
  rep.scenarios.push_back("legacy-layout: shipped old-format images parsed by independent readers=" + str(n));
  rep.outcome("legacy-layout");
  (void)cfg;
}
}
#endif
