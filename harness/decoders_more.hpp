// decoders_more.hpp -- further documented-layout decoders (one per family) and further reference-image checks.
#ifndef DECODERS_MORE_HPP
#define DECODERS_MORE_HPP
namespace dec {
inline void register_more() {}
inline void legacy_more(mc::Report&, const mc::Config&) {}
}
#endif
