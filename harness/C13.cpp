// C13: Tuple sketches keep theta-sketch keys and exact per-key summaries.
// Part A: update sketch (E1 BFS at tiny lg_k through the private constructor, E2 paths at tiny and legal lg_k), lock-step with
//         an update_theta_sketch of the same configuration and a map<hash, fold in arrival order>.
// Part B: tuple_union / tuple_intersection (E1 BFS over update(M_i) sequences) and tuple_a_not_b (all ordered pairs of a menu),
//         lock-step with the theta operations on key-only twins; summaries folded with a non-commutative policy.
// Flavours: int64 (s <- 31 s + v), instrumented summary (liveness ledger), array of doubles with 1 and 3 columns.
#define MC_MAIN
#include "core.hpp"
#include "choice.hpp"
#include "bfs.hpp"
#include "paths.hpp"
#include "theta_common.hpp"
#include "tuple_common.hpp"
#include <set>

using namespace mc;
using namespace datasketches;
using namespace tp;

// lazy check helpers: identifiers and messages are only built when the check fails
#define CK_OK(c, id, cond, msg) do { if (!(cond)) (c).fail((id), (msg)); } while (0)
#define CK_EQ(c, id, a, b) do { if (!((a) == (b))) (c).fail((id), "got " + str(a) + " expected " + str(b)); } while (0)

// report (and clear) what the instrumented-summary ledger recorded since the last call
static void flush_ledger(Ctx* c, const char* where) {
  ILedger& l = iled();
  if (c) for (size_t i = 0; i < l.errors.size(); ++i) c->fail(std::string("summary-lifetime"), l.errors[i] + " (" + where + ")");
  l.errors.clear();
}

// =================================================================================================================
// Part A: update sketch
template<class F>
struct UpdSys {
  typedef typename F::USk USk; typedef typename F::CSk CSk; typedef typename F::Base Base;
  struct State {
    USk sk; update_theta_sketch th;
    std::set<uint64_t> seen; std::map<uint64_t, MV> fold; bool any, just_trimmed; uint64_t theta_before_op; uint32_t n_before_op;
    State(USk&& s, update_theta_sketch&& t): sk(std::move(s)), th(std::move(t)), any(false), just_trimmed(false), theta_before_op(0), n_before_op(0) {}
  };
  uint8_t lg_nom; RF rf; float p; uint64_t seed; bool legal; std::vector<tc::Val> keys; std::vector<int64_t> vals; std::string nm;
  std::vector<size_t> prefix;   // seeded start: operations applied by make()
  enum { OP_TRIM = 0, OP_RESET = 1, OP_FIRST = 2 };

  uint64_t start_theta() const { return start_theta_of(p); }
  std::string name() const { return nm; }
  size_t op_of(size_t key, size_t val) const { return OP_FIRST + key * vals.size() + val; }
  size_t nops() const { return OP_FIRST + keys.size() * vals.size(); }
  std::string opname(size_t i) const {
    if (i == OP_TRIM) return "trim"; if (i == OP_RESET) return "reset";
    size_t k = (i - OP_FIRST) / vals.size(), v = (i - OP_FIRST) % vals.size();
    return "upd(" + keys[k].label + "," + str(vals[v]) + ")";
  }
  State* make() {
    update_theta_sketch th = legal ? update_theta_sketch::builder().set_lg_k(lg_nom).set_resize_factor(rf).set_p(p).set_seed(seed).build()
                                   : update_theta_sketch(tiny_lg_cur0(lg_nom, rf), lg_nom, rf, p, start_theta(), seed, std::allocator<uint64_t>());
    State* s = new State(F::make_usk(legal, lg_nom, rf, p, seed), std::move(th));
    for (size_t i = 0; i < prefix.size(); ++i) apply(*s, prefix[i], nullptr);
    return s;
  }
  bool apply(State& s, size_t op, Ctx* ctx) {
    const long long live0 = iled().live;
    s.theta_before_op = s.sk.map_.theta_; s.n_before_op = s.sk.get_num_retained(); s.just_trimmed = false;
    if (op == OP_TRIM) { s.sk.trim(); s.th.trim(); s.just_trimmed = true; }
    else if (op == OP_RESET) { s.sk.reset(); s.th.reset(); s.seen.clear(); s.fold.clear(); s.any = false; s.theta_before_op = s.sk.map_.theta_; }
    else {
      const tc::Val& key = keys[(op - OP_FIRST) / vals.size()]; const int64_t v = vals[(op - OP_FIRST) % vals.size()];
      do_update2<F>(s.sk, key, v); tc::do_update(s.th, key);
      oracle::H128 h;
      if (tc::oracle_hash128(key, seed, h)) {
        s.any = true; const uint64_t hh = oracle::theta_hash(h); s.seen.insert(hh);
        // fold over every value ever offered with the key, in arrival order; a key at or above theta can never be retained
        // again before a reset (theta only falls), so its fold is not kept
        if (hh != 0 && hh < s.theta_before_op) { std::map<uint64_t, MV>::iterator it = s.fold.find(hh); if (it == s.fold.end()) it = s.fold.insert(std::make_pair(hh, F::m_create())).first; F::m_upd(it->second, v); }
      }
    }
    const uint64_t th_now = s.sk.map_.theta_;
    for (std::map<uint64_t, MV>::iterator it = s.fold.begin(); it != s.fold.end();) { if (it->first >= th_now) s.fold.erase(it++); else ++it; }
    if (F::TRACKED && ctx) ctx->eq("live-summaries-delta", iled().live - live0, (long long)s.sk.get_num_retained() - (long long)s.n_before_op);
    flush_ledger(ctx, "operation");
    return true;
  }
  std::string canon(State& s) {
    std::string c; c.reserve(512); table_canon<F>(c, s.sk.map_);
    c += 'T'; put_hex(c, s.th.table_.theta_); c += ','; put_hex(c, s.th.table_.num_entries_); c += 'M';
    for (std::set<uint64_t>::const_iterator i = s.seen.begin(); i != s.seen.end(); ++i) { put_hex(c, *i); c += ','; }
    c += 'F'; for (std::map<uint64_t, MV>::const_iterator i = s.fold.begin(); i != s.fold.end(); ++i) { put_hex(c, i->first); c += ':'; put_mv(c, i->second); c += ','; }
    c += s.any ? 'A' : 'a';
    return c;
  }
  // a derived sketch (compact form, copy) must expose the content of the source
  void same_content(Ctx& c, const std::string& tag, const View& got, const View& src, bool want_ordered) {
    CK_EQ(c, tag + "-theta", got.theta, src.theta); CK_EQ(c, tag + "-empty", got.empty, src.empty); CK_EQ(c, tag + "-num-retained", (size_t)got.n, got.e.size());
    CK_EQ(c, tag + "-seed-hash", got.seed_hash, src.seed_hash); CK_EQ(c, tag + "-estimate", got.estimate, src.estimate);
    if (sorted_ents(got.e) != sorted_ents(src.e)) c.fail(tag + "-same-entries-and-summaries", "got " + ents_str(sorted_ents(got.e)) + " source " + ents_str(sorted_ents(src.e)));
    if (want_ordered) CK_OK(c, tag + "-ordered-flag", got.ordered, "ordered form requested but is_ordered() is false");
    if (got.ordered) CK_OK(c, tag + "-ordered-is-sorted", strictly_sorted(got.e), "is_ordered() but entries are not sorted by key");
    CK_OK(c, tag + "-columns", got.exact, "summary has wrong number of columns or a non-integral value");
  }
  void check_filter(Ctx& c, const std::string& tag, const View& r, const View& src, int pi) {
    Ents expect; for (size_t i = 0; i < src.e.size(); ++i) if (pred_m(pi, src.e[i].second)) expect.push_back(src.e[i]);
    if (sorted_ents(r.e) != sorted_ents(expect)) c.fail(tag + "-keeps-exactly-satisfying", "pred" + str(pi) + " got " + ents_str(sorted_ents(r.e)) + " expected " + ents_str(sorted_ents(expect)));
    CK_EQ(c, tag + "-num-retained", (size_t)r.n, r.e.size());
    CK_EQ(c, tag + "-theta", r.theta, src.theta);
    CK_EQ(c, tag + "-empty", r.empty, expect.empty() && !src.est_mode);
    if (r.empty) CK_OK(c, tag + "-empty-wellformed", r.theta == MAXT && r.e.empty(), "empty result with theta " + hex64(r.theta) + " and " + str(r.e.size()) + " entries");
    if (r.ordered) CK_OK(c, tag + "-ordered-is-sorted", strictly_sorted(r.e), "is_ordered() but entries are not sorted");
    CK_EQ(c, tag + "-seed-hash", r.seed_hash, src.seed_hash);
    c.rep.outcome(std::string("filter|pred") + str(pi) + (expect.empty() ? "|none" : expect.size() == src.e.size() ? "|all" : "|some") + (r.empty ? "|empty" : "|nonempty") + (src.est_mode ? "|est" : "|exact"));
  }
  void check(State& s, Ctx& c) {
    flush_ledger(nullptr, "");
    const long long live0 = iled().live;
    const std::string canon0 = canon(s);
    const USk& k = s.sk; const update_theta_sketch& t = s.th;
    const uint64_t st = start_theta(), theta_raw = k.map_.theta_; const uint32_t kk = 1u << lg_nom;
    const View v = view_of<F>(k);
    const Ents sorted = sorted_ents(v.e); const std::vector<uint64_t> skeys = keys_of(sorted);
    { size_t i = 0; bool same = true;
      for (typename USk::iterator it = s.sk.begin(); it != s.sk.end(); ++it, ++i) if (i >= v.e.size() || (*it).first != v.e[i].first || F::read((*it).second) != v.e[i].second) same = false;
      CK_OK(c, "iterator==const_iterator", same && i == v.e.size(), "mutable and const iteration differ"); }
    // --- the theta definition on the keys (as C01) ---
    CK_EQ(c, "num_retained==iterated", (size_t)v.n, v.e.size());
    CK_OK(c, "no-duplicate-keys", std::adjacent_find(skeys.begin(), skeys.end()) == skeys.end(), "a key is retained twice");
    CK_OK(c, "no-zero-key", skeys.empty() || skeys.front() != 0, "zero hash retained");
    CK_EQ(c, "is_empty", v.empty, !s.any);
    if (!s.any) CK_EQ(c, "theta-of-empty", v.theta, MAXT); else CK_EQ(c, "theta-public==private", v.theta, theta_raw);
    CK_OK(c, "theta-non-increasing", theta_raw <= s.theta_before_op || s.theta_before_op == 0, "theta rose from " + hex64(s.theta_before_op) + " to " + hex64(theta_raw));
    CK_OK(c, "theta-is-start-or-seen", theta_raw == st || s.seen.count(theta_raw), "theta " + hex64(theta_raw) + " is neither the starting value nor a hash seen");
    CK_OK(c, "theta<=start", theta_raw <= st, "theta above start");
    std::vector<uint64_t> expect; for (std::set<uint64_t>::const_iterator i = s.seen.begin(); i != s.seen.end(); ++i) if (*i < theta_raw && *i != 0) expect.push_back(*i);
    if (skeys != expect) {
      std::string m = "retained " + str(skeys.size()) + " expected " + str(expect.size()) + " (theta " + hex64(theta_raw) + ")";
      for (size_t i = 0; i < expect.size(); ++i) if (!std::binary_search(skeys.begin(), skeys.end(), expect[i])) { m += " missing " + hex64(expect[i]); break; }
      for (size_t i = 0; i < skeys.size(); ++i) if (!std::binary_search(expect.begin(), expect.end(), skeys[i])) { m += " extra " + hex64(skeys[i]); break; }
      c.fail("retained==seen-below-theta", m);
    }
    if (theta_raw < st) CK_OK(c, "theta-below-start-implies>=k", v.e.size() >= kk, "theta below start with only " + str(v.e.size()) + " entries, k=" + str(kk));
    if (s.just_trimmed) CK_OK(c, "trim-leaves<=k", v.e.size() <= kk, "after trim " + str(v.e.size()) + " entries, k=" + str(kk));
    if (s.just_trimmed && s.n_before_op <= kk) CK_EQ(c, "trim-noop-when<=k", theta_raw, s.theta_before_op);
    CK_EQ(c, "is_estimation_mode", v.est_mode, s.any && theta_raw < MAXT);
    CK_EQ(c, "lg_k", (int)k.get_lg_k(), (int)lg_nom);
    CK_EQ(c, "seed-hash", v.seed_hash, oracle::seed_hash(seed));
    // --- lock-step theta sketch of the same configuration fed the same keys ---
    { std::vector<uint64_t> tk = theta_keys(t); std::sort(tk.begin(), tk.end());
      CK_OK(c, "keys==lockstep-theta-sketch", tk == skeys, "tuple retains " + str(skeys.size()) + " keys, theta sketch " + str(tk.size()));
      CK_EQ(c, "theta==lockstep-theta-sketch", v.theta, t.get_theta64()); CK_EQ(c, "empty==lockstep-theta-sketch", v.empty, t.is_empty());
      CK_EQ(c, "num-retained==lockstep-theta-sketch", v.n, t.get_num_retained()); CK_EQ(c, "estimate==lockstep-theta-sketch", v.estimate, t.get_estimate());
      CK_EQ(c, "ordered==lockstep-theta-sketch", v.ordered, t.is_ordered()); CK_EQ(c, "est-mode==lockstep-theta-sketch", v.est_mode, t.is_estimation_mode());
      CK_EQ(c, "lb==lockstep-theta-sketch", k.get_lower_bound(2), t.get_lower_bound(2)); CK_EQ(c, "ub==lockstep-theta-sketch", k.get_upper_bound(2), t.get_upper_bound(2));
      CK_EQ(c, "seed-hash==lockstep-theta-sketch", v.seed_hash, t.get_seed_hash()); }
    // --- every retained key's summary is the fold of every value offered with it, in arrival order ---
    for (size_t i = 0; i < v.e.size(); ++i) {
      std::map<uint64_t, MV>::const_iterator it = s.fold.find(v.e[i].first);
      if (it == s.fold.end()) { c.fail("summary==fold", "retained key " + hex64(v.e[i].first) + " has no model fold"); continue; }
      if (it->second != v.e[i].second) c.fail("summary==fold", "key " + hex64(v.e[i].first) + " summary " + mvs(v.e[i].second) + " expected " + mvs(it->second));
    }
    CK_OK(c, "summary-columns", v.exact, "a summary has the wrong number of columns or a non-integral value");
    // --- compact forms ---
    for (int ord = 0; ord < 2; ++ord) {
      const CSk cs = k.compact(ord == 1);
      const View cv = view_of<F>(cs);
      same_content(c, ord ? "compact-ordered" : "compact-unordered", cv, v, ord == 1);
      if (ord) { CSk c2(cs); CSk c3(std::move(c2)); same_content(c, "compact-copy-move", view_of<F>(c3), cv, false); }
      if (!ord) { const typename F::PlainC re(static_cast<const Base&>(cs), true); same_content(c, "compact-reordered", view_of<F>(re), v, true); }
      for (int pi = 0; pi < 4; ++pi) {
        if (ord ? (pi == 0 || pi == 3) : pi == 0) check_filter(c, ord ? "filter(compact-ordered)" : "filter(compact-unordered)", view_of<F>(cs.filter(Pred<F>(pi))), cv, pi);
        if (ord) check_filter(c, "filter(update)", view_of<F>(k.filter(Pred<F>(pi))), v, pi);
      }
    }
    // --- copies: same content, independent storage, nothing leaked ---
    { USk cp(k); same_content(c, "copy", view_of<F>(cp), v, false);
      CK_OK(c, "copy-independent-storage", cp.map_.entries_ != k.map_.entries_, "copy shares the table");
      if (F::TRACKED) CK_EQ(c, "copy-live-summaries", iled().live - live0, (long long)v.n);
      USk mv(std::move(cp)); same_content(c, "move", view_of<F>(mv), v, false);
      if (F::TRACKED) {
        USk as(F::make_usk(false, 1, RF::X1, 1.0f, seed)); do_update2<F>(as, keys[0], 1); as = k; same_content(c, "copy-assign", view_of<F>(as), v, false);
        USk as2(F::make_usk(false, 1, RF::X1, 1.0f, seed)); do_update2<F>(as2, keys[0], 1); as2 = std::move(mv); same_content(c, "move-assign", view_of<F>(as2), v, false); } }
    if (F::TRACKED) { CK_EQ(c, "live-summaries-after-observers", iled().live, live0); }
    flush_ledger(&c, "observers");
    CK_OK(c, "observers-do-not-mutate", canon(s) == canon0, "compact/filter/copy changed the sketch");
    flush_ledger(nullptr, "");
    c.rep.outcome(std::string("upd|") + (s.any ? "nonempty" : "empty") + (theta_raw < st ? "|theta<start" : "|theta=start") + "|lgcur" + str((int)k.map_.lg_cur_size_) + (s.just_trimmed ? "|trim" : "")
      + (v.e.empty() ? "|n0" : "") );
  }
};

// keys whose hashes collide in small tables (same home slot, same home slot and stride), plus typed values with equal canonical forms
static std::vector<tc::Val> pick_keys(size_t n, uint64_t seed, bool with_types) {
  std::vector<tc::Val> v;
  if (with_types) { v.push_back(tc::vu64(5)); v.push_back(tc::vi8(-56)); v.push_back(tc::vstr("a")); v.push_back(tc::vf64(-0.0, "-0")); v.push_back(tc::vi64(5)); v.push_back(tc::vstr("")); v.push_back(tc::vf64(0.0)); }
  std::vector<uint64_t> base;
  for (uint64_t x = 1000; base.size() < n && x < 2000000; ++x) {
    uint64_t h = oracle::theta_hash(oracle::hash_i64((int64_t)x, seed));
    if (base.empty()) { base.push_back(x); continue; }
    uint64_t h0 = oracle::theta_hash(oracle::hash_i64((int64_t)base[0], seed));
    bool same_home = (h & 7) == (h0 & 7), same_stride = ((h >> 3) & 127) == ((h0 >> 3) & 127);
    if ((base.size() % 3 == 1 && same_home) || (base.size() % 3 == 2 && same_home && same_stride) || (base.size() % 3 == 0 && x % 97 == 0)) base.push_back(x);
  }
  for (size_t i = 0; i < base.size() && v.size() < n; ++i) v.push_back(tc::vu64(base[i]));
  v.resize(std::min(v.size(), n));
  return v;
}

// =================================================================================================================
// Part B: operand menu
enum { FORM_UPD = 0, FORM_CU, FORM_CO, FORM_DB, FORM_DS, FORM_TH, NFORMS };
static const char* form_name(int f) { static const char* n[] = {"update", "compact-unordered", "compact-ordered", "deser-bytes", "deser-stream", "from-theta"}; return n[f]; }
struct Recipe { unsigned mask; uint8_t lg_k; float p; int form; };

// n items, the last two with hashes at or above MAX_THETA/2 (screened out by p = 0.5), the others below; typed overloads rotate
struct Universe { std::vector<tc::Val> items; std::vector<uint64_t> hashes; };
static Universe make_universe(size_t n, uint64_t seed) {
  Universe u; size_t lo = 0, hi = 0;
  for (uint64_t x = 500; u.items.size() < n && x < 30000; ++x) {
    uint64_t h = oracle::theta_hash(oracle::hash_i64((int64_t)x, seed));
    bool high = h >= MAXT / 2;
    if (high ? hi >= 2 : lo >= n - 2) continue;
    (high ? hi : lo)++;
    switch (u.items.size() % 5) { case 0: u.items.push_back(tc::vu64(x)); break; case 1: u.items.push_back(tc::vi32((int32_t)x)); break; case 2: u.items.push_back(tc::vu16((uint16_t)x)); break;
      case 3: u.items.push_back(tc::vi64((int64_t)x)); break; default: u.items.push_back(tc::vu32((uint32_t)x)); }
    u.hashes.push_back(h);
  }
  return u;
}

template<class F> struct Operand {
  typedef typename F::USk USk; typedef typename F::CSk CSk; typedef typename F::Base Base;
  std::string label; int form; Recipe r;
  std::shared_ptr<USk> u; std::shared_ptr<CSk> c;
  View v; std::map<uint64_t, MV> by_key; std::shared_ptr<compact_theta_sketch> twin;
  const Base& base() const { return u ? static_cast<const Base&>(*u) : static_cast<const Base&>(*c); }
  std::string mode() const { return v.empty ? "empty" : v.e.empty() ? "zero-retained" : v.theta < MAXT ? "estimation" : "exact"; }
};

template<class F> struct Menu {
  typedef typename F::USk USk; typedef typename F::CSk CSk;
  std::vector<Operand<F> > ops; uint64_t seed; Universe uni; std::vector<std::string> problems;
  Menu(size_t universe, uint64_t sd): seed(sd), uni(make_universe(universe, sd)) {}
  void add(const Recipe& r) {
    const int idx = (int)ops.size(); const size_t n = uni.items.size();
    Operand<F> o; o.form = r.form; o.r = r;
    o.label = "#" + str(idx) + ":m" + str(r.mask) + "/k" + str((int)r.lg_k) + "/p" + str(r.p) + "/" + form_name(r.form);
    USk sk = F::make_usk(r.lg_k >= 5, r.lg_k, RF::X2, r.p, seed);
    update_theta_sketch th = r.lg_k >= 5 ? update_theta_sketch::builder().set_lg_k(r.lg_k).set_resize_factor(RF::X2).set_p(r.p).set_seed(seed).build()
                                         : update_theta_sketch(tiny_lg_cur0(r.lg_k, RF::X2), r.lg_k, RF::X2, r.p, start_theta_of(r.p), seed, std::allocator<uint64_t>());
    std::map<uint64_t, MV> model;
    for (size_t t = 0; t < n; ++t) {
      size_t j = (t + (size_t)idx) % n; if (!(r.mask >> j & 1)) continue;
      int64_t val = 3 + 8 * (int64_t)idx + (int64_t)j;
      do_update2<F>(sk, uni.items[j], val); tc::do_update(th, uni.items[j]);
      MV m = F::m_create(); F::m_upd(m, val); model[uni.hashes[j]] = m;
    }
    const View uv = view_of<F>(sk);
    { // the operand itself must be what the statement says (part A decides this in depth; here it guards the menu)
      Ents expect; for (std::map<uint64_t, MV>::const_iterator i = model.begin(); i != model.end(); ++i) if (i->first < uv.theta) expect.push_back(*i);
      if (sorted_ents(uv.e) != expect || uv.empty != (r.mask == 0)) problems.push_back(o.label + ": update sketch holds " + ents_str(sorted_ents(uv.e)) + " expected " + ents_str(expect)); }
    switch (r.form) {
      case FORM_UPD: o.u = std::make_shared<USk>(std::move(sk)); break;
      case FORM_CU: o.c = std::make_shared<CSk>(sk.compact(false)); break;
      case FORM_CO: o.c = std::make_shared<CSk>(sk.compact(true)); break;
      case FORM_DB: o.c = std::make_shared<CSk>(F::deser_bytes(F::ser_bytes(sk.compact(true)), seed)); break;
      case FORM_DS: { std::stringstream ss(std::ios::in | std::ios::out | std::ios::binary); F::ser_stream(sk.compact(false), ss); o.c = std::make_shared<CSk>(F::deser_stream(ss, seed)); break; }
      default: { // from an update theta sketch or from its compact (ordered / unordered) form
        const compact_theta_sketch thc = th.compact((idx & 4) != 0);
        o.c = std::make_shared<CSk>((idx & 2) ? F::from_theta(thc, 1000 + idx, (idx & 1) != 0) : F::from_theta(th, 1000 + idx, (idx & 1) != 0)); break; }
    }
    o.v = view_of<F>(o.base());
    if (r.form == FORM_TH) {
      Ents expect; std::vector<uint64_t> tk = theta_keys(th); for (size_t i = 0; i < tk.size(); ++i) expect.push_back(std::make_pair(tk[i], MV(1, 1000 + idx)));
      if (sorted_ents(o.v.e) != sorted_ents(expect) || o.v.theta != th.get_theta64() || o.v.empty != th.is_empty()) problems.push_back(o.label + ": tuple sketch made from a theta sketch differs from it");
    } else if (sorted_ents(o.v.e) != sorted_ents(uv.e) || o.v.theta != uv.theta || o.v.empty != uv.empty) problems.push_back(o.label + ": form differs from the update sketch it was made from: " + ents_str(sorted_ents(o.v.e)) + " vs " + ents_str(sorted_ents(uv.e)));
    if (o.v.ordered && !strictly_sorted(o.v.e)) problems.push_back(o.label + ": is_ordered() but not sorted");
    for (size_t i = 0; i < o.v.e.size(); ++i) o.by_key[o.v.e[i].first] = o.v.e[i].second;
    o.twin = std::make_shared<compact_theta_sketch>(o.v.empty, o.v.ordered, o.v.seed_hash, o.v.theta, keys_of(o.v.e));
    ops.push_back(o);
  }
  void add_product(const std::vector<uint8_t>& lgks, const std::vector<float>& ps, const std::vector<int>& forms) {
    for (unsigned mask = 0; mask < (1u << uni.items.size()); ++mask) for (size_t a = 0; a < lgks.size(); ++a) for (size_t b = 0; b < ps.size(); ++b) for (size_t f = 0; f < forms.size(); ++f) {
      if (forms[f] == FORM_TH && !F::FROM_THETA) continue;
      Recipe r; r.mask = mask; r.lg_k = lgks[a]; r.p = ps[b]; r.form = forms[f]; add(r);
    }
  }
  // hand-picked sub-menu for the stateful operations: every form x {empty, exact, estimation by rebuild, estimation by p, zero retained}, overlapping key sets
  void add_submenu(bool small) {
    const unsigned ALL = (1u << uni.items.size()) - 1, HI = 3u << (uni.items.size() - 2);
    const Recipe rs[] = {
      {0, 2, 1.0f, FORM_UPD}, {0, 1, 0.5f, FORM_CO}, {0x7 & ALL, 2, 1.0f, FORM_UPD}, {0xe & ALL, 2, 1.0f, FORM_CU}, {0x15 & ALL, 5, 1.0f, FORM_CO},
      {ALL, 1, 1.0f, FORM_UPD}, {0xf & ALL, 1, 1.0f, FORM_CO}, {0x1e & ALL, 1, 1.0f, FORM_CU}, {ALL, 2, 0.5f, FORM_UPD}, {HI, 2, 0.5f, FORM_CO},
      {0x3, 5, 1.0f, FORM_DB}, {0x1c & ALL, 2, 1.0f, FORM_DS}, {ALL, 1, 1.0f, FORM_DB}, {0xa & ALL, 2, 1.0f, FORM_TH}, {ALL, 1, 1.0f, FORM_TH},
      {0x1, 2, 1.0f, FORM_DS}, {0x1d & ALL, 1, 0.5f, FORM_CU}, {0x10 & ALL, 2, 1.0f, FORM_UPD}, {ALL, 1, 1.0f, FORM_DS}, {HI, 5, 0.5f, FORM_UPD} };
    const size_t n = sizeof(rs) / sizeof(rs[0]);
    for (size_t i = 0; i < n; ++i) {
      if (rs[i].form == FORM_TH && !F::FROM_THETA) continue;
      if (small && (i == 4 || i == 7 || i == 11 || i == 12 || i == 16 || i == 17 || i == 18 || i == 19)) continue;
      add(rs[i]);
    }
  }
  void report_problems(Report& rep, const std::string& scen) { for (size_t i = 0; i < problems.size(); ++i) rep.violation(rep.property + "|" + scen + "|operand-build", problems[i], scen, "menu"); }
};

// ---- A-not-B over all ordered pairs ----
template<class F, class SA, class SB> typename F::CSk run_anotb(const typename F::AnotB& op, const SA& a, const SB& b, bool ord, bool rv) {
  if (rv) { SA tmp(a); return op.compute(std::move(tmp), b, ord); }
  return op.compute(a, b, ord);
}
template<class F> typename F::CSk dispatch_anotb(const typename F::AnotB& op, const Operand<F>& a, const Operand<F>& b, bool ord, bool rv) {
  if (a.u) return b.u ? run_anotb<F>(op, *a.u, *b.u, ord, rv) : run_anotb<F>(op, *a.u, *b.c, ord, rv);
  return b.u ? run_anotb<F>(op, *a.c, *b.u, ord, rv) : run_anotb<F>(op, *a.c, *b.c, ord, rv);
}

template<class F> void anotb_pairs(Report& rep, const Config& cfg, const std::string& scen, Menu<F>& menu, size_t a_from, size_t a_to) {
  if (!cfg.replay_scenario.empty() && cfg.replay_scenario != scen) return;
  if (!cfg.only.empty() && scen.find(cfg.only) == std::string::npos) return;
  double t0 = now_s(); uint64_t cases = 0;
  menu.report_problems(rep, scen);
  const typename F::AnotB op = F::make_anotb(menu.seed); const theta_a_not_b top(menu.seed);
  for (size_t ai = a_from; ai < a_to && ai < menu.ops.size(); ++ai) {
    if (rep.past_deadline()) { rep.cap("global deadline reached in " + scen); break; }
    for (size_t bi = 0; bi < menu.ops.size(); ++bi) for (int ord = 0; ord < 2; ++ord) for (int rv = 0; rv < 2; ++rv) {
      const Operand<F>& A = menu.ops[ai]; const Operand<F>& B = menu.ops[bi];
      std::string hist = A.label + " \\ " + B.label + (ord ? " ordered" : " unordered") + (rv ? " rvalueA" : "");
      if (!cfg.replay_history.empty() && cfg.replay_history != hist) continue;
      if (!journal(scen, hist)) continue;
      Ctx c(rep, scen, hist); const long long live0 = iled().live; const int a0 = asan_errors();
      try {
        View r; { const typename F::CSk res = dispatch_anotb<F>(op, A, B, ord == 1, rv == 1); r = view_of<F>(res); }
        // expectation: theta operations' key selection, A's summaries
        uint64_t th = std::min(A.v.theta, B.v.theta); Ents expect; bool empty;
        if (A.v.empty) { th = MAXT; empty = true; }
        else { for (size_t i = 0; i < A.v.e.size(); ++i) if (A.v.e[i].first < th && !B.by_key.count(A.v.e[i].first)) expect.push_back(A.v.e[i]); empty = expect.empty() && th == MAXT; }
        CK_EQ(c, "anotb-theta", r.theta, th); CK_EQ(c, "anotb-empty", r.empty, empty); CK_EQ(c, "anotb-num-retained", (size_t)r.n, r.e.size());
        if (sorted_ents(r.e) != sorted_ents(expect)) c.fail("anotb-keys-and-A-summaries", "got " + ents_str(sorted_ents(r.e)) + " expected " + ents_str(sorted_ents(expect)));
        if (ord) CK_OK(c, "anotb-ordered-flag", r.ordered, "ordered result requested but is_ordered() is false");
        if (r.ordered) CK_OK(c, "anotb-ordered-is-sorted", strictly_sorted(r.e), "is_ordered() but entries are not sorted");
        CK_EQ(c, "anotb-seed-hash", r.seed_hash, oracle::seed_hash(menu.seed)); CK_OK(c, "anotb-columns", r.exact, "wrong number of columns");
        { const compact_theta_sketch tr = top.compute(*A.twin, *B.twin, ord == 1); std::vector<uint64_t> tk = theta_keys(tr), rk = keys_of(r.e); std::sort(tk.begin(), tk.end()); std::sort(rk.begin(), rk.end());
          CK_EQ(c, "anotb-theta==theta_a_not_b", r.theta, tr.get_theta64()); CK_EQ(c, "anotb-empty==theta_a_not_b", r.empty, tr.is_empty()); CK_OK(c, "anotb-keys==theta_a_not_b", tk == rk, "keys differ from theta_a_not_b on the same key sets"); }
        // the operands are inputs: they must be unchanged
        if (view_of<F>(A.base()).sig() != A.v.sig() || view_of<F>(B.base()).sig() != B.v.sig()) c.fail("anotb-operands-unchanged", "an operand changed");
        rep.outcome("anotb|" + A.mode() + "\\" + B.mode() + "|" + (r.empty ? "empty" : r.e.empty() ? "zero" : r.theta < MAXT ? "est" : "exact") + (A.v.ordered && B.v.ordered ? "|sorted-path" : "|hash-path"));
      } catch (const std::exception& e) { c.fail("unexpected-exception", std::string("a_not_b threw: ") + e.what()); }
      if (F::TRACKED) CK_EQ(c, "anotb-live-summaries", iled().live, live0);
      flush_ledger(&c, "a_not_b");
      if (asan_errors() != a0) c.fail("asan", "AddressSanitizer report during this case");
      rep.flush_ctx_fails(c.fails, scen, hist);
      rep.evaluations++; rep.states++; rep.transitions++; rep.traces++; cases++;
    }
  }
  journal_clear();
  char b[200]; snprintf(b, sizeof b, "%s: A in [%zu,%zu) x %zu operands x {ordered,unordered} x {lvalue,rvalue A}: %llu cases %.1fs", scen.c_str(), a_from, std::min(a_to, menu.ops.size()), menu.ops.size(), (unsigned long long)cases, now_s() - t0);
  rep.scenarios.push_back(b);
}

// ---- stateful union ----
template<class F> struct UnionSys {
  typedef typename F::Union Union; typedef typename F::USk USk; typedef typename F::CSk CSk;
  struct State {
    Union u; theta_union tu; bool any; uint64_t theta_min; std::map<uint64_t, MV> m;
    State(Union&& u_, theta_union&& t_, uint64_t th): u(std::move(u_)), tu(std::move(t_)), any(false), theta_min(th) {}
  };
  uint8_t lg_nom; float p; uint64_t seed; std::string nm; size_t universe; bool small;
  std::shared_ptr<Menu<F> > menu; std::vector<size_t> rv;   // operands also presented as rvalues
  void init() {
    menu.reset(new Menu<F>(universe, seed)); menu->add_submenu(small);
    for (size_t i = 0; i < menu->ops.size(); ++i) { int f = menu->ops[i].form; bool est = menu->ops[i].v.theta < MAXT; if ((f == FORM_UPD && est) || (f == FORM_CU) || (f == FORM_DB && !est) || (f == FORM_CO && !menu->ops[i].v.e.empty() && !est)) rv.push_back(i); }
  }
  std::string name() const { return nm; }
  size_t nops() const { return 1 + menu->ops.size() + rv.size(); }
  std::string opname(size_t i) const { return i == 0 ? "reset" : i <= menu->ops.size() ? "upd(" + menu->ops[i - 1].label + ")" : "upd-rvalue(" + menu->ops[rv[i - 1 - menu->ops.size()]].label + ")"; }
  State* make() {
    theta_union tu = lg_nom >= 5 ? theta_union::builder().set_lg_k(lg_nom).set_resize_factor(RF::X2).set_p(p).set_seed(seed).build()
                                 : theta_union(tiny_lg_cur0(lg_nom, RF::X2), lg_nom, RF::X2, p, start_theta_of(p), seed, std::allocator<uint64_t>());
    return new State(F::make_union(lg_nom, RF::X2, p, seed), std::move(tu), start_theta_of(p));
  }
  bool apply(State& s, size_t op, Ctx* ctx) {
    const long long live0 = iled().live; const long long n0 = s.u.state_.table_.num_entries_;
    if (op == 0) { s.u.reset(); s.tu.reset(); s.any = false; s.theta_min = start_theta_of(p); s.m.clear(); }
    else {
      const bool rvalue = op > menu->ops.size();
      const Operand<F>& o = menu->ops[rvalue ? rv[op - 1 - menu->ops.size()] : op - 1];
      if (rvalue) { if (o.u) { USk tmp(*o.u); s.u.update(std::move(tmp)); } else { CSk tmp(*o.c); s.u.update(std::move(tmp)); } }
      else { if (o.u) s.u.update(*o.u); else s.u.update(*o.c); }
      s.tu.update(*o.twin);
      if (!o.v.empty) {
        s.any = true; s.theta_min = std::min(s.theta_min, o.v.theta);
        for (size_t i = 0; i < o.v.e.size(); ++i) {
          if (o.v.e[i].first >= s.theta_min) continue;
          std::map<uint64_t, MV>::iterator it = s.m.find(o.v.e[i].first);
          if (it == s.m.end()) s.m[o.v.e[i].first] = o.v.e[i].second; else F::m_set(it->second, o.v.e[i].second);   // presentation order
        }
        for (std::map<uint64_t, MV>::iterator it = s.m.begin(); it != s.m.end();) { if (it->first >= s.theta_min) s.m.erase(it++); else ++it; }
      }
      if (ctx && view_of<F>(o.base()).sig() != o.v.sig()) ctx->fail("union-operand-unchanged", "an lvalue operand (or the original of an rvalue copy) changed: " + o.label);
    }
    if (F::TRACKED && ctx) ctx->eq("union-live-summaries-delta", iled().live - live0, (long long)s.u.state_.table_.num_entries_ - n0);
    flush_ledger(ctx, "union update");
    return true;
  }
  std::string canon(State& s) {
    std::string c; c.reserve(512); table_canon<F>(c, s.u.state_.table_);
    c += 'U'; put_hex(c, s.u.state_.union_theta_); c += 'T'; put_hex(c, s.tu.state_.union_theta_); c += ','; put_hex(c, s.tu.state_.table_.theta_); c += ','; put_hex(c, s.tu.state_.table_.num_entries_);
    c += s.any ? 'A' : 'a'; put_hex(c, s.theta_min);
    for (std::map<uint64_t, MV>::const_iterator i = s.m.begin(); i != s.m.end(); ++i) { put_hex(c, i->first); c += ':'; put_mv(c, i->second); c += ','; }
    return c;
  }
  void check(State& s, Ctx& c) {
    flush_ledger(nullptr, ""); const long long live0 = iled().live; const std::string canon0 = canon(s);
    const size_t k = (size_t)1 << lg_nom;
    Ents expect(s.m.begin(), s.m.end()); uint64_t th = s.theta_min;
    if (expect.size() > k) { th = expect[k].first; expect.resize(k); }
    for (int ord = 1; ord >= 0; --ord) {
      const std::string t = ord ? "union-ordered" : "union-unordered";
      const View r = view_of<F>(s.u.get_result(ord == 1));
      const compact_theta_sketch tr = s.tu.get_result(ord == 1);
      CK_EQ(c, t + "-empty", r.empty, !s.any); CK_EQ(c, t + "-num-retained", (size_t)r.n, r.e.size());
      CK_EQ(c, t + "-theta", r.theta, s.any ? th : MAXT);   // an empty sketch reports theta 1.0 whatever p is
      if (sorted_ents(r.e) != (s.any ? expect : Ents())) c.fail(t + "-keys-and-folded-summaries", "got " + ents_str(sorted_ents(r.e)) + " expected " + ents_str(expect) + " (theta " + hex64(th) + ")");
      if (ord) CK_OK(c, t + "-flag", r.ordered, "ordered result requested but is_ordered() is false");
      if (r.ordered) CK_OK(c, t + "-is-sorted", strictly_sorted(r.e), "is_ordered() but entries are not sorted");
      CK_EQ(c, t + "-seed-hash", r.seed_hash, oracle::seed_hash(seed)); CK_OK(c, t + "-columns", r.exact, "wrong number of columns");
      { std::vector<uint64_t> tk = theta_keys(tr), rk = keys_of(r.e); std::sort(tk.begin(), tk.end()); std::sort(rk.begin(), rk.end());
        CK_EQ(c, t + "-theta==theta_union", r.theta, tr.get_theta64()); CK_EQ(c, t + "-empty==theta_union", r.empty, tr.is_empty()); CK_OK(c, t + "-keys==theta_union", tk == rk, "keys differ from theta_union fed the same key sets"); }
      if (ord) c.rep.outcome(std::string("union|") + (r.empty ? "empty" : r.e.empty() ? "zero" : r.theta < MAXT ? "est" : "exact") + (s.m.size() > k ? "|trimmed-to-k" : "")
        + (s.u.state_.table_.theta_ < start_theta_of(p) ? "|table-rebuilt" : ""));
    }
    { Union cp(s.u); const View a = view_of<F>(cp.get_result(true)), b = view_of<F>(s.u.get_result(true)); CK_OK(c, "union-copy-same-result", a.sig() == b.sig(), "a copy of the union gives another result"); }
    if (F::TRACKED) CK_EQ(c, "union-live-summaries-after-observers", iled().live, live0);
    flush_ledger(&c, "get_result");
    CK_OK(c, "union-get_result-does-not-mutate", canon(s) == canon0, "get_result changed the union");
    flush_ledger(nullptr, "");
  }
};

// ---- stateful intersection ----
template<class F> struct InterSys {
  typedef typename F::Inter Inter; typedef typename F::USk USk; typedef typename F::CSk CSk;
  struct State {
    Inter x; theta_intersection tx; bool valid, empty; uint64_t theta; std::map<uint64_t, MV> m;
    State(Inter&& x_, uint64_t seed): x(std::move(x_)), tx(seed), valid(false), empty(false), theta(MAXT) {}
  };
  uint64_t seed; std::string nm; size_t universe; bool small;
  std::shared_ptr<Menu<F> > menu; std::vector<size_t> rv;
  void init() {
    menu.reset(new Menu<F>(universe, seed)); menu->add_submenu(small);
    for (size_t i = 0; i < menu->ops.size(); ++i) { int f = menu->ops[i].form; bool est = menu->ops[i].v.theta < MAXT; if ((f == FORM_UPD && !menu->ops[i].v.e.empty()) || (f == FORM_CU && !est) || (f == FORM_DB) || (f == FORM_CO && !menu->ops[i].v.e.empty())) rv.push_back(i); }
  }
  std::string name() const { return nm; }
  size_t nops() const { return menu->ops.size() + rv.size(); }
  std::string opname(size_t i) const { return i < menu->ops.size() ? "upd(" + menu->ops[i].label + ")" : "upd-rvalue(" + menu->ops[rv[i - menu->ops.size()]].label + ")"; }
  State* make() { return new State(F::make_inter(seed), seed); }
  bool apply(State& s, size_t op, Ctx* ctx) {
    const long long live0 = iled().live; const long long n0 = s.x.state_.table_.num_entries_;
    const bool rvalue = op >= menu->ops.size();
    const Operand<F>& o = menu->ops[rvalue ? rv[op - menu->ops.size()] : op];
    if (rvalue) { if (o.u) { USk tmp(*o.u); s.x.update(std::move(tmp)); } else { CSk tmp(*o.c); s.x.update(std::move(tmp)); } }
    else { if (o.u) s.x.update(*o.u); else s.x.update(*o.c); }
    s.tx.update(*o.twin);
    // model: a function of the multiset of inputs (order-independent, as the theta intersection): any empty input makes the result
    // the empty set; otherwise theta = min over the inputs, entries = keys held by every input and below theta, summaries folded
    // with the policy in presentation order; the result is the empty set also when nothing is left at theta 1.0
    if (!s.valid) { s.valid = true; s.empty = o.v.empty; s.theta = o.v.empty ? MAXT : o.v.theta; if (!o.v.empty) s.m = o.by_key; }
    else if (!s.empty) {
      if (o.v.empty) { s.empty = true; s.theta = MAXT; s.m.clear(); }
      else {
        s.theta = std::min(s.theta, o.v.theta);
        std::map<uint64_t, MV> nm2;
        for (std::map<uint64_t, MV>::iterator it = s.m.begin(); it != s.m.end(); ++it) {
          std::map<uint64_t, MV>::const_iterator j = o.by_key.find(it->first);
          if (it->first < s.theta && j != o.by_key.end()) { F::m_set(it->second, j->second); nm2.insert(*it); }
        }
        s.m.swap(nm2);
      }
    }
    if (ctx && view_of<F>(o.base()).sig() != o.v.sig()) ctx->fail("intersection-operand-unchanged", "an lvalue operand (or the original of an rvalue copy) changed: " + o.label);
    if (F::TRACKED && ctx) ctx->eq("intersection-live-summaries-delta", iled().live - live0, (long long)s.x.state_.table_.num_entries_ - n0);
    flush_ledger(ctx, "intersection update");
    return true;
  }
  std::string canon(State& s) {
    std::string c; c.reserve(512); table_canon<F>(c, s.x.state_.table_);
    c += s.x.state_.is_valid_ ? 'V' : 'v'; c += 'T'; put_hex(c, s.tx.state_.table_.theta_); c += ','; put_hex(c, s.tx.state_.table_.num_entries_); c += s.tx.state_.table_.is_empty_ ? 'E' : 'e';
    c += s.valid ? 'V' : 'v'; c += s.empty ? 'E' : 'e'; put_hex(c, s.theta);
    for (std::map<uint64_t, MV>::const_iterator i = s.m.begin(); i != s.m.end(); ++i) { put_hex(c, i->first); c += ':'; put_mv(c, i->second); c += ','; }
    return c;
  }
  void check(State& s, Ctx& c) {
    flush_ledger(nullptr, ""); const long long live0 = iled().live; const std::string canon0 = canon(s);
    CK_EQ(c, "intersection-has_result", s.x.has_result(), s.valid);
    if (!s.valid) {
      bool threw = false; try { s.x.get_result(); } catch (const std::invalid_argument&) { threw = true; }
      CK_OK(c, "intersection-no-result-before-update", threw, "get_result() before any update did not throw");
      c.rep.outcome("intersection|undefined");
      return;
    }
    const Ents expect(s.m.begin(), s.m.end());
    for (int ord = 1; ord >= 0; --ord) {
      const std::string t = ord ? "intersection-ordered" : "intersection-unordered";
      const View r = view_of<F>(s.x.get_result(ord == 1));
      const compact_theta_sketch tr = s.tx.get_result(ord == 1);
      CK_EQ(c, t + "-empty", r.empty, s.empty || (s.m.empty() && s.theta == MAXT)); CK_EQ(c, t + "-theta", r.theta, s.theta); CK_EQ(c, t + "-num-retained", (size_t)r.n, r.e.size());
      if (sorted_ents(r.e) != expect) c.fail(t + "-keys-and-folded-summaries", "got " + ents_str(sorted_ents(r.e)) + " expected " + ents_str(expect));
      if (ord) CK_OK(c, t + "-flag", r.ordered, "ordered result requested but is_ordered() is false");
      if (r.ordered) CK_OK(c, t + "-is-sorted", strictly_sorted(r.e), "is_ordered() but entries are not sorted");
      CK_EQ(c, t + "-seed-hash", r.seed_hash, oracle::seed_hash(seed)); CK_OK(c, t + "-columns", r.exact, "wrong number of columns");
      { std::vector<uint64_t> tk = theta_keys(tr), rk = keys_of(r.e); std::sort(tk.begin(), tk.end()); std::sort(rk.begin(), rk.end());
        CK_EQ(c, t + "-theta==theta_intersection", r.theta, tr.get_theta64()); CK_EQ(c, t + "-empty==theta_intersection", r.empty, tr.is_empty()); CK_OK(c, t + "-keys==theta_intersection", tk == rk, "keys differ from theta_intersection fed the same key sets"); }
      if (ord) c.rep.outcome(std::string("intersection|") + (r.empty ? "empty" : r.e.empty() ? "zero" : r.theta < MAXT ? "est" : "exact"));
    }
    { Inter cp(s.x); const View a = view_of<F>(cp.get_result(true)), b = view_of<F>(s.x.get_result(true)); CK_OK(c, "intersection-copy-same-result", a.sig() == b.sig(), "a copy of the intersection gives another result"); }
    if (F::TRACKED) CK_EQ(c, "intersection-live-summaries-after-observers", iled().live, live0);
    flush_ledger(&c, "get_result");
    CK_OK(c, "intersection-get_result-does-not-mutate", canon(s) == canon0, "get_result changed the intersection");
    flush_ledger(nullptr, "");
  }
};

// =================================================================================================================
static const char* rf_name(RF rf) { static const char* n[] = {"X1", "X2", "X4", "X8"}; return n[(int)rf]; }
static std::vector<int64_t> values(size_t n) { const int64_t v[] = {1, 2, 3}; return std::vector<int64_t>(v, v + n); }

// every update() overload of the tuple sketch selects the same key as the Theta sketch does: typed boundary grid plus every
// value of the 8- and 16-bit integer types, against the lock-step theta sketch and the independent oracle hash
template<class F> static void typed_overloads(Report& rep, const Config& cfg, const std::string& scen) {
  if (!cfg.replay_scenario.empty() && cfg.replay_scenario != scen) return;
  std::vector<tc::Val> g = tc::typed_grid();
  const size_t grid_n = g.size();
  const bool all16 = !cfg.quick() || std::string(F::tag()) == "i64";   // the overloads are one template; quick sweeps 2^16 for one instantiation
  for (uint32_t v = 0; v < 65536; v += all16 ? 1 : 257) { g.push_back(tc::vu16((uint16_t)v)); g.push_back(tc::vi16((int16_t)v)); g.push_back(tc::vu16((uint16_t)(65535 - v))); }
  for (uint32_t v = 0; v < 256; ++v) { g.push_back(tc::vu8((uint8_t)v)); g.push_back(tc::vi8((int8_t)v)); }
  const uint64_t seeds[] = {DEFAULT_SEED, 123456789ULL};
  uint64_t n = 0;
  for (size_t si = 0; si < 2; ++si) for (size_t i = 0; i < (si ? grid_n : g.size()); ++i) {
    std::string hist = g[i].label + "/seed" + str(seeds[si]);
    if (!cfg.replay_history.empty() && cfg.replay_history != hist) continue;
    if (!journal(scen, hist)) continue;
    typename F::USk sk(F::make_usk(true, 5, RF::X8, 1.0f, seeds[si]));
    update_theta_sketch th = update_theta_sketch::builder().set_lg_k(5).set_seed(seeds[si]).build();
    do_update2<F>(sk, g[i], 2); tc::do_update(th, g[i]);
    oracle::H128 h; bool valid = tc::oracle_hash128(g[i], seeds[si], h);
    Ctx c(rep, scen, hist);
    c.eq("empty-as-theta", sk.is_empty(), th.is_empty());
    if (c.eq("retained-as-theta", sk.get_num_retained(), th.get_num_retained()) && th.get_num_retained() == 1) {
      c.eq("key-as-theta", (*sk.begin()).first, *th.begin());
      if (valid && oracle::theta_hash(h) != 0) c.eq("key-as-oracle", (*sk.begin()).first, oracle::theta_hash(h));
      MV one = F::read((*sk.begin()).second);
      c.ok("summary-created-and-updated-once", one.size() > 0);
    }
    if (!valid) c.ok("ignored-input-leaves-empty", sk.is_empty() && sk.get_num_retained() == 0);
    rep.flush_ctx_fails(c.fails, scen, hist);
    ++n;
    if (i < 400) rep.outcome(std::string("overload|") + g[i].label.substr(0, 3) + (sk.is_empty() ? "|ignored" : "|retained"));
  }
  journal_clear();
  rep.evaluations += n; rep.states += n; rep.transitions += n; rep.traces += n;
  rep.scenarios.push_back(scen + ": " + str(n) + " (typed value, seed) cases; " + (all16 ? "all 2^16" : "every 257th and its complement of the") + " values of uint16_t/int16_t, all 2^8 of uint8_t/int8_t, boundary grid for the rest (second seed: grid only)");
}
template<class F> static void add_overloads(std::vector<Task>& tasks, const Config& cfg) {
  std::string scen = std::string("overloads/") + F::tag();
  Task t; t.name = scen; t.fn = [scen, &cfg](Report& rep) { typed_overloads<F>(rep, cfg, scen); }; tasks.push_back(t);
}

// array-of-doubles A-not-B with operands of DIFFERENT column counts (B contributes keys only): the result has A's number of values
// and A's summaries, also after a round trip. Every pair of subsets of a 6-key universe x {ordered, unordered} x column counts.
static void aod_anotb_mixed_columns(Report& rep, const Config& cfg, const std::string& scen) {
  if (!cfg.replay_scenario.empty() && cfg.replay_scenario != scen) return;
  typedef array<double> Arr; typedef update_array_tuple_sketch<Arr> UA; typedef compact_array_tuple_sketch<Arr> CA;
  const int NK = 6; const int cols[3][2] = {{3, 1}, {1, 3}, {2, 2}}; uint64_t n = 0;
  for (int ci = 0; ci < 3; ++ci) for (unsigned ma = 1; ma < (1u << NK); ++ma) for (unsigned mb = 0; mb < (1u << NK); ++mb) for (int ord = 0; ord < 2; ++ord) {
    const int na = cols[ci][0], nb = cols[ci][1];
    std::string hist = "colsA" + str(na) + "/colsB" + str(nb) + "/A" + str(ma) + "/B" + str(mb) + (ord ? "/ordered" : "/unordered");
    if (!cfg.replay_history.empty() && cfg.replay_history != hist) continue;
    if (!journal(scen, hist)) continue;
    UA a = UA::builder(default_array_tuple_update_policy<Arr>((uint8_t)na)).set_lg_k(5).build(), b = UA::builder(default_array_tuple_update_policy<Arr>((uint8_t)nb)).set_lg_k(5).build();
    update_theta_sketch ta = update_theta_sketch::builder().set_lg_k(5).build(), tb = update_theta_sketch::builder().set_lg_k(5).build();
    std::map<uint64_t, std::vector<double> > want;   // hash -> A's summary
    for (int k = 0; k < NK; ++k) {
      if (ma & (1u << k)) { std::vector<double> v((size_t)na); for (int j = 0; j < na; ++j) v[(size_t)j] = 10 * k + j + 1; a.update((uint64_t)k, v); ta.update((uint64_t)k); }
      if (mb & (1u << k)) { std::vector<double> v((size_t)nb, 7.0); b.update((uint64_t)k, v); tb.update((uint64_t)k); }
    }
    for (auto it = a.begin(); it != a.end(); ++it) { std::vector<double> v; for (uint8_t j = 0; j < (*it).second.size(); ++j) v.push_back((*it).second[j]); want[(*it).first] = v; }
    Ctx c(rep, scen, hist);
    array_tuple_a_not_b<Arr> op; CA r = op.compute(a, b, ord == 1);
    theta_a_not_b top; compact_theta_sketch tr = top.compute(ta, tb, true);
    for (int form = 0; form < 2; ++form) try {
      std::stringstream ss(std::ios::in | std::ios::out | std::ios::binary);
      if (form == 1) r.serialize(ss);
      CA x = form == 0 ? CA(r) : CA::deserialize(ss);
      const std::string f = form ? "restored:" : "result:";
      c.eq(f + "num_values==A's", (int)x.get_num_values(), na);
      c.eq(f + "retained==theta-a-not-b", x.get_num_retained(), tr.get_num_retained());
      bool ok = true; std::string why;
      for (auto it = x.begin(); it != x.end(); ++it) {
        std::map<uint64_t, std::vector<double> >::iterator w = want.find((*it).first);
        if (w == want.end()) { ok = false; why = "a key that A does not hold"; break; }
        if ((int)(*it).second.size() != na) { ok = false; why = "summary with " + str((int)(*it).second.size()) + " values"; break; }
        for (int j = 0; j < na; ++j) if ((*it).second[(uint8_t)j] != w->second[(size_t)j]) { ok = false; why = "summary differs from A's"; }
      }
      c.ok(f + "summaries-are-A's", ok, why);
    } catch (const std::exception& e) { c.fail(form ? "restored:unexpected-exception" : "result:unexpected-exception", e.what()); }
    rep.flush_ctx_fails(c.fails, scen, hist); ++n;
  }
  journal_clear();
  rep.evaluations += n; rep.states += n; rep.transitions += n; rep.traces += n;
  rep.scenarios.push_back(scen + ": " + str(n) + " (column counts, A subset, B subset, ordered) cases");
  rep.outcome("aod-anotb|mixed-columns");
}

// E1 on the update sketch: tiny configuration, optional seeded start (the last `seeded` keys already offered once)
template<class F> static void add_upd_bfs(std::vector<Task>& tasks, const Config& cfg, int lg, RF rf, float p, uint64_t seed, size_t nkeys, bool types, size_t nvals, size_t seeded, int depth, size_t max_states) {
  UpdSys<F> sys; sys.lg_nom = (uint8_t)lg; sys.rf = rf; sys.p = p; sys.seed = seed; sys.legal = false; sys.keys = pick_keys(nkeys, seed, types); sys.vals = values(nvals);
  for (size_t i = 0; i < seeded && i < sys.keys.size(); ++i) sys.prefix.push_back(sys.op_of(sys.keys.size() - 1 - i, i % nvals));
  sys.nm = std::string("upd/") + F::tag() + "/lgk" + str(lg) + "/rf" + rf_name(rf) + "/p" + str(p) + "/seed" + str(seed) + "/keys" + str(sys.keys.size()) + (types ? "t" : "") + "/vals" + str(nvals) + "/seeded" + str(seeded) + "/depth" + str(depth);
  BfsLimits lim; lim.max_depth = depth; lim.max_states = max_states;
  Task t; t.name = sys.nm; t.fn = [sys, lim, &cfg](Report& rep) mutable { explore(sys, rep, cfg, lim); };
  tasks.push_back(t);
}
// E2 on the update sketch: pass 1 offers n distinct keys, pass 2 offers every second key again with the other value
template<class F> static void add_upd_paths(std::vector<Task>& tasks, const Config& cfg, int lg, bool legal, RF rf, float p, size_t n, int max_dev, size_t stride, size_t menu_size) {
  UpdSys<F> sys; sys.lg_nom = (uint8_t)lg; sys.rf = rf; sys.p = p; sys.seed = DEFAULT_SEED; sys.legal = legal; sys.vals = values(2);
  if (legal) for (size_t i = 0; i < n; ++i) sys.keys.push_back(tc::vu64(100000 + i)); else sys.keys = pick_keys(n, sys.seed, false);
  sys.keys.push_back(tc::vi64((int64_t)sys.keys[3].bits)); sys.keys.push_back(tc::vf64(-0.0, "-0")); sys.keys.push_back(tc::vstr("a"));
  sys.nm = std::string("upd-paths/") + F::tag() + (legal ? "/legal" : "/tiny") + "/lgk" + str(lg) + "/rf" + rf_name(rf) + "/p" + str(p) + "/n" + str(n);
  std::vector<size_t> def, menu;
  for (size_t i = 0; i < n; ++i) def.push_back(sys.op_of(i, i % 2));
  for (size_t i = 0; i < n; i += 2) def.push_back(sys.op_of(i, (i + 1) % 2));
  const size_t m[] = {(size_t)UpdSys<F>::OP_TRIM, (size_t)UpdSys<F>::OP_RESET, sys.op_of(3, 0), sys.op_of(n, 1), sys.op_of(n / 2, 1), sys.op_of(n + 1, 0), sys.op_of(n + 2, 1)};
  for (size_t i = 0; i < menu_size && i < sizeof(m) / sizeof(m[0]); ++i) menu.push_back(m[i]);
  PathLimits pl; pl.max_dev = max_dev; pl.check_stride = stride;
  Task t; t.name = sys.nm; t.fn = [sys, def, menu, pl, &cfg](Report& rep) mutable { explore_paths(sys, def, menu, rep, cfg, pl); };
  tasks.push_back(t);
}
template<class F> static void add_anotb(std::vector<Task>& tasks, const Config& cfg, size_t universe, const std::vector<uint8_t>& lgks, const std::vector<float>& ps, const std::vector<int>& forms, size_t chunk) {
  size_t total; { Menu<F> m(universe, DEFAULT_SEED); m.add_product(lgks, ps, forms); total = m.ops.size(); }
  for (size_t from = 0, ci = 0; from < total; from += chunk, ++ci) {
    std::string scen = std::string("anotb/") + F::tag() + "/u" + str(universe) + "/ops" + str(total) + "/chunk" + str(ci);
    Task t; t.name = scen; t.fn = [=, &cfg](Report& rep) { Menu<F> m(universe, DEFAULT_SEED); m.add_product(lgks, ps, forms); anotb_pairs<F>(rep, cfg, scen, m, from, from + chunk); };
    tasks.push_back(t);
  }
}
template<class F> static void add_union(std::vector<Task>& tasks, const Config& cfg, int lg, float p, size_t universe, bool small, int depth, size_t max_states) {
  UnionSys<F> sys; sys.lg_nom = (uint8_t)lg; sys.p = p; sys.seed = DEFAULT_SEED; sys.universe = universe; sys.small = small;
  sys.nm = std::string("union/") + F::tag() + "/lgk" + str(lg) + "/p" + str(p) + "/u" + str(universe) + (small ? "/small-menu" : "/menu") + "/depth" + str(depth);
  BfsLimits lim; lim.max_depth = depth; lim.max_states = max_states;
  Task t; t.name = sys.nm; t.fn = [sys, lim, &cfg](Report& rep) mutable { sys.init(); sys.menu->report_problems(rep, sys.nm); explore(sys, rep, cfg, lim);
    std::map<std::string, int> cov; for (size_t i = 0; i < sys.menu->ops.size(); ++i) cov[sys.menu->ops[i].mode() + "/" + form_name(sys.menu->ops[i].form)]++;
    std::string s; for (std::map<std::string, int>::const_iterator i = cov.begin(); i != cov.end(); ++i) s += i->first + " "; rep.sets("menu_coverage_" + sys.nm, s); };
  tasks.push_back(t);
}
template<class F> static void add_inter(std::vector<Task>& tasks, const Config& cfg, size_t universe, bool small, int depth, size_t max_states) {
  InterSys<F> sys; sys.seed = DEFAULT_SEED; sys.universe = universe; sys.small = small;
  sys.nm = std::string("intersection/") + F::tag() + "/u" + str(universe) + (small ? "/small-menu" : "/menu") + "/depth" + str(depth);
  BfsLimits lim; lim.max_depth = depth; lim.max_states = max_states;
  Task t; t.name = sys.nm; t.fn = [sys, lim, &cfg](Report& rep) mutable { sys.init(); sys.menu->report_problems(rep, sys.nm); explore(sys, rep, cfg, lim); };
  tasks.push_back(t);
}

int main(int argc, char** argv) {
  Config cfg = parse_args(argc, argv);
  std::string ht = oracle::self_test();
  if (!ht.empty()) { fprintf(stderr, "HARNESS-ERROR oracle hash self-test failed: %s\n", ht.c_str()); return 3; }
  forbid_unowned_draws();
  case_timeout_s() = 600;   // the watchdog is re-armed every 64 cases; 64 paths of 400 steps on a loaded machine exceeded the default 20 s once
  const bool q = cfg.quick();
  std::vector<Task> tasks;
  { Task t; t.name = "notes"; t.fn = [](Report& rep) {
      rep.assumptions.push_back("tiny configurations (lg_k 1..3) are reached through the private constructors of update_tuple_sketch / tuple_union; they run the same template code as legal sizes (lg_k 5 is explored too)");
      rep.assumptions.push_back("key alphabets are finite (6..24 keys per scenario, hash collisions forced, typed overloads mixed); values 1..3; summaries grow without bound, so every BFS is depth-bounded, not a fixpoint");
      rep.assumptions.push_back("a key at or above theta can never be retained again before a reset (theta only falls; checked), so its fold is dropped from the model");
      rep.assumptions.push_back("intersection model is a function of the multiset of inputs (order-independent): empty iff an input was empty or nothing is left at theta 1.0; an empty union result reports theta 1.0 whatever p");
      rep.assumptions.push_back("theta sketches enter tuple set operations through compact_tuple_sketch(theta_sketch, summary, ordered), the only route the C++ API offers");
      rep.sets("rule", "update sketch: BFS (depth bound) / all paths with <=d deviations over update(key,value)/trim/reset on the product (tuple sketch x lock-step theta sketch x map<hash,fold>); set operations: BFS (depth bound) over update(M_i) sequences incl. rvalue inputs and reset, all ordered pairs x {ordered,unordered} x {lvalue,rvalue A} for A-not-B. Distinct = distinct oracle outcome tag.");
    }; tasks.push_back(t); }
  const uint64_t DS = DEFAULT_SEED;
  // ---- Part A, E1 ----
  add_upd_bfs<FI64>(tasks, cfg, 1, RF::X1, 1.0f, DS, q ? 5 : 6, false, 2, 0, q ? 6 : 7, 3000000);
  add_upd_bfs<FI64>(tasks, cfg, 1, RF::X2, 0.5f, DS, q ? 8 : 9, false, 2, 0, q ? 5 : 6, 3000000);
  add_upd_bfs<FI64>(tasks, cfg, 1, RF::X8, 1.0f, 7, 6, true, 3, 0, q ? 5 : 6, 3000000);
  add_upd_bfs<FI64>(tasks, cfg, 2, RF::X2, 1.0f, DS, 10, true, 2, 5, q ? 4 : 6, 3000000);
  add_upd_bfs<FI64>(tasks, cfg, 2, RF::X1, 0.5f, DS, 14, false, 2, 8, q ? 4 : 5, 3000000);
  add_upd_bfs<FI64>(tasks, cfg, 3, RF::X4, 1.0f, DS, 18, false, 2, q ? 14 : 13, q ? 3 : 4, 3000000);
  add_upd_bfs<FInst>(tasks, cfg, 1, RF::X2, 1.0f, DS, 6, false, 2, 0, q ? 5 : 6, 3000000);
  add_upd_bfs<FInst>(tasks, cfg, 2, RF::X8, 1.0f, DS, 10, true, 2, 5, q ? 4 : 6, 3000000);
  add_upd_bfs<FInst>(tasks, cfg, 3, RF::X1, 0.5f, DS, 30, false, 2, 26, q ? 3 : 4, 3000000);
  add_upd_bfs<FArr<3> >(tasks, cfg, 1, RF::X2, 1.0f, DS, 6, false, 2, 0, q ? 6 : 7, 3000000);
  add_upd_bfs<FArr<3> >(tasks, cfg, 2, RF::X4, 1.0f, DS, 10, true, 2, 5, q ? 4 : 6, 3000000);
  add_upd_bfs<FArr<1> >(tasks, cfg, 1, RF::X1, 0.5f, DS, 8, false, 2, 0, q ? 6 : 7, 3000000);
  add_upd_bfs<FArr<1> >(tasks, cfg, 2, RF::X2, 1.0f, DS, 10, false, 2, 5, q ? 4 : 5, 3000000);
  add_overloads<FI64>(tasks, cfg); add_overloads<FInst>(tasks, cfg); add_overloads<FArr<3> >(tasks, cfg);
  { Task t; t.name = "anotb/aod-mixed-columns"; std::string nm = t.name; t.fn = [nm, &cfg](Report& rep) { aod_anotb_mixed_columns(rep, cfg, nm); }; tasks.push_back(t); }
  // ---- Part A, E2 ----
  add_upd_paths<FI64>(tasks, cfg, 5, true, RF::X8, 1.0f, 136, 1, q ? 5 : 2, q ? 5 : 7);
  add_upd_paths<FI64>(tasks, cfg, 5, true, RF::X1, 0.5f, q ? 150 : 270, 1, 5, q ? 5 : 7);
  add_upd_paths<FInst>(tasks, cfg, 5, true, RF::X2, 1.0f, 136, 1, q ? 5 : 3, q ? 3 : 7);
  add_upd_paths<FArr<3> >(tasks, cfg, 5, true, RF::X8, 1.0f, 136, 1, q ? 5 : 3, q ? 3 : 7);
  add_upd_paths<FArr<1> >(tasks, cfg, 5, true, RF::X4, 1.0f, 136, 1, q ? 5 : 3, q ? 3 : 7);
  add_upd_paths<FI64>(tasks, cfg, 3, false, RF::X2, 1.0f, q ? 18 : 24, 2, 1, q ? 4 : 7);
  add_upd_paths<FI64>(tasks, cfg, 2, false, RF::X8, 1.0f, q ? 14 : 12, q ? 2 : 3, 1, q ? 5 : 4);
  add_upd_paths<FInst>(tasks, cfg, 3, false, RF::X1, 1.0f, q ? 20 : 24, 2, 1, q ? 3 : 5);
  add_upd_paths<FArr<3> >(tasks, cfg, 3, false, RF::X8, 1.0f, q ? 20 : 24, 2, 1, q ? 3 : 5);
  if (!q) add_upd_paths<FI64>(tasks, cfg, 6, true, RF::X8, 1.0f, 260, 1, 5, 7);
  // ---- Part B ----
  { std::vector<uint8_t> lg; lg.push_back(1); lg.push_back(2); lg.push_back(5); std::vector<float> ps; ps.push_back(1.0f); ps.push_back(0.5f);
    std::vector<int> all; for (int f = 0; f < NFORMS; ++f) all.push_back(f);
    std::vector<int> few; few.push_back(FORM_UPD); few.push_back(FORM_CU); few.push_back(FORM_CO); few.push_back(FORM_DB);
    std::vector<uint8_t> lg2; lg2.push_back(1); lg2.push_back(2);
    std::vector<uint8_t> lg15; lg15.push_back(1); lg15.push_back(5);
    add_anotb<FI64>(tasks, cfg, q ? 4 : 5, q ? lg15 : lg, ps, all, q ? 48 : 64);
    add_anotb<FInst>(tasks, cfg, q ? 3 : 4, lg2, ps, all, 96);
    add_anotb<FArr<3> >(tasks, cfg, q ? 3 : 4, lg2, ps, few, 128);
    add_anotb<FArr<1> >(tasks, cfg, 3, lg2, ps, few, 128); }
  const int ud = q ? 4 : 5;
  add_union<FI64>(tasks, cfg, 1, 1.0f, 5, q, ud, 3000000);
  add_union<FI64>(tasks, cfg, 1, 0.5f, 5, q, ud, 3000000);
  add_union<FI64>(tasks, cfg, 2, 1.0f, 5, q, ud, 3000000);
  add_union<FI64>(tasks, cfg, 1, 1.0f, 5, false, ud - 1, 3000000);
  add_union<FI64>(tasks, cfg, 2, 0.5f, 5, false, ud - 1, 3000000);
  add_union<FI64>(tasks, cfg, 5, 1.0f, 5, false, ud - 1, 3000000);
  add_union<FI64>(tasks, cfg, 5, 0.5f, 5, true, ud, 3000000);
  add_union<FInst>(tasks, cfg, 1, 1.0f, 5, true, ud, 3000000);
  add_union<FInst>(tasks, cfg, 2, 0.5f, 5, false, ud - 1, 3000000);
  add_union<FArr<3> >(tasks, cfg, 1, 1.0f, 5, false, ud - 1, 3000000);
  add_union<FArr<3> >(tasks, cfg, 2, 1.0f, 5, true, ud, 3000000);
  add_union<FArr<1> >(tasks, cfg, 1, 0.5f, 5, true, ud, 3000000);
  // unions built through each family's own builder (lg_k 5 is the smallest it accepts) with a sampling probability below 1
  add_union<FArr<3> >(tasks, cfg, 5, 0.5f, 5, false, ud - 1, 3000000);
  add_union<FArr<1> >(tasks, cfg, 5, 0.5f, 5, true, ud - 1, 3000000);
  add_union<FInst>(tasks, cfg, 5, 0.5f, 5, false, ud - 1, 3000000);
  add_inter<FI64>(tasks, cfg, 5, false, ud - 1, 3000000);
  add_inter<FI64>(tasks, cfg, 5, true, ud, 3000000);
  add_inter<FInst>(tasks, cfg, 5, false, ud - 1, 3000000);
  add_inter<FInst>(tasks, cfg, 5, true, ud, 3000000);
  add_inter<FArr<3> >(tasks, cfg, 5, false, ud, 3000000);
  add_inter<FArr<1> >(tasks, cfg, 5, true, ud, 3000000);
  return run_tasks(cfg, "C13", tasks);
}
