// C10: images keep the documented cross-language layout; old images stay readable; hashing matches the published definitions.
// Four parts, all complete enumerations:
//   (1) MurmurHash3_x64_128 / XXHash64 / compute_seed_hash against independent implementations for all lengths 0..80 x seeds x patterns;
//   (2) golden corpus (/verif/golden/*.txt, written once by the baseline commit): every golden image still deserializes to the
//       recorded observation (bytes and stream), and replaying the entry's state on the current tree writes the golden bytes again;
//   (3) the reference images shipped with the repository are read on both paths and agree with the facts in their names;
//   (4) decoders written only from the documented layouts (harness/decoders.hpp) recover from the image what the API reports,
//       for every corpus state.
#define MC_MAIN
#include "families.hpp"
#include "fam_all.hpp"
#include "oracle_hash.hpp"
#include "decoders.hpp"
#include <MurmurHash3.h>
#include <xxhash64.h>
#include <fstream>
#include <regex>
using namespace mc;
using namespace fam;

static std::string golden_dir() { return "golden"; }
static std::string fname(const std::string& family) { std::string s; for (size_t i = 0; i < family.size(); ++i) { char c = family[i]; s += (isalnum((unsigned char)c) || c == '-' || c == '_') ? c : '_'; } return s; }
static Bytes unhex(const std::string& h) { Bytes b; for (size_t i = 0; i + 1 < h.size(); i += 2) b.push_back((uint8_t)strtoul(h.substr(i, 2).c_str(), nullptr, 16)); return b; }
static std::string hexall(const Bytes& b) { return hexs(b, (size_t)-1); }
static const size_t GOLDEN_MAX = 2048;

// ---------- (1) hashing ----------
static void hashing(Report& rep) {
  const uint64_t seeds[] = {0, 1, 9001, 0x9E3779B97F4A7C15ULL, 0xFFFFFFFFFFFFFFFFULL, 42, 0x8000000000000000ULL, 123456789};
  uint64_t n = 0;
  for (size_t len = 0; len <= 80; ++len) for (int si = 0; si < 8; ++si) for (int pat = 0; pat < 4; ++pat) {
    std::vector<uint8_t> buf(len + 1);
    for (size_t i = 0; i < len; ++i) buf[i] = pat == 0 ? 0 : pat == 1 ? 0xff : pat == 2 ? (uint8_t)(i * 37 + 11) : (uint8_t)(0x80 >> (i % 8));
    std::string h = "len" + str(len) + "/seed" + str(seeds[si]) + "/pat" + str(pat);
    if (!journal("hashing", h)) continue;
    Ctx c(rep, "hashing", h);
    HashState hs; MurmurHash3_x64_128(buf.data(), len, seeds[si], hs);
    oracle::H128 o = oracle::murmur3_x64_128(buf.data(), len, seeds[si]);
    c.ok("murmur3_x64_128==reference", hs.h1 == o.h1 && hs.h2 == o.h2, "got " + hex64(hs.h1) + hex64(hs.h2) + " expected " + hex64(o.h1) + hex64(o.h2));
    c.eq("xxhash64==reference", XXHash64::hash(buf.data(), len, seeds[si]), oracle::xxh64(buf.data(), len, seeds[si]));
    // incremental interface in chunks of 1, 7 and 33 bytes
    const size_t chunks[] = {1, 7, 33};
    for (int ci = 0; ci < 3; ++ci) { XXHash64 x(seeds[si]); for (size_t p = 0; p < len; p += chunks[ci]) x.add(buf.data() + p, std::min(chunks[ci], len - p)); c.eq("xxhash64-incremental==reference", x.hash(), oracle::xxh64(buf.data(), len, seeds[si])); }
    rep.flush_ctx_fails(c.fails, "hashing", h); ++n;
  }
  for (int si = 0; si < 8; ++si) { Ctx c(rep, "hashing", "seedhash" + str(seeds[si])); c.eq("compute_seed_hash==reference", compute_seed_hash(seeds[si]), oracle::seed_hash(seeds[si])); rep.flush_ctx_fails(c.fails, "hashing", "seedhash" + str(seeds[si])); ++n; }
  { Ctx c(rep, "hashing", "seedhash9001"); c.eq("seed-hash-of-default-seed==0x93CC", (int)compute_seed_hash(datasketches::DEFAULT_SEED), 0x93cc); rep.flush_ctx_fails(c.fails, "hashing", "seedhash9001"); }
  journal_clear();
  rep.evaluations += n; rep.states += n; rep.transitions += n; rep.traces += n;
  rep.scenarios.push_back("hashing: " + str(n) + " (length, seed, pattern) cases");
  rep.outcome("hashing");
}

// ---------- (2) golden corpus ----------
struct GoldenEntry { std::string label, hex, obs; };
static bool load_golden(const std::string& family, std::vector<GoldenEntry>& out, std::map<std::string, std::string>& exceptions) {
  std::ifstream f((golden_dir() + "/" + fname(family) + ".txt").c_str());
  if (!f) return false;
  std::string line;
  while (std::getline(f, line)) {
    size_t a = line.find('\t'), b = line.find('\t', a + 1);
    if (a == std::string::npos || b == std::string::npos) continue;
    GoldenEntry e; e.label = line.substr(0, a); e.hex = line.substr(a + 1, b - a - 1); e.obs = line.substr(b + 1); out.push_back(e);
  }
  std::ifstream x((golden_dir() + "/EXCEPTIONS.txt").c_str());
  while (std::getline(x, line)) {   // family \t label-regex \t kind \t reason
    if (line.empty() || line[0] == '#') continue;
    size_t a = line.find('\t'); if (a == std::string::npos) continue;
    if (line.substr(0, a) == family) exceptions[line.substr(a + 1)] = "1";
  }
  return true;
}
// exception kinds: "bytes-prefix" (current image is a prefix of the golden one, rest zero), "obs" (recorded observation was wrong on the baseline), "bytes" (image legitimately changed)
static bool excepted(const std::map<std::string, std::string>& ex, const std::string& label, const std::string& kind) {
  for (std::map<std::string, std::string>::const_iterator i = ex.begin(); i != ex.end(); ++i) {
    size_t a = i->first.find('\t'), b = i->first.find('\t', a + 1);
    std::string pat = i->first.substr(0, a), k = i->first.substr(a + 1, b - a - 1);
    if (k == kind && std::regex_match(label, std::regex(pat))) return true;   // the label pattern is a full-match regular expression
  }
  return false;
}
// kind "obs-field:<name>": the field |<name>=...| of the recorded observation was computed by a query function that was itself
// repaired since; it is removed from both sides and everything else is still compared
static std::string strip_excepted_fields(const std::map<std::string, std::string>& ex, const std::string& label, std::string obs) {
  for (std::map<std::string, std::string>::const_iterator i = ex.begin(); i != ex.end(); ++i) {
    size_t a = i->first.find('\t'), b = i->first.find('\t', a + 1);
    std::string pat = i->first.substr(0, a), k = i->first.substr(a + 1, b - a - 1);
    if (k.compare(0, 10, "obs-field:") != 0 || !std::regex_match(label, std::regex(pat))) continue;
    const std::string key = "|" + k.substr(10) + "=";
    size_t p = obs.find(key); if (p == std::string::npos) continue;
    size_t e = obs.find('|', p + 1);
    obs.erase(p, e == std::string::npos ? std::string::npos : e - p);
  }
  return obs;
}
static void emit_golden(const Family& f, bool quick) {
  std::ofstream out((golden_dir() + "/" + fname(f.name) + ".txt").c_str());
  size_t n = 0;
  f.states(quick, [&](const std::string& label, Obj& o) {
    Bytes b = o.ser(0); if (b.size() > GOLDEN_MAX) return;
    std::string obs = guarded([&] { return o.obs(); });
    for (size_t i = 0; i < obs.size(); ++i) if (obs[i] == '\t' || obs[i] == '\n') obs[i] = ' ';
    out << label << '\t' << hexall(b) << '\t' << obs << '\n'; ++n;
  });
  fprintf(stderr, "golden: %s: %zu entries\n", f.name.c_str(), n);
}
static void golden(const Family& f, Report& rep, const Config& cfg) {
  std::vector<GoldenEntry> g; std::map<std::string, std::string> ex;
  if (!load_golden(f.name, g, ex)) { fprintf(stderr, "HARNESS-ERROR: golden corpus for %s is missing (run tools/make_golden.sh)\n", f.name.c_str()); abort(); }
  std::map<std::string, const GoldenEntry*> by_label; for (size_t i = 0; i < g.size(); ++i) by_label[g[i].label] = &g[i];
  const std::string sc = "golden/" + f.name; size_t readable = 0, rewritten = 0;
  // (a) every golden image is still readable and means the same
  for (size_t i = 0; i < g.size(); ++i) {
    if (!cfg.replay_history.empty() && cfg.replay_history != g[i].label) continue;
    if (!journal(sc, g[i].label)) continue;
    Ctx c(rep, sc, g[i].label); Bytes b = unhex(g[i].hex); int a0 = asan_errors();
    const bool obs_ok = !excepted(ex, g[i].label, "obs");
    try { Sched s(0, 11); ObjP o = f.from_bytes(b.data(), b.size()); std::string ob = o->obs(); if (obs_ok) c.ok("golden-image-readable-bytes", strip_excepted_fields(ex, g[i].label, ob) == strip_excepted_fields(ex, g[i].label, g[i].obs), "baseline image now reads as " + ob.substr(0, 300) + " VS recorded " + g[i].obs.substr(0, 300)); }
    catch (const std::exception& e) { c.fail("golden-image-readable-bytes", std::string("baseline image rejected: ") + e.what()); }
    try { Sched s(0, 11); std::istringstream is(std::string(b.begin(), b.end())); ObjP o = f.from_stream(is); std::string ob = o->obs(); if (obs_ok) c.ok("golden-image-readable-stream", strip_excepted_fields(ex, g[i].label, ob) == strip_excepted_fields(ex, g[i].label, g[i].obs), "baseline image now reads as " + ob.substr(0, 300) + " VS recorded " + g[i].obs.substr(0, 300)); }
    catch (const std::exception& e) { c.fail("golden-image-readable-stream", std::string("baseline image rejected: ") + e.what()); }
    if (asan_errors() != a0) c.fail("asan", "AddressSanitizer report while reading a baseline image");
    rep.flush_ctx_fails(c.fails, sc, g[i].label); ++readable;
  }
  // (b) the same states written by the current tree give the golden bytes
  f.states(true, [&](const std::string& label, Obj& o) {
    std::map<std::string, const GoldenEntry*>::iterator it = by_label.find(label);
    if (it == by_label.end()) return;
    if (!cfg.replay_history.empty() && cfg.replay_history != label) return;
    if (!journal(sc, "write:" + label)) return;
    Ctx c(rep, sc, "write:" + label);
    Bytes b = o.ser(0); Bytes gb = unhex(it->second->hex);
    bool same = b == gb;
    if (!same && o.unordered_layout()) { std::string ob = o.obs(); same = b.size() == gb.size() && ob == it->second->obs; }   // hash-table order is unspecified
    if (!same && excepted(ex, label, "bytes-prefix")) { same = b.size() <= gb.size() && std::equal(b.begin(), b.end(), gb.begin()); for (size_t k = b.size(); same && k < gb.size(); ++k) same = gb[k] == 0; }
    if (!same && excepted(ex, label, "bytes")) same = true;
    c.ok("writer-reproduces-golden-bytes", same, "current image " + hexs(b, 40) + " (" + str(b.size()) + " bytes) VS baseline " + hexs(gb, 40) + " (" + str(gb.size()) + " bytes)");
    rep.flush_ctx_fails(c.fails, sc, "write:" + label); ++rewritten;
  });
  journal_clear();
  rep.evaluations += readable + rewritten; rep.states += readable; rep.transitions += readable + rewritten; rep.traces += readable;
  rep.scenarios.push_back(sc + ": golden entries read=" + str(readable) + " rewritten=" + str(rewritten));
  rep.outcome("golden|" + f.name);
}

// ---------- (3b) documented format variants that this tree does not write itself but must keep reading ----------
// Built by hand from the layout documentation: encodings produced by other implementations or earlier releases.
static void format_variants(Report& rep, const Config& cfg) {
  using namespace datasketches; size_t n = 0;
  { // frequent items: an empty sketch is marked by flag bit 0 (early C++), bit 2 (Java) or both (current C++)
    const uint8_t flags[] = {0x01, 0x04, 0x05};
    for (int fi = 0; fi < 3; ++fi) for (int lg = 3; lg <= 6; lg += 3) {
      std::string h = "frequent_items/empty/flags" + str((int)flags[fi]) + "/lgmax" + str(lg);
      if (!cfg.replay_history.empty() && cfg.replay_history != h) continue;
      if (!journal("format-variants", h)) continue;
      Ctx c(rep, "format-variants", h);
      const uint8_t img[8] = {1, 1, 10, (uint8_t)lg, 3, flags[fi], 0, 0};   // preamble longs 1, serial version 1, family 10, lg max, lg cur, flags
      for (int path = 0; path < 2; ++path) {
        try { std::istringstream is(std::string((const char*)img, 8));
          frequent_items_sketch<int64_t> sk = path ? frequent_items_sketch<int64_t>::deserialize(is) : frequent_items_sketch<int64_t>::deserialize(img, 8);
          c.ok("fi-empty-variant-reads-as-empty", sk.is_empty() && sk.get_total_weight() == 0 && sk.get_num_active_items() == 0, "not empty");
          c.near("fi-empty-variant-epsilon", sk.get_epsilon(), 3.5 / (1 << lg), 1e-12);
        } catch (const std::exception& e) { c.fail("fi-empty-variant-readable", std::string(path ? "stream: " : "bytes: ") + e.what()); }
      }
      rep.flush_ctx_fails(c.fails, "format-variants", h); ++n;
    }
  }
  { // theta: the empty compact sketch of serial version 3 with and without the ordered / read-only flags other writers set
    const uint8_t flags[] = {0x0c, 0x0e, 0x1e, 0x1c};   // empty|compact, +read-only, +ordered
    for (int fi = 0; fi < 4; ++fi) {
      std::string h = "theta/empty-v3/flags" + str((int)flags[fi]);
      if (!cfg.replay_history.empty() && cfg.replay_history != h) continue;
      if (!journal("format-variants", h)) continue;
      Ctx c(rep, "format-variants", h);
      const uint16_t sh = oracle::seed_hash(DEFAULT_SEED);
      const uint8_t img[8] = {1, 3, 3, 0, 0, flags[fi], (uint8_t)(sh & 0xff), (uint8_t)(sh >> 8)};
      for (int path = 0; path < 3; ++path) {
        try { std::istringstream is(std::string((const char*)img, 8)); bool empty; uint64_t theta; uint32_t nret;
          if (path == 0) { compact_theta_sketch sk = compact_theta_sketch::deserialize(img, 8); empty = sk.is_empty(); theta = sk.get_theta64(); nret = sk.get_num_retained(); }
          else if (path == 1) { compact_theta_sketch sk = compact_theta_sketch::deserialize(is); empty = sk.is_empty(); theta = sk.get_theta64(); nret = sk.get_num_retained(); }
          else { wrapped_compact_theta_sketch sk = wrapped_compact_theta_sketch::wrap(img, 8); empty = sk.is_empty(); theta = sk.get_theta64(); nret = sk.get_num_retained(); }
          c.ok("theta-empty-variant-reads-as-empty", empty && nret == 0 && theta == theta_constants::MAX_THETA, "not the empty sketch");
        } catch (const std::exception& e) { c.fail("theta-empty-variant-readable", std::string(path == 0 ? "bytes: " : path == 1 ? "stream: " : "wrap: ") + e.what()); }
      }
      rep.flush_ctx_fails(c.fails, "format-variants", h); ++n;
    }
  }
  journal_clear();
  rep.evaluations += n; rep.states += n; rep.transitions += n; rep.traces += n;
  rep.scenarios.push_back("format-variants: hand-built documented encodings read=" + str(n));
  rep.outcome("format-variants");
}

// ---------- (4) documented-layout decoders over the corpus ----------
static void decode_corpus(const Family& f, Report& rep, const Config& cfg) {
  dec::DecoderFn fn = dec::find(f.name);
  if (!fn) { rep.scenarios.push_back("layout/" + f.name + ": no independent decoder (payload is table-compressed or not documented byte by byte)"); return; }
  const std::string sc = "layout/" + f.name; size_t n = 0;
  f.states(cfg.quick(), [&](const std::string& label, Obj& o) {
    if (!cfg.replay_history.empty() && cfg.replay_history != label) return;
    if (rep.past_deadline()) { rep.cap("global deadline reached in " + sc); return; }
    if (!journal(sc, label)) return;
    Ctx c(rep, sc, label);
    Bytes b = o.ser(0);
    try { fn(b, o, c); } catch (const std::exception& e) { c.fail("decoder-threw", e.what()); }
    rep.flush_ctx_fails(c.fails, sc, label); ++n;
  });
  journal_clear();
  rep.evaluations += n; rep.states += n; rep.transitions += n; rep.traces += n;
  rep.scenarios.push_back(sc + ": images decoded from the documentation=" + str(n));
  rep.outcome("layout|" + f.name);
}

int main(int argc, char** argv) {
  Config cfg = parse_args(argc, argv);
  forbid_unowned_draws();
  register_all_families();
  bool emit = false; for (int i = 1; i < argc; ++i) if (std::string(argv[i]) == "--emit-golden") emit = true;
  // the recorded observations are produced by the corpus adapters: a golden corpus written by other adapters is not comparable
  std::string adapters; { const char* fs[] = {"harness/families.hpp", "harness/fam_quant.hpp", "harness/fam_distinct.hpp", "harness/fam_misc.hpp"}; for (int i = 0; i < 4; ++i) adapters += read_file(fs[i]); }
  const std::string adapters_id = hex64(fnv1a(adapters));
  if (emit) { for (size_t i = 0; i < registry().size(); ++i) emit_golden(registry()[i], true); write_file(golden_dir() + "/ADAPTERS.id", adapters_id + "\n"); return 0; }
  if (read_file(golden_dir() + "/ADAPTERS.id").compare(0, 16, adapters_id) != 0) { fprintf(stderr, "HARNESS-ERROR: golden corpus was written by different corpus adapters; run tools/make_golden.sh\n"); return 3; }
  if (oracle::self_test() != "") { fprintf(stderr, "HARNESS-ERROR oracle hash self-test failed\n"); return 3; }
  std::vector<Task> tasks;
  { Task t; t.name = "hashing"; t.fn = [](Report& rep) { hashing(rep);
      rep.assumptions.push_back("golden corpus: images <= 2 KiB of the quick corpus written by the baseline commit (+ RNG hook), with the observation recorded by the same harness; exceptions (image legitimately changed by a fix: commit) are listed with reasons in golden/EXCEPTIONS.txt");
      rep.assumptions.push_back("decoders in harness/decoders.hpp are written from the layout comments in the headers and the DataSketches memory-layout documentation, not from the serializers");
      rep.sets("rule", "complete enumeration of hash inputs (len 0..80 x 8 seeds x 4 patterns), of the golden corpus, of the shipped reference images and of the corpus states for each documented layout; distinct = (part, family) tag");
    }; tasks.push_back(t); }
  { Task t; t.name = "legacy"; t.fn = [&cfg](Report& rep) { dec::legacy_images(rep, cfg); }; tasks.push_back(t); }
  { Task t; t.name = "format-variants"; t.fn = [&cfg](Report& rep) { if (!cfg.replay_scenario.empty() && cfg.replay_scenario != "format-variants") return; format_variants(rep, cfg); }; tasks.push_back(t); }
  { Task t; t.name = "legacy-layout"; t.fn = [&cfg](Report& rep) { dec::legacy_more(rep, cfg); }; tasks.push_back(t); }
  for (size_t i = 0; i < registry().size(); ++i) {
    const Family f = registry()[i];
    { Task t; t.name = "golden/" + f.name; t.fn = [f, &cfg](Report& rep) { if (!cfg.replay_scenario.empty() && cfg.replay_scenario != "golden/" + f.name) return; golden(f, rep, cfg); }; tasks.push_back(t); }
    { Task t; t.name = "layout/" + f.name; t.fn = [f, &cfg](Report& rep) { if (!cfg.replay_scenario.empty() && cfg.replay_scenario != "layout/" + f.name) return; decode_corpus(f, rep, cfg); }; tasks.push_back(t); }
  }
  return run_tasks(cfg, "C10", tasks);
}
