// C16: VarOpt samples conserve total weight and keep heavy items exactly; unions; unbiased over the sampling randomness.
// E3 (exact distribution over the library's own draws, Markov merging by canonical state) over E1-style histories:
//  seq/*  : DFS over every weight sequence up to a length bound, carrying the exact state distribution (prefixes shared)
//  fix/*  : fixed streams (increasing / decreasing / one giant among ones / array growth at k>=16), optionally with a
//           serialize->deserialize point inserted at every position
//  un/*   : unions of 2-3 operand sketches (operand distributions x union draws), every feeding order
// Oracle: vo::check_sketch on every branch; exact expectations (sum over leaves of p * adjusted weight) per item.
#define MC_MAIN
#include "varopt_common.hpp"

using namespace mc;
using namespace datasketches;
using namespace vo;

static const char* PROP = "C16";

static double cpu_s() { return (double)clock() / CLOCKS_PER_SEC; }
static unsigned grid_for(double sumw, uint32_t kfac) {
  double g = 4.0 * std::ceil(sumw) * (double)kfac;
  if (g < 256) g = 256;
  return (unsigned)g;
}

struct RunStats { uint64_t max_leaves, max_grid, nodes, exp_checks; RunStats(): max_leaves(0), max_grid(0), nodes(0), exp_checks(0) {} };

template<class Sys> static void note_stats(Report& rep, ProbTree<Sys>& pt, const RunStats& rs) {
  pt.account();
  rep.count("probe_runs", (double)pt.st.runs); rep.count("replays", (double)pt.replays); rep.count("raw_choice_points", (double)pt.st.raw_points);
  rep.count("expectation_nodes", (double)rs.nodes); rep.evaluations += rs.exp_checks;
  rep.count("info_histories_where_number_of_draws_depends_on_outcome", pt.draws_outcome_dependent ? 1 : 0);
  // maxima cannot be merged across task reports (extras are overwritten, counters summed): report them as histograms
  // of tasks; the exact values are in the per-scenario lines.
  const uint64_t g = rs.max_grid, l = rs.max_leaves;
  rep.count(g <= 256 ? "tasks_with_grid_max<=256" : g <= 1024 ? "tasks_with_grid_max<=1024" : g <= 4096 ? "tasks_with_grid_max<=4096" : g <= 16384 ? "tasks_with_grid_max<=16384" : "tasks_with_grid_max>16384");
  rep.count(l <= 10 ? "tasks_with_leaves_max<=10" : l <= 100 ? "tasks_with_leaves_max<=100" : l <= 1000 ? "tasks_with_leaves_max<=1000" : l <= 10000 ? "tasks_with_leaves_max<=10000" : "tasks_with_leaves_max>10000");
  rep.count(pt.st.max_draws <= 2 ? "tasks_with_draws_per_op_max<=2" : pt.st.max_draws <= 6 ? "tasks_with_draws_per_op_max<=6" : "tasks_with_draws_per_op_max>6");
  if (pt.st.slivers) rep.count("sliver_intervals", (double)pt.st.slivers);
}

// exact expectation over a distribution of VSys states: mass, E[adjusted weight of item i], E[estimate(P)]
static void expect_single(ProbTree<VSys>& pt, VSys& sys, const std::vector<Leaf>& d, Report& rep, const std::string& hist, RunStats& rs) {
  double mass = 0, e_even = 0, e_heavy = 0; std::vector<double> ew; Truth t; bool broken = false;
  for (size_t i = 0; i < d.size(); ++i) {
    std::unique_ptr<VSys::State> s = pt.replay(d[i].hist, nullptr);
    mass += d[i].prob;
    if (!s->broken.empty()) { broken = true; continue; }
    if (t.n == 0) t = s->t;
    if (ew.size() < s->t.w.size()) ew.resize(s->t.w.size(), 0.0);
    Obs o = observe(*s->sk);
    for (size_t j = 0; j < o.items.size(); ++j) if (o.items[j].first >= 0 && (size_t)o.items[j].first < ew.size()) ew[o.items[j].first] += d[i].prob * o.items[j].second;
    P_heavy ph; ph.t = &s->t;
    e_even += d[i].prob * s->sk->estimate_subset_sum(P_even()).estimate;
    e_heavy += d[i].prob * s->sk->estimate_subset_sum(ph).estimate;
  }
  rs.nodes++;
  Ctx c(rep, sys.name(), hist);
  c.near("E-total-mass==1", mass, 1.0, 1e-9);
  if (broken) { rep.count("expectation_skipped_failed_leaf"); }
  else {
    double t_even = 0, t_heavy = 0;
    for (size_t i = 0; i < t.w.size(); ++i) {
      if (t.w[i] < 0) continue;
      if ((i & 1) == 0) t_even += t.w[i];
      if (t.w[i] >= 10) t_heavy += t.w[i];
      double e = i < ew.size() ? ew[i] : 0;
      double dd = std::fabs(e - t.w[i]);
      if (dd > 1e-9 * t.w[i]) c.fail("E-item-unbiased", "item " + str(i) + " weight " + str(t.w[i]) + " has expected adjusted weight " + str(e) + " over " + str(d.size()) + " leaves");
      rs.exp_checks++;
    }
    c.near("E-estimate(even)-unbiased", e_even, t_even, 1e-9);
    c.near("E-estimate(heavy)-unbiased", e_heavy, t_heavy, 1e-9);
    rs.exp_checks += 3;
  }
  rep.flush_ctx_fails(c.fails, sys.name(), hist);
  if (d.size() > rs.max_leaves) rs.max_leaves = d.size();
}

template<class Sys> static void check_root(Sys& sys, Report& rep) {
  std::unique_ptr<typename Sys::State> s(sys.make()); Ctx c(rep, sys.name(), ""); sys.check(*s, c); rep.flush_ctx_fails(c.fails, sys.name(), ""); rep.states++;
}
static std::string ops_str(const VSys& sys, const std::vector<size_t>& ops) { std::string s; for (size_t i = 0; i < ops.size(); ++i) { if (i) s += ";"; s += sys.opname(ops[i]); } return s; }

// ---- seq: DFS over all weight sequences --------------------------------------------------------------------------
struct SeqRun {
  VSys& sys; Report& rep; ProbTree<VSys> pt; size_t maxlen, leaf_cap; RunStats rs; bool deadline; std::vector<size_t> path; uint64_t seqs;
  SeqRun(VSys& s, Report& r, size_t ml, size_t cap): sys(s), rep(r), pt(s, r, 256), maxlen(ml), leaf_cap(cap), deadline(false), seqs(0) {}
  std::vector<Leaf> do_step(const std::vector<Leaf>& d, size_t op, double sumw) {
    pt.grid = grid_for(sumw, sys.k); if (pt.grid > rs.max_grid) rs.max_grid = pt.grid;
    return pt.step(d, op);
  }
  void rec(const std::vector<Leaf>& d, double sumw) {
    if (path.size() >= maxlen) return;
    for (size_t op = 0; op < sys.W.size(); ++op) {
      if (rep.past_deadline()) { deadline = true; return; }
      path.push_back(op);
      std::vector<Leaf> d2 = do_step(d, op, sumw + sys.W[op]);
      seqs++;
      expect_single(pt, sys, d2, rep, ops_str(sys, path), rs);
      if (d2.size() > leaf_cap) rep.cap("leaf cap " + str(leaf_cap) + " exceeded in " + sys.name() + " at " + ops_str(sys, path) + " (" + str(d2.size()) + " merged leaves); longer sequences with this prefix not explored");
      else rec(d2, sumw + sys.W[op]);
      path.pop_back();
      if (deadline) return;
    }
  }
};

static void run_seq(Report& rep, VSys sys, std::vector<size_t> prefix, size_t maxlen, size_t leaf_cap) {
  double t0 = cpu_s();
  SeqRun r(sys, rep, maxlen, leaf_cap);
  std::vector<Leaf> d = r.pt.root(); double sumw = 0;
  { bool first = true; for (size_t j = 0; j < prefix.size(); ++j) if (prefix[j] != 0) first = false; if (first) check_root(sys, rep); }
  for (size_t i = 0; i < prefix.size(); ++i) {
    // the node of a proper prefix is owned by the task whose remaining prefix ops are all 0
    bool owner = true; for (size_t j = i + 1; j < prefix.size(); ++j) if (prefix[j] != 0) owner = false;
    uint64_t ms = r.pt.merged_states, tr = r.pt.transitions;
    sumw += sys.W[prefix[i]]; r.path.push_back(prefix[i]);
    d = r.do_step(d, prefix[i], sumw);
    if (owner) { r.seqs++; expect_single(r.pt, sys, d, rep, ops_str(sys, r.path), r.rs); }
    else { r.pt.merged_states = ms; r.pt.transitions = tr; }
  }
  r.rec(d, sumw);
  if (r.deadline) rep.cap("global deadline reached in " + sys.name() + " prefix " + ops_str(sys, prefix) + " after " + str(r.seqs) + " sequences");
  note_stats(rep, r.pt, r.rs);
  rep.count("weight_sequences", (double)r.seqs);
  char b[320]; snprintf(b, sizeof b, "%s@%s: sequences=%llu (len<=%zu) merged_states=%llu branches=%llu max_leaves=%llu grid<=%llu probes=%llu cpu=%.1fs",
    sys.name().c_str(), ops_str(sys, prefix).c_str(), (unsigned long long)r.seqs, maxlen, (unsigned long long)r.pt.merged_states, (unsigned long long)r.pt.transitions,
    (unsigned long long)r.rs.max_leaves, (unsigned long long)r.rs.max_grid, (unsigned long long)r.pt.st.runs, cpu_s() - t0);
  rep.scenarios.push_back(b);
  journal_clear();
}

// ---- fix: one fixed op sequence (updates in order, optional ser ops) ---------------------------------------------
static void run_fixed_ops(Report& rep, VSys& sys, const std::vector<size_t>& ops, size_t leaf_cap, ProbTree<VSys>& pt, RunStats& rs, bool expect_every_step) {
  std::vector<Leaf> d = pt.root(); double sumw = 0; std::vector<size_t> path;
  for (size_t i = 0; i < ops.size(); ++i) {
    if (rep.past_deadline()) { rep.cap("global deadline reached in " + sys.name() + " at " + ops_str(sys, path)); return; }
    if (ops[i] < sys.W.size()) sumw += sys.W[ops[i]];
    pt.grid = grid_for(sumw, sys.k); if (pt.grid > rs.max_grid) rs.max_grid = pt.grid;
    path.push_back(ops[i]);
    d = pt.step(d, ops[i]);
    if (expect_every_step || i + 1 == ops.size()) expect_single(pt, sys, d, rep, ops_str(sys, path), rs);
    if (d.size() > rs.max_leaves) rs.max_leaves = d.size();
    if (d.size() > leaf_cap) { rep.cap("leaf cap " + str(leaf_cap) + " exceeded in " + sys.name() + " at " + ops_str(sys, path) + " (" + str(d.size()) + " merged leaves); remainder of this stream not explored"); return; }
  }
}

static void run_fixed(Report& rep, VSys sys, size_t leaf_cap) {
  double t0 = cpu_s();
  ProbTree<VSys> pt(sys, rep, 256); RunStats rs; uint64_t hists = 0;
  check_root(sys, rep);
  std::vector<size_t> base; for (size_t i = 0; i < sys.W.size(); ++i) base.push_back(i);
  if (!sys.with_ser) { run_fixed_ops(rep, sys, base, leaf_cap, pt, rs, true); hists = 1; }
  else {
    // a serialization point after every prefix (including the empty one and the complete stream), both forms
    for (size_t p = 0; p <= base.size(); ++p) for (size_t kind = 0; kind < 2; ++kind) {
      std::vector<size_t> ops(base.begin(), base.begin() + p); ops.push_back(sys.W.size() + kind); ops.insert(ops.end(), base.begin() + p, base.end());
      run_fixed_ops(rep, sys, ops, leaf_cap, pt, rs, false); hists++;
    }
  }
  note_stats(rep, pt, rs);
  char b[320]; snprintf(b, sizeof b, "%s: histories=%llu merged_states=%llu branches=%llu max_leaves=%llu grid<=%llu probes=%llu cpu=%.1fs",
    sys.name().c_str(), (unsigned long long)hists, (unsigned long long)pt.merged_states, (unsigned long long)pt.transitions, (unsigned long long)rs.max_leaves,
    (unsigned long long)rs.max_grid, (unsigned long long)pt.st.runs, cpu_s() - t0);
  rep.scenarios.push_back(b);
  if (rs.max_leaves > 2) rep.sample(sys.name() + ": " + str(rs.max_leaves) + " merged leaves at the widest step");
  journal_clear();
}

// ---- un: unions ---------------------------------------------------------------------------------------------------
static uint64_t gcd64(uint64_t a, uint64_t b) { while (b) { uint64_t t = a % b; a = b; b = t; } return a; }

struct OpndDist { std::vector<Leaf> leaves; std::vector<std::string> canon; uint64_t lcm_r; std::string failed; };
static const OpndDist& operand_dist(const OperandSpec& sp, size_t slot, Report& rep) {
  static std::map<std::string, OpndDist> cache;
  std::string key = str(slot) + "/" + str(sp.k) + ":" + join_w(sp.w);
  std::map<std::string, OpndDist>::iterator f = cache.find(key);
  if (f != cache.end()) return f->second;
  VSys sys; sys.k = sp.k; sys.rf = resize_factor::X8; sys.W = sp.w; sys.fixed = true; sys.checks = false; sys.id_base = USys::item_id(slot, 0); sys.nm = VSys::make_name("fix", sp.k, sys.rf, sp.w, false);
  Report scratch; scratch.property = PROP; scratch.deadline = rep.deadline;
  ProbTree<VSys> pt(sys, scratch, 256);
  std::vector<Leaf> d = pt.root(); double sumw = 0;
  for (size_t i = 0; i < sp.w.size(); ++i) { sumw += sp.w[i]; pt.grid = grid_for(sumw, sp.k); d = pt.step(d, i); }
  OpndDist od; od.leaves = d; od.lcm_r = 1;
  for (size_t i = 0; i < d.size(); ++i) {
    std::unique_ptr<VSys::State> s = pt.replay(d[i].hist, nullptr);
    if (!s->broken.empty()) od.failed = s->broken;   // the operand's own stream already breaks a clause (reported by the fix/seq scenarios)
    std::string c; canon_sketch(c, *s->sk); od.canon.push_back(c);
    if (s->sk->r_ > 0) od.lcm_r = od.lcm_r / gcd64(od.lcm_r, s->sk->r_) * s->sk->r_;
  }
  rep.count("operand_probe_runs", (double)pt.st.runs);
  cache[key] = od;
  return cache[key];
}

static bool parse_sched(const USys& sys, const std::string& s, std::vector<size_t>& ops) {
  std::map<std::string, size_t> idx; for (size_t i = 0; i < sys.nops(); ++i) idx[sys.opname(i)] = i;
  std::vector<std::string> p = split_s(s, ',');
  for (size_t i = 0; i < p.size(); ++i) { if (!idx.count(p[i])) return false; ops.push_back(idx[p[i]]); }
  return true;
}

static void expect_union(ProbTree<USys>& pt, USys& sys, const std::vector<Leaf>& d, Report& rep, const std::string& hist, RunStats& rs) {
  double mass = 0; std::vector<double> ew; Truth t; bool broken = false;
  for (size_t i = 0; i < d.size(); ++i) {
    std::unique_ptr<USys::State> s = pt.replay(d[i].hist, nullptr);
    mass += d[i].prob;
    if (!s->broken.empty() || !s->result) { broken = true; continue; }
    if (t.n == 0) t = s->fed;
    if (ew.size() < s->fed.w.size()) ew.resize(s->fed.w.size(), 0.0);
    Obs o = observe(*s->result);
    for (size_t j = 0; j < o.items.size(); ++j) if (o.items[j].first >= 0 && (size_t)o.items[j].first < ew.size()) ew[o.items[j].first] += d[i].prob * o.items[j].second;
  }
  rs.nodes++;
  Ctx c(rep, sys.name(), hist);
  c.near("E-total-mass==1", mass, 1.0, 1e-9);
  if (broken) rep.count("expectation_skipped_failed_leaf");
  else for (size_t i = 0; i < t.w.size(); ++i) {
    if (t.w[i] < 0) continue;
    double e = i < ew.size() ? ew[i] : 0;
    if (std::fabs(e - t.w[i]) > 1e-9 * t.w[i]) c.fail("E-union-item-unbiased", std::string("item ") + "ABC"[i / 32] + str(i % 32) + " weight " + str(t.w[i]) + " has expected adjusted weight " + str(e) + " in the union result (over operand and union draws, " + str(d.size()) + " leaves)");
    rs.exp_checks++;
  }
  rep.flush_ctx_fails(c.fails, sys.name(), hist);
}

static void run_union(Report& rep, USys sys, size_t leaf_cap) {
  double t0 = cpu_s();
  std::vector<size_t> sched;
  if (!parse_sched(sys, sys.sched_str, sched)) { fprintf(stderr, "HARNESS-ERROR bad schedule %s\n", sys.sched_str.c_str()); abort(); }
  ProbTree<USys> pt(sys, rep, 256, 1u << 16); RunStats rs;
  // root distribution: product of the operands' own distributions
  double sumw = 0; uint32_t kmax = sys.max_k; uint64_t L = 1;
  std::vector<const OpndDist*> od;
  for (size_t o = 0; o < sys.specs.size(); ++o) {
    od.push_back(&operand_dist(sys.specs[o], o, rep));
    if (!od.back()->failed.empty()) {   // no union over operands whose construction is itself in violation: say so once, as that violation
      const size_t bar = od.back()->failed.find('|');
      rep.violation(std::string(PROP) + "|" + sys.name() + "|operand:" + od.back()->failed.substr(0, bar), od.back()->failed.substr(bar + 1), sys.name(), "operand " + str(o));
      rep.scenarios.push_back(sys.name() + ": not explored, operand " + str(o) + " already fails " + od.back()->failed.substr(0, bar));
      return;
    }
    for (size_t j = 0; j < sys.specs[o].w.size(); ++j) sumw += sys.specs[o].w[j];
    kmax = std::max(kmax, sys.specs[o].k); L = L / gcd64(L, od[o]->lcm_r) * od[o]->lcm_r;
  }
  std::vector<Leaf> d; { Leaf l; l.prob = 1; l.draws = 0; d.push_back(l); }
  for (size_t o = 0; o < sys.specs.size(); ++o) {
    std::vector<Leaf> nx;
    for (size_t a = 0; a < d.size(); ++a) for (size_t b = 0; b < od[o]->leaves.size(); ++b) {
      Leaf l = d[a]; const Leaf& ol = od[o]->leaves[b];
      l.prob *= ol.prob; l.draws += ol.draws;
      for (size_t i = 0; i < ol.hist.size(); ++i) { Step st = ol.hist[i]; st.op = (uint16_t)(o * USys::MAXJ + ol.hist[i].op); l.hist.push_back(st); }
      nx.push_back(l);
    }
    d.swap(nx);
  }
  double mass0 = 0;
  for (size_t i = 0; i < d.size(); ++i) {   // canon-on-replay of the composed operands
    std::unique_ptr<USys::State> s = pt.replay(d[i].hist, nullptr);
    d[i].canon = sys.canon(*s); mass0 += d[i].prob;
    size_t idx = i;
    for (size_t o = sys.specs.size(); o-- > 0;) { size_t b = idx % od[o]->leaves.size(); idx /= od[o]->leaves.size(); std::string c; canon_sketch(c, *s->opnd[o]); if (c != od[o]->canon[b]) { fprintf(stderr, "HARNESS-ERROR: operand canon-on-replay mismatch in %s\n", sys.name().c_str()); abort(); } }
  }
  if (std::fabs(mass0 - 1) > 1e-9) { fprintf(stderr, "HARNESS-ERROR: operand product mass %.15g\n", mass0); abort(); }
  const size_t root_leaves = d.size();
  pt.grid = grid_for(sumw, (uint32_t)std::max<uint64_t>(kmax, L)); rs.max_grid = pt.grid;
  std::string path;
  bool stopped = false;
  for (size_t i = 0; i < sched.size() && !stopped; ++i) {
    if (rep.past_deadline()) { rep.cap("global deadline reached in " + sys.name() + " after " + path); stopped = true; break; }
    path += (i ? "," : "") + sys.opname(sched[i]);
    d = pt.step(d, sched[i]);
    if (d.size() > rs.max_leaves) rs.max_leaves = d.size();
    if (pt.capped) { stopped = true; break; }
    if (sched[i] == USys::OP_RESULT) expect_union(pt, sys, d, rep, path, rs);
    if (d.size() > leaf_cap) { rep.cap("leaf cap " + str(leaf_cap) + " exceeded in " + sys.name() + " after " + path + " (" + str(d.size()) + " merged leaves)"); stopped = true; }
  }
  note_stats(rep, pt, rs);
  rep.count("union_histories", 1);
  char b[400]; snprintf(b, sizeof b, "%s: operand_leaves=%zu merged_states=%llu branches=%llu max_leaves=%llu grid=%u (sum_w=%g, kmax=%u, lcm_r=%llu) probes=%llu cpu=%.1fs%s",
    sys.name().c_str(), root_leaves, (unsigned long long)pt.merged_states, (unsigned long long)pt.transitions, (unsigned long long)rs.max_leaves, pt.grid, sumw, kmax,
    (unsigned long long)L, (unsigned long long)pt.st.runs, cpu_s() - t0, stopped ? " STOPPED" : "");
  rep.scenarios.push_back(b);
  if (!d.empty() && !stopped) rep.sample(sys.name() + ": " + pt.hist_str(d[d.size() / 2].hist));
  journal_clear();
}

// ---- replay of one recorded violation ------------------------------------------------------------------------------
static void do_replay(Report& rep, const Config& cfg) {
  const std::string& sc = cfg.replay_scenario; const std::string& hs = cfg.replay_history;
  const bool has_tape = hs.find('~') != std::string::npos;
  rep.states += 1; rep.transitions += 1;
  VSys vs; USys us;
  if (VSys::parse_name(sc, vs)) {
    Hist h; if (!parse_hist(vs, hs, h)) { rep.violation(std::string(PROP) + "|" + sc + "|replay-parse", "cannot parse history", sc, hs); return; }
    ProbTree<VSys> pt(vs, rep, 256); RunStats rs;
    if (has_tape || hs.empty()) {
      Ctx c(rep, sc, hs); int a0 = asan_errors();
      std::unique_ptr<VSys::State> s = pt.replay(h, &c); vs.check(*s, c);
      if (asan_errors() != a0) c.fail("asan", "AddressSanitizer report during replay");
      rep.flush_ctx_fails(c.fails, sc, hs);
    } else {
      std::vector<size_t> ops; for (size_t i = 0; i < h.size(); ++i) ops.push_back(h[i].op);
      run_fixed_ops(rep, vs, ops, 1u << 30, pt, rs, false);
    }
    return;
  }
  if (USys::parse_name(sc, us)) {
    if (has_tape) {
      Hist h; if (!parse_hist(us, hs, h)) { rep.violation(std::string(PROP) + "|" + sc + "|replay-parse", "cannot parse history", sc, hs); return; }
      ProbTree<USys> pt(us, rep, 256);
      Ctx c(rep, sc, hs); int a0 = asan_errors();
      std::unique_ptr<USys::State> s = pt.replay(h, &c); us.check(*s, c);
      if (asan_errors() != a0) c.fail("asan", "AddressSanitizer report during replay");
      rep.flush_ctx_fails(c.fails, sc, hs);
    } else run_union(rep, us, 1u << 30);
    return;
  }
  rep.violation(std::string(PROP) + "|" + sc + "|replay-parse", "unknown scenario name", sc, hs);
}

// ---- scenario menus -----------------------------------------------------------------------------------------------
static std::vector<double> ones_with(size_t n, size_t pos, double giant) { std::vector<double> w(n, 1.0); if (pos < n) w[pos] = giant; return w; }
static std::vector<double> ramp(size_t n, bool up) { std::vector<double> w; for (size_t i = 0; i < n; ++i) w.push_back(up ? (double)(i + 1) : (double)(n - i)); return w; }

static std::map<std::string, int> g_prio;   // expensive tasks are started first (the merged report keeps this order)
static void add_fixed(std::vector<Task>& tasks, uint32_t k, resize_factor rf, const std::vector<double>& w, bool ser, size_t cap) {
  VSys sys; sys.k = k; sys.rf = rf; sys.W = w; sys.fixed = true; sys.with_ser = ser; sys.nm = VSys::make_name("fix", k, rf, w, ser);
  for (size_t i = 0; i < tasks.size(); ++i) if (tasks[i].name == sys.nm) return;
  Task t; t.name = sys.nm; t.fn = [sys, cap](Report& rep) { run_fixed(rep, sys, cap); };
  g_prio[t.name] = 40 + (int)std::min<uint32_t>(k, 8) * 5 + (ser ? 0 : (int)w.size());
  tasks.push_back(t);
}

static void add_union(std::vector<Task>& tasks, uint32_t max_k, const std::vector<OperandSpec>& sp, const std::string& sched, size_t cap, int prio = 60) {
  USys sys; sys.max_k = max_k; sys.specs = sp; sys.sched_str = sched; sys.nm = USys::make_name(max_k, sp, sched);
  for (size_t i = 0; i < tasks.size(); ++i) if (tasks[i].name == sys.nm) return;
  Task t; t.name = sys.nm; t.fn = [sys, cap](Report& rep) { run_union(rep, sys, cap); };
  g_prio[t.name] = prio;
  tasks.push_back(t);
}

static OperandSpec opnd(uint32_t k, const std::vector<double>& w) { OperandSpec o; o.k = k; o.w = w; return o; }
static std::vector<double> wl(double a = -1, double b = -1, double c = -1, double d = -1, double e = -1, double f = -1) {
  std::vector<double> v; double x[6] = {a, b, c, d, e, f}; for (int i = 0; i < 6; ++i) if (x[i] >= 0) v.push_back(x[i]); return v;
}

int main(int argc, char** argv) {
#ifdef MC_ASAN
  // the exploration is dominated by small allocations of the replay engine; recording a 30-frame stack for each of them
  // costs 2x. Detection is unaffected (reports lose only the allocation stack; the journal names the case).
  if (!getenv("C16_REEXEC")) {
    std::string o = getenv("ASAN_OPTIONS") ? std::string(getenv("ASAN_OPTIONS")) + ":" : std::string();
    o += "malloc_context_size=0:quarantine_size_mb=16";
    setenv("ASAN_OPTIONS", o.c_str(), 1); setenv("C16_REEXEC", "1", 1);
    execv("/proc/self/exe", argv);
  }
#endif
  Config cfg = parse_args(argc, argv);
  forbid_unowned_draws();
  const bool q = cfg.quick();
  std::vector<Task> tasks;
  if (!cfg.replay_scenario.empty()) {
    Task t; t.name = "replay"; t.fn = [&cfg](Report& rep) { do_replay(rep, cfg); }; tasks.push_back(t);
    Config c2 = cfg; c2.only.clear();
    return run_tasks(c2, PROP, tasks);
  }
  { Task t; t.name = "meta"; t.fn = [q](Report& rep) {
      rep.states += 0;
      rep.assumptions.push_back("interval discovery: every decision interval of one raw draw is at least 1/G wide. Single sketches with integer weights: breakpoints of next_double are multiples of 1/wt_cands (an integer <= sum of weights), next_int(r) has r<=k equal intervals; G = 4 * ceil(sum of weights so far) * k (min 256), recomputed at every step. Unions: marked items carry tau = total_wt_r/r, so breakpoints have denominators up to sum_w * lcm(r over operand leaves); G = 4 * sum_w * max(k_max, lcm_r). grid_max in this evidence is the largest G used.");
      rep.assumptions.push_back("canonical state = k,h,m,r,n,total_wt_r,rf,curr_items_alloc,filled_data,num_marks_in_h,marks present, H slots (item,weight,mark) in array order, R slots (item) in array order; union adds n, outer_tau numerator/denominator, max_k and the gadget. Leaves with equal canonical state are merged (their future distributions are identical because the RNG is external).");
      rep.assumptions.push_back("for k <= 4 the arrays are allocated at k+1 slots from the start, so the resize factor cannot influence behaviour there (all three are still run where cheap); array growth is exercised by the fix/k16|k17 scenarios.");
      rep.assumptions.push_back("'smallest effective k' is read as: result.get_num_samples() <= result.get_k() <= max_k (the union lets k float; operands in exact mode do not bound the sample size). Updating a union result further is outside the statement: results whose lightest H item is below tau (which a later update() would reject) are only tagged.");
      rep.assumptions.push_back("weights are small integers; items are ints; expectations are exact sums over leaves compared at 1e-9 relative.");
      rep.sets("rule", "E3: exact distribution over the library's raw draws per history with Markov merging; seq = every weight sequence up to the length bound (DFS, shared prefixes), fix = shaped streams with/without a serialization point at every position, un = operand distributions x union draws in every feeding order. A state is distinct if its canonical string is; outcome tags = (kind, k, mode, h, r).");
      rep.sets("tier_bounds", q ? "quick" : "thorough");
    }; g_prio[t.name] = 1000; tasks.push_back(t); }

  const resize_factor rfs[3] = {resize_factor::X1, resize_factor::X2, resize_factor::X8};
  // ---------------- seq ----------------
  // (k, rf index, alphabet, length bound, prefix length used to split into tasks); most expensive first
  struct SeqCfg { uint32_t k; int ri; std::vector<double> W; size_t maxlen, plen; };
  std::vector<SeqCfg> sc;
  const std::vector<double> W3 = wl(1, 2, 10), W5 = wl(1, 2, 3, 10, 100);
  if (q) {
    SeqCfg c4 = {4, 2, W3, 6, 2}; sc.push_back(c4);     // k+2 (k+3 costs ~10 core-minutes)
    SeqCfg c3 = {3, 2, W3, 6, 2}; sc.push_back(c3);     // k+3
    for (int ri = 2; ri >= 0; --ri) { SeqCfg c2 = {2, ri, W3, 5, 1}; sc.push_back(c2); SeqCfg c1 = {1, ri, W3, 4, 1}; sc.push_back(c1); }
  } else {
    SeqCfg a4 = {4, 2, W3, 7, 2}; sc.push_back(a4);     // k+3 over {1,2,10} (k+4 = 3^8 sequences x ~150 leaves is not affordable)
    SeqCfg b3 = {3, 2, W5, 5, 2}; sc.push_back(b3);     // k+2 over the full alphabet
    SeqCfg a3 = {3, 2, W3, 7, 2}; sc.push_back(a3);     // k+4
    SeqCfg b4 = {4, 2, W5, 5, 2}; sc.push_back(b4);     // k+1 over the full alphabet
    for (int ri = 2; ri >= 0; --ri) {
      SeqCfg b2 = {2, ri, W5, 4, 1}; sc.push_back(b2); SeqCfg a2 = {2, ri, W3, 6, 1}; sc.push_back(a2);   // k+2 / k+4
      if (ri != 1) { SeqCfg b1 = {1, ri, W5, 5, 1}; sc.push_back(b1); }                                   // k+4
    }
  }
  for (size_t ci = 0; ci < sc.size(); ++ci) {
    const SeqCfg& c = sc[ci];
    VSys sys; sys.k = c.k; sys.rf = rfs[c.ri]; sys.W = c.W; sys.fixed = false; sys.nm = VSys::make_name("seq", c.k, rfs[c.ri], c.W, false);
    const size_t cap = 200000, maxlen = c.maxlen;
    size_t np = 1; for (size_t i = 0; i < c.plen; ++i) np *= c.W.size();
    for (size_t pi = 0; pi < np; ++pi) {
      std::vector<size_t> pre(c.plen); size_t x = pi; for (size_t i = c.plen; i-- > 0;) { pre[i] = x % c.W.size(); x /= c.W.size(); }
      std::string pn; for (size_t i = 0; i < pre.size(); ++i) pn += (i ? "," : "") + str(pre[i]);
      Task t; t.name = sys.nm + "/len" + str(maxlen) + "@" + pn; t.fn = [sys, pre, maxlen, cap](Report& rep) { run_seq(rep, sys, pre, maxlen, cap); };
      g_prio[t.name] = 100 + (int)c.k * 10 + (int)maxlen + (int)c.W.size();
      tasks.push_back(t);
    }
  }
  // ---------------- fix: shapes ----------------
  for (uint32_t k = 1; k <= 4; ++k) {
    const size_t nmax = q ? (k <= 2 ? 12 : 9) : (k <= 2 ? 14 : k == 3 ? 12 : 10); const size_t cap = q ? 3000 : 60000;
    add_fixed(tasks, k, resize_factor::X8, ramp(nmax, true), false, cap);
    add_fixed(tasks, k, resize_factor::X8, ramp(nmax, false), false, cap);
    add_fixed(tasks, k, resize_factor::X8, ones_with(nmax, 0, 100), false, cap);
    add_fixed(tasks, k, resize_factor::X8, ones_with(nmax, nmax / 2, 100), false, cap);
    add_fixed(tasks, k, resize_factor::X8, ones_with(nmax, nmax - 1, 100), false, cap);
    if (!q) { add_fixed(tasks, k, resize_factor::X1, ramp(nmax, true), false, cap); add_fixed(tasks, k, resize_factor::X2, ones_with(nmax, nmax / 2, 100), false, cap); }
  }
  // array growth (k >= 16): warm-up passes through grow_data_arrays, then two estimation-mode updates
  for (int ri = 0; ri < 3; ++ri) {
    add_fixed(tasks, 16, rfs[ri], ones_with(18, 5, q ? 3 : 100), false, 60000);
    if (!q) add_fixed(tasks, 17, rfs[ri], ramp(19, false), false, 60000);
  }
  // ---------------- fix: serialization points (same list in both tiers) ----------------
  for (uint32_t k = 1; k <= 4; ++k) {
    std::vector<double> w = wl(1, 2, 10, 1); if (k >= 3) w.push_back(3); if (k >= 4) w.push_back(2);
    add_fixed(tasks, k, resize_factor::X8, w, true, 5000);
  }
  add_fixed(tasks, 16, resize_factor::X2, ones_with(9, 5, 3), true, 5000);
  // ---------------- un: unions ----------------
  {
    // operand menu per k: empty, under-full, exactly full, estimating, with giant
    std::map<uint32_t, std::vector<OperandSpec> > menu;
    for (uint32_t k = 2; k <= 4; ++k) {
      std::vector<OperandSpec>& m = menu[k];
      m.push_back(opnd(k, wl()));                                                 // empty
      m.push_back(opnd(k, ramp(k - 1, true)));                                    // under-full
      m.push_back(opnd(k, ramp(k, false)));                                       // exactly full
      { std::vector<double> w = ramp(k, true); w.push_back(1); if (!q || k == 2) w.push_back(2); m.push_back(opnd(k, w)); }   // estimating
      { std::vector<double> w = ones_with(k + 1, 1, 10); m.push_back(opnd(k, w)); }                                          // giant
    }
    std::vector<OperandSpec> all; for (uint32_t k = 2; k <= 4; ++k) for (size_t i = 0; i < menu[k].size(); ++i) all.push_back(menu[k][i]);
    const size_t cap = q ? 20000 : 2000000;
    // pairs x max_k x both feeding orders, result after every feed. The cost of one U<-X is exponential in the number of
    // gadget updates that draw (c below), so the menu is tiered by c: quick takes c<=2 (a deterministic third of them)
    // plus a few c==3; thorough takes every c<=3, and c==4 for estimating/giant operands.
    struct CostOf { static int samples(const OperandSpec& o) { return (int)std::min<size_t>(o.w.size(), o.k); }
      static int c(uint32_t mk, const OperandSpec& x, const OperandSpec& y) { int sx = samples(x), sy = samples(y); int d1 = std::max(0, sx - (int)mk), d2 = std::max(0, std::min(sy, sx + sy - (int)mk)); return std::max(d1, d2); } };
    size_t counter = 0;
    for (uint32_t mk = 2; mk <= 3; ++mk) for (size_t a = 0; a < all.size(); ++a) for (size_t b = a; b < all.size(); ++b) for (int ord = 0; ord < 2; ++ord) {
      const OperandSpec& first = ord ? all[b] : all[a]; const OperandSpec& second = ord ? all[a] : all[b];
      const int c = CostOf::c(mk, first, second);
      const bool estish = (a % 5 >= 3) && (b % 5 >= 3);      // both operands estimating or with giant
      ++counter;
      bool take;
      if (q) take = (c <= 2 && counter % 3 == 0) || (c == 3 && estish && counter % 8 == 0);
      else take = c <= 3 || (c == 4 && estish && counter % 4 == 0);
      if (!take) continue;
      std::vector<OperandSpec> sp; sp.push_back(all[a]); sp.push_back(all[b]);
      add_union(tasks, mk, sp, ord ? "U<-B,res,U<-A,res" : "U<-A,res,U<-B,res", cap, 50 + 15 * c);
    }
    // triples in every order
    std::vector<std::vector<OperandSpec> > triples;
    { std::vector<OperandSpec> t; t.push_back(menu[2][3]); t.push_back(menu[3][2]); t.push_back(menu[2][4]); triples.push_back(t); }
    { std::vector<OperandSpec> t; t.push_back(menu[3][1]); t.push_back(menu[2][3]); t.push_back(menu[2][0]); triples.push_back(t); }
    if (!q) {
      { std::vector<OperandSpec> t; t.push_back(menu[3][3]); t.push_back(menu[2][3]); t.push_back(menu[4][2]); triples.push_back(t); }
      { std::vector<OperandSpec> t; t.push_back(menu[4][4]); t.push_back(menu[2][4]); t.push_back(menu[3][1]); triples.push_back(t); }
      { std::vector<OperandSpec> t; t.push_back(menu[2][3]); t.push_back(menu[2][3]); t.push_back(menu[2][3]); triples.push_back(t); }
    }
    const char* perms[6] = {"ABC", "ACB", "BAC", "BCA", "CAB", "CBA"};
    for (size_t ti = 0; ti < triples.size(); ++ti) for (uint32_t mk = 2; mk <= 3; ++mk) for (int p = 0; p < 6; ++p) {
      if (q && ti == 0 && (mk == 3 || (p != 0 && p != 5))) continue;   // quick: the larger triple only at max_k 2, two orders
      if (!q && ti == 2 && mk == 3) continue;                           // est+est+full(k=4) at max_k 3 costs ~90 core-minutes for its six orders
      std::string s; for (int i = 0; i < 3; ++i) { s += std::string(i ? "," : "") + "U<-" + perms[p][i]; } s += ",res";
      add_union(tasks, mk, triples[ti], s, cap, 92);
    }
    // pseudo-exact unions: max_k so large that the gadget never overflows, so get_result() must decide between the same-tau
    // shortcut (mark_moving_gadget_coercer) and migrate_marked_items_by_decreasing_k from the outer-tau bookkeeping alone;
    // operands with equal and with different tau, exact ones in between, every feeding order
    {
      std::vector<OperandSpec> pe;
      pe.push_back(opnd(2, wl(1, 1, 1, 1)));        // tau 2
      pe.push_back(opnd(2, wl(1, 1, 1)));           // tau 1.5
      pe.push_back(opnd(2, wl(1, 1, 2)));           // tau 2 again, different n
      pe.push_back(opnd(3, wl(3, 2, 1)));           // exact
      pe.push_back(opnd(2, wl(1, 10, 1)));          // estimating with a heavy item (tau 2, one H item)
      pe.push_back(opnd(3, wl(1, 1, 1, 1, 1, 1)));  // tau 2 with r = 3
      for (size_t a = 0; a < pe.size(); ++a) for (size_t b = a; b < pe.size(); ++b) for (int ord = 0; ord < 2; ++ord) {
        if (a == b && ord) continue;
        std::vector<OperandSpec> sp; sp.push_back(pe[a]); sp.push_back(pe[b]);
        add_union(tasks, 16, sp, ord ? "U<-B,res,U<-A,res" : "U<-A,res,U<-B,res", cap, 70);
      }
      const size_t tr[4][3] = {{0, 3, 1}, {0, 1, 2}, {4, 3, 5}, {1, 5, 4}};
      for (int ti = 0; ti < (q ? 2 : 4); ++ti) for (int p = 0; p < 6; ++p) {
        std::vector<OperandSpec> sp; for (int i = 0; i < 3; ++i) sp.push_back(pe[tr[ti][i]]);
        std::string s; for (int i = 0; i < 3; ++i) { s += std::string(i ? "," : "") + "U<-" + perms[p][i]; } s += ",res";
        add_union(tasks, 16, sp, s, cap, 72);
      }
    }
    // rvalue feeding, serialization of operand and of the union between feeds
    for (uint32_t mk = 2; mk <= 3; ++mk) {
      std::vector<OperandSpec> sp; sp.push_back(menu[2][3]); sp.push_back(menu[3][4]);
      add_union(tasks, mk, sp, "U<=A,res,U<=B,res", cap);
      add_union(tasks, mk, sp, "A.ser,U<-A,B.ser,U<-B,res", cap);
      add_union(tasks, mk, sp, "U<-A,UserB,res,U<-B,res", cap);
      add_union(tasks, mk, sp, "U<-B,UserS,res,U<-A,res", cap);
      std::vector<OperandSpec> sp2; sp2.push_back(menu[2][2]); sp2.push_back(menu[2][1]);
      add_union(tasks, mk, sp2, "U<-A,UserB,U<-B,res", cap);
    }
    // reset() between two uses: the union after reset() is a new union (both operands in estimation mode, the second with the
    // smaller or the same tau: whatever the first use left behind would be seen by resolve_tau / the pseudo-exact test)
    for (uint32_t mk = 4; mk <= 5; ++mk) {
      std::vector<OperandSpec> sp; sp.push_back(opnd(2, wl(1, 1, 1, 1))); sp.push_back(opnd(2, wl(1, 1, 1)));
      add_union(tasks, mk, sp, "U<-A,res,Ureset,U<-B,res", cap);
      std::vector<OperandSpec> sp3; sp3.push_back(opnd(2, wl(1, 1, 1))); sp3.push_back(opnd(2, wl(1, 1, 1))); sp3.push_back(opnd(1, wl(2, 1)));
      add_union(tasks, mk, sp3, "U<-A,Ureset,U<-B,res,U<-C,res", cap);
    }
  }
  { std::vector<std::pair<int, size_t> > ord; for (size_t i = 0; i < tasks.size(); ++i) ord.push_back(std::make_pair(-g_prio[tasks[i].name], i));
    std::sort(ord.begin(), ord.end()); std::vector<Task> t2; for (size_t i = 0; i < ord.size(); ++i) t2.push_back(tasks[ord[i].second]); tasks.swap(t2); }
  if (getenv("C16_LIST")) { for (size_t i = 0; i < tasks.size(); ++i) printf("%s\n", tasks[i].name.c_str()); return 0; }
  return run_tasks(cfg, PROP, tasks);
}
