// self-tests of the engines on toy systems with known answers
#define MC_MAIN
#include "core.hpp"
#include "choice.hpp"
#include "bfs.hpp"
#include "alloc.hpp"
#include "oracle_hash.hpp"
#include <random>
using namespace mc;

// toy 1: counter mod 5 with inc/dec/reset -> 5 states to fixpoint
struct Counter {
  struct State { int v; int model; };
  std::string name() const { return "toy-counter"; }
  State* make() { State* s = new State; s->v = 0; s->model = 0; return s; }
  size_t nops() const { return 3; }
  std::string opname(size_t i) const { return i == 0 ? "inc" : i == 1 ? "dec" : "reset"; }
  bool apply(State& s, size_t op, Ctx*) { if (op == 0) { s.v = (s.v + 1) % 5; s.model++; } else if (op == 1) { s.v = (s.v + 4) % 5; s.model--; } else { s.v = 0; s.model = 0; } s.model = ((s.model % 5) + 5) % 5; return true; }
  std::string canon(State& s) { return std::to_string(s.v); }
  void check(State& s, Ctx& c) { c.eq("model", s.v, s.model); c.rep.outcome(std::to_string(s.v)); }
};

// toy 2: random walk using one bit per step and one uniform_int(0,2) per step; expectation known
struct Walk {
  struct State { int x; int steps; };
  std::string name() const { return "toy-walk"; }
  State* make() { State* s = new State; s->x = 0; s->steps = 0; return s; }
  size_t nops() const { return 1; }
  std::string opname(size_t) const { return "step"; }
  bool apply(State& s, size_t, Ctx*) {
    if (s.steps >= 3) return false;
    uint32_t b = datasketches::random_utils::random_bit();
    std::uniform_int_distribution<int> d(0, 2);
    int k = d(datasketches::random_utils::rand);
    double u = datasketches::random_utils::next_double(datasketches::random_utils::rand);
    s.x += (b ? 1 : -1) * k + (u < 0.3 ? 10 : 0); s.steps++; return true;
  }
  std::string canon(State& s) { return std::to_string(s.x) + "@" + std::to_string(s.steps); }
  void check(State&, Ctx&) {}
};

int main(int argc, char** argv) {
  Config cfg = parse_args(argc, argv);
  std::string ht = oracle::self_test();
  if (!ht.empty()) { fprintf(stderr, "oracle hash self-test failed: %s\n", ht.c_str()); return 3; }
  return run_isolated(cfg, "SELFTEST", [&](Report& rep) {
    forbid_unowned_draws();
    Counter c; BfsLimits l; explore(c, rep, cfg, l);
    if (rep.states != 5) { fprintf(stderr, "toy counter: expected 5 states got %llu\n", (unsigned long long)rep.states); abort(); }
    Walk w; BfsLimits l2; l2.grid = 64; explore(w, rep, cfg, l2);
    // distribution of one step: enumerate and check probabilities
    ChoiceStats st;
    RunFn rf = [&](const std::vector<uint64_t>& tape, uint64_t fill) {
      Walk::State s; s.x = 0; s.steps = 0; Tape t; t.v = tape; t.set_fill(fill);
      { TapeScope sc(t); w.apply(s, 0, nullptr); }
      RunResult r; r.kinds = t.kinds; r.seg = t.seg; r.canon = std::to_string(s.x); return r;
    };
    std::vector<Outcome> o = enumerate_outcomes(rf, 64, st);
    std::map<std::string, double> dist; double mass = 0, ex = 0;
    for (size_t i = 0; i < o.size(); ++i) { dist[o[i].canon] += o[i].prob; mass += o[i].prob; ex += o[i].prob * atoi(o[i].canon.c_str()); }
    fprintf(stderr, "walk: leaves=%zu mass=%.15f E=%.12f runs=%llu cov=%d\n", o.size(), mass, ex, (unsigned long long)st.runs, (int)g_cov_present);
    if (std::fabs(mass - 1) > 1e-12 || std::fabs(ex - 3.0) > 1e-9) { fprintf(stderr, "toy walk expectation wrong\n"); abort(); }
    if (std::fabs(dist["10"] - 0.3 * (1.0 / 3)) > 1e-9) { fprintf(stderr, "toy walk P(10) wrong %.12f\n", dist["10"]); abort(); }
    // planted crash is journalled
    if (journal("toy-crash", "deref-null")) { volatile int* p = nullptr; *p = 1; }
    rep.outcome("done");
  });
}
