// shared by C13: summary flavours (int64 with a non-commutative fold, instrumented summary, array of doubles),
// model values, generic views of tuple sketches
#ifndef TUPLE_COMMON_HPP
#define TUPLE_COMMON_HPP
#include "core.hpp"
#include "theta_common.hpp"
#include <tuple_sketch.hpp>
#include <tuple_union.hpp>
#include <tuple_intersection.hpp>
#include <tuple_a_not_b.hpp>
#include <array_of_doubles_sketch.hpp>
#include <theta_union.hpp>
#include <theta_intersection.hpp>
#include <theta_a_not_b.hpp>
#include <memory>
#include <sstream>

namespace tp {
using namespace datasketches;

static const uint64_t MAXT = theta_constants::MAX_THETA;
typedef theta_constants::resize_factor RF;
// model value: one integer per column (at most 3), no heap allocation
struct MV {
  int64_t v[3]; uint8_t n;
  MV(): n(0) { v[0] = v[1] = v[2] = 0; }
  MV(size_t n_, int64_t x): n((uint8_t)(n_ > 3 ? 3 : n_)) { v[0] = v[1] = v[2] = 0; for (uint8_t i = 0; i < n; ++i) v[i] = x; }
  explicit MV(size_t n_): n((uint8_t)(n_ > 3 ? 3 : n_)) { v[0] = v[1] = v[2] = 0; }
  size_t size() const { return n; }
  int64_t& operator[](size_t i) { return v[i]; }
  int64_t operator[](size_t i) const { return v[i]; }
  int64_t back() const { return v[n - 1]; }
  bool operator==(const MV& o) const { return n == o.n && v[0] == o.v[0] && v[1] == o.v[1] && v[2] == o.v[2]; }
  bool operator!=(const MV& o) const { return !(*this == o); }
  bool operator<(const MV& o) const { if (n != o.n) return n < o.n; for (int i = 0; i < 3; ++i) if (v[i] != o.v[i]) return v[i] < o.v[i]; return false; }
};
typedef std::vector<std::pair<uint64_t, MV> > Ents;

inline std::string mvs(const MV& m) { std::string s; for (size_t i = 0; i < m.size(); ++i) { if (i) s += "/"; s += std::to_string(m[i]); } return s; }
inline int64_t wrapmul(int64_t a, int64_t m, int64_t b) { return (int64_t)((uint64_t)a * (uint64_t)m + (uint64_t)b); }
inline uint64_t start_theta_of(float p) { return p < 1 ? (uint64_t)((double)MAXT * p) : MAXT; }
inline uint8_t tiny_lg_cur0(uint8_t lg_nom, RF rf) { uint8_t lg_tgt = (uint8_t)(lg_nom + 1), lg_rf = (uint8_t)rf; return lg_rf == 0 ? lg_tgt : (uint8_t)(((lg_tgt - 1) % lg_rf) + 1); }
inline Ents sorted_ents(Ents e) { std::sort(e.begin(), e.end()); return e; }
inline bool strictly_sorted(const Ents& e) { for (size_t i = 1; i < e.size(); ++i) if (!(e[i - 1].first < e[i].first)) return false; return true; }
inline std::string ents_str(const Ents& e) {
  std::string s = "{";
  for (size_t i = 0; i < e.size() && i < 8; ++i) { if (i) s += ","; s += mc::hex64(e[i].first).substr(0, 6) + ":" + mvs(e[i].second); }
  if (e.size() > 8) s += ",..(" + std::to_string(e.size()) + ")";
  return s + "}";
}

// ---------------------------------------------------------------------------------------------------------------
// instrumented summary: liveness cookie; misuse is recorded in a process-wide ledger, never fatal
struct ILedger {
  long long live; std::vector<std::string> errors;
  ILedger(): live(0) {}
  void error(const std::string& e) { if (errors.size() < 20) errors.push_back(e); }
};
inline ILedger& iled() { static ILedger l; return l; }

class ISum {
  static const uint32_t LIVE = 0x11fe11feu, MOVED = 0x30fed0ffu, DEAD = 0xdeadbeefu;
  uint32_t cookie_; int64_t v_;
public:
  explicit ISum(int64_t v): cookie_(LIVE), v_(v) { iled().live++; }
  ISum(const ISum& o): cookie_(LIVE), v_(o.v_) { if (o.cookie_ != LIVE) iled().error(o.cookie_ == MOVED ? "copy from moved-from summary" : "copy from dead summary"); iled().live++; }
  ISum(ISum&& o) noexcept: cookie_(LIVE), v_(o.v_) { if (o.cookie_ != LIVE) iled().error(o.cookie_ == MOVED ? "move from moved-from summary" : "move from dead summary"); else o.cookie_ = MOVED; iled().live++; }
  ISum& operator=(const ISum& o) {
    if (cookie_ != LIVE && cookie_ != MOVED) iled().error("assign to dead summary");
    if (o.cookie_ != LIVE) iled().error("assign from non-live summary");
    v_ = o.v_; cookie_ = LIVE; return *this;
  }
  ISum& operator=(ISum&& o) noexcept {
    if (cookie_ != LIVE && cookie_ != MOVED) iled().error("move-assign to dead summary");
    if (o.cookie_ != LIVE) iled().error("move-assign from non-live summary");
    v_ = o.v_; cookie_ = LIVE; if (&o != this) o.cookie_ = MOVED; return *this;
  }
  ~ISum() {
    if (cookie_ != LIVE && cookie_ != MOVED) iled().error("destroy of a summary that is not live (double destroy or never constructed)");
    else iled().live--;
    cookie_ = DEAD;
  }
  int64_t get() const { if (cookie_ != LIVE) iled().error(cookie_ == MOVED ? "read of moved-from summary" : "read of dead summary"); return v_; }
  void set(int64_t v) { if (cookie_ != LIVE) iled().error(cookie_ == MOVED ? "write to moved-from summary" : "write to dead summary"); v_ = v; }
};
inline std::ostream& operator<<(std::ostream& os, const ISum& s) { return os << s.get(); }

struct ISumSerde {
  void serialize(std::ostream& os, const ISum* it, unsigned n) const { for (unsigned i = 0; i < n; ++i) { int64_t v = it[i].get(); os.write((const char*)&v, sizeof v); } }
  void deserialize(std::istream& is, ISum* it, unsigned n) const {
    for (unsigned i = 0; i < n; ++i) { int64_t v = 0; is.read((char*)&v, sizeof v); if (!is.good()) { for (unsigned j = 0; j < i; ++j) it[j].~ISum(); throw std::runtime_error("ISumSerde: stream ended"); } new (&it[i]) ISum(v); }
  }
  size_t size_of_item(const ISum&) const { return sizeof(int64_t); }
  size_t serialize(void* ptr, size_t cap, const ISum* it, unsigned n) const {
    size_t b = sizeof(int64_t) * n; check_memory_size(b, cap);
    for (unsigned i = 0; i < n; ++i) { int64_t v = it[i].get(); memcpy(static_cast<char*>(ptr) + i * sizeof v, &v, sizeof v); }
    return b;
  }
  size_t deserialize(const void* ptr, size_t cap, ISum* it, unsigned n) const {
    size_t b = sizeof(int64_t) * n; check_memory_size(b, cap);
    for (unsigned i = 0; i < n; ++i) { int64_t v; memcpy(&v, static_cast<const char*>(ptr) + i * sizeof v, sizeof v); new (&it[i]) ISum(v); }
    return b;
  }
};

// ---------------------------------------------------------------------------------------------------------------
// Flavours. Update policy of the scalar flavours: s <- 31*s + v (create() = 0): non-commutative, non-idempotent.
// Set-operation policy of the scalar flavours: s <- 1000003*s + other. Arrays: per-column sums (the defaults).
struct FI64 {
  static const char* tag() { return "i64"; }
  enum { NCOLS = 1, TRACKED = 0, FROM_THETA = 1 };
  typedef int64_t Summary; typedef tuple_sketch<int64_t> Base; typedef compact_tuple_sketch<int64_t> PlainC;
  struct UpdPolicy { int64_t create() const { return 0; } void update(int64_t& s, const int64_t& v) const { s = wrapmul(s, 31, v); } };
  struct SetPolicy { void operator()(int64_t& s, const int64_t& o) const { s = wrapmul(s, 1000003, o); } };
  typedef update_tuple_sketch<int64_t, int64_t, UpdPolicy> USk;
  typedef compact_tuple_sketch<int64_t> CSk;
  typedef tuple_union<int64_t, SetPolicy> Union;
  typedef tuple_intersection<int64_t, SetPolicy> Inter;
  typedef tuple_a_not_b<int64_t> AnotB;
  static USk make_usk(bool legal, uint8_t lg_nom, RF rf, float p, uint64_t seed) {
    if (legal) { USk::builder b; b.set_lg_k(lg_nom).set_resize_factor(rf).set_p(p).set_seed(seed); return b.build(); }
    return USk(tiny_lg_cur0(lg_nom, rf), lg_nom, rf, p, start_theta_of(p), seed, UpdPolicy(), std::allocator<int64_t>());
  }
  static Union make_union(uint8_t lg_nom, RF rf, float p, uint64_t seed) {
    if (lg_nom >= 5) { Union::builder b; b.set_lg_k(lg_nom).set_resize_factor(rf).set_p(p).set_seed(seed); return b.build(); }
    return Union(tiny_lg_cur0(lg_nom, rf), lg_nom, rf, p, start_theta_of(p), seed, SetPolicy(), std::allocator<int64_t>());
  }
  static Inter make_inter(uint64_t seed) { return Inter(seed, SetPolicy()); }
  static AnotB make_anotb(uint64_t seed) { return AnotB(seed); }
  template<class K> static void upd(USk& sk, const K& key, int64_t v) { sk.update(key, v); }
  static void upd_raw(USk& sk, const void* p, size_t n, int64_t v) { sk.update(p, n, v); }
  static MV read(const Summary& s) { return MV(1, s); }
  static bool exact(const Summary&) { return true; }
  static MV m_create() { return MV(1, 0); }
  static void m_upd(MV& m, int64_t v) { m[0] = wrapmul(m[0], 31, v); }
  static void m_set(MV& s, const MV& o) { s[0] = wrapmul(s[0], 1000003, o[0]); }
  static std::string ser_bytes(const CSk& c) { CSk::vector_bytes b = c.serialize(); return std::string((const char*)b.data(), b.size()); }
  static CSk deser_bytes(const std::string& b, uint64_t seed) { return CSk::deserialize(b.data(), b.size(), seed); }
  static void ser_stream(const CSk& c, std::ostream& os) { c.serialize(os); }
  static CSk deser_stream(std::istream& is, uint64_t seed) { return CSk::deserialize(is, seed); }
  static CSk from_theta(const theta_sketch& t, int64_t v, bool ordered) { return CSk(t, v, ordered); }
};

struct FInst {
  static const char* tag() { return "inst"; }
  enum { NCOLS = 1, TRACKED = 1, FROM_THETA = 1 };
  typedef ISum Summary; typedef tuple_sketch<ISum> Base; typedef compact_tuple_sketch<ISum> PlainC;
  struct UpdPolicy { ISum create() const { return ISum(0); } void update(ISum& s, const int64_t& v) const { s.set(wrapmul(s.get(), 31, v)); } };
  struct SetPolicy {
    void operator()(ISum& s, const ISum& o) const { s.set(wrapmul(s.get(), 1000003, o.get())); }
    // an input presented as rvalue may be consumed: really move from it, so that a wrongly forwarded lvalue input is left moved-from and shows
    void operator()(ISum& s, ISum&& o) const { ISum t(std::move(o)); s.set(wrapmul(s.get(), 1000003, t.get())); }
  };
  typedef update_tuple_sketch<ISum, int64_t, UpdPolicy> USk;
  typedef compact_tuple_sketch<ISum> CSk;
  typedef tuple_union<ISum, SetPolicy> Union;
  typedef tuple_intersection<ISum, SetPolicy> Inter;
  typedef tuple_a_not_b<ISum> AnotB;
  static USk make_usk(bool legal, uint8_t lg_nom, RF rf, float p, uint64_t seed) {
    if (legal) { USk::builder b; b.set_lg_k(lg_nom).set_resize_factor(rf).set_p(p).set_seed(seed); return b.build(); }
    return USk(tiny_lg_cur0(lg_nom, rf), lg_nom, rf, p, start_theta_of(p), seed, UpdPolicy(), std::allocator<ISum>());
  }
  static Union make_union(uint8_t lg_nom, RF rf, float p, uint64_t seed) {
    if (lg_nom >= 5) { Union::builder b; b.set_lg_k(lg_nom).set_resize_factor(rf).set_p(p).set_seed(seed); return b.build(); }
    return Union(tiny_lg_cur0(lg_nom, rf), lg_nom, rf, p, start_theta_of(p), seed, SetPolicy(), std::allocator<ISum>());
  }
  static Inter make_inter(uint64_t seed) { return Inter(seed, SetPolicy()); }
  static AnotB make_anotb(uint64_t seed) { return AnotB(seed); }
  template<class K> static void upd(USk& sk, const K& key, int64_t v) { sk.update(key, v); }
  static void upd_raw(USk& sk, const void* p, size_t n, int64_t v) { sk.update(p, n, v); }
  static MV read(const Summary& s) { return MV(1, s.get()); }
  static bool exact(const Summary&) { return true; }
  static MV m_create() { return MV(1, 0); }
  static void m_upd(MV& m, int64_t v) { m[0] = wrapmul(m[0], 31, v); }
  static void m_set(MV& s, const MV& o) { s[0] = wrapmul(s[0], 1000003, o[0]); }
  static std::string ser_bytes(const CSk& c) { CSk::vector_bytes b = c.serialize(0, ISumSerde()); return std::string((const char*)b.data(), b.size()); }
  static CSk deser_bytes(const std::string& b, uint64_t seed) { return CSk::deserialize(b.data(), b.size(), seed, ISumSerde()); }
  static void ser_stream(const CSk& c, std::ostream& os) { c.serialize(os, ISumSerde()); }
  static CSk deser_stream(std::istream& is, uint64_t seed) { return CSk::deserialize(is, seed, ISumSerde()); }
  static CSk from_theta(const theta_sketch& t, int64_t v, bool ordered) { return CSk(t, ISum(v), ordered); }
};

inline int64_t col_mult(int c) { return c == 0 ? 1 : c == 1 ? 16 : 256; }

template<int N> struct FArr {
  static const char* tag() { return N == 1 ? "arr1" : "arr3"; }
  enum { NCOLS = N, TRACKED = 0, FROM_THETA = 0 };
  typedef datasketches::array<double> Summary; typedef tuple_sketch<Summary, std::allocator<double> > Base; typedef compact_tuple_sketch<Summary, std::allocator<double> > PlainC;
  typedef default_array_tuple_update_policy<Summary> UpdPolicy;
  struct SetPolicy {  // user-supplied intersection policy: per-column sum
    uint8_t n; SetPolicy(uint8_t n_ = N): n(n_) {}
    void operator()(Summary& a, const Summary& o) const { for (uint8_t i = 0; i < n; ++i) a[i] += o[i]; }
    uint8_t get_num_values() const { return n; }
  };
  typedef update_array_tuple_sketch<Summary> USk;
  typedef compact_array_tuple_sketch<Summary> CSk;
  typedef array_tuple_union<Summary> Union;
  typedef array_tuple_intersection<Summary, SetPolicy> Inter;
  typedef array_tuple_a_not_b<Summary> AnotB;
  static USk make_usk(bool legal, uint8_t lg_nom, RF rf, float p, uint64_t seed) {
    if (legal) { typename USk::builder b((UpdPolicy((uint8_t)N))); b.set_lg_k(lg_nom).set_resize_factor(rf).set_p(p).set_seed(seed); return b.build(); }
    return USk(tiny_lg_cur0(lg_nom, rf), lg_nom, rf, p, start_theta_of(p), seed, UpdPolicy((uint8_t)N), std::allocator<double>());
  }
  static Union make_union(uint8_t lg_nom, RF rf, float p, uint64_t seed) {
    typedef default_array_tuple_union_policy<Summary> UP;
    if (lg_nom >= 5) { typename Union::builder b((UP((uint8_t)N))); b.set_lg_k(lg_nom).set_resize_factor(rf).set_p(p).set_seed(seed); return b.build(); }
    return Union(tiny_lg_cur0(lg_nom, rf), lg_nom, rf, p, start_theta_of(p), seed, UP((uint8_t)N), std::allocator<double>());
  }
  static Inter make_inter(uint64_t seed) { return Inter(seed, SetPolicy((uint8_t)N)); }
  static AnotB make_anotb(uint64_t seed) { return AnotB(seed); }
  static std::vector<double> cols(int64_t v) { std::vector<double> d(N); for (int c = 0; c < N; ++c) d[c] = (double)(v * col_mult(c)); return d; }
  template<class K> static void upd(USk& sk, const K& key, int64_t v) { std::vector<double> d = cols(v); sk.update(key, d); }
  static void upd_raw(USk& sk, const void* p, size_t n, int64_t v) { std::vector<double> d = cols(v); sk.update(p, n, d); }
  static MV read(const Summary& s) { MV m(s.size()); for (size_t i = 0; i < m.size(); ++i) m[i] = (int64_t)s[i]; return m; }
  static bool exact(const Summary& s) { if (s.size() != N) return false; for (uint8_t i = 0; i < s.size(); ++i) if ((double)(int64_t)s[i] != s[i]) return false; return true; }
  static MV m_create() { return MV(N, 0); }
  static void m_upd(MV& m, int64_t v) { for (int c = 0; c < N; ++c) m[c] += v * col_mult(c); }
  static void m_set(MV& s, const MV& o) { for (int c = 0; c < N; ++c) s[c] += o[c]; }
  static std::string ser_bytes(const CSk& c) { typename CSk::vector_bytes b = c.serialize(); return std::string((const char*)b.data(), b.size()); }
  static CSk deser_bytes(const std::string& b, uint64_t seed) { return CSk::deserialize(b.data(), b.size(), seed); }
  static void ser_stream(const CSk& c, std::ostream& os) { c.serialize(os); }
  static CSk deser_stream(std::istream& is, uint64_t seed) { return CSk::deserialize(is, seed); }
  static CSk from_theta(const theta_sketch&, int64_t, bool) { throw std::logic_error("no theta form for arrays"); }
};

// typed key dispatch (same overload set as the theta sketch)
template<class F> void do_update2(typename F::USk& sk, const tc::Val& v, int64_t val) {
  switch (v.kind) {
    case tc::U64: F::upd(sk, (uint64_t)v.bits, val); break;
    case tc::I64: F::upd(sk, (int64_t)v.bits, val); break;
    case tc::U32: F::upd(sk, (uint32_t)v.bits, val); break;
    case tc::I32: F::upd(sk, (int32_t)(int64_t)v.bits, val); break;
    case tc::U16: F::upd(sk, (uint16_t)v.bits, val); break;
    case tc::I16: F::upd(sk, (int16_t)(int64_t)v.bits, val); break;
    case tc::U8: F::upd(sk, (uint8_t)v.bits, val); break;
    case tc::I8: F::upd(sk, (int8_t)(int64_t)v.bits, val); break;
    case tc::F64: F::upd(sk, (double)v.d, val); break;
    case tc::F32: F::upd(sk, (float)v.d, val); break;
    case tc::STR: F::upd(sk, v.s, val); break;
    case tc::RAW: F::upd_raw(sk, v.s.data(), v.s.size(), val); break;
  }
}

// what a user can observe of any tuple sketch
struct View {
  uint64_t theta; bool empty, ordered, est_mode, exact; uint32_t n; uint16_t seed_hash; double estimate; Ents e;
  std::string sig() const { std::string s = mc::hex64(theta) + (empty ? "E" : "e") + (ordered ? "O" : "o"); for (size_t i = 0; i < e.size(); ++i) s += mc::hex64(e[i].first) + ":" + mvs(e[i].second) + ","; return s; }
};
template<class F> View view_of(const typename F::Base& s) {
  typedef typename F::Base B;
  View v; v.theta = s.get_theta64(); v.empty = s.is_empty(); v.ordered = s.is_ordered(); v.est_mode = s.is_estimation_mode(); v.n = s.get_num_retained();
  v.seed_hash = s.get_seed_hash(); v.estimate = s.get_estimate(); v.exact = true; v.e.reserve(v.n);
  for (typename B::const_iterator it = s.begin(); it != s.end(); ++it) { v.e.push_back(std::make_pair((*it).first, F::read((*it).second))); if (!F::exact((*it).second)) v.exact = false; }
  return v;
}
inline std::vector<uint64_t> keys_of(const Ents& e) { std::vector<uint64_t> k; for (size_t i = 0; i < e.size(); ++i) k.push_back(e[i].first); return k; }
template<class TS> std::vector<uint64_t> theta_keys(const TS& t) { std::vector<uint64_t> k; for (typename TS::const_iterator it = t.begin(); it != t.end(); ++it) k.push_back(*it); return k; }

// canonical string of a hash table of pair<key, summary> (appended; no temporaries)
inline void put_hex(std::string& c, uint64_t v) { char b[16]; int n = 0; do { b[n++] = "0123456789abcdef"[v & 15]; v >>= 4; } while (v); while (n) c += b[--n]; }
inline void put_mv(std::string& c, const MV& m) { for (size_t i = 0; i < m.size(); ++i) { if (i) c += '/'; if (m[i] < 0) c += '-'; put_hex(c, m[i] < 0 ? (uint64_t)0 - (uint64_t)m[i] : (uint64_t)m[i]); } }
template<class F, class Table> void table_canon(std::string& c, const Table& t) {
  put_hex(c, t.lg_cur_size_); c += ','; put_hex(c, t.lg_nom_size_); c += ','; put_hex(c, (uint64_t)t.rf_); c += ','; put_hex(c, t.num_entries_); c += ','; put_hex(c, t.theta_); c += t.is_empty_ ? 'E' : 'e'; c += '[';
  if (t.entries_ != nullptr) {
    size_t size = (size_t)1 << t.lg_cur_size_;
    for (size_t i = 0; i < size; ++i) { if (t.entries_[i].first) { put_hex(c, t.entries_[i].first); c += ':'; put_mv(c, F::read(t.entries_[i].second)); } c += ','; }
  }
  c += ']';
}

// model-level filter predicates (index) and their library-side functor
inline bool pred_m(int pi, const MV& m) {
  switch (pi) { case 0: return (m[0] & 1) != 0; case 1: return false; case 2: return true; default: return (m.back() % 3) == 0; }
}
template<class F> struct Pred { int pi; explicit Pred(int p): pi(p) {} bool operator()(const typename F::Summary& s) const { return pred_m(pi, F::read(s)); } };

} // namespace tp
#endif
