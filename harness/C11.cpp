// C11: truncated or corrupted images are rejected safely, never read out of bounds.
// E4 fault enumeration over the corpus of harness/fam_*.hpp: for every selected image and every reader path
// (bytes on an exactly sized heap block, stream that ends there, wrap where offered):
//   (a) every strict prefix length 0..size-1;  (b) every preamble byte x 13 replacement values.
// Oracles: exception + ledger balance -> ok; an object is ok for (a) only if observationally equal to the full one,
// for (b) it must survive a usability script; ASan report / crash / allocation above the cap / hang -> violation.
#define MC_MAIN
#include "families.hpp"
#include "fam_all.hpp"
using namespace mc;
using namespace fam;

static const size_t MAX_IMAGE = 4096;

struct Img { std::string label; Bytes bytes; std::string obs; };

static void collect(const Family& f, bool quick, std::vector<Img>& out, size_t max_images) {
  std::set<std::string> seen;   // one image per (size, flags-ish header) shape, in enumeration order
  std::vector<Img> all;
  f.states(quick, [&](const std::string& label, Obj& o) {
    Bytes b = o.ser(0);
    if (b.size() > MAX_IMAGE) return;
    std::string shape = str(b.size()) + ":" + hexs(Bytes(b.begin(), b.begin() + std::min<size_t>(b.size(), 8)));
    if (!seen.insert(shape).second) return;
    Img im; im.label = label; im.bytes = b; im.obs = o.obs(); all.push_back(im);
  });
  if (all.size() <= max_images) { out = all; return; }
  for (size_t i = 0; i < max_images; ++i) out.push_back(all[i * all.size() / max_images]);   // spread over the enumeration
}

enum Path { BYTES = 0, STREAM = 1, WRAP = 2 };
static const char* path_name(int p) { return p == BYTES ? "bytes" : p == STREAM ? "stream" : "wrap"; }

// runs one reader on one (possibly damaged) image; returns outcome class
static std::string run_case(const Family& f, int path, const Bytes& data, bool is_prefix, const std::string& full_obs, std::string& detail) {
  ledger().errors.clear(); ledger().refused = 0; ledger().max_request = 0; items().errors.clear();
  const size_t live0 = ledger().live.size(); const long items0 = items().live; const int a0 = asan_errors();
  std::string outcome;
  // exact-size heap block; ASan rounds malloc(0) up to one addressable byte, so an empty buffer is the end of a 1-byte block
  uint8_t* raw = (uint8_t*)malloc(data.empty() ? 1 : data.size()); uint8_t* blk = data.empty() ? raw + 1 : raw;
  if (!data.empty()) memcpy(blk, data.data(), data.size());
  {
    Sched sc(0, 4321);   // some readers construct objects that draw a coin (REQ compactors)
    ObjP o;
    try {
      if (path == BYTES) o = f.from_bytes(blk, data.size());
      else if (path == WRAP) o = f.wrap(blk, data.size());
      else { std::istringstream is(std::string(data.begin(), data.end())); o = f.from_stream(is); }
    } catch (const std::bad_alloc&) { outcome = "bad_alloc"; }
    catch (const std::exception&) { outcome = "rejected"; }
    if (o) {
      if (is_prefix) {
        std::string ob = guarded([&] { return o->obs(); });
        if (ob == full_obs) outcome = "accepted-same-sketch";      // the missing tail carried no information
        else { outcome = "accepted-different-sketch"; detail = "returned " + ob.substr(0, 200) + " instead of " + full_obs.substr(0, 200); }
      } else {
        // usability script: every step may throw, none may misbehave
        try { o->obs(); } catch (const std::exception&) {}
        try { o->ser(0); } catch (const std::exception&) {}
        try { o->exercise(); } catch (const std::exception&) {}
        for (size_t ci = 0; ci < o->ncont(); ++ci) { try { o->cont(ci); } catch (const std::exception&) {} }
        try { o->obs(); } catch (const std::exception&) {}
        try { o->ser(0); } catch (const std::exception&) {}
        outcome = "accepted-usable";
      }
      try { o.reset(); } catch (...) { outcome = "destructor-threw"; }
    }
  }
  free(raw);
  if (asan_errors() != a0) { outcome = "asan-report"; detail = "AddressSanitizer reported an invalid access (see log)"; }
  else if (ledger().refused && ledger().max_request <= f.alloc_legal_max) { outcome = "bad_alloc"; ledger().live.clear(); items().live = items0; }   // refused by the harness, but legal for the format
  else if (ledger().refused) { outcome = "allocation-above-cap"; detail = ledger().errors.empty() ? "" : ledger().errors[0]; }
  else if (!ledger().errors.empty()) { outcome = "allocator-misuse"; detail = ledger().errors[0]; }
  else if (!items().errors.empty()) { outcome = "item-misuse"; detail = items().errors[0]; }
  // the statement's leak clause is about REJECTED images; an accepted object that is used and destroyed is judged by C19
  else if ((outcome == "rejected" || outcome == "bad_alloc") && (ledger().live.size() != live0 || items().live != items0)) { detail = "blocks alive " + str(live0) + " -> " + str(ledger().live.size()) + ", items " + str(items0) + " -> " + str(items().live) + " (outcome " + outcome + ")"; outcome = "leak";
    ledger().live.clear(); items().live = items0; }
  else { ledger().live.clear(); items().live = items0; }   // forget whatever an accepted object left behind
  return outcome;
}

// prefixes: "fails with an exception, or yields the very same sketch; in no case is memory outside the buffer touched" --
// an allocation request above the cap ends in std::bad_alloc, i.e. an exception, so it is not gated for prefixes (counted);
// corruption: "never an out-of-bounds access, an unbounded allocation, an endless loop or a crash".
static bool bad(const std::string& oc, bool is_prefix) {
  if (oc == "rejected" || oc == "accepted-same-sketch" || oc == "accepted-usable" || oc == "bad_alloc") return false;
  if (is_prefix && oc == "allocation-above-cap") return false;
  return true;
}

int main(int argc, char** argv) {
  Config cfg = parse_args(argc, argv);
  forbid_unowned_draws();
  register_all_families();
  case_timeout_s() = 10;
  std::vector<Task> tasks;
  { Task t; t.name = "meta"; t.fn = [](Report& rep) {
      rep.assumptions.push_back("images come from the enumerated corpora (one per distinct (size, first 8 bytes) shape, at most 4 KiB); replacement set {00,01,7f,80,ff, 8 single-bit flips}; preamble = first 8..40 bytes per family");
      rep.assumptions.push_back("allocation cap 1 GiB per request through the supplied allocator (count_min: the format's own limit); per-case alarm 10 s; std::bad_alloc from the cap counts as a violation (allocation-above-cap), from the runtime as rejection");
      rep.sets("rule", "every (image, reader path, prefix length) and (image, reader path, preamble byte, replacement) is executed; distinct_nontrivial counts distinct (family, path, fault kind, outcome class) tuples");
    }; tasks.push_back(t); }
  const uint8_t repl[] = {0x00, 0x01, 0x7f, 0x80, 0xff};
  for (size_t fi = 0; fi < registry().size(); ++fi) {
    const Family f = registry()[fi];
    Task t; t.name = f.name; t.fn = [f, &cfg, repl](Report& rep) {
      if (!cfg.replay_scenario.empty() && cfg.replay_scenario != f.name) return;
      set_resumable(rep);
      ledger().request_cap = f.alloc_cap;
      std::vector<Img> imgs; collect(f, cfg.quick(), imgs, cfg.quick() ? 24 : 150);
      uint64_t cases = 0; size_t done = 0;
      for (size_t ii = 0; ii < imgs.size(); ++ii) {
        const Img& im = imgs[ii];
        if (rep.past_deadline()) { rep.cap("global deadline reached in " + f.name + " after " + str(done) + " of " + str(imgs.size()) + " images"); break; }
        for (int path = 0; path < 3; ++path) {
          if (path == WRAP && !f.wrap) continue;
          // (a) prefixes
          for (size_t len = 0; len < im.bytes.size(); ++len) {
            std::string h = im.label + "|prefix=" + str(len);
            if (!cfg.replay_history.empty() && cfg.replay_history != std::string(path_name(path)) + "|" + h) continue;
            if (!journal(f.name, std::string(path_name(path)) + "|" + h)) continue;
            Bytes d(im.bytes.begin(), im.bytes.begin() + len); std::string detail;
            std::string oc = run_case(f, path, d, true, im.obs, detail); ++cases;
            rep.outcome(f.name + "|" + path_name(path) + "|prefix|" + oc);
            if (oc == "allocation-above-cap") rep.count("prefix_cases_ending_in_allocation_above_cap(diagnostic)");
            if (bad(oc, true)) rep.violation("C11|" + f.name + "|" + path_name(path) + "|prefix|" + oc, oc + ": " + detail, f.name, std::string(path_name(path)) + "|" + h);
          }
          // (b) preamble corruption
          size_t pre = std::min(im.bytes.size(), std::max<size_t>(8, std::min<size_t>(f.preamble_bytes, 40)));
          for (size_t pos = 0; pos < pre; ++pos) for (int r = 0; r < 13; ++r) {
            uint8_t v = r < 5 ? repl[r] : (uint8_t)(im.bytes[pos] ^ (1u << (r - 5)));
            if (v == im.bytes[pos]) continue;
            std::string h = im.label + "|byte" + str(pos) + "=" + str((int)v);
            if (!cfg.replay_history.empty() && cfg.replay_history != std::string(path_name(path)) + "|" + h) continue;
            if (!journal(f.name, std::string(path_name(path)) + "|" + h)) continue;
            Bytes d = im.bytes; d[pos] = v; std::string detail;
            std::string oc = run_case(f, path, d, false, im.obs, detail); ++cases;
            rep.outcome(f.name + "|" + path_name(path) + "|corrupt|" + oc);
            if (bad(oc, false)) rep.violation("C11|" + f.name + "|" + path_name(path) + "|corrupt|" + oc, oc + ": " + detail, f.name, std::string(path_name(path)) + "|" + h);
          }
        }
        ++done;
      }
      journal_clear();
      rep.evaluations += cases; rep.states += imgs.size(); rep.transitions += cases; rep.traces += cases;
      rep.scenarios.push_back(f.name + ": images=" + str(done) + " cases=" + str(cases));
      if (!imgs.empty()) rep.sample(f.name + ": " + imgs[imgs.size() / 2].label + " (" + str(imgs[imgs.size() / 2].bytes.size()) + " bytes) x every prefix and preamble corruption x paths");
    };
    tasks.push_back(t);
  }
  return run_tasks(cfg, "C11", tasks);
}
