// registers every corpus family
#ifndef FAM_ALL_HPP
#define FAM_ALL_HPP
#include "fam_quant.hpp"
#include "fam_distinct.hpp"
#include "fam_misc.hpp"
namespace fam {
inline void register_all_families() {
  if (!registry().empty()) return;
  register_quant_families();
  register_distinct_families();
  register_misc_families();
}
}
#endif
