// C05: a CPC sketch is an exact coupon bit-matrix; a union ORs row-folded matrices; compression is lossless.
//
// Engines: E2 (mc/paths.hpp; all paths with <= d deviations from long default fill paths, lg_k 4 and 5),
//          E1 (mc/bfs.hpp; cpc_union over a menu of 27 operand sketches, every history of <= 3 (thorough: 4) updates),
//          two complete grids for the hashing step, and long hashed streams through the public update overloads (lg_k 4..8/10)
//          with the oracle evaluated after every novel coupon.
// Oracle:  model = set<(row,col)>; everything below is evaluated in every state against that set.
//
// Coupon derivation (cpc_sketch_impl.hpp update(const void*, size_t) + row_col_from_two_hashes, re-stated here and
// decided separately over the typed grid against oracle::murmur3 from mc/oracle_hash.hpp):
//   (h1,h2) = MurmurHash3_x64_128(bytes, len, seed);  k = 2^lg_k
//   row = h1 & (k-1);  col = min(count_leading_zeros64(h2), 63);  coupon = (row << 6) | col
//   the one coupon equal to 0xffffffff (row 2^26-1, col 63, lg_k 26 only) is the hash table's empty marker and is
//   moved to the neighbouring row (coupon ^= 64).
//   bytes: every integer overload -> value reinterpreted as signed of its own width, sign-extended to 8 bytes LE;
//   double: -0.0 -> 0.0, every NaN -> 0x7ff8000000000000, 8 bytes LE; float -> double; std::string: its bytes without
//   terminator, the empty string is ignored; (ptr,len): the bytes as they are.
// Everything after hashing is driven through the private injection point cpc_sketch::row_col_update((row<<6)|col).
//
// Documented functions of (lg_k, C) used by the oracle (from the comments in cpc_sketch.hpp / cpc_sketch_impl.hpp):
//   flavor: C == 0 empty; C < 3k/32 sparse; C < k/2 hybrid; C < 27k/8 pinned; else sliding
//   window offset: the number of o >= 0 with 8C >= (27 + 8o)k   (one shift each time C reaches 27k/8 + o*k)
//
// Restriction stated for the direct "a novel coupon is never hidden" probe: in every state the pairs
// {rows 0,1,k-1} x {cols 0..20} and {all rows} x {offset-1, offset, offset+7, offset+8} are offered one by one to copies of
// the sketch (novel ones must raise C by one and produce a fully consistent sketch, present ones must leave C alone). The
// speed filter itself is decided completely: first_interesting_column <= the first column that has a zero in any row.
#define MC_MAIN
#include "core.hpp"
#include "choice.hpp"
#include "bfs.hpp"
#include "paths.hpp"
#include "oracle_hash.hpp"
#include "theta_common.hpp"   // tc::Val, typed boundary grid and the documented input canonicalisation (shared with C01)
#include <cpc_sketch.hpp>
#include <cpc_union.hpp>
#include <set>
#include <sstream>

using namespace mc;
using namespace datasketches;
typedef cpc_sketch Sk;
typedef std::set<uint32_t> PairSet;

static inline uint32_t RC(uint32_t row, uint32_t col) { return (row << 6) | col; }
static std::string pair_str(uint32_t p) { return "(" + str(p >> 6) + "," + str(p & 63) + ")"; }
static std::string dbits(double d) { uint64_t b; memcpy(&b, &d, 8); return hex64(b); }

// ------------------------------------------------------------------------------------------------ reference model
namespace model {
enum { EMPTY = 0, SPARSE = 1, HYBRID = 2, PINNED = 3, SLIDING = 4 };
static const char* const FLAVOR_NAME[] = {"empty", "sparse", "hybrid", "pinned", "sliding"};
inline int flavor(int lg_k, uint64_t c) {
  const uint64_t k = 1ULL << lg_k;
  if (c == 0) return EMPTY;
  if (32 * c < 3 * k) return SPARSE;
  if (2 * c < k) return HYBRID;
  if (8 * c < 27 * k) return PINNED;
  return SLIDING;
}
inline int offset(int lg_k, uint64_t c) {
  const uint64_t k = 1ULL << lg_k; int o = 0;
  while (8 * c >= (27 + 8 * (uint64_t)o) * k) ++o;
  return o;
}
inline std::vector<uint64_t> matrix(int lg_k, const PairSet& m) {
  std::vector<uint64_t> v((size_t)1 << lg_k, 0);
  for (PairSet::const_iterator i = m.begin(); i != m.end(); ++i) v[*i >> 6] |= 1ULL << (*i & 63);
  return v;
}
inline long double pow2neg(int e) { static long double t[66]; static bool init = false; if (!init) { t[0] = 1; for (int i = 1; i < 66; ++i) t[i] = t[i - 1] * 0.5L; init = true; } return t[e]; }
// sum over rows and unset columns of 2^-(col+1)
inline long double kxp(const std::vector<uint64_t>& mat) {
  long double total = 0;
  for (size_t r = 0; r < mat.size(); ++r) { long double row = 0; for (int c = 63; c >= 0; --c) if (!((mat[r] >> c) & 1)) row += pow2neg(c + 1); total += row; }
  return total;
}
inline int first_col_with_zero(const std::vector<uint64_t>& mat) {
  uint64_t all = ~0ULL; for (size_t r = 0; r < mat.size(); ++r) all &= mat[r];
  for (int c = 0; c < 64; ++c) if (!((all >> c) & 1)) return c;
  return 64;
}
inline PairSet fold(const PairSet& m, int lg_k_to) {
  PairSet o; const uint32_t mask = (1u << lg_k_to) - 1;
  for (PairSet::const_iterator i = m.begin(); i != m.end(); ++i) o.insert(RC((*i >> 6) & mask, *i & 63));
  return o;
}
// number of table entries the documented representation needs: all pairs (sparse); else zeros left of the window plus ones right of it
inline uint64_t surprises(int lg_k, const std::vector<uint64_t>& mat, uint64_t c) {
  if (flavor(lg_k, c) <= SPARSE) return c;
  const int off = offset(lg_k, c); uint64_t n = 0;
  const uint64_t left = (1ULL << off) - 1, right = off + 8 >= 64 ? 0 : ~((1ULL << (off + 8)) - 1);
  for (size_t r = 0; r < mat.size(); ++r) n += (uint64_t)__builtin_popcountll(~mat[r] & left) + (uint64_t)__builtin_popcountll(mat[r] & right);
  return n;
}
} // namespace model

// every field of a sketch the future can depend on
static std::string sk_canon(const Sk& s) {
  std::string c = "k" + str((int)s.lg_k) + ",C" + str(s.num_coupons) + ",m" + str(s.was_merged) + ",o" + str((int)s.window_offset) + ",f" + str((int)s.first_interesting_column)
    + ",x" + dbits(s.kxp) + ",h" + dbits(s.hip_est_accum) + ",W";
  static const char* hx = "0123456789abcdef";
  for (size_t i = 0; i < s.sliding_window.size(); ++i) { c += hx[s.sliding_window[i] >> 4]; c += hx[s.sliding_window[i] & 15]; }
  c += ",T" + str((int)s.surprising_value_table.lg_size) + "/" + str(s.surprising_value_table.num_items) + ":";
  const uint32_t* sl = s.surprising_value_table.get_slots(); const size_t n = s.surprising_value_table.slots.size();
  for (size_t i = 0; i < n; ++i) { if (sl[i] != UINT32_MAX) c += str(sl[i]); c += ","; }
  return c;
}

struct Expect {
  int lg_k; uint64_t C;   // model: lg_k and |set|; the set itself is passed as its bit matrix
  int merged;          // 1: result of a union of something; 0: never merged (HIP registers maintained); -1: empty union result, flag not specified
  long double hip;     // model HIP accumulator (merged == 0)
};

static std::map<std::pair<int, uint64_t>, double>& icon_seen() { static std::map<std::pair<int, uint64_t>, double> m; return m; }

// Oracle helpers. CK builds its strings only on failure (the oracle runs ~10^8 times).
#define CK(id, cond, msg) do { if (!(cond)) c.fail(p + id, msg); } while (0)
#define CKEQ(id, a, b) do { if (!((a) == (b))) c.fail(p + id, "got " + str(a) + " expected " + str(b)); } while (0)

// the part of the oracle that is cheap enough to run on every probe copy and every deserialized image
static void check_core(const Sk& sk, const Expect& e, Ctx& c, const std::string& p, const std::vector<uint64_t>& mm) {
  const uint32_t k = 1u << e.lg_k; const uint64_t C = e.C;
  CKEQ("lg_k", (int)sk.get_lg_k(), e.lg_k);
  CKEQ("num_coupons==|model|", (uint64_t)sk.get_num_coupons(), C);
  CKEQ("is_empty", sk.is_empty(), C == 0);
  const int fl = model::flavor(e.lg_k, C), off = model::offset(e.lg_k, C);
  CKEQ("flavor", (int)sk.determine_flavor(), fl);
  CKEQ("window_offset", (int)sk.window_offset, off);
  if ((int)sk.window_offset != off || (int)sk.get_lg_k() != e.lg_k) return;   // build_bit_matrix trusts the offset
  CKEQ("window-allocated-iff-windowed", sk.sliding_window.size(), (size_t)(fl >= model::HYBRID ? k : 0));
  Sk::vector_u64 im = sk.build_bit_matrix();
  CKEQ("matrix-rows", im.size(), (size_t)k);
  if (im.size() == k)
    for (uint32_t r = 0; r < k; ++r) if (im[r] != mm[r]) { c.fail(p + "matrix==model", "row " + str(r) + " is " + hex64(im[r]) + " expected " + hex64(mm[r]) + " (C=" + str(C) + ", offset " + str(off) + ")"); break; }
  CK("validate", sk.validate(), "validate() returned false");
  // the table holds exactly the surprising pairs
  uint64_t used = 0; const uint32_t* sl = sk.surprising_value_table.get_slots(); const size_t ns = sk.surprising_value_table.slots.size();
  CKEQ("table-slots==2^lg_size", ns, (size_t)1 << sk.surprising_value_table.lg_size);
  for (size_t i = 0; i < ns; ++i) used += sl[i] != UINT32_MAX;
  CKEQ("table-num_items==occupied-slots", (uint64_t)sk.surprising_value_table.get_num_items(), used);
  CKEQ("table-entries==surprising-pairs", used, model::surprises(e.lg_k, mm, C));
  // speed filter: complete decision
  const int fz = model::first_col_with_zero(mm);
  CK("first_interesting_column<=first-column-with-a-zero", (int)sk.first_interesting_column <= fz,
     "first_interesting_column " + str((int)sk.first_interesting_column) + " but column " + str(fz) + " still has a zero: that coupon would be ignored");
}

static bool near_rel(double a, double b, double rel) { const double d = std::fabs(a - b), m = std::max(std::fabs(a), std::fabs(b)); return d <= 1e-12 || d <= rel * m; }

static void check_estimates(const Sk& sk, const Expect& e, Ctx& c, const std::string& p, const std::vector<uint64_t>& mm) {
  const uint64_t C = e.C;
  const double est = sk.get_estimate();
  const double icon = compute_icon_estimate((uint8_t)e.lg_k, (uint32_t)C);
  if (e.merged >= 0) CKEQ("was_merged", (int)sk.was_merged, e.merged);
  CKEQ("icon-estimate-private", sk.get_icon_estimate(), icon);
  if (C == 0) CKEQ("estimate-of-empty", est, 0.0);
  if (e.merged == 1) {
    // merged form: a function of (lg_k, C) only
    CKEQ("merged-estimate==icon(lg_k,C)", est, icon);
    std::pair<int, uint64_t> key(e.lg_k, C);
    std::map<std::pair<int, uint64_t>, double>::iterator it = icon_seen().find(key);
    if (it == icon_seen().end()) icon_seen()[key] = est;
    else CK("merged-estimate-function-of-(lg_k,C)", it->second == est, "two merged sketches with lg_k " + str(e.lg_k) + " C " + str(C) + " estimate " + str(it->second) + " and " + str(est));
  } else if (e.merged == 0) {
    const double mk = (double)model::kxp(mm);
    CK("kxp==sum-of-unset-2^-(col+1)", near_rel(sk.kxp, mk, 1e-9), "got " + str(sk.kxp) + " expected " + str(mk));
    CK("hip-accumulator==sum-k/kxp", near_rel(sk.hip_est_accum, (double)e.hip, 1e-9), "got " + str(sk.hip_est_accum) + " expected " + str((double)e.hip));
    CKEQ("estimate==hip-accumulator", est, sk.hip_est_accum);
  }
  CK("estimate>=C", est >= (double)C && est == est && est < 1e300, "estimate " + str(est) + " C " + str(C));
  for (unsigned kappa = 1; kappa <= 3; ++kappa) {
    const double lb = sk.get_lower_bound(kappa), ub = sk.get_upper_bound(kappa);
    CK("lb<=est<=ub", lb <= est && est <= ub, "kappa " + str(kappa) + ": lb " + str(lb) + " est " + str(est) + " ub " + str(ub));
    if (C == 0) CK("bounds-of-empty", lb == 0 && ub == 0, "lb " + str(lb) + " ub " + str(ub));
  }
}

// the restored sketch carries the same registers as the original
static void same_registers(const Sk& a, const Sk& d, Ctx& c, const std::string& p) {
  CKEQ("window_offset", (int)d.window_offset, (int)a.window_offset);
  CKEQ("first_interesting_column", (int)d.first_interesting_column, (int)a.first_interesting_column);
  CKEQ("was_merged", d.was_merged, a.was_merged);
  if (!a.was_merged) {
    CK("kxp", memcmp(&a.kxp, &d.kxp, 8) == 0, "kxp " + str(a.kxp) + " restored as " + str(d.kxp));
    CK("hip", memcmp(&a.hip_est_accum, &d.hip_est_accum, 8) == 0, "hip accumulator " + str(a.hip_est_accum) + " restored as " + str(d.hip_est_accum));
  }
  CK("window-bytes", a.sliding_window == d.sliding_window, "window differs");
  CKEQ("estimate", d.get_estimate(), a.get_estimate());
}

static void check_roundtrip(const Sk& sk, const Expect& e, Ctx& c, const std::string& p, const std::vector<uint64_t>& mm) {
  static const std::string RB = "rt-bytes.", RS = "rt-stream.";
  try {
    Sk::vector_bytes b = sk.serialize();
    Sk d = Sk::deserialize(b.data(), b.size(), sk.seed);
    check_core(d, e, c, p.empty() ? RB : p + RB, mm);
    same_registers(sk, d, c, p.empty() ? RB : p + RB);
    Sk::vector_bytes b2 = d.serialize();
    CK("rt-bytes.reserialize-identical", b2 == b, "image of " + str(b.size()) + " bytes re-serializes to a different image of " + str(b2.size()) + " bytes");
    Sk::vector_bytes bh = sk.serialize(7);
    CK("serialize-with-header", bh.size() == b.size() + 7 && memcmp(bh.data() + 7, b.data(), b.size()) == 0, "image after a 7-byte header differs");
    std::stringstream ss(std::ios::in | std::ios::out | std::ios::binary); sk.serialize(ss);
    const std::string img = ss.str();
    CK("stream-image==bytes-image", img.size() == b.size() && memcmp(img.data(), b.data(), b.size()) == 0, "stream image " + str(img.size()) + " bytes, vector image " + str(b.size()));
    Sk d2 = Sk::deserialize(ss, sk.seed);
    check_core(d2, e, c, p.empty() ? RS : p + RS, mm);
    same_registers(sk, d2, c, p.empty() ? RS : p + RS);
    std::stringstream s2(std::ios::in | std::ios::out | std::ios::binary); d2.serialize(s2);
    CK("rt-stream.reserialize-identical", s2.str() == img, "stream image re-serializes differently");
  } catch (const std::exception& ex) { c.fail(p + "rt-exception", std::string("serialize/deserialize threw: ") + ex.what()); }
}

// direct probe of the update path on copies (restriction stated at the top of the file)
static void check_probes(const Sk& sk, const Expect& e, Ctx& c, const std::string& p, const std::vector<uint64_t>& mm) {
  static const std::string PR = "probe.";
  const std::string pp = p.empty() ? PR : p + PR;
  const uint32_t k = 1u << e.lg_k; const uint64_t C = e.C; const int off = model::offset(e.lg_k, C);
  std::vector<uint32_t> probes(3 * 21 + 4 * (size_t)k); size_t np = 0;
  const uint32_t rows[3] = {0, 1, k - 1};
  const int cols[4] = {off - 1, off, off + 7, off + 8};
  for (int i = 0; i < 3; ++i) for (uint32_t col = 0; col <= 20; ++col) {
    if ((int)col == cols[0] || (int)col == cols[1] || (int)col == cols[2] || (int)col == cols[3]) continue;   // covered below for all rows
    probes[np++] = RC(rows[i], col);
  }
  for (int i = 0; i < 4; ++i) if (cols[i] >= 0 && cols[i] <= 63) for (uint32_t r = 0; r < k; ++r) probes[np++] = RC(r, (uint32_t)cols[i]);
  std::vector<uint64_t> mm2 = mm;
  for (size_t i = 0; i < np; ++i) {
    const uint32_t pr = probes[i]; const bool present = (mm[pr >> 6] >> (pr & 63)) & 1;
    try {
      Sk t(sk);
      t.row_col_update(pr);
      if (present) CK("probe.duplicate-leaves-C", t.get_num_coupons() == C, "offering present pair " + pair_str(pr) + " changed C from " + str(C) + " to " + str(t.get_num_coupons()));
      else if (t.get_num_coupons() != C + 1) c.fail(p + "probe.novel-coupon-raises-C", "offering novel pair " + pair_str(pr) + " at C=" + str(C) + " offset " + str(off) + " first_interesting_column " + str((int)sk.first_interesting_column) + " gave C=" + str(t.get_num_coupons()));
      else {
        mm2[pr >> 6] |= 1ULL << (pr & 63);
        Expect e2 = e; e2.C = C + 1;
        const size_t before = c.fails.size();
        check_core(t, e2, c, pp, mm2);
        if (c.fails.size() != before) c.fails.back().second += " [after offering " + pair_str(pr) + "]";
        mm2[pr >> 6] = mm[pr >> 6];
      }
    } catch (const std::exception& ex) { c.fail(p + "probe.exception", "offering " + pair_str(pr) + " threw: " + ex.what()); }
  }
  c.rep.evaluations += np;
}

static void check_sketch(const Sk& sk, const Expect& e, const PairSet& set, Ctx& c, const std::string& p) {
  const std::vector<uint64_t> mm = model::matrix(e.lg_k, set);
  try {
    check_core(sk, e, c, p, mm);
    if (!c.fails.empty()) return;      // the remaining checks trust lg_k / offset
    check_estimates(sk, e, c, p, mm);
  } catch (const std::exception& ex) { c.fail(p + "exception-in-getters", ex.what()); return; }
  check_roundtrip(sk, e, c, p, mm);
  check_probes(sk, e, c, p, mm);
  { // copy: identical in every field, independent storage
    Sk t(sk);
    CK("copy-canon-equal", sk_canon(t) == sk_canon(sk), "copy differs from source");
    CK("copy-independent-storage", t.surprising_value_table.get_slots() != sk.surprising_value_table.get_slots(), "copy shares the table");
  }
}

// ------------------------------------------------------------------------------------------------ E2: single sketch
struct CpcSys {
  struct State {
    Sk sk; PairSet m; bool merged; long double kxp, hip; uint32_t last; bool has_last; std::string tag;
    explicit State(int lg): sk((uint8_t)lg), merged(false), kxp((long double)(1u << lg)), hip(0), last(0), has_last(false) {}
  };
  int lg_k; int ncols; std::string nm;
  enum { OP_DUP = 0, OP_SERDE_BYTES, OP_SERDE_STREAM, OP_COPY, OP_COPY_ASSIGN, OP_UNION_SPARSE, OP_UNION_HYBRID_UP, OP_REL0, OP_FIXED0 = OP_REL0 + 12 };
  uint32_t k() const { return 1u << lg_k; }
  std::string name() const { return nm; }
  State* make() { return new State(lg_k); }
  size_t nops() const { return OP_FIXED0 + (size_t)ncols * k(); }
  size_t fixed_op(uint32_t row, uint32_t col) const { return OP_FIXED0 + (size_t)col * k() + row; }
  static const char* rel_name(int j) { static const char* n[6] = {"off-1", "off", "off+7", "off+8", "c62", "c63"}; return n[j]; }
  std::string opname(size_t i) const {
    switch (i) { case OP_DUP: return "dup"; case OP_SERDE_BYTES: return "serde-bytes"; case OP_SERDE_STREAM: return "serde-stream"; case OP_COPY: return "copy";
      case OP_COPY_ASSIGN: return "copy-assign"; case OP_UNION_SPARSE: return "union-sparse"; case OP_UNION_HYBRID_UP: return "union-hybrid-lgk+1"; default: break; }
    if (i < OP_FIXED0) { size_t j = i - OP_REL0; return std::string(j < 6 ? "r0." : "rL.") + rel_name((int)(j % 6)); }
    size_t j = i - OP_FIXED0; return "p(" + str(j % k()) + "," + str(j / k()) + ")";
  }
  // the two fixed union operands of the deviation menu
  std::vector<uint32_t> small_sparse() const { std::vector<uint32_t> v; v.push_back(RC(3, 5)); if (lg_k >= 5) v.push_back(RC(k() - 2, 0)); return v; }
  std::vector<uint32_t> small_hybrid_up() const { // built at lg_k+1: rows >= k fold onto the lower half, two of them onto the same pair
    const uint32_t K = k(); std::vector<uint32_t> v;
    v.push_back(RC(K + 1, 0)); v.push_back(RC(K, 3)); v.push_back(RC(2 * K - 1, 9)); v.push_back(RC(3, 12)); v.push_back(RC(K + 3, 12)); v.push_back(RC(5, 30)); v.push_back(RC(7, 1)); v.push_back(RC(K + 8, 2));
    return v;
  }
  void offer(State& s, uint32_t pr) {
    const bool novel = !s.m.count(pr);
    if (novel && !s.merged) { s.hip += (long double)k() / s.kxp; s.kxp -= model::pow2neg((int)(pr & 63) + 1); }
    s.sk.row_col_update(pr);
    s.m.insert(pr); s.last = pr; s.has_last = true;
    s.tag = novel ? "novel" : "dup";
  }
  bool apply(State& s, size_t op, Ctx* c) {
    s.tag = "";
    if (op >= OP_FIXED0) { size_t j = op - OP_FIXED0; offer(s, RC((uint32_t)(j % k()), (uint32_t)(j / k()))); return true; }
    if (op >= OP_REL0) {
      const size_t j = op - OP_REL0; const uint32_t row = j < 6 ? 0 : k() - 1; const int off = model::offset(lg_k, s.m.size());
      int col; switch (j % 6) { case 0: col = off - 1; break; case 1: col = off; break; case 2: col = off + 7; break; case 3: col = off + 8; break; case 4: col = 62; break; default: col = 63; }
      if (col < 0 || col > 63) { s.tag = "disabled"; return false; }
      offer(s, RC(row, (uint32_t)col)); s.tag += std::string("@") + rel_name((int)(j % 6));
      return true;
    }
    switch (op) {
      case OP_DUP: if (!s.has_last) { s.tag = "disabled"; return false; } offer(s, s.last); return true;
      case OP_SERDE_BYTES: { Sk::vector_bytes b = s.sk.serialize(); s.sk = Sk::deserialize(b.data(), b.size()); s.tag = "serde"; return true; }
      case OP_SERDE_STREAM: { std::stringstream ss(std::ios::in | std::ios::out | std::ios::binary); s.sk.serialize(ss); s.sk = Sk::deserialize(ss); s.tag = "serde"; return true; }
      case OP_COPY: { const std::string before = sk_canon(s.sk); Sk t(s.sk); if (c) c->ok("copy-op-canon-equal", sk_canon(t) == before, "copy differs"); s.sk = std::move(t); s.tag = "copy"; return true; }
      case OP_COPY_ASSIGN: { const std::string before = sk_canon(s.sk); Sk t((uint8_t)(lg_k + 3)); t.row_col_update(RC(1, 1)); t = s.sk; if (c) c->ok("copy-assign-op-canon-equal", sk_canon(t) == before, "copy-assigned differs"); s.sk = std::move(t); s.tag = "copy"; return true; }
      case OP_UNION_SPARSE: case OP_UNION_HYBRID_UP: {
        const bool up = op == OP_UNION_HYBRID_UP;
        const std::vector<uint32_t> prs = up ? small_hybrid_up() : small_sparse();
        Sk small((uint8_t)(up ? lg_k + 1 : lg_k)); for (size_t i = 0; i < prs.size(); ++i) small.row_col_update(prs[i]);
        cpc_union u((uint8_t)lg_k); u.update(s.sk); u.update(small);
        s.sk = u.get_result();
        for (size_t i = 0; i < prs.size(); ++i) s.m.insert(RC((prs[i] >> 6) & (k() - 1), prs[i] & 63));
        s.merged = true; s.tag = "union";
        return true;
      }
    }
    return false;
  }
  std::string canon(State& s) { std::string c = sk_canon(s.sk) + "|M" + str((int)s.merged); for (PairSet::const_iterator i = s.m.begin(); i != s.m.end(); ++i) c += str(*i) + ","; return c; }
  void check(State& s, Ctx& c) {
    Expect e; e.lg_k = lg_k; e.C = s.m.size(); e.merged = s.merged ? 1 : 0; e.hip = s.hip;
    check_sketch(s.sk, e, s.m, c, "");
    const uint64_t C = s.m.size();
    c.rep.outcome(std::string(model::FLAVOR_NAME[model::flavor(lg_k, C)]) + "|off" + str(model::offset(lg_k, C)) + (s.merged ? "|merged" : "|hip") + (s.tag.empty() ? "" : "|" + s.tag));
  }
};

// E2 driver on top of mc::Paths: the same enumeration as mc::explore_paths (all paths with <= max_dev inserted deviations),
// with the first deviation dealt round-robin to `nshares` tasks so that one scenario uses all cores.
template<class Sys>
static void explore_paths_shared(Sys& sys, const std::vector<size_t>& def, const std::vector<size_t>& menu, Report& rep, const Config& cfg, const PathLimits& lim, size_t share, size_t nshares) {
  if (!cfg.only.empty() && (sys.name() + "/share" + str(share)).find(cfg.only) == std::string::npos) return;
  if (!cfg.replay_scenario.empty()) { if (share == 0) explore_paths(sys, def, menu, rep, cfg, lim); return; }
  Paths<Sys> p(sys, rep, lim); p.def = def; p.menu = menu;
  const double t0 = now_s(); int completed = -1; bool dl = false;
  std::vector<std::pair<size_t, size_t> > devs;
  if (share == 0) p.run_path(devs);
  completed = 0;
  for (int d = 1; d <= lim.max_dev && !dl; ++d) {
    size_t idx = 0;
    for (size_t pos = 0; pos <= def.size() && !dl; ++pos) for (size_t m = 0; m < menu.size(); ++m) {
      if (idx++ % nshares != share) continue;
      if (rep.past_deadline()) { dl = true; break; }
      devs.clear(); devs.push_back(std::make_pair(pos, menu[m]));
      p.rec(devs, pos, d - 1);
      if (p.deadline_hit) { dl = true; break; }
    }
    if (!dl) completed = d;
  }
  journal_clear();
  rep.states += p.steps; rep.transitions += p.steps; rep.traces += p.paths;
  if (dl) rep.cap("global deadline reached in " + sys.name() + " paths (share " + str(share) + "); deviation bound fully covered: " + str(completed));
  rep.count(sys.name() + " paths", (double)p.paths); rep.count(sys.name() + " steps", (double)p.steps);
  if (share == 0) {
    char b[320]; snprintf(b, sizeof b, "%s paths: default_len=%zu menu=%zu deviations<=%d in %zu shares (path/step totals in extra); share 0: %llu paths %.1fs",
      sys.name().c_str(), def.size(), menu.size(), lim.max_dev, nshares, (unsigned long long)p.paths, now_s() - t0);
    rep.scenarios.push_back(b);
  }
}

// ------------------------------------------------------------------------------------------------ E1: union
struct Operand { int lg_k; int flavor; int content; std::vector<uint32_t> order; PairSet pairs; std::string label; };

static Operand make_operand(int lg_k, int flavor, int content) {
  Operand o; o.lg_k = lg_k; o.flavor = flavor; o.content = content;
  const uint32_t k = 1u << lg_k;
  // coupon counts inside each flavor's range; content b of pinned / sliding is larger (sliding: one more window shift)
  size_t C = 0;
  switch (flavor) {
    case model::EMPTY: C = 0; break;
    case model::SPARSE: C = lg_k == 4 ? 1 : (3 * k / 32) - 1; break;
    case model::HYBRID: C = (3 * k / 32 + k / 2) / 2 + (size_t)content; break;
    case model::PINNED: C = content ? 3 * k : k; break;
    case model::SLIDING: C = 27 * k / 8 + (content ? 2 * k + k / 2 : k + 3); break;
  }
  // every operand carries one signature coupon far to the right of any window (so that unions of different operands stay different) ...
  if (C >= 1) o.order.push_back(RC((uint32_t)((7 * lg_k + 3 * flavor + 11 * content) % k), (uint32_t)(24 + 6 * flavor + 3 * content + (lg_k - 4))));
  if (content == 0) { // ... then a column-major fill with rotated rows and one hole in column 0
    for (size_t j = 0; o.order.size() < C; ++j) if ((int)j != flavor) o.order.push_back(RC((uint32_t)((j + (size_t)flavor + (size_t)lg_k) % k), (uint32_t)(j / k)));
  } else {            // ... or permuted rows starting at column 1 (column 0 stays empty), one hole, two more coupons at columns 40 and 63
    if (C >= 3) { o.order.push_back(RC(k - 1, 63)); o.order.push_back(RC(1, 40)); }
    for (size_t j = 0; o.order.size() < C; ++j) if (j != 2) o.order.push_back(RC((uint32_t)((j * 5 + 3) % k), (uint32_t)(1 + j / k)));
  }
  for (size_t i = 0; i < o.order.size(); ++i) o.pairs.insert(o.order[i]);
  o.label = "k" + str(lg_k) + "." + model::FLAVOR_NAME[flavor] + "." + (content ? "b" : "a");
  return o;
}
static Sk build_operand(const Operand& o) { Sk s((uint8_t)o.lg_k); for (size_t i = 0; i < o.order.size(); ++i) s.row_col_update(o.order[i]); return s; }

struct UnionSys {
  struct State {
    cpc_union u; int m_lg_k; PairSet m; bool any; int updates; std::vector<size_t> pending; std::string tag;
    explicit State(int lg): u((uint8_t)lg), m_lg_k(lg), any(false), updates(0) {}
  };
  int lg_k; int max_updates; std::vector<Operand> ops; std::string nm;   // stated bound: histories of at most max_updates union updates
  std::vector<Sk> built;   // operand sketches, built once by injection; update(&&) gets a copy, update(const&) the original (checked unchanged)
  std::string name() const { return nm; }
  State* make() { return new State(lg_k); }
  size_t nops() const { return 1 + 2 * ops.size(); }
  std::string opname(size_t i) const { if (i == 0) return "get_result"; return std::string((i - 1) & 1 ? "upd&&(" : "upd(") + ops[(i - 1) / 2].label + ")"; }
  // Replays are lazy: apply() only records the operation unless it is the step under test (ctx given); the recorded operations are
  // executed when the state is looked at (canon / check). An operation beyond the scenario's bound is refused without any work.
  bool apply(State& s, size_t op, Ctx* c) {
    if (op == 0) { if (c) { materialize(s, nullptr); Sk r = s.u.get_result(); (void)r; s.tag = "get_result"; } return true; }
    if (s.updates >= max_updates) return false;   // bound of the scenario: not enabled
    s.updates++; s.pending.push_back(op);
    if (c) materialize(s, c);
    return true;
  }
  void materialize(State& s, Ctx* c) {
    std::vector<size_t> todo; todo.swap(s.pending);
    for (size_t i = 0; i < todo.size(); ++i) do_update(s, todo[i], i + 1 == todo.size() ? c : nullptr);
  }
  void do_update(State& s, size_t op, Ctx* c) {
    const Operand& o = ops[(op - 1) / 2]; const bool rv = (op - 1) & 1;
    if (built.empty()) for (size_t i = 0; i < ops.size(); ++i) built.push_back(build_operand(ops[i]));
    const Sk& orig = built[(op - 1) / 2];
    if (rv) { Sk src(orig); s.u.update(std::move(src)); }
    else if (!c) s.u.update(orig);
    else {
      const std::string before = sk_canon(orig);
      s.u.update(orig);
      c->ok("const-operand-unchanged", sk_canon(orig) == before, "update(const&) modified its argument");
    }
    s.tag = std::string(rv ? "rvalue" : "lvalue") + "|" + model::FLAVOR_NAME[o.flavor];
    if (!o.pairs.empty()) {
      if (o.lg_k < s.m_lg_k) { s.m = model::fold(s.m, o.lg_k); s.m_lg_k = o.lg_k; s.tag += "|reduce"; }
      const PairSet f = model::fold(o.pairs, s.m_lg_k); s.m.insert(f.begin(), f.end());
      s.any = true;
    }
  }
  std::string canon(State& s) {
    materialize(s, nullptr);
    std::string c = "U" + str((int)s.u.lg_k) + "|";
    if (s.u.accumulator != nullptr) c += "A:" + sk_canon(*s.u.accumulator);
    c += "|B:"; for (size_t i = 0; i < s.u.bit_matrix.size(); ++i) c += hex64(s.u.bit_matrix[i]);
    c += "|M" + str(s.m_lg_k) + str((int)s.any) + ":"; for (PairSet::const_iterator i = s.m.begin(); i != s.m.end(); ++i) c += str(*i) + ",";
    return c;
  }
  void check(State& s, Ctx& c) {
    materialize(s, nullptr);
    const std::vector<uint64_t> mm = model::matrix(s.m_lg_k, s.m);
    c.eq("union-lg_k==min(union,non-empty-inputs)", (int)s.u.lg_k, s.m_lg_k);
    const bool acc = s.u.accumulator != nullptr, mat = s.u.bit_matrix.size() > 0;
    c.ok("union-has-exactly-one-representation", acc != mat, "accumulator " + str(acc) + " bit matrix " + str(mat));
    // (after reduce_k on an empty accumulator the library keeps a matrix with more rows than 2^lg_k; only the first 2^lg_k are ever read,
    //  and the statement speaks about the result, so only those rows are compared)
    if (mat && c.ok("union-matrix-rows>=2^lg_k", s.u.bit_matrix.size() >= mm.size(), "matrix has " + str(s.u.bit_matrix.size()) + " rows, lg_k " + str(s.m_lg_k)))
      for (size_t r = 0; r < mm.size(); ++r) if (s.u.bit_matrix[r] != mm[r]) { c.fail("union-matrix==OR-of-folded-inputs", "row " + str(r) + " is " + hex64(s.u.bit_matrix[r]) + " expected " + hex64(mm[r])); break; }
    if (!c.fails.empty()) return;
    try {
      Sk r = s.u.get_result();
      Expect e; e.lg_k = s.m_lg_k; e.C = s.m.size(); e.merged = s.any ? 1 : -1; e.hip = 0;
      check_sketch(r, e, s.m, c, "result.");
      Sk r2 = s.u.get_result();
      c.ok("get_result-repeatable", sk_canon(r2) == sk_canon(r), "second get_result differs");
      cpc_union cu(s.u); Sk r3 = cu.get_result();
      c.ok("union-copy-same-result", sk_canon(r3) == sk_canon(r), "result of a copied union differs");
      c.rep.outcome(std::string(acc ? "acc" : "matrix") + "|k" + str(s.m_lg_k) + "|" + model::FLAVOR_NAME[model::flavor(s.m_lg_k, s.m.size())] + "|off" + str(model::offset(s.m_lg_k, s.m.size())) + "|" + s.tag);
    } catch (const std::exception& ex) { c.fail("get_result-exception", ex.what()); }
  }
};

// ------------------------------------------------------------------------------------------------ grids for the hashing step
static uint32_t oracle_coupon(const oracle::H128& h, int lg_k) {
  const uint64_t k = 1ULL << lg_k; int col = 0;
  while (col < 64 && !((h.h2 >> (63 - col)) & 1)) ++col;
  if (col > 63) col = 63;
  uint32_t rc = (uint32_t)(((h.h1 & (k - 1)) << 6) | (uint32_t)col);
  if (rc == UINT32_MAX) rc ^= 64;   // documented dodge of the table's empty marker
  return rc;
}

static void typed_grid_check(Report& rep, const Config& cfg) {
  if (!cfg.replay_scenario.empty() && cfg.replay_scenario != "typed-grid") return;
  if (!cfg.only.empty() && std::string("typed-grid").find(cfg.only) == std::string::npos) return;
  std::vector<tc::Val> g = tc::typed_grid();
  const uint64_t seeds[] = {DEFAULT_SEED, 0, 123456789ULL};
  const int lgks[] = {4, 5, 11, 26};
  std::set<std::string> kinds; size_t n = 0;
  for (size_t li = 0; li < 4; ++li) for (size_t si = 0; si < 3; ++si) for (size_t i = 0; i < g.size(); ++i) {
    const std::string hist = g[i].label + "/seed" + str(seeds[si]) + "/lgk" + str(lgks[li]);
    if (!cfg.replay_history.empty() && cfg.replay_history != hist) continue;
    if (!journal("typed-grid", hist)) continue;
    Ctx c(rep, "typed-grid", hist); int a0 = asan_errors();
    try {
      Sk sk((uint8_t)lgks[li], seeds[si]);
      tc::do_update(sk, g[i]);
      oracle::H128 h; const bool valid = tc::oracle_hash128(g[i], seeds[si], h);
      std::vector<uint32_t> got; const uint32_t* sl = sk.surprising_value_table.get_slots();
      for (size_t j = 0; j < sk.surprising_value_table.slots.size(); ++j) if (sl[j] != UINT32_MAX) got.push_back(sl[j]);
      if (!valid) { c.ok("ignored-input-leaves-empty", sk.is_empty() && got.empty(), "ignored input changed the sketch"); rep.outcome("grid|ignored"); }
      else {
        const uint32_t want = oracle_coupon(h, lgks[li]);
        c.eq("one-coupon", (uint64_t)sk.get_num_coupons(), (uint64_t)1);
        if (c.eq("one-table-entry", got.size(), (size_t)1)) c.ok("coupon==(h1&(k-1),min(clz(h2),63))", got[0] == want, "got " + pair_str(got[0]) + " expected " + pair_str(want));
        if (lgks[li] <= 11) { Sk::vector_u64 m = sk.build_bit_matrix(); c.ok("matrix-bit", m.size() == (1u << lgks[li]) && m[want >> 6] == (1ULL << (want & 63)), "matrix row does not hold exactly the expected bit"); }
        // a second update with the same value is a duplicate
        tc::do_update(sk, g[i]); c.eq("same-input-twice", (uint64_t)sk.get_num_coupons(), (uint64_t)1);
        rep.outcome("grid|col" + str(std::min<int>((int)(want & 63), 6)) + "+");
      }
    } catch (const std::exception& ex) { c.fail("grid-exception", ex.what()); }
    if (asan_errors() != a0) c.fail("asan", "AddressSanitizer report");
    rep.flush_ctx_fails(c.fails, "typed-grid", hist);
    rep.evaluations++; rep.states++; rep.transitions++; rep.traces++; ++n;
    kinds.insert(g[i].label.substr(0, 3));
  }
  journal_clear();
  rep.scenarios.push_back("typed-grid: " + str(n) + " (value,seed,lg_k) cases over " + str(kinds.size()) + " overloads, lg_k {4,5,11,26}");
}

// the pure function from two hash words to a coupon, over a complete grid of boundary words (includes the empty-marker dodge at lg_k 26)
static void rowcol_grid_check(Report& rep, const Config& cfg) {
  if (!cfg.replay_scenario.empty() && cfg.replay_scenario != "rowcol-grid") return;
  if (!cfg.only.empty() && std::string("rowcol-grid").find(cfg.only) == std::string::npos) return;
  std::vector<uint64_t> h0s, h1s;
  const uint64_t base[] = {0, 1, 2, 15, 16, 31, 32, 0x3ffffffULL, 0x4000000ULL, 0x3fffffeULL, 0xffffffffffffffffULL, 0x8000000000000000ULL, 0x123456789abcdef0ULL, 0xfffffffffc000000ULL};
  for (size_t i = 0; i < sizeof(base) / sizeof(base[0]); ++i) h0s.push_back(base[i]);
  h1s.push_back(0);
  for (int b = 0; b < 64; ++b) { h1s.push_back(1ULL << b); h1s.push_back((1ULL << b) | 1); h1s.push_back(((1ULL << b) - 1) | (1ULL << b)); }
  size_t n = 0; bool dodge_seen = false;
  for (int lg = 4; lg <= 26; ++lg) for (size_t i = 0; i < h0s.size(); ++i) for (size_t j = 0; j < h1s.size(); ++j) {
    const std::string hist = hex64(h0s[i]) + "/" + hex64(h1s[j]) + "/lgk" + str(lg);
    if (!cfg.replay_history.empty() && cfg.replay_history != hist) continue;
    oracle::H128 h; h.h1 = h0s[i]; h.h2 = h1s[j];
    const uint32_t want = oracle_coupon(h, lg), got = row_col_from_two_hashes(h0s[i], h1s[j], (uint8_t)lg);
    if (got != want) { Ctx c(rep, "rowcol-grid", hist); c.fail("row_col_from_two_hashes", "got " + pair_str(got) + " expected " + pair_str(want)); rep.flush_ctx_fails(c.fails, "rowcol-grid", hist); }
    if (lg == 26 && (h0s[i] & 0x3ffffffULL) == 0x3ffffffULL && h1s[j] <= 1) { dodge_seen = true; rep.outcome("rowcol|empty-marker-dodged"); }
    rep.evaluations++; ++n;
  }
  rep.outcome("rowcol|plain");
  rep.states += n; rep.transitions += n; rep.traces += n;
  if (!dodge_seen && cfg.replay_history.empty()) { fprintf(stderr, "HARNESS-ERROR rowcol grid does not contain the empty-marker case\n"); exit(3); }
  rep.scenarios.push_back("rowcol-grid: " + str(n) + " (h1,h2,lg_k) cases, lg_k 4..26");
}

// ------------------------------------------------------------------------------------------------ hashed streams through the public API
// One long stream per (lg_k, input type, seed) through the public update overloads: the model derives every coupon with the oracle hash,
// and the whole oracle (including round trips and probes) runs in every new state, i.e. after every novel coupon. These are the column
// distributions the compressor's tables were built for (geometric columns, surprising values on both sides of the window).
static void stream_check(Report& rep, const Config& cfg, int lg_k, int kind, uint64_t seed, uint64_t n) {
  static const char* const KIND[] = {"u64", "str", "f64", "i32"};
  const std::string sc = "stream/lgk" + str(lg_k) + "/" + KIND[kind] + "/seed" + str(seed);
  if (!cfg.replay_scenario.empty() && cfg.replay_scenario != sc) return;
  if (!cfg.only.empty() && sc.find(cfg.only) == std::string::npos) return;
  const double t0 = now_s();
  Sk sk((uint8_t)lg_k, seed); PairSet m; long double kxp = (long double)(1u << lg_k), hip = 0; uint64_t states = 0, i = 0; bool stopped = false;
  for (; i < n && !stopped; ++i) {
    tc::Val v;
    switch (kind) { case 0: v = tc::vu64(i * 0x9e3779b97f4a7c15ULL + 1); break; case 1: v = tc::vstr("item-" + str(i)); break; case 2: v = tc::vf64((double)i * 0.25 - 1000.0); break; default: v = tc::vi32((int32_t)(i * 2654435761u)); }
    const std::string hist = "upd#" + str(i) + "(" + v.label + ")";
    if ((i & 1023) == 0 && !journal(sc, hist)) continue;
    oracle::H128 h; tc::oracle_hash128(v, seed, h);
    const uint32_t pr = oracle_coupon(h, lg_k); const bool novel = !m.count(pr);
    if (novel) { journal(sc, hist); hip += (long double)(1u << lg_k) / kxp; kxp -= model::pow2neg((int)(pr & 63) + 1); m.insert(pr); }
    Ctx c(rep, sc, hist); const int a0 = asan_errors();
    try { tc::do_update(sk, v); } catch (const std::exception& ex) { c.fail("unexpected-exception", std::string("update threw: ") + ex.what()); }
    if (novel && c.fails.empty()) {
      Expect e; e.lg_k = lg_k; e.C = m.size(); e.merged = 0; e.hip = hip;
      check_sketch(sk, e, m, c, "");
      rep.outcome(std::string("stream|") + model::FLAVOR_NAME[model::flavor(lg_k, m.size())] + "|off" + str(model::offset(lg_k, m.size())));
      ++states;
    } else if (sk.get_num_coupons() != m.size()) c.fail("num_coupons==|model|", "got " + str(sk.get_num_coupons()) + " expected " + str(m.size()) + " after a duplicate coupon " + pair_str(pr));
    if (asan_errors() != a0) c.fail("asan", "AddressSanitizer report during this update");
    if (!c.fails.empty()) { rep.flush_ctx_fails(c.fails, sc, hist); stopped = true; }   // later states of a broken sketch add nothing
    if (rep.past_deadline()) { rep.cap("global deadline reached in " + sc + " after " + str(i) + " updates"); break; }
  }
  journal_clear();
  rep.states += states; rep.transitions += i; rep.traces += 1;
  char b[256]; snprintf(b, sizeof b, "%s: %llu updates, %llu distinct coupons (every new state checked), final flavor %s offset %d%s %.1fs", sc.c_str(), (unsigned long long)i, (unsigned long long)m.size(),
    model::FLAVOR_NAME[model::flavor(lg_k, m.size())], model::offset(lg_k, m.size()), stopped ? " STOPPED at first failure" : "", now_s() - t0);
  rep.scenarios.push_back(b);
}

// ------------------------------------------------------------------------------------------------ main
int main(int argc, char** argv) {
  Config cfg = parse_args(argc, argv);
  std::string ht = oracle::self_test();
  if (!ht.empty()) { fprintf(stderr, "HARNESS-ERROR oracle hash self-test failed: %s\n", ht.c_str()); return 3; }
  forbid_unowned_draws();
  case_timeout_s() = 300;   // the journal alarm is re-armed every 64 cases; one E2 path of ~300 fully checked steps takes a noticeable fraction of a second
  cpc_init<std::allocator<uint8_t> >();   // decoding tables are built once, before the task children are forked
  const bool q = cfg.quick();
  // replaying a recorded violation: scenarios of both tiers exist, and an E2 scenario takes the length of its default path from the history
  const bool replaying = !cfg.replay_scenario.empty();
  const size_t replay_len = cfg.replay_history.compare(0, 8, "default[") == 0 ? (size_t)atoll(cfg.replay_history.c_str() + 8) : 0;
  std::vector<Task> tasks;

  { Task t; t.name = "typed-grid"; t.fn = [&cfg, q](Report& rep) {
      typed_grid_check(rep, cfg);
      rep.assumptions.push_back("after hashing, coupons are injected through the private cpc_sketch::row_col_update((row<<6)|col); the hashing step (all update overloads -> MurmurHash3 -> row/col) is decided separately over the typed grid at lg_k 4, 5, 11 and 26 and three seeds");
      rep.assumptions.push_back(std::string("lg_k 4 and 5 for the deviation paths, 4..6 for unions, 4..") + (q ? "8" : "10") + " for the hashed streams: larger lg_k (up to 26) are out of reach of enumeration; the compressor's table-driven code is exercised on the image of every state but only for the column distributions that k <= " + (q ? "256" : "1024") + " produces");
      rep.assumptions.push_back("direct novel-coupon probes are restricted to rows {0,1,k-1} x columns 0..20 plus all rows x columns {offset-1,offset,offset+7,offset+8}; the speed filter first_interesting_column is decided completely against the first column that still has a zero");
      rep.assumptions.push_back("default paths stop at window offset 9 (lg_k 4, 192 coupons) / 2 (lg_k 5, 160 coupons) in the quick tier and 17 (320) / 9 (384) in the thorough tier; offsets up to 56 are not reached");
      rep.sets("rule", std::string("E2: every path with <= 1 inserted deviation (menu of 19: pairs at columns {offset-1,offset,offset+7,offset+8,62,63} x rows {0,k-1}, duplicate, serialize round trip in place (bytes, stream), copy, copy-assign, union with a sparse / a folded hybrid sketch) from column-major and row-major fill paths; E1: BFS over cpc_union update(const&)/update(&&)/get_result on 27 operand sketches (lg_k 4..6 x 5 flavors x 2 contents) for union lg_k 4..6, every history of at most ") + str(q ? 3 : 4) + " updates" + (q ? "" : "; E2 additionally with <= 2 deviations (menu of 5: serialize round trip, union with a sparse sketch, pairs (0,offset-1), (k-1,offset+8), (0,63)) on a 112-step path at lg_k 4") + "; hashed streams: one stream of 30000..400000 typed inputs per (lg_k, input type) through the public update overloads, oracle after every novel coupon. Oracle = set<(row,col)> model evaluated in every state. Distinct = distinct (flavor, offset, merged, last-operation) outcome tag.");
    }; tasks.push_back(t); }

  { Task t; t.name = "rowcol-grid"; t.fn = [&cfg](Report& rep) { rowcol_grid_check(rep, cfg); }; tasks.push_back(t); }

  // hashed streams through the public API
  for (int lg = 4; lg <= (q && !replaying ? 8 : 10); ++lg) for (int kind = 0; kind < 4; ++kind) {
    const uint64_t seed = kind == 1 ? 7 : DEFAULT_SEED;
    const uint64_t n = (q && !replaying ? 60000 : 400000) >> (lg >= 8 ? lg - 7 : 0);   // (a replay runs the longer stream: the shorter one is its prefix)
    Task t; t.name = "stream/lgk" + str(lg) + "/" + str(kind); t.fn = [&cfg, lg, kind, seed, n](Report& rep) { stream_check(rep, cfg, lg, kind, seed, n); };
    if (!replaying && lg >= (q ? 6 : 9) && kind >= 2) continue;   // the larger sizes run two of the four input types
    tasks.push_back(t);
  }

  // E1: union
  {
    std::vector<Operand> all;
    for (int lg = 4; lg <= 6; ++lg) { all.push_back(make_operand(lg, model::EMPTY, 0)); for (int fl = model::SPARSE; fl <= model::SLIDING; ++fl) for (int ct = 0; ct < 2; ++ct) all.push_back(make_operand(lg, fl, ct)); }
    for (size_t i = 0; i < all.size(); ++i) { // harness sanity: every operand has the flavor its label says
      Sk s = build_operand(all[i]);
      if ((int)s.determine_flavor() != all[i].flavor || s.get_num_coupons() != all[i].pairs.size()) { fprintf(stderr, "HARNESS-ERROR operand %s has flavor %d C %u (wanted %zu)\n", all[i].label.c_str(), (int)s.determine_flavor(), s.get_num_coupons(), all[i].pairs.size()); return 3; }
    }
    for (int ulg = 4; ulg <= 6; ++ulg) for (int mu = 3; mu <= 4; ++mu) {
      if (!replaying && mu != (q ? 3 : 4)) continue;
      UnionSys sys; sys.lg_k = ulg; sys.ops = all; sys.max_updates = mu; sys.nm = "union/lgk" + str(ulg) + "/upto" + str(sys.max_updates) + "updates";
      BfsLimits lim; lim.max_depth = 100; lim.max_states = 2000000;
      Task t; t.name = sys.nm; t.fn = [sys, lim, &cfg](Report& rep) mutable { explore(sys, rep, cfg, lim); };
      tasks.push_back(t);
    }
  }

  // E2: single sketch
  for (int pass = 0; pass < 2; ++pass) for (int lg = 4; lg <= 5; ++lg) for (int order = 0; order < 2; ++order) {
    CpcSys sys; sys.lg_k = lg;
    sys.ncols = lg == 4 ? (q ? 12 : 20) : (q ? 5 : 12);
    sys.nm = std::string("e2/lgk") + str(lg) + (order ? "/rowmajor" : "/colmajor");
    const uint32_t k = 1u << lg;
    if (replaying && replay_len >= k && replay_len % k == 0 && replay_len / k <= 56) sys.ncols = (int)(replay_len / k);
    std::vector<size_t> def, menu;
    if (order == 0) { for (int c = 0; c < sys.ncols; ++c) for (uint32_t r = 0; r < k; ++r) def.push_back(sys.fixed_op(r, (uint32_t)c)); }
    else { for (uint32_t r = 0; r < k; ++r) for (int c = 0; c < sys.ncols; ++c) def.push_back(sys.fixed_op(r, (uint32_t)c)); }
    for (size_t m = 0; m < CpcSys::OP_FIXED0; ++m) menu.push_back(m);
    PathLimits pl; pl.max_dev = 1; pl.check_stride = 1;
    const size_t nshares = q ? 6 : 8;
    for (size_t sh = 0; sh < nshares && pass == 0; ++sh) {
      Task t; t.name = sys.nm + "/share" + str(sh);
      t.fn = [sys, def, menu, pl, sh, nshares, &cfg](Report& rep) mutable { explore_paths_shared(sys, def, menu, rep, cfg, pl, sh, nshares); };
      tasks.push_back(t);
    }
    if (pass == 1 && (!q || replaying) && lg == 4) { // thorough: two deviations on a shorter path (through sparse, hybrid, pinned, sliding and four window shifts) with a reduced menu
      CpcSys s2 = sys; s2.ncols = 7; s2.nm = sys.nm + "/2dev";
      std::vector<size_t> def2, menu2;
      if (order == 0) { for (int c = 0; c < s2.ncols; ++c) for (uint32_t r = 0; r < k; ++r) def2.push_back(s2.fixed_op(r, (uint32_t)c)); }
      else { for (uint32_t r = 0; r < k; ++r) for (int c = 0; c < s2.ncols; ++c) def2.push_back(s2.fixed_op(r, (uint32_t)c)); }
      menu2.push_back(CpcSys::OP_SERDE_BYTES); menu2.push_back(CpcSys::OP_UNION_SPARSE); menu2.push_back(CpcSys::OP_REL0 + 0); menu2.push_back(CpcSys::OP_REL0 + 6 + 3); menu2.push_back(CpcSys::OP_REL0 + 5);
      PathLimits p2; p2.max_dev = 2; p2.check_stride = 1;
      const size_t ns2 = 16;
      for (size_t sh = 0; sh < ns2; ++sh) {
        Task t; t.name = s2.nm + "/share" + str(sh);
        t.fn = [s2, def2, menu2, p2, sh, ns2, &cfg](Report& rep) mutable { explore_paths_shared(s2, def2, menu2, rep, cfg, p2, sh, ns2); };
        tasks.push_back(t);
      }
    }
  }
  return run_tasks(cfg, "C05", tasks);
}
