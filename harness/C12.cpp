// C12: frequent-items sketch -- bounds always bracket the true frequency.
// E1: BFS over update(item,w) / merge(menu operand; lvalue and rvalue; both directions) / serialize round trip on the
// product (frequent_items_sketch x exact map<item,weight> model). T = int with a harness hasher that inverts fmix64 so
// that every item's home slot is chosen (distinct homes; a cluster wrapping the end of the table; everything colliding),
// and T = std::string with the default hasher. lg_max_map_size 3, 4 (operands also 5); empty and seeded starts.
//
// Oracle (from the property statement and the class documentation, not from the implementation), evaluated in every
// state for EVERY item of the universe, tracked or not:
//   lb <= true <= ub, lb <= est <= ub, ub - lb == get_maximum_error(), get_total_weight() == exact sum,
//   NO_FALSE_POSITIVES(t) is a subset of {true > t} for every threshold; NO_FALSE_NEGATIVES(t) is a superset of
//   {true > t} for every threshold t >= get_maximum_error() (and for the default threshold); rows in descending
//   estimate order and consistent with the per-item getters; max_error <= epsilon * total weight;
//   num_active <= 0.75 * 2^lg_max.
// A state that breaks total weight or a bracket is terminal (no successors), so a defect is reported where it first
// appears and does not cascade. Check ids carry the operation that led to the state ("...@mergeL(allpurged)").
#define MC_MAIN
#include "core.hpp"
#include "choice.hpp"
#include "bfs.hpp"
#include <frequent_items_sketch.hpp>
#include <map>
#include <set>
#include <sstream>

using namespace mc;
using namespace datasketches;

// ---- independent fmix64 (MurmurHash3 finalizer, public reference) and its inverse ----------------------------------
static uint64_t ref_fmix64(uint64_t k) {
  k ^= k >> 33; k *= 0xff51afd7ed558ccdULL; k ^= k >> 33; k *= 0xc4ceb9fe1a85ec53ULL; k ^= k >> 33; return k;
}
static uint64_t inv_odd(uint64_t a) { uint64_t x = a; for (int i = 0; i < 7; ++i) x *= 2 - a * x; return x; } // Newton, mod 2^64
static uint64_t ref_unfmix64(uint64_t k) {
  k ^= k >> 33; k *= inv_odd(0xc4ceb9fe1a85ec53ULL); k ^= k >> 33; k *= inv_odd(0xff51afd7ed558ccdULL); k ^= k >> 33; return k;
}

// harness hasher: H is default-constructed by the map on every call, so the table is a plain global (one scenario per
// forked task). g_pre[i] = unfmix64(target_i): the map computes fmix64(H()(i)) & mask == target_i & mask.
static const int UNIVERSE = 16;
static uint64_t g_pre[UNIVERSE];
struct InvHash { size_t operator()(int k) const { return (size_t)g_pre[k]; } };

struct Recipe { std::string label; int lg_max, lg_start; std::vector<std::pair<int, uint64_t> > ups; };
struct Scenario {
  std::string name; int lg_max, lg_start;
  std::vector<std::pair<int, uint64_t> > prefix;   // seeded start: applied (sketch and model) in make()
  std::vector<std::pair<int, uint64_t> > upd;      // update alphabet
  std::vector<Recipe> menu;                        // merge operands
  unsigned dirs;                                   // bit d set: direction d of {mergeL, mergeR, intoL, intoR} is in the alphabet
  int depth;
  Scenario(): lg_max(3), lg_start(3), dirs(15), depth(1) {}
};

struct Model {   // exact counts; plain arrays (a state is rebuilt ~10^7 times, no allocation here)
  uint64_t truth[UNIVERSE]; uint64_t total; int min_lg; int lg_max;   // min_lg: smallest lg_max_map_size that contributed; lg_max: the configured size of this object
  Model(): total(0), min_lg(99), lg_max(0) { for (int i = 0; i < UNIVERSE; ++i) truth[i] = 0; }
  void add(int item, uint64_t w) { truth[item] += w; total += w; }
  void absorb(const Model& o) { for (int i = 0; i < UNIVERSE; ++i) truth[i] += o.truth[i]; total += o.total; min_lg = std::min(min_lg, o.min_lg); }   // lg_max stays: a merge does not reconfigure its target
  uint64_t of(int item) const { return truth[item]; }
};

// ---- fractional weights: W = double, weights are multiples of 1/4 (every sum and difference is exact in a double, so the exact
// model stays an integer count of quarters). The purge then removes a median with a fractional part, and what the sketch adds to its
// offset must be that same amount: the bracket lb <= true <= ub is the oracle, as for the integral weights.
struct FiDblSys {
  typedef frequent_items_sketch<int, double> Sk;
  struct State { std::unique_ptr<Sk> sk; uint64_t truth[UNIVERSE]; uint64_t total; bool terminal; const char* last; State(): total(0), terminal(false), last("init") { for (int i = 0; i < UNIVERSE; ++i) truth[i] = 0; } };
  struct Op { int item; int q; bool self; std::string name; };
  std::string nm; std::vector<std::pair<int, int> > prefix; std::vector<Op> ops; int lg_max;
  FiDblSys(const std::string& n, int lg, const std::vector<std::pair<int, int> >& pre, const std::vector<int>& items, const std::vector<int>& quarters): nm(n), prefix(pre), lg_max(lg) {
    for (size_t i = 0; i < items.size(); ++i) for (size_t j = 0; j < quarters.size(); ++j) { Op o; o.item = items[i]; o.q = quarters[j]; o.self = false; o.name = "upd(" + str(o.item) + "," + str(o.q) + "/4)"; ops.push_back(o); }
    { Op o; o.item = -1; o.q = 0; o.self = true; o.name = "merge(copy)"; ops.push_back(o); }
  }
  std::string name() const { return nm; }
  size_t nops() const { return ops.size(); }
  std::string opname(size_t i) const { return ops[i].name; }
  State* make() {
    State* s = new State(); s->sk.reset(new Sk((uint8_t)lg_max, (uint8_t)3));
    for (size_t i = 0; i < prefix.size(); ++i) { s->sk->update(prefix[i].first, prefix[i].second / 4.0); s->truth[prefix[i].first] += (uint64_t)prefix[i].second; s->total += (uint64_t)prefix[i].second; }
    s->terminal = broken(*s); return s;
  }
  bool broken(const State& s) const {
    if (s.sk->get_total_weight() * 4 != (double)s.total) return true;
    for (int x = 0; x < UNIVERSE; ++x) { const double t = (double)s.truth[x] / 4.0; if (!(s.sk->get_lower_bound(x) <= t && t <= s.sk->get_upper_bound(x))) return true; }
    return false;
  }
  bool apply(State& s, size_t opi, Ctx*) {
    if (s.terminal) return false;
    const Op& o = ops[opi];
    if (o.self) { const Sk copy(*s.sk); s.sk->merge(copy); for (int x = 0; x < UNIVERSE; ++x) s.truth[x] *= 2; s.total *= 2; s.last = "merge(copy)"; }
    else { s.sk->update(o.item, o.q / 4.0); s.truth[o.item] += (uint64_t)o.q; s.total += (uint64_t)o.q; s.last = "update"; }
    s.terminal = broken(s);
    return true;
  }
  std::string canon(State& s) {
    const Sk& k = *s.sk; char b[64]; std::string c;
    snprintf(b, sizeof b, "%a,%a,%u|", k.get_total_weight(), k.get_maximum_error(), (unsigned)k.get_num_active_items()); c += b;
    for (int x = 0; x < UNIVERSE; ++x) { snprintf(b, sizeof b, "%a:%llu,", k.get_lower_bound(x), (unsigned long long)s.truth[x]); c += b; }
    return c;
  }
  void check(State& s, Ctx& c) {
    const Sk& k = *s.sk; const std::string at = std::string("@") + s.last;
    const double maxerr = k.get_maximum_error();
    if (k.get_total_weight() * 4 != (double)s.total) c.fail("total-weight-exact" + at, "get_total_weight " + str(k.get_total_weight()) + " exact sum " + str((double)s.total / 4));
    double dropped = 0;
    for (int x = 0; x < UNIVERSE; ++x) {
      const double t = (double)s.truth[x] / 4.0, lb = k.get_lower_bound(x), ub = k.get_upper_bound(x), est = k.get_estimate(x);
      const std::string who = "item " + str(x) + " true " + str(t) + " lb " + str(lb) + " est " + str(est) + " ub " + str(ub) + " max_error " + str(maxerr);
      if (!(lb <= t)) c.fail("lb<=true" + at, who);
      if (!(t <= ub)) c.fail("true<=ub" + at, who);
      if (!(lb <= est && est <= ub)) c.fail("lb<=est<=ub" + at, who);
      if (!(ub - lb == maxerr)) c.fail("ub-lb==max_error" + at, who);
      dropped += t - lb;
    }
    if (!(k.get_num_active_items() <= (3u << lg_max) / 4)) c.fail("num_active<=capacity" + at, "num_active " + str(k.get_num_active_items()));
    if (!(maxerr <= k.get_epsilon() * k.get_total_weight())) c.fail("max_error<=epsilon*total" + at, "max_error " + str(maxerr) + " total " + str(k.get_total_weight()));
    // NO_FALSE_NEGATIVES at the sketch's own threshold: every item whose true weight exceeds the maximum error is returned
    Sk::vector_row rows = k.get_frequent_items(NO_FALSE_NEGATIVES);
    unsigned present = 0; for (size_t r = 0; r < rows.size(); ++r) if (rows[r].get_item() >= 0 && rows[r].get_item() < UNIVERSE) present |= 1u << rows[r].get_item();
    for (int x = 0; x < UNIVERSE; ++x) if ((double)s.truth[x] / 4.0 > maxerr && !(present >> x & 1)) c.fail("nfn-superset-of-true>t" + at, "item " + str(x) + " with true weight " + str((double)s.truth[x] / 4.0) + " missing (max error " + str(maxerr) + ")");
    Sk::vector_row rows2 = k.get_frequent_items(NO_FALSE_POSITIVES);
    for (size_t r = 0; r < rows2.size(); ++r) { const int x = rows2[r].get_item(); if (x < 0 || x >= UNIVERSE || !((double)s.truth[x] / 4.0 > maxerr)) c.fail("nfp-subset-of-true>t" + at, "item " + str(x) + " returned"); }
    (void)dropped;
  }
};

template<class T, class H>
struct FiSys {
  typedef frequent_items_sketch<T, uint64_t, H> Sk;
  struct State { std::unique_ptr<Sk> sk; Model m; bool terminal, leaf; const char* last; const char* note; State(): terminal(false), leaf(false), last("init"), note("") {} };
  enum Kind { UPD, UPD_RV, RT_BYTES, RT_STREAM, MERGE_L, MERGE_R, INTO_L, INTO_R, SELF };
  struct Op { Kind kind; int item; uint64_t w; int operand; std::string name, cls; };

  Scenario sc; std::vector<T> uni; std::vector<Op> ops;

  FiSys(const Scenario& s, const std::vector<T>& universe): sc(s), uni(universe) {
    for (size_t i = 0; i < sc.upd.size(); ++i) {
      Op o; o.item = sc.upd[i].first; o.w = sc.upd[i].second; o.operand = -1;
      o.kind = (o.w == 2) ? UPD_RV : UPD;                      // weight 2 goes through update(T&&, W)
      o.name = "upd(" + str(o.item) + "," + str(o.w) + ")"; o.cls = o.w == 0 ? "update0" : o.kind == UPD_RV ? "update-rvalue" : "update";
      ops.push_back(o);
    }
    { Op o; o.item = -1; o.w = 0; o.operand = -1; o.kind = RT_BYTES; o.name = o.cls = "rt-bytes"; ops.push_back(o); o.kind = RT_STREAM; o.name = o.cls = "rt-stream"; ops.push_back(o);
      o.kind = SELF; o.name = o.cls = "merge(self)"; ops.push_back(o); }   // a.merge(a): every weight doubles, exactly as merging a copy
    const char* dn[] = {"mergeL", "mergeR", "intoL", "intoR"};
    for (size_t j = 0; j < sc.menu.size(); ++j) for (int d = 0; d < 4; ++d) {
      if (!(sc.dirs >> d & 1)) continue;
      Op o; o.item = -1; o.w = 0; o.operand = (int)j; o.kind = (Kind)(MERGE_L + d);
      o.name = std::string(dn[d]) + "(" + sc.menu[j].label + ")"; o.cls = dn[d]; ops.push_back(o);
    }
  }

  static int clamp_lg(int lg) { return std::max(lg, 3); }
  void build(const Recipe& r, std::unique_ptr<Sk>& sk, Model& m) const {
    sk.reset(new Sk((uint8_t)r.lg_max, (uint8_t)r.lg_start)); m = Model(); m.min_lg = clamp_lg(r.lg_max); m.lg_max = clamp_lg(r.lg_max);
    for (size_t i = 0; i < r.ups.size(); ++i) { sk->update(uni[r.ups[i].first], r.ups[i].second); m.add(r.ups[i].first, r.ups[i].second); }
  }

  std::string name() const { return sc.name; }
  size_t nops() const { return ops.size(); }
  std::string opname(size_t i) const { return ops[i].name; }

  State* make() {
    State* s = new State();
    s->sk.reset(new Sk((uint8_t)sc.lg_max, (uint8_t)sc.lg_start)); s->m.min_lg = clamp_lg(sc.lg_max); s->m.lg_max = clamp_lg(sc.lg_max);
    for (size_t i = 0; i < sc.prefix.size(); ++i) { s->sk->update(uni[sc.prefix[i].first], sc.prefix[i].second); s->m.add(sc.prefix[i].first, sc.prefix[i].second); }
    s->terminal = broken(*s);
    return s;
  }

  // total weight or a bracket broken: the state is reported by check() and gets no successors
  bool broken(const State& s) const {
    if (s.sk->get_total_weight() != s.m.total) return true;
    for (size_t x = 0; x < uni.size(); ++x) {
      const uint64_t t = s.m.of((int)x);
      if (!(s.sk->get_lower_bound(uni[x]) <= t && t <= s.sk->get_upper_bound(uni[x]))) return true;
    }
    return false;
  }

  // The source of a merge / round trip that carries weight but has no counter left (observable through the public API) is
  // named in the check id, so that a finding under that condition and a finding elsewhere never share a violation class.
  static const char* no_counters(const Sk& src) { return (src.get_num_active_items() == 0 && src.get_total_weight() > 0) ? "[source-has-weight-but-no-counters]" : ""; }

  bool apply(State& s, size_t opi, Ctx*) {
    if (s.terminal || s.leaf) return false;
    const Op& o = ops[opi];
    const char* note = "";
    switch (o.kind) {
      case UPD: s.sk->update(uni[o.item], o.w); s.m.add(o.item, o.w); break;
      case UPD_RV: { T tmp(uni[o.item]); s.sk->update(std::move(tmp), o.w); s.m.add(o.item, o.w); break; }
      case RT_BYTES: {
        note = no_counters(*s.sk);
        typename Sk::vector_bytes b = s.sk->serialize();
        s.sk.reset(new Sk(Sk::deserialize(b.data(), b.size())));
        break;
      }
      case RT_STREAM: {
        note = no_counters(*s.sk);
        std::stringstream ss(std::ios::in | std::ios::out | std::ios::binary);
        s.sk->serialize(ss);
        s.sk.reset(new Sk(Sk::deserialize(ss)));
        break;
      }
      case SELF: { note = no_counters(*s.sk); const Sk& self = *s.sk; s.sk->merge(self); Model copy = s.m; s.m.absorb(copy); s.last = o.cls.c_str(); s.note = note; s.leaf = true; s.terminal = broken(s); return true; }   // checked, not expanded (doubled weights would only multiply the state space)
      case MERGE_L: { std::unique_ptr<Sk> b; Model bm; build(sc.menu[o.operand], b, bm); note = no_counters(*b); const Sk& cb = *b; s.sk->merge(cb); s.m.absorb(bm); break; }
      case MERGE_R: { std::unique_ptr<Sk> b; Model bm; build(sc.menu[o.operand], b, bm); note = no_counters(*b); s.sk->merge(std::move(*b)); s.m.absorb(bm); break; }
      case INTO_L: { std::unique_ptr<Sk> b; Model bm; build(sc.menu[o.operand], b, bm); note = no_counters(*s.sk); const Sk& ca = *s.sk; b->merge(ca); bm.absorb(s.m); s.sk.swap(b); s.m = bm; break; }
      case INTO_R: { std::unique_ptr<Sk> b; Model bm; build(sc.menu[o.operand], b, bm); note = no_counters(*s.sk); b->merge(std::move(*s.sk)); bm.absorb(s.m); s.sk.swap(b); s.m = bm; break; }
    }
    s.last = o.cls.c_str(); s.note = note;
    s.terminal = broken(s);
    return true;
  }

  // canon is built ~10^7 times: plain digit appends, no streams
  static void num(std::string& c, uint64_t v) { char b[24]; int n = 0; do { b[n++] = (char)('0' + v % 10); v /= 10; } while (v); while (n) c += b[--n]; }
  static void put_key(std::string& c, int k) { num(c, (uint64_t)k); }
  static void put_key(std::string& c, const std::string& k) { num(c, k.size()); c += ':'; c += k; }

  std::string canon(State& s) {
    const Sk& k = *s.sk; std::string c; c.reserve(256);
    num(c, k.map.lg_cur_size_); c += '/'; num(c, k.map.lg_max_size_); c += 'n'; num(c, k.map.num_active_); c += 'o'; num(c, k.offset); c += 'w'; num(c, k.total_weight); c += '[';
    const uint32_t size = 1u << k.map.lg_cur_size_;
    for (uint32_t i = 0; i < size; ++i) {
      if (k.map.states_[i] > 0) { num(c, k.map.states_[i]); c += '~'; put_key(c, k.map.keys_[i]); c += '='; num(c, k.map.values_[i]); }
      c += ',';
    }
    c += "]M";
    for (int i = 0; i < UNIVERSE; ++i) { if (s.m.truth[i]) num(c, s.m.truth[i]); c += ','; }
    c += 'W'; num(c, s.m.total); c += 'g'; num(c, (uint64_t)s.m.min_lg); c += 'G'; num(c, (uint64_t)s.m.lg_max);
    return c;
  }

  int index_of(const T& item) const { for (size_t i = 0; i < uni.size(); ++i) if (uni[i] == item) return (int)i; return -1; }

  // rows of one get_frequent_items call against the model (messages are built only on failure: this runs ~10^7 times)
  void check_rows(const typename Sk::vector_row& rows, bool nfn, uint64_t t, bool demand_all, const Sk& k, const Model& m,
                  const std::vector<uint64_t>& lb, Ctx& c, const std::string& at, const char* which, uint64_t& untracked_misses) {
    uint32_t present = 0;
    #define ROWFAIL(id, text) c.fail(std::string(id) + at, std::string(which) + " t=" + str(t) + ": " + text)
    for (size_t r = 0; r < rows.size(); ++r) {
      const int x = index_of(rows[r].get_item());
      if (x < 0) { ROWFAIL("row-item-was-offered", "a returned item was never offered"); continue; }
      if (present >> x & 1) ROWFAIL("row-item-once", "item " + str(x) + " returned twice");
      present |= 1u << x;
      if (rows[r].get_lower_bound() != k.get_lower_bound(uni[x])) ROWFAIL("row-lb==get_lower_bound", "item " + str(x) + " row lb " + str(rows[r].get_lower_bound()) + " getter " + str(k.get_lower_bound(uni[x])));
      if (rows[r].get_upper_bound() != k.get_upper_bound(uni[x])) ROWFAIL("row-ub==get_upper_bound", "item " + str(x) + " row ub " + str(rows[r].get_upper_bound()) + " getter " + str(k.get_upper_bound(uni[x])));
      if (rows[r].get_estimate() != k.get_estimate(uni[x])) ROWFAIL("row-est==get_estimate", "item " + str(x) + " row est " + str(rows[r].get_estimate()) + " getter " + str(k.get_estimate(uni[x])));
      if (r > 0 && !(rows[r - 1].get_estimate() >= rows[r].get_estimate())) ROWFAIL("rows-descending-estimate", "row " + str(r) + " estimate " + str(rows[r].get_estimate()) + " after " + str(rows[r - 1].get_estimate()));
      if (!nfn && !(m.of(x) > t)) ROWFAIL("nfp-subset-of-true>t", "item " + str(x) + " returned with true weight " + str(m.of(x)));
    }
    if (nfn) for (size_t x = 0; x < uni.size(); ++x) if (m.of((int)x) > t && !(present >> x & 1)) {
      // Below the maximum error an item without a counter cannot be known to any counter-based summary (its true weight is
      // <= max error by the bracket); the guarantee is demanded for tracked items there and for every item from max error up.
      if (demand_all || lb[x] > 0) ROWFAIL("nfn-superset-of-true>t", "item " + str(x) + " with true weight " + str(m.of((int)x)) + " missing (max error " + str(k.get_maximum_error()) + ")");
      else untracked_misses++;
    }
    #undef ROWFAIL
  }

  void check(State& s, Ctx& c) {
    const Sk& k = *s.sk; const Model& m = s.m;
    const std::string at = std::string("@") + s.last + s.note;
    const uint64_t maxerr = k.get_maximum_error();
    const uint64_t total = k.get_total_weight();
    if (total != m.total) c.fail("total-weight-exact" + at, "get_total_weight " + str(total) + " exact sum " + str(m.total));
    std::vector<uint64_t> lb(uni.size()), ub(uni.size());
    // thresholds: one per interval between consecutive breakpoints of {true, lb, ub, max_error}; "v > t" is constant for
    // t in [p_i, p_(i+1) - 1], so {0} plus every breakpoint represents every threshold
    std::vector<uint64_t> thr; thr.push_back(0); thr.push_back(maxerr);
    unsigned untracked_seen = 0;
    for (size_t x = 0; x < uni.size(); ++x) {
      const uint64_t t = m.of((int)x);
      lb[x] = k.get_lower_bound(uni[x]); ub[x] = k.get_upper_bound(uni[x]);
      const uint64_t est = k.get_estimate(uni[x]);
      #define WHO ("item " + str(x) + ": lb " + str(lb[x]) + " est " + str(est) + " ub " + str(ub[x]) + " true " + str(t) + " max_error " + str(maxerr))
      if (!(lb[x] <= t)) c.fail("lb<=true" + at, WHO);
      if (!(t <= ub[x])) c.fail("true<=ub" + at, WHO);
      if (!(lb[x] <= est && est <= ub[x])) c.fail("lb<=est<=ub" + at, WHO);
      if (!(ub[x] >= lb[x] && ub[x] - lb[x] == maxerr)) c.fail("ub-lb==max_error" + at, WHO);
      #undef WHO
      if (lb[x] == 0 && t > 0) untracked_seen++;
      thr.push_back(t); thr.push_back(lb[x]); thr.push_back(ub[x]);
    }
    std::sort(thr.begin(), thr.end()); thr.erase(std::unique(thr.begin(), thr.end()), thr.end());
    // size
    const uint32_t nact = k.get_num_active_items();
    // the configured maximum map size of this object (it must survive round trips and merges), not whatever the sketch holds now
    const int lgmax = m.lg_max;
    if ((int)k.map.lg_max_size_ != lgmax) c.fail("lg_max_map_size-as-configured" + at, "the sketch holds lg_max_map_size " + str((int)k.map.lg_max_size_) + ", configured " + str(lgmax));
    if (!(nact <= (3u << lgmax) / 4)) c.fail("num_active<=capacity" + at, "num_active " + str(nact) + " lg_max " + str(lgmax));
    // published error
    if (!(k.get_epsilon() == 3.5 / (double)(1u << lgmax) && Sk::get_epsilon((uint8_t)lgmax) == k.get_epsilon())) c.fail("epsilon==3.5/2^lg_max" + at, "get_epsilon " + str(k.get_epsilon()));
    const double eps = 3.5 / (double)(1u << m.min_lg);   // == get_epsilon() unless a sketch with a smaller map was merged in
    if (!((double)maxerr <= eps * (double)m.total)) c.fail("max_error<=epsilon*total" + at, "max_error " + str(maxerr) + " epsilon " + str(eps) + " total " + str(m.total));
    // result sets (in a state whose bracket or total is already broken they only repeat that finding)
    if (!s.terminal) {
      uint64_t misses = 0;
      for (size_t i = 0; i < thr.size(); ++i) {
        check_rows(k.get_frequent_items(NO_FALSE_NEGATIVES, thr[i]), true, thr[i], thr[i] >= maxerr, k, m, lb, c, at, "NFN", misses);
        check_rows(k.get_frequent_items(NO_FALSE_POSITIVES, thr[i]), false, thr[i], true, k, m, lb, c, at, "NFP", misses);
      }
      check_rows(k.get_frequent_items(NO_FALSE_NEGATIVES), true, maxerr, true, k, m, lb, c, at, "NFN-default", misses);
      check_rows(k.get_frequent_items(NO_FALSE_POSITIVES), false, maxerr, true, k, m, lb, c, at, "NFP-default", misses);
      c.rep.evaluations += 2 * thr.size() + 2;
      if (misses) c.rep.count("states_where_NFN_below_max_error_omits_an_untracked_item");
    }
    bool wrapped = false;   // an entry that sits below its home slot: its probe sequence ran over the end of the table
    for (uint32_t i = 0; i < (1u << k.map.lg_cur_size_); ++i) if (k.map.states_[i] > i + 1) wrapped = true;
    c.rep.outcome("lg" + str((int)k.map.lg_cur_size_) + "/" + str(lgmax) + "|act" + str(nact) + (maxerr ? "|off+" : "|off0") + (untracked_seen ? "|forgotten+" : "|forgotten0") + (m.min_lg < lgmax ? "|smaller-merged" : "") + (wrapped ? "|wrapped" : "") + (s.terminal ? "|BROKEN" : ""));
  }
};

// ---- scenarios -----------------------------------------------------------------------------------------------------
typedef std::vector<std::pair<int, uint64_t> > Ups;
static Ups ups(const char* s) { // "item:w item:w ..."
  Ups v; std::istringstream in(s); std::string tok;
  while (in >> tok) { size_t c = tok.find(':'); v.push_back(std::make_pair(atoi(tok.substr(0, c).c_str()), (uint64_t)strtoull(tok.c_str() + c + 1, nullptr, 10))); }
  return v;
}
static Recipe recipe(const char* label, int lg_max, int lg_start, const char* u) { Recipe r; r.label = label; r.lg_max = lg_max; r.lg_start = lg_start; r.ups = ups(u); return r; }

static std::vector<Recipe> full_menu() {
  std::vector<Recipe> m;
  m.push_back(recipe("empty", 3, 3, ""));
  m.push_back(recipe("one", 3, 3, "0:3"));
  m.push_back(recipe("few", 3, 3, "0:1 1:2 2:5 9:4"));                                  // under capacity, shares items
  m.push_back(recipe("allpurged", 3, 3, "1:1 3:1 5:1 8:1 9:1 10:1 11:1"));              // offset 1, no counter left
  m.push_back(recipe("purged", 3, 3, "0:5 1:5 2:2 3:2 8:1 9:1 10:1"));                  // median 2: two survivors, offset 2
  m.push_back(recipe("full", 3, 3, "0:2 3:1 4:3 8:1 9:2 10:7"));                        // at capacity, not purged yet
  m.push_back(recipe("disjoint", 3, 3, "12:2 13:1 14:4 15:1"));                         // shares nothing with the update alphabet
  m.push_back(recipe("big4", 4, 3, "0:4 1:1 2:1 5:2 6:1 8:3 9:1 12:1 13:6"));           // grown to 16 slots, under capacity
  m.push_back(recipe("big4purged", 4, 4, "0:9 1:1 2:1 3:1 4:1 5:1 6:3 7:3 8:2 9:2 10:5 11:1 12:1")); // 13th item purges, offset 1
  m.push_back(recipe("allpurged5", 3, 3, "8:5 9:5 10:5 11:5 12:1 13:1 14:1"));          // offset 5, no counter left
  m.push_back(recipe("big5", 5, 5, "0:1 1:7 2:1 3:2 4:1 5:1 6:4 7:1 8:1 9:2 10:1 11:1 12:3 13:1"));  // 14 items in 32 slots
  return m;
}
static std::vector<Recipe> pick(const std::vector<Recipe>& all, const char* labels) {
  std::vector<Recipe> m; std::istringstream in(labels); std::string l;
  while (in >> l) { bool f = false; for (size_t i = 0; i < all.size(); ++i) if (all[i].label == l) { m.push_back(all[i]); f = true; } if (!f) { fprintf(stderr, "HARNESS-ERROR no recipe %s\n", l.c_str()); exit(3); } }
  return m;
}

struct Layout { const char* name; uint64_t target[UNIVERSE]; };
static const Layout LAYOUTS[] = {
  // home slot = target & (size-1). distinct: items 0..7 have distinct homes in 8 slots, 0..15 in 16 slots
  {"distinct", {0, 1, 2, 3, 4, 5, 6, 7, 8, 9, 10, 11, 12, 13, 14, 15}},
  // wrap: homes 13..15 and 0 (5..7 and 0 in 8 slots): clusters run over the end of the table
  {"wrap", {14, 15, 31, 30, 47, 16, 46, 13, 63, 62, 32, 1, 79, 29, 78, 95}},
  // collide: every item has home 2
  {"collide", {2, 18, 34, 50, 66, 82, 98, 114, 130, 146, 162, 178, 194, 210, 226, 242}},
  // collide-end: every item has the last slot as home, so every probe sequence wraps
  {"collide-end", {15, 31, 47, 63, 79, 95, 111, 127, 143, 159, 175, 191, 207, 223, 239, 255}},
};

static void install_layout(const Layout& l) {
  for (int i = 0; i < UNIVERSE; ++i) {
    g_pre[i] = ref_unfmix64(l.target[i]);
    // seam conformance: the library's own finalizer must map the pre-image to the target (else the harness is broken)
    if (::fmix64(InvHash()(i)) != l.target[i] || ref_fmix64(g_pre[i]) != l.target[i]) { fprintf(stderr, "HARNESS-ERROR fmix64 inversion failed for item %d\n", i); exit(3); }
  }
}

int main(int argc, char** argv) {
  Config cfg = parse_args(argc, argv);
  for (uint64_t x = 0; x < 1000; ++x) if (ref_unfmix64(ref_fmix64(x * 0x9e3779b97f4a7c15ULL)) != x * 0x9e3779b97f4a7c15ULL) { fprintf(stderr, "HARNESS-ERROR fmix64 inverse self-test failed\n"); return 3; }
  forbid_unowned_draws();
  const bool q = cfg.quick();
  const std::vector<Recipe> all = full_menu();
  std::vector<Task> tasks;
  std::vector<Scenario> scs;

  { Task t; t.name = "meta"; t.fn = [](Report& rep) {
      rep.assumptions.push_back("item universe of 16 values; int items are placed by a harness hasher that inverts fmix64 (home slots chosen: distinct / wrapping cluster / all colliding / all colliding in the last slot); std::string items use std::hash");
      rep.assumptions.push_back("lg_max_map_size 3 and 4 for the explored sketch, 3..5 for merge operands; weights from {0,1,2,5} per update; W = uint64_t");
      rep.assumptions.push_back("NO_FALSE_NEGATIVES is demanded for every item only for thresholds >= get_maximum_error() (below it an item without a counter is unknowable; demanded for tracked items there; occurrences counted in extra)");
      rep.assumptions.push_back("max_error <= epsilon * total is checked with the epsilon of the smallest lg_max_map_size that contributed through merges (equals get_epsilon() otherwise)");
      rep.assumptions.push_back("a state whose total weight or bracket is already broken is not expanded further (reported once, where it first appears)");
      rep.sets("rule", "BFS with state de-duplication over update/merge(4 directions x operand menu)/round-trip on (sketch x exact counts), to the stated depth per scenario; oracle in every new state for every universe item and every threshold in {0, max_error-1..+1, true, lb, ub (and each minus 1)}. Distinct = distinct (table size, active count, offset zero or not, forgotten items or not, smaller sketch merged) tag.");
    }; tasks.push_back(t); }

  // Scenario kinds (the same four per hash layout, plus string twins). Depths are sized by measured transition counts
  // (where insertion order changes the table -- colliding homes -- the same depth costs 10-20x more states).
  //  deep   : lg 3 from empty (quick: most layouts start after two fixed updates), all insertion orders; the 7th
  //           distinct item purges (medians 1 and 2 both occur)
  //  menu   : lg 3 seeded one short of a purge / lg 4 (start 3, already resized) seeded one short of capacity + 1;
  //           whole operand menu in all four directions
  //  resize : lg 4 from empty with start size 3: the 7th distinct item resizes 8 -> 16 slots (rehash)
  const char* deep_upd = "0:5 0:1 1:2 2:2 3:2 4:1 5:1 6:1 7:1";
  const char* menu3_pre = "0:5 1:3 2:2 3:2 4:1 5:1", *menu3_upd = "0:1 2:2 4:1 5:5 6:1 6:2 7:1 7:5 8:1 3:0";
  const char* menu4_pre = "0:6 1:1 2:2 3:1 4:3 5:1 6:2 7:1 8:4 9:1 10:2", *menu4_upd = "0:1 1:5 3:2 11:1 12:1 12:2 13:1 13:5 14:1 15:2";
  const char* menu3_upd_q = "0:1 2:2 4:1 5:5 6:1 7:5 8:1 3:0", *menu4_upd_q = "0:1 1:5 3:2 11:1 12:2 13:5 14:1 15:2";   // quick: 8 of the 10 updates
  const char* menu_q = "empty few allpurged purged full big4 big4purged allpurged5 big5";                                // 9 of the 11 operands
  const char* resize_upd = "0:1 1:1 2:2 3:1 4:5 5:1 6:1 7:1 0:0";
  const int NL = (int)(sizeof(LAYOUTS) / sizeof(LAYOUTS[0]));
  //                         distinct wrap collide collide-end string
  const int deep_q[5]   = {8, 6, 6, 6, 6},  deep_t[5]   = {10, 9, 8, 8, 9};     // quick: 6 = after the two-update prefix
  const int resize_q[5] = {8, 6, 6, 6, 6},  resize_t[5] = {10, 9, 8, 8, 9};
  std::vector<int> layout_of;
  // a replay must find its scenario whatever tier it is replayed under: build both tiers' scenarios then
  const bool replaying = !cfg.replay_scenario.empty();
  for (int tier = 0; tier < 2; ++tier) {
    const bool tq = tier == 0;
    if (!replaying && tq != q) continue;
    for (int li = 0; li <= NL; ++li) {   // li == NL: std::string items
      const std::string L = li < NL ? std::string("int/") + LAYOUTS[li].name : std::string("string");
      std::vector<Scenario> add;
      { Scenario s; s.name = L + "/lg3/empty/deep"; s.lg_max = 3; s.lg_start = 3; s.upd = ups(deep_upd);
        if (tq && li != 0) { s.prefix = ups("0:5 1:2"); s.name = L + "/lg3/pre2/deep"; }
        s.menu = pick(all, "few"); s.dirs = 5; s.depth = tq ? deep_q[li] : deep_t[li]; add.push_back(s); }
      { Scenario s; s.name = L + (tq ? "/lg3/seeded6/menu-q" : "/lg3/seeded6/menu"); s.lg_max = 3; s.lg_start = 3; s.prefix = ups(menu3_pre);
        s.upd = ups(tq ? menu3_upd_q : menu3_upd); s.menu = tq ? pick(all, menu_q) : all; s.depth = tq ? 4 : 5; add.push_back(s); }
      { Scenario s; s.name = L + (tq ? "/lg4/seeded11/menu-q" : "/lg4/seeded11/menu"); s.lg_max = 4; s.lg_start = 3; s.prefix = ups(menu4_pre);
        s.upd = ups(tq ? menu4_upd_q : menu4_upd); s.menu = pick(all, menu_q); s.depth = tq ? 4 : 5; add.push_back(s); }
      if (!tq) { Scenario s; s.name = L + "/lg4start4/seeded11/menu"; s.lg_max = 4; s.lg_start = 4; s.prefix = ups(menu4_pre);   // no resize on the way
        s.upd = ups(menu4_upd); s.menu = pick(all, menu_q); s.depth = 4; add.push_back(s); }
      { Scenario s; s.name = L + "/lg4/empty/resize"; s.lg_max = 4; s.lg_start = 3; s.upd = ups(resize_upd);
        if (tq && li != 0) { s.prefix = ups("4:5 2:2"); s.name = L + "/lg4/pre2/resize"; }
        s.menu = pick(all, "purged"); s.dirs = 5; s.depth = tq ? resize_q[li] : resize_t[li]; add.push_back(s); }
      for (size_t i = 0; i < add.size(); ++i) {
        bool dup = false; for (size_t j = 0; j < scs.size(); ++j) if (scs[j].name == add[i].name) dup = true;
        if (!dup) { scs.push_back(add[i]); layout_of.push_back(li); }
      }
    }
  }
  std::vector<std::string> su;
  { // 16 strings: short (in-place), empty, and long (heap) ones; homes are whatever std::hash gives, 16 items in 8 slots must collide
    const char* names[UNIVERSE] = {"a", "b", "", "dd", "a-string-longer-than-the-small-buffer", "f", "g", "hh", "i", "j", "k", "another-long-string-on-the-heap-0123456789", "m", "n", "o", "p"};
    for (int k = 0; k < UNIVERSE; ++k) su.push_back(names[k]);
  }
  for (size_t i = 0; i < scs.size(); ++i) {
    const Scenario s = scs[i]; const int li = layout_of[i];
    Task t; t.name = s.name;
    t.fn = [s, li, NL, su, &cfg](Report& rep) {
      BfsLimits lim; lim.max_depth = s.depth; lim.max_states = 8000000;
      if (li < NL) {
        install_layout(LAYOUTS[li]);
        std::vector<int> uni; for (int k = 0; k < UNIVERSE; ++k) uni.push_back(k);
        FiSys<int, InvHash> sys(s, uni);
        explore(sys, rep, cfg, lim);
      } else {
        FiSys<std::string, std::hash<std::string> > sys(s, su);
        explore(sys, rep, cfg, lim);
      }
    };
    tasks.push_back(t);
  }
  // fractional weights (W = double, quarters): seeded with six counters, then every sequence over two new and two held items; lg 3
  // purges at the 7th counter, lg 4 (thorough) at the 13th
  for (int v = 0; v < (q ? 1 : 2); ++v) {
    Task t; t.name = v == 0 ? "double/lg3/seeded6/quarters" : "double/lg4/seeded12/quarters";
    t.fn = [v, q, &cfg](Report& rep) {
      std::vector<std::pair<int, int> > pre; const int w6[12] = {3, 6, 1, 10, 3, 5, 7, 2, 9, 3, 1, 6};
      for (int i = 0; i < (v == 0 ? 6 : 12); ++i) pre.push_back(std::make_pair(i, w6[i]));
      std::vector<int> items; items.push_back(v == 0 ? 6 : 12); items.push_back(v == 0 ? 7 : 13); items.push_back(0); items.push_back(3);
      std::vector<int> quarters; quarters.push_back(1); quarters.push_back(3); quarters.push_back(6);
      FiDblSys sys(v == 0 ? "double/lg3/seeded6/quarters" : "double/lg4/seeded12/quarters", v == 0 ? 3 : 4, pre, items, quarters);
      BfsLimits lim; lim.max_depth = q ? 4 : 5; lim.max_states = 8000000;
      explore(sys, rep, cfg, lim);
    };
    tasks.push_back(t);
  }
  return run_tasks(cfg, "C12", tasks);
}
