// C14: the count-min sketch never under-estimates and is linear under merge.
//
// E1 (BFS on the product implementation x reference model) over
//   * "menu" systems: one sketch A; alphabet update(item,w) over 6 integer + 3 string items x w in {1,3} (+ weight 0,
//     + the ignored empty string), merge(B_j) over an operand menu (empty / disjoint items / overlapping items /
//     already-merged / deserialized / copy of A itself), refused merges (self, other seed, other shape -- four shape
//     variants, both directions -- must throw and leave both sketches unchanged), serialize round trips (bytes,
//     bytes with header, stream) that replace A by the restored sketch;
//   * "tree" systems: three sketches, each updatable, every ordered pair mergeable (arbitrary merge DAGs within depth);
//   * "signed" systems (W = int64_t / double with negative weights): only the clauses that do not need w >= 0
//     (cell linearity, total weight == sum |w|, lb <= est <= ub, merge linearity).
// Reference model, evaluated in EVERY state: exact map<item bytes, weight>; an independent cell model (row r, bucket
// oracle-MurmurHash3(bytes, row_seed[r]).h1 mod num_buckets, row seeds read from the sketch); a lock-step control
// sketch fed only by update() with the concatenated streams.
// Plus two complete grids, run as their own tasks:
//   * hash-paths: every integer / string / raw-bytes overload hashes the documented canonical form
//     (integers: 8 bytes little endian; strings: their bytes, empty string ignored);
//   * family_enumeration: the confidence clause over a fixed, completely enumerated family of item populations.
#define MC_MAIN
#include "core.hpp"
#include "choice.hpp"
#include "bfs.hpp"
#include "oracle_hash.hpp"
#include <count_min.hpp>
#include <cmath>
#include <map>
#include <sstream>
#include <limits>

using namespace mc;
using namespace datasketches;

// ------------------------------------------------------------------------------------------------ helpers
static inline std::string ws(uint64_t v) { return std::to_string(v); }
static inline std::string ws(int64_t v) { return std::to_string(v); }
static inline std::string ws(double v) { char b[40]; snprintf(b, sizeof b, "%.17g", v); return b; }
template<class W> static inline W absw(W w) { return w >= 0 ? w : (W)(0 - w); }
template<class W> struct WName;
template<> struct WName<uint64_t> { static const char* n() { return "u64"; } };
template<> struct WName<int64_t> { static const char* n() { return "i64"; } };
template<> struct WName<double> { static const char* n() { return "f64"; } };

static std::string le8(uint64_t u) { std::string b(8, '\0'); for (int i = 0; i < 8; ++i) b[i] = (char)(unsigned char)(u >> (8 * i)); return b; }

// An item is identified by its canonical byte string: integers = 8 bytes little endian (two's complement), strings =
// their bytes. Paths: integers 0 = update(uint64_t), 1 = update(int64_t), 2 = update(const void*, 8);
// strings 0 = update(const std::string&), 1 = update(const void*, length).
struct Item { bool is_str; uint64_t bits; std::string s; std::string label; std::string bytes; int npaths; };
static Item mk_int(uint64_t v, const std::string& l) { Item i; i.is_str = false; i.bits = v; i.label = l; i.bytes = le8(v); i.npaths = 3; return i; }
static Item mk_str(const std::string& s, const std::string& l) { Item i; i.is_str = true; i.bits = 0; i.s = s; i.label = l; i.bytes = s; i.npaths = s.empty() ? 1 : 2; return i; }

enum { IT_I0 = 0, IT_S0 = 6, IT_EMPTY = 9, IT_DINT = 10, IT_DSTR = 11, IT_NINT = 12, IT_NSTR = 13, IT_COUNT = 14 };
static const std::vector<Item>& items() {
  static std::vector<Item> v;
  if (v.empty()) {
    v.push_back(mk_int(0, "i0"));                                   // 0
    v.push_back(mk_int(1, "i1"));                                   // 1
    v.push_back(mk_int(2, "i2"));                                   // 2
    v.push_back(mk_int((uint64_t)-1, "i-1"));                       // 3
    v.push_back(mk_int(((uint64_t)1 << 40) + 5, "i2^40+5"));        // 4
    v.push_back(mk_int((uint64_t)1 << 63, "imin"));                 // 5
    v.push_back(mk_str("a", "sa"));                                 // 6
    v.push_back(mk_str("bcd", "sbcd"));                             // 7
    v.push_back(mk_str("the quick brown fox jumps", "sfox25"));     // 8  (> 16 bytes: block loop + tail)
    v.push_back(mk_str("", "sempty"));                              // 9  ignored by the string overload
    v.push_back(mk_int(1000, "d1000"));                             // 10 only in operands ("disjoint")
    v.push_back(mk_str("zz", "dzz"));                               // 11 only in operands
    v.push_back(mk_int(77, "n77"));                                 // 12 never inserted
    v.push_back(mk_str("q", "nq"));                                 // 13 never inserted
  }
  return v;
}

template<class W> struct Upd { int item; int path; W w; };
template<class W> static Upd<W> U(int item, int path, W w) { Upd<W> u; u.item = item; u.path = path; u.w = w; return u; }

template<class Sk, class W> static void feed(Sk& sk, const Item& it, int path, W w) {
  if (!it.is_str) {
    if (path == 0) sk.update((uint64_t)it.bits, w);
    else if (path == 1) sk.update((int64_t)it.bits, w);
    else { unsigned char b[8]; for (int i = 0; i < 8; ++i) b[i] = (unsigned char)(it.bits >> (8 * i)); sk.update((const void*)b, (size_t)8, w); }
  } else {
    if (path == 0) sk.update(it.s, w);
    else sk.update((const void*)it.s.data(), it.s.size(), w);
  }
}
// q: 0 estimate, 1 lower bound, 2 upper bound
template<class Sk> static typename Sk::const_iterator::value_type query(const Sk& sk, const Item& it, int path, int q) {
  if (!it.is_str) {
    if (path == 0) { uint64_t v = it.bits; return q == 0 ? sk.get_estimate(v) : q == 1 ? sk.get_lower_bound(v) : sk.get_upper_bound(v); }
    if (path == 1) { int64_t v = (int64_t)it.bits; return q == 0 ? sk.get_estimate(v) : q == 1 ? sk.get_lower_bound(v) : sk.get_upper_bound(v); }
    unsigned char b[8]; for (int i = 0; i < 8; ++i) b[i] = (unsigned char)(it.bits >> (8 * i));
    return q == 0 ? sk.get_estimate((const void*)b, (size_t)8) : q == 1 ? sk.get_lower_bound((const void*)b, (size_t)8) : sk.get_upper_bound((const void*)b, (size_t)8);
  }
  if (path == 0) return q == 0 ? sk.get_estimate(it.s) : q == 1 ? sk.get_lower_bound(it.s) : sk.get_upper_bound(it.s);
  return q == 0 ? sk.get_estimate((const void*)it.s.data(), it.s.size()) : q == 1 ? sk.get_lower_bound((const void*)it.s.data(), it.s.size()) : sk.get_upper_bound((const void*)it.s.data(), it.s.size());
}

// ------------------------------------------------------------------------------------------------ reference model
template<class W> struct Model {
  uint8_t nh; uint32_t nb; std::vector<uint64_t> seeds; std::vector<W> cells; W total; std::map<std::string, W> truth;
  Model(uint8_t h, uint32_t b, const std::vector<uint64_t>& s): nh(h), nb(b), seeds(s), cells((size_t)h * b, (W)0), total(0) {}
  size_t cell(size_t row, const std::string& bytes) const {
    return row * nb + (size_t)(oracle::murmur3_x64_128(bytes.data(), bytes.size(), seeds[row]).h1 % nb);
  }
  void add(const std::string& bytes, W w) {
    total += absw(w); truth[bytes] += w;
    for (size_t r = 0; r < nh; ++r) cells[cell(r, bytes)] += w;
  }
  W est(const std::string& bytes) const { W m = cells[cell(0, bytes)]; for (size_t r = 1; r < nh; ++r) { W x = cells[cell(r, bytes)]; if (x < m) m = x; } return m; }
  W tru(const std::string& bytes) const { typename std::map<std::string, W>::const_iterator i = truth.find(bytes); return i == truth.end() ? (W)0 : i->second; }
};

template<class W> static std::string cells_str(const std::vector<W>& v) { std::string s; s.reserve(v.size() * 3); for (size_t i = 0; i < v.size(); ++i) { s += ws(v[i]); s += ','; } return s; }

template<class Sk> static std::string implcanon(const Sk& k) {
  typedef typename Sk::const_iterator::value_type W;
  std::string c = std::to_string((unsigned)k._num_hashes) + "x" + std::to_string(k._num_buckets) + "s" + std::to_string(k._seed) + "[";
  for (size_t i = 0; i < k.hash_seeds.size(); ++i) c += hex64(k.hash_seeds[i]) + ",";
  c += "]";
  std::vector<W> cells(k._sketch_array.begin(), k._sketch_array.end());
  c += cells_str(cells); c += "T" + ws((W)k._total_weight);
  return c;
}

// binary form of the same fields, for the visited-set key (no formatting, one allocation)
template<class T> static inline void raw(std::string& c, const T& v) { c.append(reinterpret_cast<const char*>(&v), sizeof(T)); }
template<class Sk> static void bincanon(const Sk& k, std::string& c) {
  raw(c, k._num_hashes); raw(c, k._num_buckets); raw(c, k._seed);
  raw(c, (uint32_t)k.hash_seeds.size()); if (!k.hash_seeds.empty()) c.append(reinterpret_cast<const char*>(k.hash_seeds.data()), k.hash_seeds.size() * sizeof(uint64_t));
  raw(c, (uint32_t)k._sketch_array.size()); if (!k._sketch_array.empty()) c.append(reinterpret_cast<const char*>(k._sketch_array.data()), k._sketch_array.size() * sizeof(k._sketch_array[0]));
  raw(c, k._total_weight);
}

// one sketch under test + its model + the control sketch that only ever sees update()
template<class W> struct Slot {
  typedef count_min_sketch<W> Sk;
  Sk sk, ctrl; Model<W> m; std::vector<Upd<W> > stream;
  Slot(uint8_t nh, uint32_t nb, uint64_t seed): sk(nh, nb, seed), ctrl(nh, nb, seed), m(nh, nb, sk.hash_seeds) {}
  // what a stream element means for the model and the control sketch
  void note(const Upd<W>& u) {
    const Item& it = items()[u.item];
    feed(ctrl, it, u.path, u.w);
    if (!(it.is_str && it.s.empty() && u.path == 0)) m.add(it.bytes, u.w);   // the string overload ignores ""
    stream.push_back(u);
  }
  void upd(const Upd<W>& u) { feed(sk, items()[u.item], u.path, u.w); note(u); }
  void canon_into(std::string& c) const {
    bincanon(sk, c); c += '#'; bincanon(ctrl, c); c += '#';
    c.append(reinterpret_cast<const char*>(m.cells.data()), m.cells.size() * sizeof(W)); raw(c, m.total);
    for (typename std::map<std::string, W>::const_iterator i = m.truth.begin(); i != m.truth.end(); ++i) { raw(c, (uint32_t)i->first.size()); c += i->first; raw(c, i->second); }
    c += '}';
  }
  std::string canon() const { std::string c; c.reserve(768); canon_into(c); return c; }
};

template<class W> static std::string first_diff(const std::vector<W>& got, const std::vector<W>& exp, uint32_t nb) {
  if (got.size() != exp.size()) return "sizes " + std::to_string(got.size()) + " vs " + std::to_string(exp.size());
  for (size_t i = 0; i < got.size(); ++i) if (!(got[i] == exp[i])) return "row " + std::to_string(i / nb) + " bucket " + std::to_string(i % nb) + ": got " + ws(got[i]) + " expected " + ws(exp[i]);
  return "equal";
}

// the oracle of one slot; nonneg = the stream so far has only non-negative weights (the statement's premise)
template<class W> static void check_slot(Slot<W>& s, Ctx& c, uint8_t nh, uint32_t nb, uint64_t seed, bool nonneg, std::string* tag) {
  typedef count_min_sketch<W> Sk;
  const Sk& k = s.sk;
  c.eq("get_num_hashes", (unsigned)k.get_num_hashes(), (unsigned)nh);
  c.eq("get_num_buckets", k.get_num_buckets(), nb);
  c.eq("get_seed", k.get_seed(), seed);
  c.ok("row-seeds-unchanged", k.hash_seeds == s.m.seeds, "per-row hash seeds differ from those of the freshly constructed sketch");
  // cells: public iteration == private array == independent cell model == control sketch
  std::vector<W> cells(k.begin(), k.end());
  std::vector<W> priv(k._sketch_array.begin(), k._sketch_array.end());
  c.eq("cells-count", cells.size(), (size_t)nh * nb);
  c.ok("iteration==array", cells == priv, "begin()/end() do not expose the sketch array");
  if (!(cells == s.m.cells)) c.fail("cells==model", first_diff(cells, s.m.cells, nb));
  std::vector<W> cc(s.ctrl.begin(), s.ctrl.end());
  if (!(cells == cc)) c.fail("linearity-cells==single-stream-sketch", first_diff(cells, cc, nb));
  // total weight
  c.eq("total_weight==sum|w|", ws(k.get_total_weight()), ws(s.m.total));
  c.eq("linearity-total==single-stream-sketch", ws(k.get_total_weight()), ws(s.ctrl.get_total_weight()));
  c.eq("is_empty", k.is_empty(), s.m.total == 0);
  const double eps = k.get_relative_error();
  c.near("relative_error==e/num_buckets", eps, std::exp(1.0) / (double)nb, 1e-12);
  const W total = k.get_total_weight();
  bool over = false, absent_pos = false, at_total = false, lb_above_true = false;
  const std::vector<Item>& its = items();
  for (size_t qi = 0; qi < its.size(); ++qi) {
    const Item& it = its[qi];
    const W t = s.m.tru(it.bytes);
    const W e0 = query(k, it, 0, 0);
    for (int p = 1; p < it.npaths; ++p) {
      W ep = query(k, it, p, 0);
      if (!(ep == e0)) c.fail("estimate-overloads-agree", it.label + ": path " + std::to_string(p) + " gives " + ws(ep) + ", path 0 gives " + ws(e0));
    }
    if (!(it.is_str && it.s.empty())) {
      W me = s.m.est(it.bytes);
      if (!(e0 == me)) c.fail("estimate==row-minimum-of-model-cells", it.label + ": got " + ws(e0) + " expected " + ws(me));
    }
    if (nonneg) {
      if (!(t <= e0)) c.fail("true<=estimate", it.label + ": true " + ws(t) + " estimate " + ws(e0));
      if (!(e0 <= total)) c.fail("estimate<=total_weight", it.label + ": estimate " + ws(e0) + " total " + ws(total));
    }
    for (int p = 0; p < it.npaths; ++p) {
      W ep = query(k, it, p, 0), lb = query(k, it, p, 1), ub = query(k, it, p, 2);
      if (!(lb <= ep)) c.fail("lower_bound<=estimate", it.label + ": lb " + ws(lb) + " estimate " + ws(ep));
      if (!(ep <= ub)) c.fail("estimate<=upper_bound", it.label + ": estimate " + ws(ep) + " ub " + ws(ub));
      if (nonneg && !(it.is_str && it.s.empty())) {
        // documented: upper bound = estimate + relative_error * total_weight (integral W truncates)
        double want = (double)ep + eps * (double)total;
        if (!((double)ub <= want * (1 + 1e-12) + 1e-9 && (double)ub >= want - 1.0 - 1e-9)) c.fail("upper_bound==estimate+eps*total", it.label + ": ub " + ws(ub) + " estimate " + ws(ep) + " eps*total " + ws(eps * (double)total));
      }
    }
    W ce = query(s.ctrl, it, 0, 0);
    if (!(ce == e0)) c.fail("linearity-estimate==single-stream-sketch", it.label + ": got " + ws(e0) + " control " + ws(ce));
    if (e0 > t) over = true;
    if (query(k, it, 0, 1) > t) lb_above_true = true;   // observation only: the statement orders lb and estimate, it does not relate lb to the true weight
    if ((qi == IT_NINT || qi == IT_NSTR) && e0 > 0) absent_pos = true;
    if (e0 == total && t < total && total > 0) at_total = true;
  }
  if (tag) *tag += std::string(s.m.total == 0 ? "empty" : "nonempty") + (over ? "|over" : "|exact") + (absent_pos ? "|absent>0" : "") + (at_total ? "|est=total" : "") + (lb_above_true ? "|lb>true" : "");
}

// ------------------------------------------------------------------------------------------------ no-op probes
// Operations that must leave the sketch as it is are not BFS operations (they would only cost a replay per state);
// they are executed on the state's sketch inside check(), i.e. in EVERY state, and compared before/after:
// weight-0 update, update(""), self merge, merges with incompatible sketches (both directions), and the three
// serialize/deserialize round trips. A restored sketch is compared field by field (shape, seed, row seeds, cells,
// total weight) and then driven one update and one merge further in lock-step with a copy of the original.
template<class W> static count_min_sketch<W> fed(uint8_t h, uint32_t b, uint64_t sd, const std::vector<Upd<W> >& st) {
  count_min_sketch<W> x(h, b, sd);
  for (size_t i = 0; i < st.size(); ++i) feed(x, items()[st[i].item], st[i].path, st[i].w);
  return x;
}
template<class W> static std::vector<Upd<W> > over_stream(bool signed_mode) {
  std::vector<Upd<W> > v; const W neg = signed_mode ? (W)(0 - (W)1) : (W)1;
  v.push_back(U<W>(IT_I0, 1, 1)); v.push_back(U<W>(IT_I0 + 1, 2, 1)); v.push_back(U<W>(IT_S0, 1, neg));
  return v;
}
enum { RF_SEED, RF_HASHES, RF_BUCKETS, RF_SHAPE, RF_SMALLER, RF_SEEDHASH, RF_N };
static const char* const RF_NAME[] = {"seed", "hashes", "buckets", "shape", "smaller", "seedhash"};
// the next larger seed with the same 16-bit seed hash (the quantity stored in an image); a merge that compared seed hashes
// instead of seeds would accept it although every row seed differs
static uint64_t seed_hash_twin(uint64_t seed) {
  static std::map<uint64_t, uint64_t> memo;
  std::map<uint64_t, uint64_t>::iterator it = memo.find(seed); if (it != memo.end()) return it->second;
  const uint16_t want = (uint16_t)(oracle::murmur3_x64_128(&seed, 8, 0).h1 & 0xffff);
  uint64_t s2 = seed;
  for (;;) { ++s2; if ((uint16_t)(oracle::murmur3_x64_128(&s2, 8, 0).h1 & 0xffff) == want) break; }
  memo[seed] = s2; return s2;
}
// configuration of an incompatible operand; false if this variant does not exist for the shape
static bool refusal_cfg(int j, uint8_t nh, uint32_t nb, uint64_t seed, uint8_t& h, uint32_t& b, uint64_t& sd) {
  h = nh; b = nb; sd = seed;
  switch (j) {
    case RF_SEED: sd = seed + 1; return true;
    case RF_HASHES: h = (uint8_t)(nh + 1); return true;
    case RF_BUCKETS: b = nb + 1; return true;
    case RF_SHAPE: // same number of cells, different shape (a merge that compared only array sizes would accept it)
      for (unsigned h2 = 1; h2 <= 8; ++h2) if (h2 != nh && ((unsigned)nh * nb) % h2 == 0 && ((unsigned)nh * nb) / h2 >= 3) { h = (uint8_t)h2; b = ((unsigned)nh * nb) / h2; return true; }
      return false;
    case RF_SEEDHASH: sd = seed_hash_twin(seed); return true;
    case RF_SMALLER: if (nb > 3) { b = nb - 1; return true; } if (nh > 1) { h = (uint8_t)(nh - 1); return true; } return false;
  }
  return false;
}

template<class W> static void probe_slot(Slot<W>& s, Ctx& c, uint8_t nh, uint32_t nb, uint64_t seed, bool signed_mode, bool full) {
  typedef count_min_sketch<W> Sk;
  Sk& k = s.sk;
  const std::string a0 = implcanon(k);
  // weight 0 (non-negative) and the empty string change nothing
  k.update((uint64_t)0, (W)0); k.update(std::string("a"), (W)0);
  c.ok("zero-weight-update-is-noop", implcanon(k) == a0, "update with weight 0 changed the sketch");
  k.update(std::string(), (W)1);
  c.ok("empty-string-ignored", implcanon(k) == a0, "update(\"\") changed the sketch");
  // self merge
  { bool threw = false; try { k.merge(k); } catch (const std::exception&) { threw = true; }
    c.ok("self-merge-refused", threw, "merge(*this) did not throw");
    c.ok("refused-merge-leaves-target-unchanged", implcanon(k) == a0, "self merge changed the sketch");
    c.rep.outcome(std::string("probe:x(self):") + (threw ? "threw" : "accepted")); }
  if (!full) return;
  // incompatible operands (non-empty, so an accepted merge is visible in the cells)
  for (int j = 0; j < RF_N; ++j) {
    uint8_t h; uint32_t b; uint64_t sd;
    if (!refusal_cfg(j, nh, nb, seed, h, b, sd)) { c.rep.outcome(std::string("probe:x(") + RF_NAME[j] + "):not-applicable"); continue; }
    const std::string nm = std::string("x(") + RF_NAME[j] + ")";
    Sk x = fed<W>(h, b, sd, over_stream<W>(signed_mode));
    const std::string x0 = implcanon(x);
    bool threw = false, threw_rev = false;
    try { k.merge(x); } catch (const std::exception&) { threw = true; }
    const std::string a1 = implcanon(k), x1 = implcanon(x);
    try { x.merge(k); } catch (const std::exception&) { threw_rev = true; }
    c.ok("incompatible-merge-refused", threw, nm + ": merge of a " + std::to_string((unsigned)h) + "x" + std::to_string(b) + " seed " + std::to_string(sd) + " sketch did not throw");
    c.ok("incompatible-merge-refused-reverse", threw_rev, nm + ": merge into the incompatible sketch did not throw");
    c.ok("refused-merge-leaves-target-unchanged", a1 == a0 && implcanon(x) == x0, nm + ": target changed");
    c.ok("refused-merge-leaves-operand-unchanged", x1 == x0 && implcanon(k) == a1, nm + ": operand changed");
    c.rep.outcome("probe:" + nm + (threw ? ":threw" : ":accepted"));
  }
  // serialization points
  for (int mode = 0; mode < 3; ++mode) {
    const unsigned hdr = mode == 1 ? 5 : 0;
    typename Sk::vector_bytes bytes = k.serialize(hdr);
    c.eq("serialized-size", bytes.size(), (size_t)hdr + k.get_serialized_size_bytes());
    Sk r(nh, nb, seed);
    if (mode == 2) {
      std::stringstream ss(std::ios::in | std::ios::out | std::ios::binary);
      k.serialize(ss);
      std::string sb = ss.str();
      c.ok("stream-image==bytes-image", sb.size() == bytes.size() && (sb.empty() || memcmp(sb.data(), bytes.data(), sb.size()) == 0), "serialize(ostream) and serialize() differ");
      r = Sk::deserialize(ss, seed);
    } else r = Sk::deserialize(bytes.data() + hdr, bytes.size() - hdr, seed);
    const char* mn = mode == 0 ? "bytes" : mode == 1 ? "bytes+hdr" : "stream";
    c.ok("round-trip-restores-sketch", implcanon(r) == a0, std::string(mn) + ": restored " + implcanon(r) + " from " + a0);
    // continue after the serialization point: one update and one merge, in lock-step with a copy of the original
    Sk o(k);
    Sk opd = fed<W>(nh, nb, seed, over_stream<W>(signed_mode));
    feed(r, items()[IT_S0 + 2], 0, (W)3); feed(o, items()[IT_S0 + 2], 0, (W)3);
    r.merge(opd); o.merge(opd);
    c.ok("restored-sketch-continues-identically", implcanon(r) == implcanon(o), std::string(mn) + ": after update+merge restored " + implcanon(r) + " original " + implcanon(o));
    { Sk into = fed<W>(nh, nb, seed, over_stream<W>(signed_mode)); Sk into2(into); Sk r2 = mode == 2 ? Sk(k) : Sk::deserialize(bytes.data() + hdr, bytes.size() - hdr, seed);
      into.merge(r2); into2.merge(k);
      c.ok("restored-sketch-merges-as-operand", implcanon(into) == implcanon(into2), std::string(mn) + ": merging the restored sketch differs from merging the original"); }
    c.rep.outcome(std::string("probe:rt(") + mn + ")" + (s.m.total == 0 ? ":empty" : ":nonempty"));
  }
  c.ok("probes-leave-sketch-unchanged", implcanon(k) == a0, "sketch changed by no-op probes");
}

// ------------------------------------------------------------------------------------------------ E1: menu system
template<class W> struct MenuSys {
  typedef count_min_sketch<W> Sk;
  typedef Slot<W> State;
  enum Kind { UPD, MERGE };
  struct Op { Kind kind; int a; int path; W w; std::string name; };
  enum { OPD_EMPTY, OPD_DISJ, OPD_OVER, OPD_MERGED, OPD_DESER, OPD_CLONE, OPD_N };
  uint8_t nh; uint32_t nb; uint64_t seed; bool signed_mode; W maxtotal; std::string nm; std::vector<Op> ops;

  // The state space is made finite by bounding the stream: only histories whose total weight sum|w| stays <= maxtotal.
  MenuSys(uint8_t h, uint32_t b, uint64_t s, bool sg, int nitems_int, int nitems_str, unsigned maxtot): nh(h), nb(b), seed(s), signed_mode(sg), maxtotal((W)maxtot) {
    nm = std::string(sg ? "signed/" : "menu/") + WName<W>::n() + "/h" + std::to_string((unsigned)h) + "/b" + std::to_string(b) + "/seed" + std::to_string(s) + "/W" + std::to_string(maxtot);
    std::vector<W> wts; wts.push_back((W)1); wts.push_back((W)3);
    if (sg) { wts.push_back((W)(0 - (W)1)); wts.push_back((W)(0 - (W)2)); }
    for (size_t wi = 0; wi < wts.size(); ++wi) {
      for (int i = 0; i < nitems_int; ++i) add_upd(IT_I0 + i, i % 3, wts[wi]);
      for (int i = 0; i < nitems_str; ++i) add_upd(IT_S0 + i, i % 2, wts[wi]);
    }
    const char* on[] = {"empty", "disj", "over", "merged", "deser", "clone"};
    for (int j = 0; j < OPD_N; ++j) { Op o; o.kind = MERGE; o.a = j; o.path = 0; o.w = 0; o.name = std::string("m(") + on[j] + ")"; ops.push_back(o); }
  }
  void add_upd(int item, int path, W w) { Op o; o.kind = UPD; o.a = item; o.path = path; o.w = w; o.name = "u(" + items()[item].label + "," + ws(w) + ")"; ops.push_back(o); }

  std::string name() const { return nm; }
  State* make() { return new State(nh, nb, seed); }
  size_t nops() const { return ops.size(); }
  std::string opname(size_t i) const { return ops[i].name; }

  // operand streams (what the operand sketch was fed, in order)
  std::vector<Upd<W> > stream_of(int j, const State& s) const {
    std::vector<Upd<W> > v;
    switch (j) {
      case OPD_EMPTY: break;
      case OPD_DISJ: v.push_back(U<W>(IT_DINT, 0, 2)); v.push_back(U<W>(IT_DSTR, 0, 1)); break;
      case OPD_OVER: v = over_stream<W>(signed_mode); break;
      case OPD_MERGED: { // (a sketch fed i2) merged with the "over" operand, then updated once more
        v.push_back(U<W>(IT_I0 + 2, 0, 1));
        std::vector<Upd<W> > b = stream_of(OPD_OVER, s);
        v.insert(v.end(), b.begin(), b.end());
        v.push_back(U<W>(IT_DINT, 2, 1));
        break; }
      case OPD_DESER: v = stream_of(OPD_OVER, s); v.push_back(U<W>(IT_S0 + 1, 0, 1)); break;
      case OPD_CLONE: v = s.stream; break;
    }
    return v;
  }
  Sk operand(int j, const State& s) const {
    switch (j) {
      case OPD_MERGED: {
        std::vector<Upd<W> > head; head.push_back(U<W>(IT_I0 + 2, 0, 1));
        Sk x = fed<W>(nh, nb, seed, head);
        Sk b = operand(OPD_OVER, s);
        x.merge(b);
        feed(x, items()[IT_DINT], 2, (W)1);
        return x; }
      case OPD_DESER: {
        Sk y = fed<W>(nh, nb, seed, stream_of(OPD_DESER, s));
        typename Sk::vector_bytes bytes = y.serialize();
        return Sk::deserialize(bytes.data(), bytes.size(), seed); }
      case OPD_CLONE: return Sk(s.sk);
      default: return fed<W>(nh, nb, seed, stream_of(j, s));
    }
  }

  bool apply(State& s, size_t opi, Ctx* ctx) {
    const Op& o = ops[opi];
    if (o.kind == UPD) {
      if (s.m.total + absw(o.w) > maxtotal) return false;
      s.upd(U<W>(o.a, o.path, o.w));
      return true;
    }
    std::vector<Upd<W> > bs = stream_of(o.a, s);
    { W bt = 0; for (size_t i = 0; i < bs.size(); ++i) bt += absw(bs[i].w); if (s.m.total + bt > maxtotal) return false; }
    if (o.a == OPD_CLONE && bs.empty()) return false;          // merging a copy of the empty sketch = m(empty)
    Sk b = operand(o.a, s);
    if (ctx) { // the operand itself is what its stream says (model of the operand)
      Model<W> bm(nh, nb, s.m.seeds);
      for (size_t i = 0; i < bs.size(); ++i) { const Item& it = items()[bs[i].item]; if (!(it.is_str && it.s.empty() && bs[i].path == 0)) bm.add(it.bytes, bs[i].w); }
      std::vector<W> bc(b.begin(), b.end());
      if (!(bc == bm.cells)) ctx->fail("operand-cells==model", o.name + ": " + first_diff(bc, bm.cells, nb));
      ctx->eq("operand-total==sum|w|", ws(b.get_total_weight()), ws(bm.total));
    }
    std::string b0; if (ctx) b0 = implcanon(b);
    s.sk.merge(b);
    if (ctx) { ctx->ok("merge-leaves-operand-unchanged", implcanon(b) == b0, o.name + ": operand changed by merge"); ctx->rep.outcome("op:" + o.name + (bs.empty() ? ":empty-operand" : s.stream.empty() ? ":into-empty" : ":both-nonempty")); }
    for (size_t i = 0; i < bs.size(); ++i) s.note(bs[i]);
    return true;
  }
  std::string canon(State& s) { return s.canon(); }
  void check(State& s, Ctx& c) {
    std::string tag;
    check_slot(s, c, nh, nb, seed, !signed_mode, &tag);
    c.rep.outcome(tag);
    probe_slot(s, c, nh, nb, seed, signed_mode, true);
  }
};

// ------------------------------------------------------------------------------------------------ E1: merge trees
template<class W> struct TreeSys {
  typedef count_min_sketch<W> Sk;
  enum { NS = 3 };
  struct State { Slot<W> a, b, c; State(uint8_t h, uint32_t nb, uint64_t sd): a(h, nb, sd), b(h, nb, sd), c(h, nb, sd) {} Slot<W>& at(int i) { return i == 0 ? a : i == 1 ? b : c; } };
  struct Op { int kind; int x; int y; int item; int path; W w; std::string name; };  // kind 0 upd x, 1 merge x<-y
  uint8_t nh; uint32_t nb; uint64_t seed; W maxtotal; std::string nm; std::vector<Op> ops;
  // finite space: the sum of the three sketches' total weights stays <= maxtotal
  TreeSys(uint8_t h, uint32_t b, uint64_t s, bool two_weights, unsigned maxtot): nh(h), nb(b), seed(s), maxtotal((W)maxtot) {
    nm = std::string("tree/") + WName<W>::n() + "/h" + std::to_string((unsigned)h) + "/b" + std::to_string(b) + "/seed" + std::to_string(s) + "/W" + std::to_string(maxtot);
    const int its[3] = {IT_I0, IT_I0 + 3, IT_S0 + 2};
    const char sl[] = "ABC";
    for (int x = 0; x < NS; ++x) for (int i = 0; i < 3; ++i) for (int wi = 0; wi < (two_weights ? 2 : 1); ++wi) {
      Op o; o.kind = 0; o.x = x; o.y = 0; o.item = its[i]; o.path = (x + i) % (items()[its[i]].npaths); o.w = wi ? (W)3 : (W)1;
      o.name = std::string(1, sl[x]) + ".u(" + items()[its[i]].label + "," + ws(o.w) + ")"; ops.push_back(o);
    }
    for (int x = 0; x < NS; ++x) for (int y = 0; y < NS; ++y) if (x != y) {
      Op o; o.kind = 1; o.x = x; o.y = y; o.item = 0; o.path = 0; o.w = 0;
      o.name = std::string(1, sl[x]) + ".m(" + sl[y] + ")"; ops.push_back(o);
    }
  }
  std::string name() const { return nm; }
  State* make() { return new State(nh, nb, seed); }
  size_t nops() const { return ops.size(); }
  std::string opname(size_t i) const { return ops[i].name; }
  bool apply(State& s, size_t opi, Ctx* ctx) {
    const Op& o = ops[opi];
    Slot<W>& X = s.at(o.x);
    const W all = s.a.m.total + s.b.m.total + s.c.m.total;
    if (o.kind == 0) { if (all + o.w > maxtotal) return false; X.upd(U<W>(o.item, o.path, o.w)); return true; }
    Slot<W>& Y = s.at(o.y);
    if (all + Y.m.total > maxtotal) return false;
    std::string y0; if (ctx) y0 = implcanon(Y.sk);
    const bool x_empty = X.m.total == 0;
    X.sk.merge(Y.sk);
    if (ctx) { ctx->ok("merge-leaves-operand-unchanged", implcanon(Y.sk) == y0, o.name + ": operand changed by merge"); ctx->rep.outcome(std::string("op:merge:") + (Y.m.total == 0 ? "empty-operand" : x_empty ? "into-empty" : "both-nonempty")); }
    std::vector<Upd<W> > ys = Y.stream;
    for (size_t i = 0; i < ys.size(); ++i) X.note(ys[i]);
    return true;
  }
  std::string canon(State& s) { std::string c; c.reserve(2048); s.a.canon_into(c); c += '@'; s.b.canon_into(c); c += '@'; s.c.canon_into(c); return c; }
  void check(State& s, Ctx& c) {
    std::string tag;
    for (int i = 0; i < NS; ++i) { check_slot(s.at(i), c, nh, nb, seed, true, &tag); tag += "/"; }
    c.rep.outcome(tag);
    for (int i = 0; i < NS; ++i) probe_slot(s.at(i), c, nh, nb, seed, false, i == 0);
  }
};

// ------------------------------------------------------------------------------------------------ grid: hash paths
// Every overload hashes the documented canonical form. One fresh sketch per (configuration, value, path).
struct GridVal { Item it; };
static std::vector<Item> grid_items() {
  std::vector<Item> v;
  const uint64_t ints[] = {0, 1, 2, (uint64_t)-1, (uint64_t)-2, 127, 128, 255, 256, 65535, 65536, 0x7fffffffULL, 0x80000000ULL, 0xffffffffULL, 0x100000000ULL,
                           (uint64_t)1 << 53, 0x7fffffffffffffffULL, 0x8000000000000000ULL, 0x0102030405060708ULL, 0xf1e2d3c4b5a69788ULL};
  for (size_t i = 0; i < sizeof ints / sizeof ints[0]; ++i) v.push_back(mk_int(ints[i], "int:" + hex64(ints[i])));
  // strings of every length 1..40 (all MurmurHash3 tail lengths, 0..2 blocks), bytes include 0x00 and >= 0x80
  for (size_t len = 1; len <= 40; ++len) {
    std::string s; for (size_t j = 0; j < len; ++j) s += (char)(unsigned char)((j * 37 + len * 11) & 0xff);
    if (len == 7) s[3] = '\0';
    if (len == 19) s[18] = (char)0xff;
    v.push_back(mk_str(s, "str:len" + std::to_string(len)));
  }
  v.push_back(mk_str("", "str:empty"));
  return v;
}

template<class W> static void hash_paths_grid(Report& rep, const Config& cfg) {
  typedef count_min_sketch<W> Sk;
  const std::string scen = std::string("hash-paths/") + WName<W>::n();
  if (!cfg.replay_scenario.empty() && cfg.replay_scenario != scen) return;
  const std::vector<Item> g = grid_items();
  struct Cfg { unsigned nh; uint32_t nb; uint64_t seed; };
  const Cfg cs[] = {{3, 3, DEFAULT_SEED}, {3, 5, 7}, {2, 8, 0}, {3, 55, DEFAULT_SEED}, {1, 4, 123456789ULL}, {255, 3, DEFAULT_SEED}, {5, 100003, 7}};
  uint64_t cases = 0;
  for (size_t ci = 0; ci < sizeof cs / sizeof cs[0]; ++ci) for (size_t gi = 0; gi < g.size(); ++gi) for (int p = 0; p < g[gi].npaths; ++p) {
    const Item& it = g[gi];
    std::string hist = "h" + std::to_string(cs[ci].nh) + "/b" + std::to_string(cs[ci].nb) + "/seed" + std::to_string(cs[ci].seed) + "/" + it.label + "/path" + std::to_string(p);
    if (!cfg.replay_history.empty() && cfg.replay_history != hist) continue;
    if (!journal(scen, hist)) continue;
    Ctx c(rep, scen, hist); int a0 = asan_errors();
    Sk sk((uint8_t)cs[ci].nh, cs[ci].nb, cs[ci].seed);
    // fresh sketch: all cells zero, empty
    { bool z = true; for (typename Sk::const_iterator i = sk.begin(); i != sk.end(); ++i) if (!(*i == 0)) z = false;
      c.ok("fresh-sketch-is-zero", z && sk.is_empty() && sk.get_total_weight() == 0 && (size_t)(sk.end() - sk.begin()) == (size_t)cs[ci].nh * cs[ci].nb, "fresh sketch not all-zero"); }
    c.eq("row-seed-count", sk.hash_seeds.size(), (size_t)cs[ci].nh);
    { Sk twin((uint8_t)cs[ci].nh, cs[ci].nb, cs[ci].seed); c.ok("row-seeds-deterministic", twin.hash_seeds == sk.hash_seeds, "two sketches of one configuration have different row seeds"); }
    Model<W> m((uint8_t)cs[ci].nh, cs[ci].nb, sk.hash_seeds);
    feed(sk, it, p, (W)2);
    const bool ignored = it.is_str && it.s.empty();
    if (!ignored) m.add(it.bytes, (W)2);
    std::vector<W> cells(sk.begin(), sk.end());
    if (!(cells == m.cells)) c.fail("hash-of-canonical-form", it.label + " via path " + std::to_string(p) + ": " + first_diff(cells, m.cells, cs[ci].nb));
    c.eq("total_weight==sum|w|", ws(sk.get_total_weight()), ws(m.total));
    for (int q = 0; q < it.npaths; ++q) { W e = query(sk, it, q, 0); if (!(e == (ignored ? (W)0 : (W)2))) c.fail("single-item-estimate", it.label + ": updated via path " + std::to_string(p) + ", queried via path " + std::to_string(q) + ": " + ws(e)); }
    if (asan_errors() != a0) c.fail("asan", "AddressSanitizer report");
    rep.flush_ctx_fails(c.fails, scen, hist);
    rep.outcome(std::string("grid:") + (it.is_str ? "str" : "int") + ":path" + std::to_string(p) + (ignored ? ":ignored" : ""));
    rep.evaluations++; rep.states++; rep.transitions++; rep.traces++; cases++;
  }
  // raw bytes of other widths are hashed exactly as given
  const size_t widths[] = {1, 2, 4, 16, 24};
  for (size_t wi = 0; wi < 5; ++wi) {
    std::string hist = "raw-width" + std::to_string(widths[wi]);
    if (!cfg.replay_history.empty() && cfg.replay_history != hist) continue;
    if (!journal(scen, hist)) continue;
    Ctx c(rep, scen, hist);
    Sk sk(3, 8, 7); Model<W> m(3, 8, sk.hash_seeds);
    std::string b; for (size_t j = 0; j < widths[wi]; ++j) b += (char)(unsigned char)(0x90 + j);
    sk.update((const void*)b.data(), b.size(), (W)1); m.add(b, (W)1);
    std::vector<W> cells(sk.begin(), sk.end());
    if (!(cells == m.cells)) c.fail("hash-of-raw-bytes", first_diff(cells, m.cells, 8));
    rep.flush_ctx_fails(c.fails, scen, hist);
    rep.outcome("grid:raw-width"); rep.evaluations++; rep.states++; rep.transitions++; rep.traces++; cases++;
  }
  journal_clear();
  rep.scenarios.push_back(scen + ": " + std::to_string(cases) + " (configuration,value,overload) cases");
}

// ------------------------------------------------------------------------------------------------ family enumeration
// Confidence clause, decided over a fixed, completely enumerated family only (NOT a universal claim about hashing):
// all items 0..N-1 (as integers and as strings), three weight tables, configurations from suggest_num_buckets(eps) /
// suggest_num_hashes(1-delta) for (eps,delta) in {0.1,0.05}^2 plus direct configurations h in {1,2} (confidence
// 1-e^-h). For every item the over-estimate is compared with relative_error*total_weight; the number of exceedances
// must be <= delta*N + 5*sqrt(N*delta*(1-delta)).
static void family_enumeration(Report& rep, const Config& cfg) {
  typedef uint64_t W; typedef count_min_sketch<W> Sk;
  const std::string scen = "family_enumeration";
  if (!cfg.replay_scenario.empty() && cfg.replay_scenario != scen) return;
  size_t N = cfg.quick() ? 20000 : 200000;
  { size_t p = cfg.replay_history.find("/N"); if (p != std::string::npos) N = (size_t)strtoull(cfg.replay_history.c_str() + p + 2, nullptr, 10); }   // replay: the family size is part of the case name
  case_timeout_s() = 1800;   // one case is N updates + 3N queries; the per-case alarm is re-armed only every 64 cases
  struct Fc { double eps, delta; unsigned nh; uint32_t nb; bool suggested; };
  std::vector<Fc> fcs;
  const double vals[2] = {0.1, 0.05};
  for (int i = 0; i < 2; ++i) for (int j = 0; j < 2; ++j) { Fc f; f.eps = vals[i]; f.delta = vals[j]; f.nb = Sk::suggest_num_buckets(f.eps); f.nh = Sk::suggest_num_hashes(1.0 - f.delta); f.suggested = true; fcs.push_back(f); }
  for (unsigned h = 1; h <= 2; ++h) for (int i = 0; i < 2; ++i) { Fc f; f.eps = vals[i]; f.nb = Sk::suggest_num_buckets(f.eps); f.nh = h; f.delta = std::exp(-(double)h); f.suggested = false; fcs.push_back(f); }
  const uint64_t seeds[] = {DEFAULT_SEED, 7, 20260926ULL};
  const char* tables[] = {"uniform", "zipf", "heavy10"};
  uint64_t cases = 0, max_exceed_permille = 0;
  for (size_t fi = 0; fi < fcs.size(); ++fi) for (size_t si = 0; si < (cfg.quick() ? 2u : 3u); ++si) for (int ti = 0; ti < 3; ++ti) for (int kind = 0; kind < 2; ++kind) {
    const Fc& f = fcs[fi];
    std::string hist = std::string(f.suggested ? "suggest" : "direct") + "/eps" + ws(f.eps) + "/h" + std::to_string(f.nh) + "/b" + std::to_string(f.nb) + "/seed" + std::to_string(seeds[si]) + "/" + tables[ti] + (kind ? "/str" : "/int") + "/N" + std::to_string(N);
    if (f.suggested) hist += "/delta" + ws(f.delta);
    if (!cfg.replay_history.empty() && cfg.replay_history != hist) continue;
    if (!journal(scen, hist)) continue;
    Ctx c(rep, scen, hist); int a0 = asan_errors();
    Sk sk((uint8_t)f.nh, f.nb, seeds[si]);
    if (f.suggested) {
      c.ok("suggested-buckets-achieve-eps", sk.get_relative_error() <= f.eps * (1 + 1e-12), "relative error " + ws(sk.get_relative_error()) + " for requested " + ws(f.eps));
      c.ok("suggested-hashes-achieve-confidence", 1.0 - std::exp(-(double)f.nh) >= (1.0 - f.delta) - 1e-12, std::to_string(f.nh) + " hashes for confidence " + ws(1.0 - f.delta));
    }
    Model<W> m((uint8_t)f.nh, f.nb, sk.hash_seeds);
    std::vector<W> wt(N); std::vector<std::string> keys(N);
    for (size_t i = 0; i < N; ++i) {
      wt[i] = ti == 0 ? 1 : ti == 1 ? (W)(N / (i + 1)) : (i < 10 ? (W)(4 * N) : 1);
      if (wt[i] == 0) wt[i] = 1;
      if (kind == 0) { sk.update((uint64_t)i, wt[i]); keys[i] = le8(i); }
      else { keys[i] = "k" + std::to_string(i); sk.update(keys[i], wt[i]); }
      m.add(keys[i], wt[i]);
    }
    std::vector<W> cells(sk.begin(), sk.end());
    if (!(cells == m.cells)) c.fail("cells==model", first_diff(cells, m.cells, f.nb));
    c.eq("total_weight==sum|w|", sk.get_total_weight(), m.total);
    const double thr = sk.get_relative_error() * (double)sk.get_total_weight();
    uint64_t exceed = 0, under = 0, above_total = 0, bounds_bad = 0, row0_exceed = 0;
    for (size_t i = 0; i < N; ++i) {
      W e = kind == 0 ? sk.get_estimate((uint64_t)i) : sk.get_estimate(keys[i]);
      W lb = kind == 0 ? sk.get_lower_bound((uint64_t)i) : sk.get_lower_bound(keys[i]);
      W ub = kind == 0 ? sk.get_upper_bound((uint64_t)i) : sk.get_upper_bound(keys[i]);
      if (e < wt[i]) under++;
      if (e > sk.get_total_weight()) above_total++;
      if (!(lb <= e && e <= ub)) bounds_bad++;
      if (e >= wt[i] && (double)(e - wt[i]) > thr) exceed++;
      if ((double)(m.cells[m.cell(0, keys[i])] - wt[i]) > thr) row0_exceed++;
    }
    const double allow = f.delta * (double)N + 5.0 * std::sqrt((double)N * f.delta * (1 - f.delta));
    c.ok("true<=estimate", under == 0, std::to_string(under) + " items under-estimated");
    c.ok("estimate<=total_weight", above_total == 0, std::to_string(above_total) + " estimates above the total weight");
    c.ok("lower_bound<=estimate<=upper_bound", bounds_bad == 0, std::to_string(bounds_bad) + " items with disordered bounds");
    c.ok("exceedances<=delta*N+5sigma", (double)exceed <= allow, std::to_string(exceed) + " of " + std::to_string(N) + " items over-estimated by more than relative_error*total_weight; allowed " + ws(allow) + " (delta " + ws(f.delta) + ")");
    if (asan_errors() != a0) c.fail("asan", "AddressSanitizer report");
    rep.flush_ctx_fails(c.fails, scen, hist);
    uint64_t pm = exceed * 1000 / N; if (pm > max_exceed_permille) max_exceed_permille = pm;
    rep.outcome(std::string("family:") + tables[ti] + ":h" + std::to_string(f.nh) + (exceed == 0 ? ":no-exceedance" : exceed * 10 < (uint64_t)(f.delta * N) ? ":exceed<delta/10" : ":exceed>=delta/10") + (row0_exceed ? ":row0-exceeds" : ""));
    if (ti == 2) rep.sample(hist + ": exceedances " + std::to_string(exceed) + " allowed " + ws(allow) + " single-row exceedances " + std::to_string(row0_exceed), 16);
    rep.evaluations += N; rep.states++; rep.transitions++; rep.traces++; cases++;
  }
  journal_clear();
  rep.count("family_enumeration_cases", (double)cases);
  rep.setn("family_enumeration_items_per_case", (double)N);
  rep.setn("family_enumeration_max_exceedance_permille", (double)max_exceed_permille);
  rep.scenarios.push_back(scen + ": " + std::to_string(cases) + " (configuration,seed,weight table,item kind) cases x " + std::to_string(N) + " items; label family_enumeration: decided over this enumerated family only");
}

// ------------------------------------------------------------------------------------------------ main
template<class W> static void add_menu(std::vector<Task>& tasks, const Config& cfg, unsigned nh, uint32_t nb, uint64_t seed, bool sg, unsigned maxtot, int ni, int ns) {
  MenuSys<W> sys((uint8_t)nh, nb, seed, sg, ni, ns, maxtot);
  BfsLimits lim; lim.max_depth = 1000; lim.max_states = 4000000;
  Task t; t.name = sys.nm; const Config* cp = &cfg;
  t.fn = [sys, lim, cp](Report& rep) mutable { explore(sys, rep, *cp, lim); };
  tasks.push_back(t);
}
template<class W> static void add_tree(std::vector<Task>& tasks, const Config& cfg, unsigned nh, uint32_t nb, uint64_t seed, unsigned maxtot, bool two_weights) {
  TreeSys<W> sys((uint8_t)nh, nb, seed, two_weights, maxtot);
  BfsLimits lim; lim.max_depth = 1000; lim.max_states = 4000000;
  Task t; t.name = sys.nm; const Config* cp = &cfg;
  t.fn = [sys, lim, cp](Report& rep) mutable { explore(sys, rep, *cp, lim); };
  tasks.push_back(t);
}

// integer weight types with weights that no double represents exactly (above 2^53): total weight, cells and estimates are integer
// sums and must stay exact. Every sequence of up to 3 updates over 2 items x the huge-weight alphabet, then a merge with a copy.
template<class W> static void huge_weights(Report& rep, const Config& cfg, const std::string& scen) {
  if (!cfg.replay_scenario.empty() && cfg.replay_scenario != scen) return;
  typedef count_min_sketch<W> Sk; typedef unsigned __int128 U;
  const bool sg = std::is_signed<W>::value;
  std::vector<W> ws; ws.push_back((W)((1ULL << 53) + 1)); ws.push_back((W)((1ULL << 60) + 3)); ws.push_back((W)1); ws.push_back((W)((1ULL << 62) - 1));
  if (sg) { ws.push_back((W)(0 - (int64_t)((1ULL << 53) + 1))); ws.push_back((W)(0 - (int64_t)((1ULL << 60) + 3))); }
  const size_t A = ws.size() * 2; uint64_t n = 0;
  for (size_t len = 1; len <= 3; ++len) { size_t total = 1; for (size_t i = 0; i < len; ++i) total *= A;
    for (size_t code = 0; code < total; ++code) {
      std::string hist; size_t c = code; Sk sk(2, 4, 7); U tot = 0; __int128 truth[2] = {0, 0}; bool overflow = false;
      for (size_t i = 0; i < len; ++i) { const size_t op = c % A; c /= A; const int item = (int)(op % 2); const W w = ws[op / 2];
        hist += (i ? ";" : "") + std::string("u(i") + str(item) + "," + std::to_string((long long)w) + ")";
        const __int128 sw = (__int128)w; tot += (U)(sw < 0 ? -sw : sw); truth[item] += sw;
        if (tot > (U)(sg ? (uint64_t)INT64_MAX : UINT64_MAX)) overflow = true;
        if (!overflow) sk.update((uint64_t)item, w); }
      if (overflow) continue;
      if (!cfg.replay_history.empty() && cfg.replay_history != hist) continue;
      if (!journal(scen, hist)) continue;
      Ctx ctx(rep, scen, hist);
      ctx.ok("total-weight==sum-of-absolute-weights(exact)", (U)sk.get_total_weight() == tot, "total weight " + std::to_string((long long)sk.get_total_weight()) + " expected " + std::to_string((unsigned long long)tot));
      if (!sg) for (int it = 0; it < 2; ++it) {
        const W est = sk.get_estimate((uint64_t)it);
        ctx.ok("estimate>=true-weight(exact)", (__int128)est >= truth[it], "item " + str(it) + " estimate " + std::to_string((unsigned long long)est));
        ctx.ok("estimate<=total-weight(exact)", (U)est <= tot, "item " + str(it) + " estimate " + std::to_string((unsigned long long)est) + " total " + std::to_string((unsigned long long)tot));
      }
      if (tot <= (U)(sg ? (uint64_t)INT64_MAX : UINT64_MAX) / 2) { Sk a(sk), b(sk); a.merge(b); ctx.ok("merged-total-weight-exact", (U)a.get_total_weight() == 2 * tot, "merged total " + std::to_string((long long)a.get_total_weight())); }
      rep.flush_ctx_fails(ctx.fails, scen, hist); ++n;
    } }
  journal_clear();
  rep.evaluations += n; rep.states += n; rep.transitions += n; rep.traces += n;
  rep.scenarios.push_back(scen + ": " + str(n) + " sequences of up to 3 updates with weights beyond 2^53");
  rep.outcome(std::string("huge-weights|") + WName<W>::n());
}

int main(int argc, char** argv) {
  Config cfg = parse_args(argc, argv);
  std::string ht = oracle::self_test();
  if (!ht.empty()) { fprintf(stderr, "HARNESS-ERROR oracle hash self-test failed: %s\n", ht.c_str()); return 3; }
  forbid_unowned_draws();
  const bool q = cfg.quick();
  std::vector<Task> tasks;
  { Task t; t.name = "family_enumeration"; t.fn = [&cfg](Report& rep) {
      family_enumeration(rep, cfg);
      rep.assumptions.push_back("confidence clause: decided only over the enumerated family (items 0..N-1 as integers and strings, uniform/zipf/heavy10 weights, suggested and direct configurations, 2-3 seeds) with a 5-sigma allowance; it is a family enumeration, not a universal statement about MurmurHash3");
      rep.assumptions.push_back("item alphabet of the BFS: 6 integers, 3 strings (1, 3 and 25 bytes), the empty string, 2 operand-only and 2 never-inserted items; weights {0,1,3} (signed scenarios add {-1,-2}); streams bounded by total weight (name suffix /W<n>); num_hashes 1..3, num_buckets {3,4,5,8}, 2 seeds; larger shapes (up to 255 hashes, 100003 buckets) only in the hash-paths grid");
      rep.assumptions.push_back("row seeds are read from the sketch (private field); their derivation from the seed is only checked to be deterministic and preserved by serialization");
      rep.assumptions.push_back("signed scenarios go beyond the statement's non-negative premise and check only cell linearity, total weight == sum|w|, lb<=est<=ub and merge linearity");
      rep.sets("rule", "BFS over update/merge/refused-merge/round-trip on the product (sketch x exact counts x independent cell model x control sketch) to the fixpoint of the space of histories whose total weight sum|w| stays <= the stated bound (menu: 6 or 5 quick / 10 or 9 thorough; signed: 5/7; merge trees over three sketches: 5/8), no-op operations (weight 0, empty string, self merge, five kinds of incompatible merge in both directions, three serialize round trips followed by one update and one merge) probed in every state; complete grids for overload hashing and for the confidence family. Distinct = distinct outcome tag (emptiness, over-estimation present, absent item positive, estimate at total, operation kind and refusal outcome).");
    }; tasks.push_back(t); }
  { Task t; t.name = "huge-weights"; t.fn = [&cfg](Report& rep) { huge_weights<uint64_t>(rep, cfg, "huge-weights/u64"); huge_weights<int64_t>(rep, cfg, "huge-weights/i64"); }; tasks.push_back(t); }
  { Task t; t.name = "hash-paths"; t.fn = [&cfg](Report& rep) { hash_paths_grid<uint64_t>(rep, cfg); hash_paths_grid<int64_t>(rep, cfg); hash_paths_grid<double>(rep, cfg); }; tasks.push_back(t); }
  const unsigned hs[] = {1, 2, 3}; const uint32_t bs[] = {3, 4, 5, 8}; const uint64_t seeds[] = {DEFAULT_SEED, 7};
  const unsigned dm = q ? 6 : 10;   // bound on the total stream weight of the menu systems (BFS runs to the fixpoint)
  // (task order = start order: the small, diverse scenarios first, the large u64 menu systems last)
  // signed weights (int64_t, double)
  for (int hi = 0; hi < 3; ++hi) for (int bi = 0; bi < 4; ++bi) {
    if (q && !((hi == 1 && bi == 1) || (hi == 0 && bi == 0))) continue;
    add_menu<int64_t>(tasks, cfg, hs[hi], bs[bi], seeds[(hi + bi) & 1], true, q ? 5 : 7, 3, 2);
    if (!q || hi == 1) add_menu<double>(tasks, cfg, hs[hi], bs[bi], seeds[(hi + bi + 1) & 1], true, q ? 5 : 7, 3, 2);
  }
  // merge trees over three sketches
  for (int hi = 0; hi < 3; ++hi) for (int bi = 0; bi < 4; ++bi) {
    if (q && !((hi == 1 && bi == 0) || (hi == 0 && bi == 1) || (hi == 2 && bi == 3))) continue;
    add_tree<uint64_t>(tasks, cfg, hs[hi], bs[bi], seeds[(hi + bi) & 1], q ? 5 : 8, true);
  }
  // other weight types: non-negative streams
  for (int hi = 0; hi < 3; ++hi) for (int bi = 0; bi < 4; ++bi) {
    if (q && !((hi == 1 && bi == 0) || (hi == 2 && bi == 2))) continue;
    add_menu<double>(tasks, cfg, hs[hi], bs[bi], seeds[(hi + bi) & 1], false, dm - 1, 6, 3);
    add_menu<int64_t>(tasks, cfg, hs[hi], bs[bi], seeds[(hi + bi + 1) & 1], false, dm - 1, 6, 3);
  }
  for (int hi = 0; hi < 3; ++hi) for (int bi = 0; bi < 4; ++bi) for (int si = 0; si < 2; ++si)
    add_menu<uint64_t>(tasks, cfg, hs[hi], bs[bi], seeds[si], false, (q && si == 1) ? dm - 1 : dm, 6, 3);   // quick: second seed one unit shallower
  return run_tasks(cfg, "C14", tasks);
}
