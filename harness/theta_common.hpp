// shared by C01/C02/C13: typed input values, their oracle hashes, tiny-configuration constructors
#ifndef THETA_COMMON_HPP
#define THETA_COMMON_HPP
#include "core.hpp"
#include "oracle_hash.hpp"
#include <theta_sketch.hpp>
#include <cmath>
#include <limits>

namespace tc {
using namespace datasketches;

enum Kind { U64, I64, U32, I32, U16, I16, U8, I8, F64, F32, STR, RAW };

struct Val {
  Kind kind; uint64_t bits; double d; std::string s; std::string label;
};

inline Val vu64(uint64_t v) { Val x; x.kind = U64; x.bits = v; x.d = 0; x.label = "u64:" + std::to_string(v); return x; }
inline Val vi64(int64_t v) { Val x; x.kind = I64; x.bits = (uint64_t)v; x.d = 0; x.label = "i64:" + std::to_string(v); return x; }
inline Val vu32(uint32_t v) { Val x; x.kind = U32; x.bits = v; x.d = 0; x.label = "u32:" + std::to_string(v); return x; }
inline Val vi32(int32_t v) { Val x; x.kind = I32; x.bits = (uint64_t)(int64_t)v; x.d = 0; x.label = "i32:" + std::to_string(v); return x; }
inline Val vu16(uint16_t v) { Val x; x.kind = U16; x.bits = v; x.d = 0; x.label = "u16:" + std::to_string(v); return x; }
inline Val vi16(int16_t v) { Val x; x.kind = I16; x.bits = (uint64_t)(int64_t)v; x.d = 0; x.label = "i16:" + std::to_string(v); return x; }
inline Val vu8(uint8_t v) { Val x; x.kind = U8; x.bits = v; x.d = 0; x.label = "u8:" + std::to_string((int)v); return x; }
inline Val vi8(int8_t v) { Val x; x.kind = I8; x.bits = (uint64_t)(int64_t)v; x.d = 0; x.label = "i8:" + std::to_string((int)v); return x; }
inline Val vf64(double v, const std::string& l = "") { Val x; x.kind = F64; x.bits = 0; x.d = v; x.label = "f64:" + (l.empty() ? mc::str(v) : l); return x; }
inline Val vf32(float v, const std::string& l = "") { Val x; x.kind = F32; x.bits = 0; x.d = v; x.label = "f32:" + (l.empty() ? mc::str(v) : l); return x; }
inline Val vstr(const std::string& v) { Val x; x.kind = STR; x.bits = 0; x.d = 0; x.s = v; x.label = "str:" + v; return x; }
inline Val vraw(const std::string& v) { Val x; x.kind = RAW; x.bits = 0; x.d = 0; x.s = v; x.label = "raw:" + std::to_string(v.size()); return x; }

// Oracle: the 128-bit hash the documented (Java-compatible) canonicalisation prescribes; valid=false if the input is ignored
inline bool oracle_hash128(const Val& v, uint64_t seed, oracle::H128& out) {
  switch (v.kind) {
    case U64: out = oracle::hash_i64((int64_t)v.bits, seed); return true;
    case I64: out = oracle::hash_i64((int64_t)v.bits, seed); return true;
    // 32/16/8-bit integers: unsigned reinterpreted as signed of the same width, then sign-extended to 64 bits
    case U32: out = oracle::hash_i64((int64_t)(int32_t)(uint32_t)v.bits, seed); return true;
    case I32: out = oracle::hash_i64((int64_t)v.bits, seed); return true;
    case U16: out = oracle::hash_i64((int64_t)(int16_t)(uint16_t)v.bits, seed); return true;
    case I16: out = oracle::hash_i64((int64_t)v.bits, seed); return true;
    case U8: out = oracle::hash_i64((int64_t)(int8_t)(uint8_t)v.bits, seed); return true;
    case I8: out = oracle::hash_i64((int64_t)v.bits, seed); return true;
    case F64: out = oracle::hash_double(v.d, seed); return true;
    case F32: out = oracle::hash_double((double)(float)v.d, seed); return true;
    case STR: if (v.s.empty()) return false; out = oracle::hash_bytes(v.s.data(), v.s.size(), seed); return true;
    case RAW: out = oracle::hash_bytes(v.s.data(), v.s.size(), seed); return true;
  }
  return false;
}

template<class Sk> void do_update(Sk& sk, const Val& v) {
  switch (v.kind) {
    case U64: sk.update((uint64_t)v.bits); break;
    case I64: sk.update((int64_t)v.bits); break;
    case U32: sk.update((uint32_t)v.bits); break;
    case I32: sk.update((int32_t)(int64_t)v.bits); break;
    case U16: sk.update((uint16_t)v.bits); break;
    case I16: sk.update((int16_t)(int64_t)v.bits); break;
    case U8: sk.update((uint8_t)v.bits); break;
    case I8: sk.update((int8_t)(int64_t)v.bits); break;
    case F64: sk.update((double)v.d); break;
    case F32: sk.update((float)v.d); break;
    case STR: sk.update(v.s); break;
    case RAW: sk.update((const void*)v.s.data(), v.s.size()); break;
  }
}

// typed boundary grid used to decide input canonicalisation completely per overload
inline std::vector<Val> typed_grid() {
  std::vector<Val> g;
  const uint64_t u64s[] = {0, 1, 2, 5, 127, 128, 255, 256, 32767, 32768, 65535, 65536, 2147483647ULL, 2147483648ULL, 4294967295ULL, 4294967296ULL,
    0x7fffffffffffffffULL, 0x8000000000000000ULL, 0xffffffffffffffffULL, 0xfffffffffffffffbULL, 4000000000ULL};
  for (size_t i = 0; i < sizeof(u64s) / sizeof(u64s[0]); ++i) { g.push_back(vu64(u64s[i])); g.push_back(vi64((int64_t)u64s[i])); g.push_back(vu32((uint32_t)u64s[i])); g.push_back(vi32((int32_t)u64s[i]));
    g.push_back(vu16((uint16_t)u64s[i])); g.push_back(vi16((int16_t)u64s[i])); g.push_back(vu8((uint8_t)u64s[i])); g.push_back(vi8((int8_t)u64s[i])); }
  for (int i = -130; i <= 130; i += 13) { g.push_back(vi64(i)); g.push_back(vi32(i)); g.push_back(vi16((int16_t)i)); g.push_back(vi8((int8_t)i)); }
  const double inf = std::numeric_limits<double>::infinity();
  uint64_t nan1b = 0x7ff8000000000000ULL, nan2b = 0xfff8000000000001ULL, nan3b = 0x7ff0000000000001ULL; double n1, n2, n3;
  memcpy(&n1, &nan1b, 8); memcpy(&n2, &nan2b, 8); memcpy(&n3, &nan3b, 8);
  const double ds[] = {0.0, -0.0, 1.0, -1.0, 1.5, 0.1, 5.0, 1e300, -1e300, 4.9e-324, 2.2250738585072014e-308, inf, -inf, 3.4028234663852886e38, 16777217.0};
  for (size_t i = 0; i < sizeof(ds) / sizeof(ds[0]); ++i) { g.push_back(vf64(ds[i], i == 1 ? "-0" : "")); g.push_back(vf32((float)ds[i], i == 1 ? "-0" : "")); }
  g.push_back(vf64(n1, "nan1")); g.push_back(vf64(n2, "nan2")); g.push_back(vf64(n3, "nan3")); g.push_back(vf32(std::numeric_limits<float>::quiet_NaN(), "nan"));
  { uint32_t fb = 0xffc00001u; float f; memcpy(&f, &fb, 4); g.push_back(vf32(f, "nan-neg-payload")); }
  const char* ss[] = {"", "a", "ab", "abcdefg", "abcdefgh", "abcdefghi", "0123456789abcde", "0123456789abcdef", "0123456789abcdefg", "The quick brown fox jumps over the lazy dog"};
  for (size_t i = 0; i < sizeof(ss) / sizeof(ss[0]); ++i) { g.push_back(vstr(ss[i])); g.push_back(vraw(ss[i])); }
  g.push_back(vraw(std::string("\0\0\0\0\0\0\0\0", 8))); // same bytes as int64 0
  g.push_back(vstr(std::string("a\0b", 3)));
  return g;
}

} // namespace tc
#endif
