// C04: an HLL union equals the sketch of the concatenated streams at reduced precision.
// E1 (BFS over the hll_union object, all histories up to a length bound, states de-duplicated) with an operand menu of
// sketches built by coupon injection (lg_k x target type x mode/state, addresses chosen to collide after folding), raw item
// updates, the observers that run the deferred rebuild, get_result and reset. Oracle: the set of all coupons offered and the
// minimum lg_k of the HLL-mode operands; in every state each get_result(type) must have that lg_k and exactly the model's
// content folded to it, and equal a control sketch fed every coupon. Plus a typed grid for the union's raw update overloads.
#define MC_MAIN
#include "core.hpp"
#include "choice.hpp"
#include "bfs.hpp"
#include "theta_common.hpp"
#include "hll_common.hpp"
#include <memory>

using namespace mc;
using namespace datasketches;
using hc::Sk; using hc::View;

struct Operand {
  std::string name; int lg_k; target_hll_type type; bool full; std::vector<uint32_t> coupons, sorted;
  int mode; std::string canon0; std::shared_ptr<Sk> sk;   // prebuilt instance offered by const reference
};

static std::vector<uint32_t> operand_coupons(const std::string& st, int lg, int ti) {
  std::vector<uint32_t> c; const uint32_t k = 1u << lg;
  if (st == "LIST3") {
    c.push_back(hc::mk_coupon(1, 2 + ti));                              // slot 1
    c.push_back(hc::mk_coupon(1 + k / 2, 3));                           // folds onto slot 1 one level down
    c.push_back(hc::mk_coupon(2 | (1u << (lg + 3)), 1 + ti));           // slot 2 with a high address bit: distinct coupon, same slot
  } else if (st == "SET12") {
    for (uint32_t i = 0; i < 12; ++i) c.push_back(hc::mk_coupon(((i * 37 + 5) % k) | ((i & 3) << (lg + 1)), 1 + (i + ti) % 4));
  } else if (st == "HLLP") {
    const uint32_t n = lg < 8 ? 8 : (lg == 8 ? 25 : 49);                // exactly the promoting coupon count
    for (uint32_t i = 0; i < n; ++i) c.push_back(hc::mk_coupon((i * 37 + ti) % k, 1 + (i + ti) % 3));
  } else if (st == "HLLCM") {
    for (uint32_t s = 0; s < k; ++s) c.push_back(hc::mk_coupon(s, 2 + (s * 5 + (s >> 2) + ti) % 4));   // every slot >= 2: HLL_4 cur_min 2
  } else if (st == "HLLAUX") {
    for (uint32_t s = 0; s < k; ++s) c.push_back(hc::mk_coupon(s, 1 + (s + ti) % 3));
    c.push_back(hc::mk_coupon(3, 17 + ti)); c.push_back(hc::mk_coupon(k - 1, 16)); c.push_back(hc::mk_coupon(k / 2 + 1, 40));   // HLL_4 exceptions at cur_min 1
    if (ti == 2) c.push_back(hc::mk_coupon(0, 63));
    // values above 15 (more than four bits) in slots of every residue mod 4: the 6-bit packing puts four registers in three bytes
    c.push_back(hc::mk_coupon(4, 33)); c.push_back(hc::mk_coupon(8, 18)); c.push_back(hc::mk_coupon(2, 21)); c.push_back(hc::mk_coupon(6, 19)); c.push_back(hc::mk_coupon(9, 25));
  } else if (st == "FS2") {
    c.push_back(hc::mk_coupon(5, 3)); c.push_back(hc::mk_coupon(5 + k / 2, 6));
  }
  return c;
}

// menu: 0 = full (76 operands), 1 = 22-operand sub-menu, 2 = 43-operand medium menu
static std::vector<Operand> make_operands(int menu) {
  const bool sub_menu = menu == 1;
  std::vector<Operand> ops;
  const int lgs[5] = { 4, 5, 6, 8, 9 };
  const char* states[5] = { "LIST3", "SET12", "HLLP", "HLLCM", "HLLAUX" };
  for (int li = 0; li < 5; ++li) {
    const int lg = lgs[li];
    for (int si = 0; si < 5; ++si) for (int ti = 0; ti < 3; ++ti) {
      if (si == 1 && lg < 8) continue;
      if (sub_menu) {   // 22-operand sub-menu for the deepest bound
        bool take;
        if (lg <= 6) take = (si == 0 && ti == 2) || (si == 2 && ti == li % 3) || (si == 3 && ti == (li + 1) % 3) || (si == 4 && ti == 0);
        else take = (lg == 8 && ((si == 1 && ti == 0) || (si == 2 && ti == 2) || (si == 4 && ti == 1))) || (lg == 9 && ((si == 3 && ti == 0) || (si == 0 && ti == 1) || (si == 1 && ti == 2)));
        if (!take) continue;
      }
      if (menu == 2) {   // one LIST/SET type, two types for each HLL state, rotating with lg_k
        if (si <= 1 ? ti != (li + si) % 3 : ti == (li + si) % 3) continue;
      }
      Operand o; o.lg_k = lg; o.type = hc::TYPES[ti]; o.full = false; o.coupons = operand_coupons(states[si], lg, ti);
      o.name = std::string(states[si]) + "/" + str(lg) + "/" + hc::type_name(o.type); ops.push_back(o);
    }
    if (!sub_menu || lg <= 6) { Operand o; o.lg_k = lg; o.type = hc::TYPES[(li + 2) % 3]; o.full = true; o.coupons = operand_coupons("FS2", lg, 0); o.name = "FS2/" + str(lg) + "/" + hc::type_name(o.type); ops.push_back(o); }
    if (menu == 0 || lg == 5) { Operand o; o.lg_k = lg; o.type = hc::TYPES[li % 3]; o.full = false; o.name = "EMPTY/" + str(lg) + "/" + hc::type_name(o.type); ops.push_back(o); }
  }
  return ops;
}

struct UnionSys {
  struct State {
    hll_union u; std::vector<uint32_t> coupons /* model: sorted, distinct */; int min_lg, min_lg_ever, n_ops, n_updates; int last_kind;
    explicit State(int lgm): u((uint8_t)lgm), min_lg(lgm), min_lg_ever(lgm), n_ops(0), n_updates(0), last_kind(-1) {}
  };
  enum Kind { K_LVALUE, K_RVALUE, K_RAW, K_OBSERVE, K_RESULT, K_RESET };
  // est: the update is followed by get_estimate(), the observer that runs the deferred rebuild. Observers are idempotent, so
  // "update, optionally followed by get_estimate" covers every interleaving of that observer with the updates.
  struct Op { Kind kind; int arg; bool est; std::string name; };

  int lg_max, depth; size_t group, groups; int menu; std::string nm;
  std::vector<Operand> operands; std::vector<Op> ops; uint32_t raw_coupon[3];

  UnionSys(int lgm, int d, size_t g, size_t G, int mn): lg_max(lgm), depth(d), group(g), groups(G), menu(mn) {
    nm = "union/lgmax" + str(lgm) + "/d" + str(d) + (mn == 1 ? "/sub" : mn == 2 ? "/medium" : "/full");   // one scenario, explored in G shards (by first operation)
    operands = make_operands(mn);
    for (int est = 0; est < 2; ++est) {
      for (size_t i = 0; i < operands.size(); ++i) {
        Op o; o.est = est != 0; o.arg = (int)i;
        o.kind = K_LVALUE; o.name = "L:" + operands[i].name + (est ? "+est" : ""); ops.push_back(o);
        o.kind = K_RVALUE; o.name = "R:" + operands[i].name + (est ? "+est" : ""); ops.push_back(o);
      }
      for (int i = 0; i < 3; ++i) { Op o; o.est = est != 0; o.kind = K_RAW; o.arg = i; o.name = "raw(" + str(i + 1) + ")" + (est ? "+est" : ""); ops.push_back(o); }
    }
    for (int i = 0; i < 3; ++i) raw_coupon[i] = hc::coupon_of_hash(oracle::hash_i64(i + 1, DEFAULT_SEED));
    const char* obs[3] = { "get_estimate", "get_composite_estimate", "get_lower_bound(1)" };
    for (int i = 0; i < 3; ++i) { Op o; o.est = false; o.kind = K_OBSERVE; o.arg = i; o.name = obs[i]; ops.push_back(o); }
    { Op o; o.est = false; o.kind = K_RESULT; o.arg = 0; o.name = "get_result(x3)"; ops.push_back(o); }
    { Op o; o.est = false; o.kind = K_RESET; o.arg = 0; o.name = "reset"; ops.push_back(o); }
  }
  // operands are built after the fork, inside the task, by coupon injection only
  void prepare() {
    for (size_t i = 0; i < operands.size(); ++i) {
      Operand& o = operands[i];
      o.sk.reset(new Sk(hc::build(o.lg_k, o.type, o.full, o.coupons)));
      o.mode = o.sk->get_current_mode(); o.canon0 = hc::canon(*o.sk, true);
      o.sorted = o.coupons; std::sort(o.sorted.begin(), o.sorted.end()); o.sorted.erase(std::unique(o.sorted.begin(), o.sorted.end()), o.sorted.end());
    }
  }
  std::string name() const { return nm; }
  size_t nops() const { return ops.size(); }
  std::string opname(size_t i) const { return ops[i].name; }
  State* make() { return new State(lg_max); }

  void offer(State& s, const Operand& o) {
    std::vector<uint32_t> merged; merged.reserve(s.coupons.size() + o.sorted.size());
    std::set_union(s.coupons.begin(), s.coupons.end(), o.sorted.begin(), o.sorted.end(), std::back_inserter(merged));
    s.coupons.swap(merged);
    if (o.mode == HLL && !o.coupons.empty()) { s.min_lg = std::min(s.min_lg, o.lg_k); s.min_lg_ever = std::min(s.min_lg_ever, o.lg_k); }
    s.n_updates++;
  }
  void observe(State& s, int which, const std::string& opname, Ctx* ctx) {
    hll_union& u = s.u;
    double v = which == 0 ? u.get_estimate() : which == 1 ? u.get_composite_estimate() : u.get_lower_bound(1);
    if (!ctx) return;
    if (!(std::isfinite(v) && v >= 0)) ctx->fail("observer-finite>=0", opname + " returned " + str(v));
    if (which == 1) { // the composite estimate is a function of the registers only: compare with a control sketch of the union's lg_k
      const std::vector<uint32_t>& all = s.coupons;
      const int lg = u.get_lg_config_k();
      if (lg >= 4 && lg <= 21) {
        Sk ctrl = hc::build(lg, HLL_8, false, all);
        if (ctrl.get_current_mode() == u.gadget_.get_current_mode() && !hc::near_eq(v, ctrl.get_composite_estimate(), 1e-9, 1e-12))
          ctx->fail("union-composite==control-composite", "got " + str(v) + " expected " + str(ctrl.get_composite_estimate()));
      }
    }
  }
  bool apply(State& s, size_t opi, Ctx* ctx) {
    const Op& op = ops[opi];
    if (s.n_ops == 0 && groups > 1 && opi % groups != group) return false;       // the first operation of a history selects the shard
    s.n_ops++; s.last_kind = (int)op.kind;
    hll_union& u = s.u;
    switch (op.kind) {
      case K_LVALUE: {
        const Operand& o = operands[(size_t)op.arg];
        u.update(*o.sk);
        if (ctx && hc::canon(*o.sk, true) != o.canon0) ctx->fail("const-operand-unchanged", "update(const&) modified its argument " + o.name);
        offer(s, o); break; }
      case K_RVALUE: {
        const Operand& o = operands[(size_t)op.arg];
        Sk fresh(*o.sk);                                                          // update(&&) consumes a fresh copy of the operand
        u.update(std::move(fresh));
        offer(s, o); break; }
      case K_RAW: {
        u.update((uint64_t)(op.arg + 1));
        std::vector<uint32_t>::iterator it = std::lower_bound(s.coupons.begin(), s.coupons.end(), raw_coupon[op.arg]);
        if (it == s.coupons.end() || *it != raw_coupon[op.arg]) s.coupons.insert(it, raw_coupon[op.arg]);
        s.n_updates++; break; }
      case K_OBSERVE: observe(s, op.arg, op.name, ctx); break;
      case K_RESULT: for (int t = 0; t < 3; ++t) { Sk r = u.get_result(hc::TYPES[t]); (void)r; } break;
      case K_RESET: u.reset(); s.coupons.clear(); s.min_lg = lg_max; break;
    }
    if (op.est) observe(s, 0, op.name, ctx);
    return true;
  }
  std::string canon(State& s) {
    uint64_t h = 1469598103934665603ULL;
    if (!s.coupons.empty()) h = fnv1a(s.coupons.data(), 4 * s.coupons.size(), h);
    return "U" + str(lg_max) + "|" + hc::canon(s.u.gadget_, true) + "|M" + str(s.coupons.size()) + ":" + hex64(h) + "/lg" + str(s.min_lg) + "/ever" + str(s.min_lg_ever);
  }

  void check(State& s, Ctx& c) {
    const bool nothing = s.coupons.empty();
    // lg_k the statement prescribes: min(lg_max_k, lg_k of every HLL-mode input). After a reset the statement does not say whether inputs
    // offered before the reset still count; both readings are accepted (band), without a reset the band is a single value.
    const int lg_hi = std::min(lg_max, s.min_lg), lg_lo = std::min(lg_max, s.min_lg_ever);
    { const std::string p = "union:";
      HC_EQ("is_empty", s.u.is_empty(), nothing);
      const int ulg = s.u.get_lg_config_k();
      HC_OK("lg_k==min(lg_max_k,HLL-inputs)", ulg >= lg_lo && ulg <= lg_hi, "union lg_k " + str(ulg) + " expected " + (lg_lo == lg_hi ? str(lg_hi) : str(lg_lo) + ".." + str(lg_hi)));
      HC_EQ("target-type", (int)s.u.get_target_type(), (int)HLL_8);
    }
    const std::vector<uint32_t>& all = s.coupons;
    double comp[3]; int modes[3]; int rlg = -1; bool content_ok = true;
    const std::string p = "result:";   // the target type of the failing result is named in the message, not in the check id
    for (int t = 0; t < 3; ++t) {
      const std::string ty = std::string("get_result(") + hc::type_name(hc::TYPES[t]) + "): ";
      Sk r = s.u.get_result(hc::TYPES[t]);
      View v = hc::view_private(r, &c, p);
      modes[t] = v.mode; comp[t] = r.get_composite_estimate();
      HC_OK("target-type", r.get_target_type() == hc::TYPES[t], ty + "type " + str((int)r.get_target_type()));
      const int lg = r.get_lg_config_k();
      HC_OK("lg_k==min(lg_max_k,HLL-inputs)", lg >= lg_lo && lg <= lg_hi, ty + "lg_k " + str(lg) + " expected " + (lg_lo == lg_hi ? str(lg_hi) : str(lg_lo) + ".." + str(lg_hi)));
      HC_OK("lg_k==union-lg_k", lg == (int)s.u.get_lg_config_k(), ty + "lg_k " + str(lg) + " but the union reports " + str((int)s.u.get_lg_config_k()));
      HC_OK("is_empty", r.is_empty() == nothing, ty + "is_empty() " + str(r.is_empty()) + " with " + str(s.coupons.size()) + " coupons offered");
      HC_OK("no-rebuild-flag", !v.rebuild, ty + "result carries the deferred-rebuild flag");
      if (lg < 4 || lg > 21) { content_ok = false; continue; }
      if (rlg < 0) rlg = lg;
      const std::vector<uint8_t> want = hc::fold(s.coupons, lg);
      if (v.mode != HLL) {   // nothing but coupon-mode inputs so far: the coupon set itself
        if (!(v.coupons.size() == s.coupons.size() && std::equal(v.coupons.begin(), v.coupons.end(), s.coupons.begin()))) { c.fail(p + "coupons==all-offered", ty + hc::coupons_diff(v.coupons, s.coupons)); content_ok = false; }
      } else {
        if (v.regs != want) { c.fail(p + "registers==all-offered-folded", ty + "lg_k " + str(lg) + " " + hc::first_diff(v.regs, want)); content_ok = false; }
        const hc::Derived d = hc::derive(v.regs);
        const bool def_min = v.cur_min == d.minv && v.num_at_cur_min == d.n_at_min;
        // HLL_6/HLL_8 keep (0, zero slots) or, after a union rebuild, a cur_min > 0 that only asserts that no slot is zero
        const bool def_68 = (v.cur_min == 0 && v.num_at_cur_min == d.zeros) || (v.cur_min > 0 && v.cur_min <= d.minv && d.zeros == 0);
        HC_OK("curmin,numAtCurMin==definition", v.type == HLL_4 ? def_min : (def_min || def_68),
              ty + "cur_min " + str(v.cur_min) + " num_at_cur_min " + str(v.num_at_cur_min) + " but registers have " + str(d.zeros) + " zeros, min " + str(d.minv) + " x" + str(d.n_at_min));
        // only kxq0+kxq1 is observable (estimators use the sum); the union's rebuild books values >= 32 differently from the update path
        HC_OK("kxq0+kxq1==sum-2^-reg", hc::near_eq(v.kxq0 + v.kxq1, d.kxq0 + d.kxq1, 1e-9, 1e-12), ty + "got " + str(v.kxq0 + v.kxq1) + " expected " + str(d.kxq0 + d.kxq1));
      }
      if (t == 2 && content_ok) {   // public route: the documented updatable image of the HLL_8 result
        Sk::vector_bytes img = r.serialize_updatable(); View iv; std::string err;
        if (!hc::decode_image(img.data(), img.size(), iv, err)) c.fail(p + "image-decodes", err);
        else {
          HC_EQ("image-lg_k", iv.lg_k, lg); HC_EQ("image-mode", iv.mode, v.mode);
          if (iv.mode == HLL) { if (iv.regs != want) c.fail(p + "image-registers==all-offered-folded", hc::first_diff(iv.regs, want)); }
          else if (!(iv.coupons.size() == s.coupons.size() && std::equal(iv.coupons.begin(), iv.coupons.end(), s.coupons.begin()))) c.fail(p + "image-coupons==all-offered", hc::coupons_diff(iv.coupons, s.coupons));
        }
      }
      if (t == 0 && content_ok) {
        // control: one sketch of that lg_k fed every coupon offered (a second, model-free expectation)
        Sk ctrl = hc::build(lg, hc::TYPES[(lg + s.n_updates) % 3], false, all);
        View cv = hc::view_private(ctrl, nullptr, "");
        if (v.regs_at(lg) != cv.regs_at(lg)) c.fail(p + "content==control-sketch", ty + hc::first_diff(v.regs_at(lg), cv.regs_at(lg)));
        if (v.mode != HLL && cv.mode != HLL && v.coupons != cv.coupons) c.fail(p + "coupons==control-sketch", ty + "coupon sets differ");
        if (v.mode == cv.mode) HC_OK("composite==control-composite", hc::near_eq(comp[t], ctrl.get_composite_estimate(), 1e-9, 1e-12), ty + "got " + str(comp[t]) + " expected " + str(ctrl.get_composite_estimate()));
      }
    }
    for (int t = 1; t < 3; ++t) {
      HC_EQ("same-mode-for-all-target-types", modes[t], modes[0]);
      if (content_ok) HC_NEAR("same-composite-for-all-target-types", comp[t], comp[0], 1e-9, 1e-12);
    }
    // vacuity tag
    static const char* KIND[6] = { "lvalue", "rvalue", "raw", "observe", "result", "reset" };
    const HllSketchImpl<hc::A>* g = s.u.gadget_.sketch_impl;
    std::string tag = std::string("gadget-") + hc::mode_name(g->getCurMode());
    if (g->getCurMode() == HLL) tag += static_cast<const HllArray<hc::A>*>(g)->rebuild_kxq_curmin_ ? "|rebuild-pending" : "|rebuilt";
    tag += rlg < lg_max ? "|downsampled" : "|lgmax";
    if (lg_lo != lg_hi) tag += rlg == lg_hi ? "|after-reset-lgk-restored" : "|after-reset-lgk-kept-reduced";
    tag += nothing ? "|empty" : "";
    tag += std::string("|after-") + (s.last_kind < 0 ? "start" : KIND[s.last_kind]);
    c.rep.outcome(tag);
  }
};

// the union's raw update overloads feed the gadget: complete typed grid against the independent hash
static void typed_grid_check(Report& rep, const Config& cfg) {
  if (!cfg.replay_scenario.empty() && cfg.replay_scenario != "typed-grid") return;
  if (!cfg.only.empty() && std::string("typed-grid").find(cfg.only) == std::string::npos) return;
  std::vector<tc::Val> g = tc::typed_grid();
  std::set<std::string> kinds; uint64_t cases = 0, ignored = 0;
  for (size_t i = 0; i < g.size(); ++i) for (int lg = 4; lg <= 12; lg += 8) {
    std::string hist = g[i].label + "/lgmax" + str(lg);
    if (!cfg.replay_history.empty() && cfg.replay_history != hist) continue;
    if (!journal("typed-grid", hist)) continue;
    Ctx c(rep, "typed-grid", hist); int a0 = asan_errors(); const std::string p = "grid:";
    oracle::H128 h; const bool valid = tc::oracle_hash128(g[i], DEFAULT_SEED, h);
    hll_union u((uint8_t)lg);
    tc::do_update(u, g[i]);
    Sk r = u.get_result(HLL_8);
    View v = hc::view_private(r, &c, p);
    HC_EQ("lg_k", (int)r.get_lg_config_k(), lg);
    if (!valid) HC_OK("ignored-input-leaves-empty", u.is_empty() && r.is_empty() && v.coupons.empty(), "an input that must be ignored changed the union");
    else {
      HC_OK("nonempty-after-update", !u.is_empty() && !r.is_empty(), "");
      if (v.coupons.size() != 1) c.fail(p + "one-coupon", "got " + str(v.coupons.size()));
      else HC_EQ("coupon==(min(nlz(h2),62)+1)<<26|h1&mask26", v.coupons[0], hc::coupon_of_hash(h));
    }
    if (asan_errors() != a0) c.fail("asan", "AddressSanitizer report in this case");
    rep.flush_ctx_fails(c.fails, "typed-grid", hist);
    rep.evaluations++; rep.states++; rep.transitions++; rep.traces++; ++cases; if (!valid) ++ignored;
    kinds.insert(g[i].label.substr(0, 3));
    rep.outcome(std::string("grid|") + g[i].label.substr(0, 3) + (valid ? "" : "|ignored"));
  }
  journal_clear();
  rep.scenarios.push_back("typed-grid: " + str(cases) + " (value,lg_max_k) cases over " + str(kinds.size()) + " union update overloads, " + str(ignored) + " ignored inputs");
}

int main(int argc, char** argv) {
  Config cfg = parse_args(argc, argv);
  std::string ht = oracle::self_test();
  if (!ht.empty()) { fprintf(stderr, "HARNESS-ERROR oracle hash self-test failed: %s\n", ht.c_str()); return 3; }
  forbid_unowned_draws();
  const bool replay = !cfg.replay_scenario.empty();   // a replay must find its scenario whatever tier recorded it: build both tiers' scenarios
  std::vector<Task> tasks; std::set<std::string> names;
  { Task t; t.name = "typed-grid"; t.fn = [&cfg](Report& rep) {
      typed_grid_check(rep, cfg);
      rep.assumptions.push_back("operands are built by coupon injection (hll_sketch::coupon_update) at lg_k 4,5,6,8,9 x {HLL_4,HLL_6,HLL_8} x {LIST 3 coupons, SET 12 coupons (lg_k>=8), HLL just promoted, HLL with every slot >= 2 (HLL_4 cur_min 2), HLL with HLL_4 exceptions, started full-size with 2 coupons, empty}; raw items 1,2,3 through update(uint64_t), tied to coupons by the independent hash");
      rep.assumptions.push_back("lg_max_k in {4,5,6,8,9}; all histories of at most d operations (d = 2, 3 or 4 as named in the scenario; the engine's depth bound), an operation being update(const&) or update(&&) of a menu operand or a raw item update, each optionally followed by get_estimate() (the observers that run the deferred rebuild are idempotent, so this covers every interleaving), or a stand-alone observer, get_result x3, or reset");
      rep.assumptions.push_back("after reset() the statement does not say whether HLL-mode inputs offered before the reset still bound lg_k; either value is accepted there and the observed choice is tagged (after-reset-lgk-kept-reduced / -restored)");
      rep.sets("rule", "BFS on the product (hll_union x model) with alphabet update(const&) and update(&&) of every menu operand, raw update of 3 items, get_estimate/get_composite_estimate/get_lower_bound (they run the deferred rebuild), get_result x3, reset. Model: set of all coupons offered since the last reset, min lg_k of the HLL-mode operands. In every state each get_result(type) is compared with the model folded to the prescribed lg_k, with a control sketch fed every coupon, and through the documented HLL_8 image. Distinct = distinct (gadget mode, rebuild pending, down-sampled, emptiness, last operation kind) tag.");
    }; tasks.push_back(t); }
  const int lgmax[5] = { 4, 5, 6, 8, 9 };
  for (int tier = 0; tier < 2; ++tier) for (int pass = 0; pass < 2; ++pass) for (int li = 0; li < 5; ++li) {
    const bool q = replay ? tier == 0 : cfg.quick();
    if (!replay && tier) break;
    // quick:    full menu (76 operands) with histories of at most 2 operations; 22-operand sub-menu with at most 3.
    // thorough: full menu with at most 3 operations; 22-operand sub-menu with at most 4.
    // An operation is an update (optionally followed by get_estimate), an observer, get_result or reset. The engine's depth bound is
    // the history length; every state within the bound is generated and checked.
    const int menu = pass; const int depth = (pass == 0 ? 2 : 3) + (q ? 0 : 1);
    const size_t G = 1;   // sharding by first operation is supported (each shard re-explores states that commute, so it costs CPU); not needed at these sizes
    for (size_t g = 0; g < G; ++g) {
      UnionSys sys(lgmax[li], depth, g, G, menu);
      BfsLimits lim; lim.max_depth = depth; lim.max_states = 6000000;
      if (replay) { if (g || !names.insert(sys.nm).second) continue; sys.groups = 1; }   // a replay runs the recorded history once, unrestricted
      Task t; t.name = G == 1 ? sys.nm : sys.nm + "/shard" + str(g) + "of" + str(G); t.fn = [sys, lim, g, G, &cfg](Report& rep) mutable {
        sys.prepare(); const size_t n0 = rep.scenarios.size();
        Config c2 = cfg; c2.only.clear();   // the task name (with the shard) was already matched against --only by run_tasks
        explore(sys, rep, c2, lim);
        for (size_t i = n0; G > 1 && i < rep.scenarios.size(); ++i) rep.scenarios[i] = "shard " + str(g) + "/" + str(G) + " (histories whose first operation has index = " + str(g) + " mod " + str(G) + ") of " + rep.scenarios[i];
      };
      tasks.push_back(t);
    }
  }
  return run_tasks(cfg, "C04", tasks);
}
