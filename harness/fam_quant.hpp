// corpus adapters: KLL, REQ, classic quantiles
#ifndef FAM_QUANT_HPP
#define FAM_QUANT_HPP
#include "families.hpp"
#include <kll_sketch.hpp>
#include <req_sketch.hpp>
#include <quantiles_sketch.hpp>

namespace fam {
using namespace datasketches;

template<class T> struct Gen;
template<> struct Gen<float> { static float make(int i) { return (float)i * 0.5f; } };
template<> struct Gen<double> { static double make(int i) { return (double)i * 0.25; } };
template<> struct Gen<int> { static int make(int i) { return i; } };
template<> struct Gen<int64_t> { static int64_t make(int i) { return (int64_t)i * 1000003; } };
template<> struct Gen<std::string> { static std::string make(int i) { std::string s = "s" + std::to_string(i); if (i % 5 == 0) s += std::string((size_t)((i < 0 ? -i : i) % 23), 'x'); return s; } };
template<> struct Gen<mc::Item> { static mc::Item make(int i) { return mc::Item(i); } };

template<class T> struct SerdeOf { typedef serde<T> type; };
template<> struct SerdeOf<mc::Item> { typedef mc::ItemSerde type; };
template<class T> struct LessOf { typedef std::less<T> type; };
template<> struct LessOf<mc::Item> { typedef mc::ItemLess type; };

// kind: 0 KLL, 1 REQ, 2 classic
template<class Sk, class T, int KIND> struct QObj : Obj {
  typedef typename SerdeOf<T>::type SD;
  Sk sk; int next;
  explicit QObj(Sk&& s): sk(std::move(s)), next(1000) {}
  template<int K = KIND> static typename std::enable_if<K == 0 || K == 2, std::string>::type extra(const Sk& sk) { return "|eps=" + str(sk.get_normalized_rank_error(false)) + "," + str(sk.get_normalized_rank_error(true)); }
  template<int K = KIND> static typename std::enable_if<K == 1, std::string>::type extra(const Sk& sk) { return std::string("|hra=") + str(sk.is_HRA()) + "|rb=" + str(sk.get_rank_lower_bound(0.3, 2)) + "," + str(sk.get_rank_upper_bound(0.7, 2)); }
  std::string obs() { return obs_of(sk); }
  static std::string obs_of(const Sk& sk) {
    std::string o = "k=" + str(sk.get_k()) + "|n=" + str(sk.get_n()) + "|ret=" + str(sk.get_num_retained()) + "|empty=" + str(sk.is_empty()) + "|est=" + str(sk.is_estimation_mode());
    o += extra(sk);
    if (sk.is_empty()) return o;
    o += "|min=" + vstr(sk.get_min_item()) + "|max=" + vstr(sk.get_max_item()) + "|items=";
    std::vector<std::string> it; size_t guard = (size_t)sk.get_num_retained() + 4;
    for (auto i = sk.begin(); !(i == sk.end()) && it.size() < guard; ++i) it.push_back(str((*i).second) + ":" + vstr((*i).first));
    std::sort(it.begin(), it.end());
    for (size_t i = 0; i < it.size(); ++i) o += it[i] + ",";
    o += "|q=";
    for (int j = 0; j <= 8; ++j) o += vstr(sk.get_quantile(j / 8.0, true)) + "/" + vstr(sk.get_quantile(j / 8.0, false)) + ",";
    o += "|r=";
    for (int j = -1; j < 60; j += 7) { T v = Gen<T>::make(j); o += str(sk.get_rank(v, true)) + "/" + str(sk.get_rank(v, false)) + ","; }
    return o;
  }
  Bytes ser(unsigned h) { return to_bytes(sk.serialize(h, SD())); }
  Bytes ser_stream() { std::ostringstream os; sk.serialize(os, SD()); std::string s = os.str(); return Bytes(s.begin(), s.end()); }
  long advertised_size() { return (long)sk.get_serialized_size_bytes(SD()); }
  size_t ncont() { return 5; }
  std::string cont_name(size_t i) { return i == 0 ? "update(new)" : i == 1 ? "update(small)x3" : i == 2 ? "merge(operand)" : i == 3 ? "update x k" : "update x 400"; }
  void cont(size_t i) {
    if (i == 0) sk.update(Gen<T>::make(next++));
    else if (i == 1) { for (int j = 0; j < 3; ++j) sk.update(Gen<T>::make(-5 - j)); }
    else if (i == 2) { Sk o = make_operand(sk); sk.merge(o); }
    else if (i == 3) { for (int j = 0; j < 40; ++j) sk.update(Gen<T>::make(next++ % 17)); }
    else { for (int j = 0; j < 400; ++j) sk.update(Gen<T>::make((next++ * 31) % 211)); }   // long enough for the compaction schedule of a restored sketch to show
  }
  template<int K = KIND> static typename std::enable_if<K != 1, Sk>::type make_operand(const Sk& like) { Sk o(like.get_k(), like.get_comparator(), like.get_allocator()); for (int j = 0; j < 13; ++j) o.update(Gen<T>::make(100 + 3 * j)); return o; }
  template<int K = KIND> static typename std::enable_if<K == 1, Sk>::type make_operand(const Sk& like) { Sk o(like.get_k(), like.is_HRA(), like.get_comparator(), like.get_allocator()); for (int j = 0; j < 13; ++j) o.update(Gen<T>::make(100 + 3 * j)); return o; }
};

template<class Sk, class T, int KIND, class MakeFn>
void quant_states(bool quick, const StateCb& cb, MakeFn mk, const std::vector<int>& ks, int nmax_small, const std::vector<int>& big_ns) {
  for (size_t ki = 0; ki < ks.size(); ++ki) {
    const int kc = ks[ki]; const int k = kc < 0 ? -kc : kc;   // kc is what the factory gets (sign encodes a mode), k the size
    for (int pat = 0; pat < 3; ++pat) for (uint64_t coin = 0; coin < 2; ++coin) {
      if (coin == 1 && pat != 1) continue;
      std::vector<int> ns; for (int n = 0; n <= nmax_small; ++n) ns.push_back(n);
      if (ki == 0) for (size_t i = 0; i < big_ns.size(); ++i) ns.push_back(big_ns[i]);
      if (!quick && ki > 0) ns.push_back(40 * k + 7);
      if (quick && ki > 0) { ns.clear(); const int few[] = {0, 1, 2, k, 2 * k, 2 * k + 1, 5 * k + 3, 40 * k + 7}; ns.assign(few, few + 8); }   // 40k: every level compacted several times
      for (size_t ni = 0; ni < ns.size(); ++ni) {
        int n = ns[ni];
        if (pat == 2 && n > 12 && n % 3) continue;
        Sched sc(coin);
        QObj<Sk, T, KIND> o(mk(kc));
        for (int i = 0; i < n; ++i) { int v = pat == 0 ? i : pat == 1 ? (i * 37) % 101 : 7; o.sk.update(Gen<T>::make(v)); }
        cb("k" + str(kc) + "/pat" + str(pat) + "/coin" + str(coin) + "/n" + str(n), o);
      }
    }
    // post-merge states (merged sketches can have shapes that updates alone do not produce, e.g. an empty level 0)
    for (int a = 0; a < 3; ++a) for (int b = 0; b < 3; ++b) {
      const int na[] = {2, k + 1, 3 * k + 2}; Sched sc(1);
      QObj<Sk, T, KIND> o(mk(kc)); Sk other = mk(kc);
      for (int i = 0; i < na[a]; ++i) o.sk.update(Gen<T>::make(i * 3));
      for (int i = 0; i < na[b]; ++i) other.update(Gen<T>::make(i * 3 + 1));
      o.sk.merge(other);
      cb("k" + str(kc) + "/merged" + str(na[a]) + "+" + str(na[b]), o);
    }
    // merges across different k (KLL, classic): the result's accuracy is that of the smallest k that contributed an estimating
    // sketch (KLL keeps it as min_k next to k; classic quantiles adopts the smaller k), in both directions
    if (KIND != 1) for (int b = 0; b < 3; ++b) for (int dir = 0; dir < 2; ++dir) {
      const int nb[] = {3, 3 * k + 2, 9 * k + 1}; Sched sc(1);
      const int kbig = kc * 2;
      QObj<Sk, T, KIND> o(mk(dir ? kc : kbig)); Sk other = mk(dir ? kbig : kc);
      for (int i = 0; i < 2 * k + 3; ++i) o.sk.update(Gen<T>::make(i * 3));
      for (int i = 0; i < nb[b]; ++i) other.update(Gen<T>::make(i * 3 + 1));
      o.sk.merge(other);
      cb("k" + str(dir ? kc : kbig) + "/merged-other-k" + str(dir ? kbig : kc) + "/" + str(2 * k + 3) + "+" + str(nb[b]), o);
    }
  }
}

template<class T, int KIND> struct QuantTypes;
template<class T> struct QuantTypes<T, 0> { typedef kll_sketch<T, typename LessOf<T>::type, mc::TrackAlloc<T> > Sk; static Sk make(int k) { return Sk((uint16_t)k, typename LessOf<T>::type(), mc::TrackAlloc<T>(1)); } static const char* nm() { return "kll"; } };
template<class T> struct QuantTypes<T, 1> { typedef req_sketch<T, typename LessOf<T>::type, mc::TrackAlloc<T> > Sk; static Sk make(int k) { return Sk((uint16_t)(k < 0 ? -k : k), k > 0, typename LessOf<T>::type(), mc::TrackAlloc<T>(1)); } /* negative k = low-rank accuracy */ static const char* nm() { return "req"; } };
template<class T> struct QuantTypes<T, 2> { typedef quantiles_sketch<T, typename LessOf<T>::type, mc::TrackAlloc<T> > Sk; static Sk make(int k) { return Sk((uint16_t)k, typename LessOf<T>::type(), mc::TrackAlloc<T>(1)); } static const char* nm() { return "classic"; } };

template<class T, int KIND>
void register_quant(const std::string& tname, const std::vector<int>& ks, int nmax_small, const std::vector<int>& big_ns) {
  typedef QuantTypes<T, KIND> QT; typedef typename QT::Sk Sk; typedef typename SerdeOf<T>::type SD; typedef typename LessOf<T>::type C;
  Family f; f.name = std::string(QT::nm()) + "<" + tname + ">";
  // the preamble proper: KLL 20 bytes (DATA_START), REQ 8 + n, classic 16. Item data behind it is not preamble: a corrupted float
  // item can be NaN, for which no order exists, so nothing can be demanded of a sketch that holds it
  f.preamble_bytes = KIND == 0 ? 20 : 16;
  f.states = [ks, nmax_small, big_ns](bool quick, const StateCb& cb) { quant_states<Sk, T, KIND>(quick, cb, [](int k) { return QT::make(k); }, ks, quick ? std::min(nmax_small, 30) : nmax_small, big_ns); };
  f.from_bytes = [](const void* p, size_t n) { return ObjP(new QObj<Sk, T, KIND>(Sk::deserialize(p, n, SD(), C(), mc::TrackAlloc<T>(1)))); };
  f.from_stream = [](std::istream& is) { return ObjP(new QObj<Sk, T, KIND>(Sk::deserialize(is, SD(), C(), mc::TrackAlloc<T>(1)))); };
  registry().push_back(f);
}

inline void register_quant_families() {
  std::vector<int> kk; kk.push_back(8); kk.push_back(20); kk.push_back(200);
  std::vector<int> big; big.push_back(64); big.push_back(100); big.push_back(257); big.push_back(1000);
  register_quant<float, 0>("float", kk, 45, big);
  register_quant<std::string, 0>("string", std::vector<int>(1, 8), 30, std::vector<int>(1, 70));
  register_quant<mc::Item, 0>("item", std::vector<int>(1, 8), 26, std::vector<int>(1, 50));
  std::vector<int> rk; rk.push_back(4); rk.push_back(-4); rk.push_back(12);   // negative = low-rank accuracy
  rk.push_back(10); rk.push_back(-30);   // sizes whose section size k/sqrt(2) truncates and rounds to nearest even differently (7 vs 8, 21 vs 22)
  std::vector<int> rbig; rbig.push_back(60); rbig.push_back(130); rbig.push_back(400);
  register_quant<float, 1>("float", rk, 30, rbig);
  register_quant<std::string, 1>("string", std::vector<int>(1, 4), 28, std::vector<int>(1, 90));
  register_quant<mc::Item, 1>("item", std::vector<int>(1, 4), 26, std::vector<int>(1, 60));
  std::vector<int> ck; ck.push_back(2); ck.push_back(8); ck.push_back(128);
  std::vector<int> cbig; cbig.push_back(33); cbig.push_back(100); cbig.push_back(600);
  register_quant<float, 2>("float", ck, 20, cbig);
  register_quant<std::string, 2>("string", std::vector<int>(1, 4), 20, std::vector<int>(1, 50));
  register_quant<mc::Item, 2>("item", std::vector<int>(1, 2), 14, std::vector<int>(1, 30));
}

} // namespace fam
#endif
