// C18: EBPPS sample size and bookkeeping are exact; inclusion proportional to weight.
//
// E3 (probabilistic choice-tree exploration) over E1-style histories. The harness owns every draw of
// random_utils::rand (next_double thresholds and random_idx of ebpps_sample) and carries the EXACT distribution
// over canonical sketch states along
//   (1) a depth-first walk over every weight sequence over {1,2,4} up to length k+4 for k=1,2 and k+3 for k=3
//       (quick: length 4 for every k), sharing prefixes (the distribution of a prefix is computed once), with serialization points, and
//   (2) every ordered pair (n_A+n_B <= 5, quick 3) of a menu of reached sketches merged A <- B by const-ref and by rvalue
//       (smaller into larger and the swapped case, unequal k, empty operands, restored operands), followed by further
//       updates, plus merge chains (A <- B) <- C.
// get_result() and begin()/end() draw themselves and are operations of the tree: their outcomes are enumerated too.
// Sizing: with G = 4096 probes per choice point one probe costs ~3 us (ASan build), so the quick tier (<= 60 s on 16
// cores, ~1e8 probes) stops at length 4; the thorough tier (~5e9 probes) runs the lengths of the design (k+4) for
// k=1,2 and k+3 for k=3 (length 7 at k=3: 729 nodes of ~150 ordered leaves each to expand, ~1.6e10 probes).
// Oracle: a boring model from the property statement (n, cumulative weight, max weight, k, the multiset of inputs):
// checked on every branch; inclusion probabilities and E|result| are exact sums over all branches.
#define MC_MAIN
#include "core.hpp"
#include "choice.hpp"
#include "bfs.hpp"
#include "prob.hpp"
#include <ebpps_sketch.hpp>
#include <cmath>
#include <ctime>
#include <sstream>
#include <memory>

using namespace mc;
using namespace datasketches;
typedef ebpps_sketch<int> Sk;

static const double WEIGHTS[6] = {1.0, 2.0, 4.0, 3.0, 11.0, 9.0};   // the streams and the merge menu draw from the first three (dyadic: every quotient is exact); 3, 11 and 9 only in the non-dyadic streams and merge pairs
static const int NSLOT = 3;              // A (subject), B, C (merge operands)
static const int ID_BASE[NSLOT] = {0, 100, 200};
static const int MAXN = 12;              // inputs per slot

// canonical strings are keys, never printed: doubles go in as their 8 raw bytes (exact), integers as decimal text.
// Built in a fixed buffer (one string assignment per canon).
struct Buf {
  char b[1024]; size_t n; Buf(): n(0) {}
  void ch(char c) { if (n < sizeof b) b[n++] = c; }
  void dbl(double x) { if (n + 8 <= sizeof b) { memcpy(b + n, &x, 8); n += 8; } }
  void num(long v) {
    char t[24]; int i = 24; bool neg = v < 0; unsigned long u = neg ? 0ul - (unsigned long)v : (unsigned long)v;
    do { t[--i] = (char)('0' + u % 10); u /= 10; } while (u);
    if (neg) t[--i] = '-';
    if (n + (size_t)(24 - i) <= sizeof b) { memcpy(b + n, t + i, (size_t)(24 - i)); n += (size_t)(24 - i); }
  }
  void str(const std::string& s) { size_t m = std::min(s.size(), sizeof b - n); memcpy(b + n, s.data(), m); n += m; }
};

// ---------------------------------------------------------------------------------------------------------------
// reference model of one sketch: only what the statement talks about
struct Model {
  bool live; uint32_t k; uint64_t n; double cum, wmax;
  int first;                             // own items before this index were given before the last reset(): no longer inputs
  int nown; double wown[MAXN];           // weights of the items this slot was updated with (id = base + arrival index)
  int merged_from[NSLOT];                // 1 if the inputs of that slot were merged into this one
  bool merged;                           // took part in a merge as the target
  Model(): live(false), k(0), n(0), cum(0), wmax(0), first(0), nown(0), merged(false) { for (int i = 0; i < NSLOT; ++i) merged_from[i] = 0; for (int i = 0; i < MAXN; ++i) wown[i] = 0; }
  double c() const { return n == 0 ? 0.0 : std::min((double)k, cum / wmax); }
};

struct Slot { std::shared_ptr<Sk> sk; Model m; };

enum Kind { K_NEW, K_UPD, K_MERGE_L, K_MERGE_R, K_RES, K_RIT, K_SER, K_SST, K_RESET, K_NONE };

struct State {
  Slot s[NSLOT];
  Kind last; int last_slot; int last_arg;     // what the last operation was
  bool has_res; std::vector<int> res; bool res_runaway;
  Model pre_tgt, pre_src;                     // models of target and source before the last merge
  bool src_changed;                           // lvalue merge changed its const argument
  std::string note;                           // failure text produced inside apply (round trip)
  State(): last(K_NONE), last_slot(0), last_arg(0), has_res(false), res_runaway(false), src_changed(false) {}
};

struct OpDef { Kind kind; int slot; int arg; std::string name; };

// weight of input item `id` as far as slot `t` is concerned; <0 if the item is not an input of that slot
static double input_weight(const State& st, int t, int id) {
  for (int j = 0; j < NSLOT; ++j) {
    if (j != t && !st.s[t].m.merged_from[j]) continue;
    const Model& m = st.s[j].m;
    if (id >= ID_BASE[j] + m.first && id < ID_BASE[j] + m.nown) return m.wown[id - ID_BASE[j]];
  }
  return -1;
}
static std::vector<int> input_ids(const State& st, int t) {
  std::vector<int> v;
  for (int j = 0; j < NSLOT; ++j) { if (j != t && !st.s[t].m.merged_from[j]) continue; for (int i = st.s[j].m.first; i < st.s[j].m.nown; ++i) v.push_back(ID_BASE[j] + i); }
  return v;
}

struct EbSys {
  typedef ::State State;
  std::vector<OpDef> ops; std::string nm;
  size_t OP_RESET, OP_NEW[NSLOT][6], OP_UPD[NSLOT][6], OP_ML[NSLOT], OP_MR[NSLOT], OP_RES, OP_RIT, OP_SER[NSLOT], OP_SST[NSLOT];

  EbSys(): nm("stream") {
    const char* SN = "ABC"; const char* sn = "abc";
    for (int s = 0; s < NSLOT; ++s) for (int k = 1; k <= 5; ++k) { OP_NEW[s][k] = ops.size(); add(K_NEW, s, k, std::string(1, SN[s]) + str(k)); }   // k 4, 5 only in the merge-special pairs
    for (int s = 0; s < NSLOT; ++s) for (int w = 0; w < 6; ++w) { OP_UPD[s][w] = ops.size(); add(K_UPD, s, w, std::string(1, sn[s]) + str((int)WEIGHTS[w])); }
    for (int s = 1; s < NSLOT; ++s) { OP_ML[s] = ops.size(); add(K_MERGE_L, s, 0, std::string("Ml") + SN[s]); OP_MR[s] = ops.size(); add(K_MERGE_R, s, 0, std::string("Mr") + SN[s]); }
    OP_RES = ops.size(); add(K_RES, 0, 0, "res");
    OP_RIT = ops.size(); add(K_RIT, 0, 0, "rit");
    OP_RESET = ops.size(); add(K_RESET, 0, 0, "reset");
    for (int s = 0; s < NSLOT; ++s) { OP_SER[s] = ops.size(); add(K_SER, s, 0, std::string("ser") + SN[s]); OP_SST[s] = ops.size(); add(K_SST, s, 0, std::string("sst") + SN[s]); }
  }
  void add(Kind k, int slot, int arg, const std::string& n) { OpDef o; o.kind = k; o.slot = slot; o.arg = arg; o.name = n; ops.push_back(o); }

  std::string name() const { return nm; }
  State* make() { return new State(); }
  size_t nops() const { return ops.size(); }
  std::string opname(size_t i) const { return ops[i].name; }

  // copy of a pre-state for one probe of `op`: sketches the operation does not mutate are shared, the others are
  // copied with the library's copy constructor (every state that enters the distribution is re-created by a full
  // replay from scratch and must have the same canon, see FastTree::step)
  // `scratch` and `pool` are reused between probes (no allocation in the common case).
  void assign_for(State& scratch, const State& pre, size_t op, std::shared_ptr<Sk>* pool) const {
    scratch = pre;
    const OpDef& o = ops[op];
    int mut0 = -1, mut1 = -1;
    switch (o.kind) {
      case K_UPD: case K_SER: case K_SST: case K_RESET: mut0 = o.slot; break;
      case K_MERGE_L: mut0 = 0; break;
      case K_MERGE_R: mut0 = 0; mut1 = o.slot; break;
      default: break;
    }
    for (int i = 0; i < NSLOT; ++i) if ((i == mut0 || i == mut1) && pre.s[i].sk) {
      if (!pool[i]) pool[i] = std::make_shared<Sk>(*pre.s[i].sk); else *pool[i] = *pre.s[i].sk;
      // the control-flow signature of a probe must depend on the state only, not on how much spare capacity the reused
      // vectors happen to have: give them room so that no probe reallocates (the from-scratch replay of every new state
      // exercises the real allocation pattern)
      pool[i]->sample_.data_.reserve(16); pool[i]->tmp_.data_.reserve(4);
      scratch.s[i].sk = pool[i];
    }
    scratch.res.reserve(16);
  }

  static void canon_sk(Buf& c, const Sk& k) {
    c.num(k.k_); c.ch(','); c.num((long)k.n_); c.ch(','); c.dbl(k.cumulative_wt_); c.dbl(k.wt_max_); c.dbl(k.rho_); c.dbl(k.sample_.c_); c.ch('[');
    for (size_t i = 0; i < k.sample_.data_.size(); ++i) { c.num(k.sample_.data_[i]); c.ch(','); }
    c.ch(']');
    if (bool(k.sample_.partial_item_)) { c.ch('p'); c.num(*k.sample_.partial_item_); } else c.ch('-');
    // tmp_ is not part of the canon: replace_content() overwrites all three of its fields before every use
  }
  static std::string canon_sk(const Sk& k) { Buf b; canon_sk(b, k); return std::string(b.b, b.n); }
  std::string canon(State& s) { std::string c; canon_into(c, s); return c; }
  void canon_into(std::string& out, State& s) {
    Buf c;
    for (int i = 0; i < NSLOT; ++i) {
      if (!s.s[i].sk) { c.ch(s.s[i].m.live ? 'd' : '_'); c.ch('|'); continue; }
      canon_sk(c, *s.s[i].sk); c.ch('m'); c.num((long)s.s[i].m.n); c.ch('.'); c.num(s.s[i].m.first); c.ch('.'); c.num(s.s[i].m.nown); c.ch('.'); c.num(s.s[i].m.k); c.ch('|');
    }
    if (s.has_res) { c.ch(s.last == K_RIT ? 'I' : 'R'); for (size_t i = 0; i < s.res.size(); ++i) { c.num(s.res[i]); c.ch(','); } if (s.res_runaway) c.ch('!'); }
    if (!s.note.empty()) { c.ch('!'); c.str(s.note); }
    if (s.src_changed) c.ch('S');
    out.assign(c.b, c.n);
  }

  bool apply(State& st, size_t op, Ctx*) {
    const OpDef& o = ops[op];
    st.has_res = false; st.res.clear(); st.res_runaway = false; st.note.clear(); st.src_changed = false;
    st.last = o.kind; st.last_slot = o.slot; st.last_arg = o.arg;
    Slot& t = st.s[o.slot];
    switch (o.kind) {
      case K_NEW: {
        if (t.sk || t.m.live) return false;
        t.sk = std::make_shared<Sk>((uint32_t)o.arg); t.m.live = true; t.m.k = (uint32_t)o.arg;
        return true;
      }
      case K_UPD: {
        if (!t.sk || t.m.nown >= MAXN) return false;
        const double w = WEIGHTS[o.arg]; const int id = ID_BASE[o.slot] + t.m.nown;
        // model first (the library call may throw)
        t.m.wown[t.m.nown++] = w; t.m.n++; t.m.cum += w; t.m.wmax = std::max(t.m.wmax, w);
        if (id & 1) { int tmp = id; t.sk->update(std::move(tmp), w); } else t.sk->update(id, w);   // both overloads
        return true;
      }
      case K_MERGE_L: case K_MERGE_R: {
        Slot& a = st.s[0]; Slot& b = st.s[o.slot];
        if (!a.sk || !b.sk) return false;
        st.pre_tgt = a.m; st.pre_src = b.m; st.last_slot = 0;
        a.m.n += b.m.n; a.m.cum += b.m.cum; a.m.wmax = std::max(a.m.wmax, b.m.wmax); a.m.k = std::min(a.m.k, b.m.k);
        a.m.merged = true; a.m.merged_from[o.slot] = 1;
        for (int j = 0; j < NSLOT; ++j) if (b.m.merged_from[j]) a.m.merged_from[j] = 1;
        if (o.kind == K_MERGE_L) {
          const std::string before = canon_sk(*b.sk);
          const Sk& cb = *b.sk;
          a.sk->merge(cb);
          st.src_changed = before != canon_sk(*b.sk);
        } else {
          a.sk->merge(std::move(*b.sk));
          b.sk.reset();     // the moved-from operand is only destroyed
        }
        return true;
      }
      case K_RESET: {
        if (!t.sk) return false;
        t.m.n = 0; t.m.cum = 0; t.m.wmax = 0; t.m.first = t.m.nown; t.m.merged = false; for (int j = 0; j < NSLOT; ++j) t.m.merged_from[j] = 0;
        t.sk->reset();
        return true;
      }
      case K_RES: {
        if (!st.s[0].sk) return false;
        Sk::result_type r = st.s[0].sk->get_result();
        st.res.assign(r.begin(), r.end()); st.has_res = true; st.last_slot = 0;
        return true;
      }
      case K_RIT: {
        if (!st.s[0].sk) return false;
        const Sk& k = *st.s[0].sk; size_t guard = 0;
        // a range-for over the sketch: begin() draws once, end() does not
        for (ebpps_sample<int>::const_iterator it = k.begin(); it != k.end(); ++it) {
          if (++guard > 64) { st.res_runaway = true; break; }
          // never dereference outside the stored items (would be an out-of-bounds read): report instead
          if (it.idx_ != ebpps_sample<int>::const_iterator::PARTIAL_IDX && it.idx_ >= k.sample_.data_.size()) { st.res_runaway = true; break; }
          if (it.idx_ == ebpps_sample<int>::const_iterator::PARTIAL_IDX && !bool(k.sample_.partial_item_)) { st.res_runaway = true; break; }
          st.res.push_back(*it);
        }
        st.has_res = true; st.last_slot = 0;
        return true;
      }
      case K_SER: case K_SST: {
        if (!t.sk) return false;
        try {
          if (o.kind == K_SER) {
            Sk::vector_bytes b = t.sk->serialize();
            if (b.size() != t.sk->get_serialized_size_bytes()) st.note = "serialized size " + str(b.size()) + " != get_serialized_size_bytes " + str(t.sk->get_serialized_size_bytes());
            t.sk = std::make_shared<Sk>(Sk::deserialize(b.data(), b.size()));
          } else {
            std::stringstream ss(std::ios::in | std::ios::out | std::ios::binary);
            t.sk->serialize(ss);
            t.sk = std::make_shared<Sk>(Sk::deserialize(ss));
          }
        } catch (const std::exception& e) { st.note = std::string("round trip threw: ") + e.what(); }
        return true;
      }
      default: return false;
    }
  }

  // phase prefix of check ids: which kind of history produced the sketch
  static std::string phase(const State& st, int slot) {
    const Model& m = st.s[slot].m;
    switch (st.last) {
      case K_NEW: return "new";
      case K_UPD: return m.merged ? "upd-after-merge" : "upd";
      case K_MERGE_L: case K_MERGE_R:   // the shape of the merge is part of the check id: each shape is a separate code path
        return st.pre_src.n == 0 ? "merge/src-empty" : st.pre_tgt.n == 0 ? "merge/tgt-empty" : st.pre_src.cum > st.pre_tgt.cum ? "merge/swap" : "merge/noswap";
      case K_SER: case K_SST: return m.merged ? "ser-after-merge" : "ser";
      case K_RESET: return "reset";
      default: return m.merged ? "res-after-merge" : "res";
    }
  }

  void check_slot(State& st, int i, Ctx& c, const std::string& ph) {
    Slot& t = st.s[i]; if (!t.sk) return;
    const Sk& k = *t.sk; const Model& m = t.m;
    c.eq(ph + ":n", k.get_n(), m.n);
    c.eq(ph + ":cumulative-weight", k.get_cumulative_weight(), m.cum);
    const bool k_ok = c.eq(ph + ":k", k.get_k(), m.k);
    c.eq(ph + ":is_empty", k.is_empty(), m.n == 0);
    const double cl = k.get_c();
    if (m.n == 0) c.eq(ph + ":c", cl, 0.0);
    else if (k_ok) c.near(ph + ":c", cl, m.c(), 1e-9, 1e-12);     // c == min(k, W/wmax): meaningless to compare when k itself is already wrong
    // private view of what a result can contain: every stored item is an input of this sketch, none twice
    std::vector<int> stored(k.sample_.data_.begin(), k.sample_.data_.end());
    if (bool(k.sample_.partial_item_)) stored.push_back(*k.sample_.partial_item_);
    bool from_input = true; for (size_t j = 0; j < stored.size(); ++j) if (input_weight(st, i, stored[j]) < 0) from_input = false;
    c.ok(ph + ":stored-items-from-input", from_input, "the sample holds an item that was never given to the sketch");
    std::vector<int> srt = stored; std::sort(srt.begin(), srt.end());
    c.ok(ph + ":stored-items-distinct", std::adjacent_find(srt.begin(), srt.end()) == srt.end(), "the sample holds an input item twice");
    // what get_result() can return from this state: the full items, plus the partial item when its draw falls below frac(c).
    // Both outcomes must have floor(c) or ceil(c) items (fractions below 1e-9 are floating-point noise, unreachable by a draw).
    {
      const double lo = std::floor(cl), hi = std::ceil(cl), fr = cl - lo; const double nd = (double)k.sample_.data_.size();
      bool ok = nd == lo || nd == hi; std::string why = ok ? "" : "full items " + str(nd) + " with c=" + str(cl);
      if (ok && fr > 1e-9 && fr < 1 - 1e-9) {
        if (!bool(k.sample_.partial_item_)) { ok = false; why = "c=" + str(cl) + " has a fractional part but there is no partial item to return"; }
        else if (nd + 1 != hi) { ok = false; why = "full items " + str(nd) + " plus the partial item with c=" + str(cl); }
      }
      c.ok(ph + ":possible-result-sizes-are-floor-or-ceil-c", ok, why);
    }
  }

  static bool all_equal_unmerged(const Model& m) {
    if (m.merged) return false;
    for (int j = m.first + 1; j < m.nown; ++j) if (m.wown[j] != m.wown[m.first]) return false;
    return true;
  }

  void check(State& st, Ctx& c) {
    if (st.last == K_NONE) return;
    const int subj = st.last_slot;
    const std::string ph = phase(st, subj);
    check_slot(st, subj, c, ph);
    Slot& t = st.s[subj];
    if (!st.note.empty()) c.fail(ph + ":round-trip", st.note);
    if (!t.sk) return;
    const Sk& k = *t.sk; const Model& m = t.m; const double cl = k.get_c();
    const bool frac = std::fabs(cl - std::floor(cl + 0.5)) > 1e-9;
    std::string tag = ph;
    if (st.last == K_UPD || st.last == K_MERGE_L || st.last == K_MERGE_R || st.last == K_SER || st.last == K_SST || st.last == K_RESET) {
      tag += m.n == 0 ? "|empty" : (m.c() < (double)m.k ? (frac ? "|c<k,fractional" : "|c<k,integer") : "|c=k");
      if (all_equal_unmerged(m) && m.n <= m.k && m.n > 0) {
        // equal weights and n <= k: every item is kept (as full items)
        std::vector<int> d(k.sample_.data_.begin(), k.sample_.data_.end()); std::sort(d.begin(), d.end());
        c.ok(ph + ":equal-weights-all-kept", d == input_ids(st, subj) && !bool(k.sample_.partial_item_), "equal weights, n<=k, but not every item is held as a full item");
        tag += "|all-kept";
      }
    }
    if (st.last == K_MERGE_L || st.last == K_MERGE_R) {
      // merge/*:n, merge/*:cumulative-weight, merge/*:k (check_slot) are the "adds n and cumulative weight, takes the smaller k" clauses:
      // the model added n and the weights and took the minimum k in apply()
      if (st.last == K_MERGE_L) c.ok(ph + ":const-argument-unchanged", !st.src_changed, "merge(const&) modified its argument");
      tag += st.pre_src.n == 0 ? "|src-empty" : st.pre_tgt.n == 0 ? "|tgt-empty" : st.pre_src.cum > st.pre_tgt.cum ? "|swap" : st.pre_src.cum == st.pre_tgt.cum ? "|tie" : "|noswap";
      tag += st.pre_src.k < st.pre_tgt.k ? "|k-shrinks" : st.pre_src.k > st.pre_tgt.k ? "|k-src-larger" : "|k-same";
      tag += st.pre_src.wmax > st.pre_tgt.wmax ? "|src-has-max" : "";
    }
    if (st.has_res) {
      const size_t sz = st.res.size();
      c.ok(ph + ":result-not-runaway", !st.res_runaway, "iteration from begin() did not reach end() inside the stored items");
      c.ok(ph + ":result-size-floor-or-ceil-c", (double)sz == std::floor(cl) || (double)sz == std::ceil(cl), "result has " + str(sz) + " items, c=" + str(cl));
      bool from_input = true; for (size_t j = 0; j < sz; ++j) if (input_weight(st, subj, st.res[j]) < 0) from_input = false;
      c.ok(ph + ":result-items-from-input", from_input, "a returned item was never given to the sketch");
      std::vector<int> srt = st.res; std::sort(srt.begin(), srt.end());
      c.ok(ph + ":result-items-distinct", std::adjacent_find(srt.begin(), srt.end()) == srt.end(), "an input item was returned twice");
      // public and private view agree: the returned items are stored items
      std::vector<int> stored(k.sample_.data_.begin(), k.sample_.data_.end()); if (bool(k.sample_.partial_item_)) stored.push_back(*k.sample_.partial_item_);
      std::sort(stored.begin(), stored.end());
      c.ok(ph + ":result-subset-of-sample", std::includes(stored.begin(), stored.end(), srt.begin(), srt.end()), "result contains an item the sample does not hold");
      if (all_equal_unmerged(m) && m.n <= m.k) { c.ok(ph + ":equal-weights-result-has-all", srt == input_ids(st, subj), "equal weights, n<=k, but the result is not the whole input"); tag += "|all-kept"; }
      tag += (st.last == K_RIT ? "|iter" : "|get_result");
      tag += sz == 0 ? "|size0" : !frac ? "|size=c" : ((double)sz == std::floor(cl) ? "|size=floor" : "|size=ceil");
    }
    c.rep.outcome(tag);
  }
};

// ---------------------------------------------------------------------------------------------------------------
// ProbTree with a cheaper probe: the pre-state of a leaf is replayed once from scratch and cloned per probe.
static const unsigned GRID = 4096;       // updates, merges
static const unsigned QUERY_GRID = 256;  // get_result()/begin(): one draw compared with frac(c), and c is a multiple of 1/4
struct FastTree : ProbTree<EbSys> {
  bool deadline; double min_branch_prob = 1.0; std::string min_branch_witness; uint64_t probes_query = 0, probes_update = 0, probes_other = 0, pruned_states = 0;
  State scratch; std::shared_ptr<Sk> pool[NSLOT]; Tape tp;
  FastTree(EbSys& s, Report& r, unsigned g): ProbTree<EbSys>(s, r, g, 1u << 20), deadline(false) {}

  bool parse_hist(const std::string& s, Hist& h) const {
    std::map<std::string, size_t> idx; for (size_t i = 0; i < sys.nops(); ++i) idx[sys.opname(i)] = i;
    size_t i = 0;
    while (i < s.size()) {
      size_t e = s.find(';', i); if (e == std::string::npos) e = s.size();
      std::string tok = s.substr(i, e - i), tp; size_t t = tok.find('~');
      if (t != std::string::npos) { tp = tok.substr(t + 1); tok = tok.substr(0, t); }
      if (!idx.count(tok)) return false;
      Step st; st.op = (uint16_t)idx[tok]; st.tape = tape_parse(tp); h.push_back(st);
      i = e + 1;
    }
    return true;
  }

  std::vector<Leaf> step(const std::vector<Leaf>& cur, size_t op) {
    std::map<std::string, Leaf> next; std::set<std::string> pruned;
    const std::string sc = sys.name();
    for (size_t li = 0; li < cur.size() && !capped; ++li) {
      if (rep.past_deadline()) { deadline = true; continue; }
      Hist h = cur[li].hist; Step stp; stp.op = (uint16_t)op; h.push_back(stp);
      if (!journal(sc, hist_str(h))) { pruned_states++; continue; }   // a case already recorded as crashing
      alarm(case_timeout_s());   // one operation on one leaf is the unit that must finish within the per-case limit
      std::unique_ptr<State> pre = replay(cur[li].hist, nullptr);
      if (sys.canon(*pre) != cur[li].canon) { fprintf(stderr, "HARNESS-ERROR: canon-on-replay mismatch in %s at %s\n", sc.c_str(), hist_str(cur[li].hist).c_str()); abort(); }
      FastTree* self = this; State* prep = pre.get();
      RunFn rf = [self, prep, op](const std::vector<uint64_t>& tape, uint64_t fill) -> RunResult {
        RunResult r; Tape& t = self->tp; self->replays++;
        t.v.assign(tape.begin(), tape.end()); t.kinds.clear(); t.seg.clear(); t.pos = 0; t.set_fill(fill); t.runaway = false;
        State& s2 = self->scratch; self->sys.assign_for(s2, *prep, op, self->pool);
        try { TapeScope scope(t); if (!self->sys.apply(s2, op, nullptr)) { fprintf(stderr, "HARNESS-ERROR: op disabled in a probabilistic history\n"); abort(); } }
        catch (const std::exception& e) { r.failed = true; r.canon = e.what(); }
        if (!r.failed) self->sys.canon_into(r.canon, s2);
        r.kinds = t.kinds; r.seg = t.seg; return r;
      };
      bool cap2 = false;
      const Kind kd = sys.ops[op].kind; const bool query = kd == K_RES || kd == K_RIT;
      const uint64_t runs0 = st.runs;
      std::vector<Outcome> outs = enumerate_outcomes(rf, query ? QUERY_GRID : grid, st, max_leaves, &cap2);
      (query ? probes_query : (kd == K_UPD ? probes_update : probes_other)) += st.runs - runs0;
      if (cap2) { capped = true; rep.cap("choice tree of one operation exceeded the leaf cap in " + sc); }
      double mass = 0; size_t nd0 = outs.empty() ? 0 : outs[0].tape.size();
      for (size_t k = 0; k < outs.size(); ++k) {
        mass += outs[k].prob; transitions++; raw_leaves++;
        if (outs[k].prob < min_branch_prob) { min_branch_prob = outs[k].prob; h.back().tape = outs[k].tape; min_branch_witness = hist_str(h); }
        if (outs[k].tape.size() != nd0 && !draws_outcome_dependent) { draws_outcome_dependent = true; h.back().tape = outs[k].tape; draws_witness = hist_str(h); }
        const std::string& key = outs[k].canon;
        std::map<std::string, Leaf>::iterator f = next.find(key);
        if (f != next.end()) { f->second.prob += cur[li].prob * outs[k].prob; continue; }
        if (pruned.count(key)) continue;
        Leaf nl; nl.prob = cur[li].prob * outs[k].prob; nl.hist = h; nl.hist.back().tape = outs[k].tape; nl.canon = key; nl.draws = cur[li].draws + outs[k].tape.size();
        std::string hs = hist_str(nl.hist);
        const bool failed = key.compare(0, 7, "FAILED:") == 0;
        if (journal(sc, hs)) {
          Ctx ctx(rep, sc, hs); int a0 = asan_errors();
          std::unique_ptr<State> s3 = replay(nl.hist, &ctx);      // from scratch: no copy constructor involved
          if (!failed && sys.canon(*s3) != key) { fprintf(stderr, "HARNESS-ERROR: state reached through a cloned pre-state differs from the replayed one in %s at %s\n", sc.c_str(), hs.c_str()); abort(); }
          if (!failed) sys.check(*s3, ctx);
          if (asan_errors() != a0) ctx.fail("asan", "AddressSanitizer report during this operation");
          rep.flush_ctx_fails(ctx.fails, sc, hs);
          // a state that violates the oracle is reported once and not expanded further (its descendants would only
          // repeat the same root cause under other check ids); the mass it carries is missing from the distribution,
          // and expectations over a distribution with missing mass are skipped
          if (!ctx.fails.empty() || failed) { pruned_states++; pruned.insert(key); continue; }
        } else continue;
        next[key] = nl;
      }
      if (std::fabs(mass - 1.0) > 1e-9 && !cap2) { fprintf(stderr, "HARNESS-ERROR: choice mass %.15g != 1 in %s at %s\n", mass, sc.c_str(), hist_str(h).c_str()); abort(); }
    }
    std::vector<Leaf> out;
    for (std::map<std::string, Leaf>::iterator i = next.begin(); i != next.end(); ++i) out.push_back(i->second);
    merged_states += out.size();
    return out;
  }
  bool complete() const { return !capped && !deadline; }     // false: stop exploring (bound of the run reached)
  static bool whole(const std::vector<Leaf>& d) { double m = 0; for (size_t i = 0; i < d.size(); ++i) m += d[i].prob; return std::fabs(m - 1.0) <= 1e-9; }
};

typedef std::vector<Leaf> Dist;

// ---------------------------------------------------------------------------------------------------------------
struct Explorer {
  EbSys sys; Report& rep; FastTree pt; const Config& cfg; bool quick;
  uint64_t nodes, expectations, result_dists, skipped = 0, pairs = 0; size_t max_leaves_seen; bool stopped; std::clock_t c0 = std::clock();
  Explorer(Report& r, const Config& c, unsigned grid, bool q): rep(r), pt(sys, r, grid), cfg(c), quick(q), nodes(0), expectations(0), result_dists(0), max_leaves_seen(0), stopped(false) {}

  static std::string ops_str(const EbSys& sys, const std::vector<size_t>& ops) { std::string s; for (size_t i = 0; i < ops.size(); ++i) { if (i) s += ";"; s += sys.opname(ops[i]); } return s; }

  Dist step(const Dist& d, std::vector<size_t>& path, size_t op) {
    path.push_back(op);
    Dist r = pt.step(d, op);
    if (r.size() > max_leaves_seen) max_leaves_seen = r.size();
    if (pt.deadline && !stopped) { stopped = true; rep.cap("global deadline reached in " + sys.name() + " at " + ops_str(sys, path)); }
    return r;
  }

  void expect_fail(const std::string& check, const std::string& what, const std::vector<size_t>& path) {
    rep.violation(rep.property + "|" + sys.name() + "|" + check, what, sys.name(), "E:" + ops_str(sys, path));
  }
  static bool close(double a, double b) { double d = std::fabs(a - b); return d <= 1e-9 || d <= 1e-9 * std::max(std::fabs(a), std::fabs(b)); }

  // the exact distribution of what a query returns: P(item in result) == c*w/W for every input item, E|result| == c
  void result_expectations(const Dist& d, std::vector<size_t> path, size_t res_op) {
    if (!pt.complete()) return;
    if (!FastTree::whole(d)) { skipped++; return; }
    Dist dr = step(d, path, res_op);
    if (!pt.complete()) return;
    if (!FastTree::whole(dr)) { skipped++; return; }
    result_dists++;
    std::map<int, double> p; double esize = 0, mass = 0; double c_model = -1, cum = 0; std::vector<int> ids; std::map<int, double> wt; bool merged = false;
    bool same = true;
    for (size_t i = 0; i < dr.size(); ++i) {
      std::unique_ptr<State> s = pt.replay(dr[i].hist, nullptr);
      const Model& m = s->s[0].m;
      if (c_model < 0) { c_model = m.c(); cum = m.cum; ids = input_ids(*s, 0); merged = m.merged; for (size_t j = 0; j < ids.size(); ++j) wt[ids[j]] = input_weight(*s, 0, ids[j]); }
      else if (m.c() != c_model || m.cum != cum) same = false;
      mass += dr[i].prob; esize += dr[i].prob * (double)s->res.size();
      for (size_t j = 0; j < s->res.size(); ++j) p[s->res[j]] += dr[i].prob;
    }
    const std::string ph = std::string(merged ? "merged" : "stream") + (sys.ops[res_op].kind == K_RIT ? "/iter" : "/get_result");
    if (!same) { fprintf(stderr, "HARNESS-ERROR: model differs between leaves of one history\n"); abort(); }
    expectations += 1 + ids.size(); rep.evaluations += 1 + ids.size();
    if (!close(esize, c_model)) expect_fail(ph + ":E[result-size]==c", "E|result| = " + str(esize) + " over all branches, expected c = " + str(c_model), path);
    for (size_t j = 0; j < ids.size(); ++j) {
      const double want = cum > 0 ? c_model * wt[ids[j]] / cum : 0.0, got = p.count(ids[j]) ? p[ids[j]] : 0.0;
      if (!close(got, want)) { expect_fail(ph + ":P(item-in-result)==c*w/W", "item " + str(ids[j]) + " (weight " + str(wt[ids[j]]) + ") is returned with probability " + str(got) + ", expected c*w/W = " + str(want), path); break; }
    }
    for (std::map<int, double>::iterator i = p.begin(); i != p.end(); ++i) if (!wt.count(i->first)) { expect_fail(ph + ":P(non-input)==0", "item " + str(i->first) + " returned with probability " + str(i->second), path); break; }
    rep.outcome(ph + (c_model == std::floor(c_model) ? "|expectation,c-integer" : "|expectation,c-fractional"));
  }

  // two distributions over the subject sketch must be the same distribution (canon of slot A only)
  bool same_distribution(const Dist& x, const Dist& y, const std::string& check, const std::vector<size_t>& path) {
    if (!pt.complete()) return true;
    if (!FastTree::whole(x) || !FastTree::whole(y)) { skipped++; return false; }
    std::map<std::string, double> mx, my;
    for (size_t i = 0; i < x.size(); ++i) { std::unique_ptr<State> s = pt.replay(x[i].hist, nullptr); std::string c; if (s->s[0].sk) c = EbSys::canon_sk(*s->s[0].sk); mx[c] += x[i].prob; }
    for (size_t i = 0; i < y.size(); ++i) { std::unique_ptr<State> s = pt.replay(y[i].hist, nullptr); std::string c; if (s->s[0].sk) c = EbSys::canon_sk(*s->s[0].sk); my[c] += y[i].prob; }
    rep.evaluations++;
    std::string why;
    if (mx.size() != my.size()) why = str(mx.size()) + " vs " + str(my.size()) + " distinct states";
    else for (std::map<std::string, double>::iterator i = mx.begin(); i != mx.end(); ++i) {
      std::map<std::string, double>::iterator j = my.find(i->first);
      if (j == my.end()) { why = "a state of one side is not reached on the other"; break; }
      if (std::fabs(i->second - j->second) > 1e-9) { why = "state probability " + str(i->second) + " vs " + str(j->second); break; }
    }
    if (!why.empty()) expect_fail(check, why, path);
    return why.empty();
  }

  void node_checks(const Dist& d, const std::vector<size_t>& path, bool with_iter, int ser_slot) {
    nodes++;
    result_expectations(d, path, sys.OP_RES);
    if (with_iter) result_expectations(d, path, sys.OP_RIT);
    if (ser_slot >= 0) {
      // serialization point: the restored sketch is the same state with the same probability, by both forms
      std::vector<size_t> p1 = path; Dist ds = step(d, p1, sys.OP_SER[ser_slot]);
      same_distribution(d, ds, "ser:bytes-round-trip-same-distribution", p1);
      std::vector<size_t> p2 = path; Dist dt = step(d, p2, sys.OP_SST[ser_slot]);
      same_distribution(d, dt, "ser:stream-round-trip-same-distribution", p2);
    }
  }

  // ---- (1) all weight sequences, depth first, carrying the distribution
  int wset[3] = {0, 1, 2};   // indices into WEIGHTS of the three weights a stream walk draws from
  void dfs(const Dist& d, std::vector<size_t>& path, int len, int maxlen, int k) {
    if (!pt.complete() || d.empty()) return;
    const bool deepest = len == maxlen;
    node_checks(d, path, !quick || deepest || len <= k, len > 0 && (!quick || len <= k + 1) ? 0 : -1);
    if (deepest) return;
    // restored sketch continues with the same draws to the same distribution (one continuation per node, rotating)
    const bool ser_continue = len > 0 && (quick ? len == k + 1 : len <= k + 2);
    Dist ds; std::vector<size_t> ps = path;
    if (ser_continue) ds = step(d, ps, (len & 1) ? sys.OP_SER[0] : sys.OP_SST[0]);
    for (int wi = 0; wi < 3; ++wi) {
      const int w = wset[wi];
      std::vector<size_t> p2 = path; Dist d2 = step(d, p2, sys.OP_UPD[0][w]);
      if (ser_continue && wi == (int)(nodes % 3)) {
        std::vector<size_t> p3 = ps; Dist d3 = step(ds, p3, sys.OP_UPD[0][w]);
        same_distribution(d2, d3, "ser:restored-sketch-continues-to-same-distribution", p3);
      }
      dfs(d2, p2, len + 1, maxlen, k);
      if (!pt.complete()) return;
    }
  }

  void run_stream(int k, const std::vector<int>& prefix, int maxlen) {
    sys.nm = "stream-k" + str(k);
    std::vector<size_t> path; Dist d = pt.root();
    d = step(d, path, sys.OP_NEW[0][k]);
    // nodes on the prefix are checked by exactly one task: the one whose remaining prefix is all-first-weight
    for (size_t j = 0; j <= prefix.size(); ++j) {
      if (j == prefix.size()) { dfs(d, path, (int)j, maxlen, k); break; }
      bool mine = true; for (size_t i = j; i < prefix.size(); ++i) if (prefix[i] != 0) mine = false;
      if (mine) node_checks(d, path, true, j > 0 ? 0 : -1);
      d = step(d, path, sys.OP_UPD[0][wset[prefix[j]]]);
    }
    finish("stream k=" + str(k) + " prefix=" + ops_str(sys, std::vector<size_t>(path.begin(), path.begin() + 1 + (long)prefix.size())) + " maxlen=" + str(maxlen));
  }

  // ---- (1b) a history with reset(): every weight sequence of length <= 2, reset(), every weight sequence of length <= post
  void run_reset(int k, int post) {
    sys.nm = "reset-k" + str(k);
    std::vector<size_t> p0; Dist d0 = pt.root(); d0 = step(d0, p0, sys.OP_NEW[0][k]);
    for (int a = 0; a < 3; ++a) for (int b = -1; b < 3 && pt.complete(); ++b) {
      std::vector<size_t> path = p0; Dist d = step(d0, path, sys.OP_UPD[0][a]);
      if (b >= 0) d = step(d, path, sys.OP_UPD[0][b]);
      d = step(d, path, sys.OP_RESET);
      node_checks(d, path, true, -1);
      dfs(d, path, 3 - post + 0, 3, k);   // dfs explores maxlen - len further updates
    }
    finish("reset k=" + str(k) + ": weight sequences of length 1..2, reset(), then every sequence of up to " + str(post) + " further updates");
  }

  // ---- (2) merges
  struct Operand { int k; std::vector<int> w; std::string label() const { std::string s = "k" + str(k) + "["; bool nd = false; for (size_t i = 0; i < w.size(); ++i) nd = nd || w[i] >= 3; for (size_t i = 0; i < w.size(); ++i) s += (nd && i ? "," : "") + str((int)WEIGHTS[w[i]]); return s + "]"; } };

  Dist build(const Dist& d0, std::vector<size_t>& path, int slot, const Operand& o) {
    Dist d = step(d0, path, sys.OP_NEW[slot][o.k]);
    for (size_t i = 0; i < o.w.size(); ++i) d = step(d, path, sys.OP_UPD[slot][o.w[i]]);
    return d;
  }

  // the distribution of one operand alone in `slot` (its own history from the initial state), computed once per task
  std::map<std::string, std::pair<Dist, std::vector<size_t> > > memo;
  const std::pair<Dist, std::vector<size_t> >& operand(int slot, const Operand& o) {
    const std::string key = str(slot) + o.label();
    if (!memo.count(key)) {
      const std::string keep = sys.nm; sys.nm = "merge-operand";
      std::vector<size_t> p; Dist d = build(pt.root(), p, slot, o);
      memo[key] = std::make_pair(d, p); sys.nm = keep;
    }
    return memo[key];
  }
  // sketches in different slots are fed independently (their draws are separate), so the joint distribution is the
  // product; every joint leaf is re-created by replaying both histories on fresh objects
  Dist product(const Dist& x, const Dist& y) {
    std::map<std::string, Leaf> m;
    for (size_t i = 0; i < x.size(); ++i) for (size_t j = 0; j < y.size(); ++j) {
      Leaf l; l.prob = x[i].prob * y[j].prob; l.hist = x[i].hist; l.hist.insert(l.hist.end(), y[j].hist.begin(), y[j].hist.end()); l.draws = x[i].draws + y[j].draws;
      std::unique_ptr<State> s = pt.replay(l.hist, nullptr); l.canon = sys.canon(*s);
      m[l.canon] = l;
    }
    Dist out; for (std::map<std::string, Leaf>::iterator i = m.begin(); i != m.end(); ++i) out.push_back(i->second);
    if (out.size() != x.size() * y.size()) { fprintf(stderr, "HARNESS-ERROR: product of independent distributions lost leaves\n"); abort(); }
    if (out.size() > max_leaves_seen) max_leaves_seen = out.size();
    return out;
  }
  static std::vector<size_t> cat(std::vector<size_t> a, const std::vector<size_t>& b) { a.insert(a.end(), b.begin(), b.end()); return a; }

  // A <- B by const-ref and by rvalue; results; then further updates; results again
  void merge_pair(const Operand& A, const Operand& B, int post_updates, bool ser_b) {
    const std::pair<Dist, std::vector<size_t> >& oa = operand(0, A); const std::pair<Dist, std::vector<size_t> >& ob = operand(1, B);
    std::vector<size_t> pb = cat(oa.second, ob.second); Dist dAB = product(oa.first, ob.first);
    sys.nm = "merge-lvalue";
    if (ser_b) dAB = step(dAB, pb, sys.OP_SER[1]);     // the operand is a restored sketch
    Dist dm[2];
    for (int mode = 0; mode < 2 && pt.complete(); ++mode) {
      sys.nm = mode == 0 ? "merge-lvalue" : "merge-rvalue";
      std::vector<size_t> pm = pb; dm[mode] = step(dAB, pm, mode == 0 ? sys.OP_ML[1] : sys.OP_MR[1]);
      node_checks(dm[mode], pm, !quick || mode == 1, mode == 0 ? 0 : -1);
      // the rvalue merge must reach the same states with the same probabilities as the lvalue merge; if it does, the
      // continuation after it is the continuation after the lvalue merge (canon holds every field the future depends on)
      bool same = false;
      if (mode == 1) same = same_distribution(dm[0], dm[1], "merge:rvalue-same-distribution-as-lvalue", pm);
      if (mode == 0 || !same) post(dm[mode], pm, post_updates, -1);
    }
    pairs++;
  }
  void post(const Dist& d, const std::vector<size_t>& path, int depth, int only_w) {
    if (depth == 0 || !pt.complete() || d.empty()) return;
    for (int w = 0; w < 3; ++w) {
      if (only_w >= 0 && w != only_w) continue;
      std::vector<size_t> p2 = path; Dist d2 = step(d, p2, sys.OP_UPD[0][w]);
      node_checks(d2, p2, !quick, -1);
      post(d2, p2, depth - 1, only_w);
    }
  }

  // pairs whose operands are both long are left to the thorough tier / not explored: max_n bounds n_A + n_B
  void run_merges(const Operand& A, const std::vector<Operand>& menu, int max_n, int deep_post_n) {
    for (size_t j = 0; j < menu.size() && pt.complete(); ++j) {
      const int nn = (int)(A.w.size() + menu[j].w.size());
      if (nn > max_n) continue;
      merge_pair(A, menu[j], nn <= deep_post_n ? 2 : 1, (menu[j].w.size() + (size_t)menu[j].k) % 2 == 0);   // every other operand is a restored sketch
    }
    finish("merge A=" + A.label() + " <- " + str(pairs) + " operands (n_A+n_B<=" + str(max_n) + "), lvalue and rvalue, then 1 further update (2 when n_A+n_B<=" + str(deep_post_n) + ")");
  }

  // chains: (A.merge(B)).merge(C), alternating const-ref / rvalue; one further update (rotating weight)
  void run_chain(const Operand& A, const std::vector<Operand>& menu) {
    sys.nm = "merge-chain";
    for (size_t i = 0; i < menu.size(); ++i) for (size_t j = 0; j < menu.size() && pt.complete(); ++j) {
      const std::pair<Dist, std::vector<size_t> >& oa = operand(0, A); const std::pair<Dist, std::vector<size_t> >& ob = operand(1, menu[i]); const std::pair<Dist, std::vector<size_t> >& oc = operand(2, menu[j]);
      sys.nm = "merge-chain";
      std::vector<size_t> p = cat(cat(oa.second, ob.second), oc.second); Dist x = product(product(oa.first, ob.first), oc.first);
      const bool flip = (i + j) & 1;
      x = step(x, p, flip ? sys.OP_MR[1] : sys.OP_ML[1]);
      x = step(x, p, flip ? sys.OP_ML[2] : sys.OP_MR[2]);
      node_checks(x, p, !quick, -1);
      post(x, p, 1, (int)((i + 2 * j) % 3));
      pairs++;
    }
    finish("merge chain A=" + A.label() + " <- B <- C over " + str(pairs) + " operand pairs");
  }

  void finish(const std::string& what) {
    pt.account(); journal_clear();
    char b[640]; snprintf(b, sizeof b, "%s: cpu_s=%.1f nodes=%llu merged_states=%llu branches=%llu result_distributions=%llu expectation_identities=%llu probes=%llu max_leaves=%zu max_intervals=%llu max_draws_per_op=%llu draws_outcome_dependent=%d min_branch_prob_of_one_op=%.3g",
      what.c_str(), (double)(std::clock() - c0) / CLOCKS_PER_SEC, (unsigned long long)nodes, (unsigned long long)pt.merged_states, (unsigned long long)pt.transitions, (unsigned long long)result_dists, (unsigned long long)expectations,
      (unsigned long long)pt.st.runs, max_leaves_seen, (unsigned long long)pt.st.max_intervals, (unsigned long long)pt.st.max_draws, (int)pt.draws_outcome_dependent, pt.min_branch_prob);
    rep.scenarios.push_back(b);
    rep.count("probes", (double)pt.st.runs); rep.count("probes_update", (double)pt.probes_update); rep.count("probes_query", (double)pt.probes_query); rep.count("probes_merge_and_other", (double)pt.probes_other); rep.count("raw_choice_points", (double)pt.st.raw_points); rep.count("history_nodes", (double)nodes);
    rep.count("expectation_identities", (double)expectations); rep.count("slivers", (double)pt.st.slivers);
    rep.count("states_not_expanded_after_violation", (double)pt.pruned_states); rep.count("expectations_skipped_missing_mass", (double)skipped);
    if (getenv("C18_DEBUG")) fprintf(stderr, "min branch prob %.6g at %s\n", pt.min_branch_prob, pt.min_branch_witness.c_str());
    if (!pt.draws_witness.empty()) rep.sample("draw count depends on the outcome: " + pt.draws_witness);
  }
};

// ---------------------------------------------------------------------------------------------------------------
// seam conformance: the mapping raw value -> next_double / random_idx that interval discovery relies on
static void seam_check() {
  Tape t; t.v.push_back(raw_from_unit(0.25)); t.v.push_back(raw_from_unit(0.75)); t.v.push_back(raw_from_unit(0.1)); t.v.push_back(raw_from_unit(0.9));
  double a, b; uint32_t i0, i1;
  { TapeScope sc(t); a = ebpps_sample<int>::next_double(); b = ebpps_sample<int>::next_double(); i0 = ebpps_sample<int>::random_idx(4); i1 = ebpps_sample<int>::random_idx(4); }
  if (std::fabs(a - 0.25) > 1e-12 || std::fabs(b - 0.75) > 1e-12 || i0 != 0 || i1 != 3 || t.kinds.size() != 4) {
    fprintf(stderr, "HARNESS-ERROR: the standard library maps raw draws differently than assumed (%.17g %.17g %u %u, %zu draws)\n", a, b, i0, i1, t.kinds.size()); exit(3);
  }
}

static void add_common(Report& rep) {
  rep.assumptions.push_back("interval discovery: grid G=4096 per raw draw of update() and merge() plus bisection to 1e-15; assumes no decision interval of a single draw is narrower than 1/4096. "
    "Every draw site of ebpps_sample is a monotone step function of the draw with at most max(2,k+1) steps (one threshold for next_double, n<=4 equal cells for random_idx); "
    "for streams with weights in {1,2,4}, W<=28 and k<=3 every threshold is a rational with denominator <= 4*12*28 = 1344, so it is either >= 1/1344 away from 0 and 1 or floating-point noise (<1e-13, counted as slivers and ignored). "
    "A missed interval would move probability mass between branches and break the exact identities E|result|==c and P(item)==c*w/W (checked at 1e-9 at every node), so the identities double as a completeness check of the discovery. "
    "For merges the re-inserted items carry the average weight W_B/c_B, denominators are larger and no closed bound is claimed; the smallest probability of a single operation's branch is reported per scenario (min_branch_prob_of_one_op)");
  rep.assumptions.push_back("the query operations get_result() and begin() use a grid of 256: their single draw is compared with frac(c), and c=min(k,W/wmax) is a multiple of 1/4 for wmax in {1,2,4} (c itself is checked on every branch)");
  rep.assumptions.push_back("weights are drawn from {1,2,4} (3, 9 and 11 in the non-dyadic stream walks and merge pairs only), k from {1,2,3}; items are ints equal to their arrival index (merge operands B, C start at 100, 200)");
  rep.assumptions.push_back("probes of one operation start from a copy of the replayed pre-state (library copy constructor); every state that enters a distribution is re-created by replaying its whole history on fresh objects and must have the identical canonical string");
  rep.assumptions.push_back("floating point: c is compared with min(k, W/wmax) at 1e-9 relative; probabilities and expectations at 1e-9; n, cumulative weight and k exactly");
  rep.sets("rule", "Exact distribution over canonical sketch states (k,n,cumulative weight,max weight,rho,c,ordered full items,partial item) carried along every weight sequence (DFS, prefixes shared) and every ordered operand pair of the merge menu; "
    "every outcome of every internal draw is a branch (get_result()/begin() included). Per-branch oracle in every merged state; inclusion probabilities and E|result| are exact sums over all branches. "
    "states = merged canonical states, transitions = branches (operation outcomes); distinct = distinct oracle outcome tags.");
  rep.setn("grid", GRID); rep.setn("query_grid", QUERY_GRID);
}

// the tasks of one tier. The thorough run starts with the quick tier's tasks unchanged, so that a failure class which the
// quick tier detects is reported with the same first witness (the same violation key) by both tiers.
static void add_tasks(std::vector<Task>& tasks, const Config& cfg, const bool q, const std::string& pre) {
  const size_t first = tasks.size();
  // (1) streams: every weight sequence up to length 4 (quick) / k+4 (thorough; k=3: k+3 = 6, see the sizing note on top:
  // length 7 at k=3 needs ~1.6e10 probes). Split into tasks by the first two (thorough: three) weights, k=1 by the first.
  std::vector<Task> stream_tasks[4];
  for (int k = 3; k >= 1; --k) {
    const int maxlen = q ? 4 : (k == 3 ? 6 : k + 4);
    const int plen = k == 1 ? 1 : (q ? 2 : 3);
    int np = 1; for (int i = 0; i < plen; ++i) np *= 3;
    for (int pi = np - 1; pi >= 0; --pi) {     // prefixes with heavy first items have the larger state spaces (c < k for longer): first
      std::vector<int> prefix(plen); int x = pi; for (int i = plen - 1; i >= 0; --i) { prefix[i] = x % 3; x /= 3; }
      Task t; t.name = pre + "stream/k" + str(k) + "/p" + str(pi);
      t.fn = [k, prefix, maxlen, q, &cfg](Report& rep) { Explorer ex(rep, cfg, GRID, q); ex.run_stream(k, prefix, maxlen); };
      stream_tasks[k].push_back(t);
    }
  }

  // (2) merges: the menu of reached sketches; every ORDERED pair (A,B) with n_A+n_B within the tier's bound is merged A <- B.
  typedef Explorer::Operand Operand;
  std::vector<Operand> menu;
  for (int k = 1; k <= 3; ++k) {       // the empty sketch and every single-item sketch (quick: one or two per k)
    for (int w = -1; w < 3; ++w) {
      if (q && w >= 0 && !((k == 1 && w == 1) || (k == 2 && w != 1) || (k == 3 && w == 1))) continue;
      Operand o; o.k = k; if (w >= 0) o.w.push_back(w); menu.push_back(o);
    }
  }
  const int extra[][6] = { /* k, then weight indices, -1 ends */
    {2, 0, 1, -1, -1, -1},      // k2 [1,2]      c=1.5, partial item
    {3, 0, 0, -1, -1, -1},      // k3 [1,1]      under-full, all kept
    {2, 0, 0, 0, -1, -1},       // k2 [1,1,1]    c=k, full
    {1, 0, 2, -1, -1, -1},      // k1 [1,4]
    {3, 0, 1, 0, -1, -1},       // k3 [1,2,1]    c=2 < k
    {3, 1, 0, 2, 0, -1},        // k3 [2,1,4,1]  c=2 < k because of the heavy item
    {3, 0, 1, 0, 0, -1},        // k3 [1,2,1,1]  c=2.5
    {3, 0, 0, 0, 0, -1},        // k3 [1,1,1,1]  c=k=3, full
    {2, 2, 0, 0, -1, -1},       // k2 [4,1,1]    c=1.5
    {2, 1, 2, -1, -1, -1},      // k2 [2,4]      c=1.5
  };
  const int nextra = q ? 3 : 10;
  for (int i = 0; i < nextra; ++i) { Operand o; o.k = extra[i][0]; for (int j = 1; j < 6 && extra[i][j] >= 0; ++j) o.w.push_back(extra[i][j]); menu.push_back(o); }
  const int max_n = q ? 3 : 5, deep_post_n = q ? 0 : 2;
  std::vector<size_t> order;                       // operands with at most two items have the most partners: they go first
  for (size_t i = 0; i < menu.size(); ++i) if (menu[i].w.size() == 1 || menu[i].w.size() == 2) order.push_back(i);
  for (size_t i = 0; i < menu.size(); ++i) if (!(menu[i].w.size() == 1 || menu[i].w.size() == 2)) order.push_back(i);
  for (size_t oi = 0; oi < order.size(); ++oi) {
    const size_t i = order[oi]; Operand A = menu[i];
    Task t; t.name = pre + "merge/A" + str(i) + "-" + A.label();
    t.fn = [A, menu, max_n, deep_post_n, q, &cfg](Report& rep) { Explorer ex(rep, cfg, GRID, q); ex.run_merges(A, menu, max_n, deep_post_n); };
    tasks.push_back(t);
  }
  // pairs outside the size bound of the menu, chosen for the regime they reach: the lighter operand (by cumulative weight) carries a
  // partial item AND the heaviest weight, and the merged C stays below k (needs k >= 4 with weights from {1,2,4})
  {
    const int sp[5][2][6] = {
      {{4, 0, 0, 0, 0, -1}, {4, 0, 1, -1, -1, -1}},     // k4 [1,1,1,1] <-> k4 [1,2]     W = 4 + 3, wmax 2, C = 3.5
      {{4, 0, 0, 0, 0, -1}, {4, 1, 0, -1, -1, -1}},     // k4 [1,1,1,1] <-> k4 [2,1]
      {{5, 1, 1, 1, 1, -1}, {4, 2, 1, -1, -1, -1}},     // k5 [2,2,2,2] <-> k4 [4,2]     W = 8 + 6, wmax 4, C = 3.5, unequal k
      {{2, 0, 0, 0, -1, -1}, {2, 0, 1, -1, -1, -1}},    // k2 [1,1,1] <-> k2 [1,2]: the merged-in sketch carries a partial item and the result is k-bound (C = k)
      {{3, 0, 0, 0, 0, -1}, {3, 1, 0, -1, -1, -1}},     // k3 [1,1,1,1] <-> k3 [2,1]
    };
    const int order[5] = {0, 3, 1, 4, 2};
    for (int oi = 0; oi < (q ? 3 : 5); ++oi) for (int dir = 0; dir < 2; ++dir) {
      const int i = order[oi];
      Operand A, B; Operand* o[2] = {&A, &B};
      for (int s2 = 0; s2 < 2; ++s2) { o[s2]->k = sp[i][s2 ^ dir][0]; for (int j = 1; j < 6 && sp[i][s2 ^ dir][j] >= 0; ++j) o[s2]->w.push_back(sp[i][s2 ^ dir][j]); }
      Task t; t.name = pre + "merge-special/" + A.label() + "<-" + B.label();
      t.fn = [A, B, q, &cfg](Report& rep) { Explorer ex(rep, cfg, GRID, q); ex.merge_pair(A, B, 1, false); ex.finish("merge " + A.label() + " <- " + B.label() + " (lighter operand holds the partial item and the heaviest weight), lvalue and rvalue, then 1 further update"); };
      tasks.push_back(t);
    }
  }
  // streams over the non-dyadic weights {1,3,11}: every sequence up to length 4 (quick, k=3) / 5 (thorough, k=2 and 3)
  for (int k = 3; k >= (q ? 3 : 2); --k) for (int pi = 2; pi >= 0; --pi) {
    std::vector<int> prefix(1, pi); const int maxlen = q ? 4 : 5;
    Task t; t.name = pre + "stream-nondyadic/k" + str(k) + "/p" + str(pi);
    t.fn = [k, prefix, maxlen, q, &cfg](Report& rep) { Explorer ex(rep, cfg, GRID, q); ex.wset[0] = 0; ex.wset[1] = 3; ex.wset[2] = 4; ex.run_stream(k, prefix, maxlen); };
    tasks.push_back(t);
  }
  // non-dyadic weights: rho, the average weight of the merged-in items and C are no longer exact quotients, C drifts by an ulp and the
  // case analysis on the fractional parts meets sums that round to an integer (each pair in both directions; the first three pairs merge
  // a sketch with a copy of its own history)
  {
    const int nd[5][2][6] = {
      {{3, 4, 0, 0, -1, -1}, {3, 4, 0, 0, -1, -1}},     // k3 [11,1,1] <-> k3 [11,1,1]       C = 13/11 each, average weight 11.000000000000002
      {{1, 5, 0, 3, -1, -1}, {1, 5, 0, 3, -1, -1}},     // k1 [9,1,3] <-> k1 [9,1,3]         a one-ulp fraction is lost in c_ += other.c_ (the cheap witness of the second defect)
      {{3, 3, 3, 0, 0, 0}, {3, 3, 3, 0, 0, 0}},         // k3 [3,3,1,1,1] <-> k3 [3,3,1,1,1] C = 3.0000000000000004 before the merge (thorough: 1148 leaves)
      {{2, 3, 0, -1, -1, -1}, {3, 0, 3, 0, -1, -1}},    // k2 [3,1] <-> k3 [1,3,1]
      {{3, 0, 4, 0, 1, 0}, {3, 3, 1, -1, -1, -1}},      // k3 [1,11,1,2,1] <-> k3 [3,2]
    };
    for (int i = 0; i < (q ? 2 : 5); ++i) for (int dir = 0; dir < (i < 3 ? 1 : 2); ++dir) {
      Operand A, B; Operand* o[2] = {&A, &B};
      for (int s2 = 0; s2 < 2; ++s2) { o[s2]->k = nd[i][s2 ^ dir][0]; for (int j = 1; j < 6 && nd[i][s2 ^ dir][j] >= 0; ++j) o[s2]->w.push_back(nd[i][s2 ^ dir][j]); }
      Task t; t.name = pre + "merge-nondyadic/" + A.label() + "<-" + B.label();
      t.fn = [A, B, q, &cfg](Report& rep) { Explorer ex(rep, cfg, GRID, q); const int post_n = (!q && A.w.size() + B.w.size() >= 10) ? 0 : 1;   /* thorough node checks after a 10-item merge (1148 leaves) cost ~500 cpu-s per further update */ ex.merge_pair(A, B, post_n, false); ex.finish("merge " + A.label() + " <- " + B.label() + " (non-dyadic weights), lvalue and rvalue, then " + str(post_n) + " further update"); };
      tasks.push_back(t);
    }
  }
  for (int k = 1; k <= 3; ++k) {
    Task t; t.name = pre + "reset/k" + str(k);
    t.fn = [k, q, &cfg](Report& rep) { Explorer ex(rep, cfg, GRID, q); ex.run_reset(k, q ? 2 : 3); };
    tasks.push_back(t);
  }
  // chains (A.merge(B)).merge(C) over the short operands
  {
    std::vector<Operand> small;
    for (size_t i = 0; i < menu.size(); ++i) if (menu[i].w.size() <= 1 && (menu[i].w.empty() || (q ? menu[i].k != 2 : (menu[i].k != 1 || menu[i].w[0] == 1)))) small.push_back(menu[i]);
    // task order = start order, longest first: at length 4 the three k=1 tasks are the longest (40 nodes each), in the
    // thorough tier the merge tasks are
    std::vector<Task> chains;
    for (size_t i = 0; i < small.size(); ++i) {
      Operand A = small[i];
      Task t; t.name = pre + "chain/A" + str(i) + "-" + A.label();
      t.fn = [A, small, q, &cfg](Report& rep) { Explorer ex(rep, cfg, GRID, q); ex.run_chain(A, small); };
      chains.push_back(t);
    }
    std::vector<Task> merges(tasks.begin() + (long)first, tasks.end()); tasks.resize(first);
    if (q) tasks.insert(tasks.end(), stream_tasks[1].begin(), stream_tasks[1].end());
    tasks.insert(tasks.end(), merges.begin(), merges.end());
    if (q) tasks.insert(tasks.end(), chains.begin(), chains.end());
    tasks.insert(tasks.end(), stream_tasks[2].begin(), stream_tasks[2].end());
    tasks.insert(tasks.end(), stream_tasks[3].begin(), stream_tasks[3].end());
    if (!q) { tasks.insert(tasks.end(), stream_tasks[1].begin(), stream_tasks[1].end()); tasks.insert(tasks.end(), chains.begin(), chains.end()); }
  }
}

int main(int argc, char** argv) {
  Config cfg = parse_args(argc, argv);
  forbid_unowned_draws();
  seam_check();
  case_timeout_s() = 120;   // per (leaf, operation): at most ~2e5 probes of a few microseconds; generous because other checks may share the machine
  std::vector<Task> tasks;

  if (!cfg.replay_scenario.empty()) {
    // plain replay of one recorded case
    Task t; t.name = "replay"; t.fn = [&cfg](Report& rep) {
      Explorer ex(rep, cfg, GRID, cfg.quick()); ex.sys.nm = cfg.replay_scenario;
      const std::string& hs = cfg.replay_history;
      if (hs.compare(0, 2, "E:") == 0) {
        // an expectation over all branches: recompute the distribution along the recorded operations
        Hist h; if (!ex.pt.parse_hist(hs.substr(2), h)) { rep.violation("C18|replay|parse", "cannot parse history", cfg.replay_scenario, hs); return; }
        // the last operation is the query (or the round trip) whose distribution was checked; for same-distribution
        // checks both sides are rebuilt by the exploration itself, so re-run the recorded path with its checks
        std::vector<size_t> path; Dist d = ex.pt.root(); Dist prev;
        for (size_t i = 0; i < h.size(); ++i) { prev = d; d = ex.step(d, path, h[i].op); }
        std::vector<size_t> pp(path.begin(), path.end() - 1);
        const Kind lk = ex.sys.ops[h.back().op].kind;
        if (lk == K_RES || lk == K_RIT) ex.result_expectations(prev, pp, h.back().op);
        else if (lk == K_SER || lk == K_SST) ex.same_distribution(prev, d, lk == K_SER ? "ser:bytes-round-trip-same-distribution" : "ser:stream-round-trip-same-distribution", path);
        else if (lk == K_MERGE_R) { std::vector<size_t> pl = pp; ex.sys.nm = "merge-lvalue"; Dist dl = ex.step(prev, pl, ex.sys.OP_ML[ex.sys.ops[h.back().op].slot]); ex.sys.nm = cfg.replay_scenario; ex.same_distribution(dl, d, "merge:rvalue-same-distribution-as-lvalue", path); }
        else if (lk == K_UPD) {
          // restored-sketch continuation: the same path without the round trip
          std::vector<size_t> q2; Dist d2 = ex.pt.root();
          for (size_t i = 0; i < h.size(); ++i) { Kind kk = ex.sys.ops[h[i].op].kind; if (kk == K_SER || kk == K_SST) continue; d2 = ex.step(d2, q2, h[i].op); }
          ex.same_distribution(d2, d, "ser:restored-sketch-continues-to-same-distribution", path);
        }
        ex.pt.account();
      } else {
        Hist h; if (!ex.pt.parse_hist(hs, h)) { rep.violation("C18|replay|parse", "cannot parse history", cfg.replay_scenario, hs); return; }
        Ctx ctx(rep, cfg.replay_scenario, hs); int a0 = asan_errors();
        std::unique_ptr<State> s = ex.pt.replay(h, &ctx);
        ex.sys.check(*s, ctx);
        if (asan_errors() != a0) ctx.fail("asan", "AddressSanitizer report during replay");
        rep.flush_ctx_fails(ctx.fails, cfg.replay_scenario, hs);
        rep.states += 1; rep.transitions += 1;
      }
    }; tasks.push_back(t);
    return run_tasks(cfg, "C18", tasks);
  }

  { Task t; t.name = "meta"; t.fn = [](Report& rep) { add_common(rep); }; tasks.push_back(t); }
  add_tasks(tasks, cfg, true, "");
  if (!cfg.quick()) add_tasks(tasks, cfg, false, "thorough/");
  return run_tasks(cfg, "C18", tasks);
}
