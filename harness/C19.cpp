// C19: sketch objects have value semantics and return every byte they allocate.
// E5: BFS over lifecycle operations (construct, update, merge by reference / by move, copy- and move-construction,
// copy- and move-assignment incl. self-assignment, reset, serialize, destroy) on 2-3 slots per family, every family
// instantiated with the arena-tracking allocator and, where generic, the instrumented item type, under ASan.
#define MC_MAIN
#include "families.hpp"
#include "fam_all.hpp"
#include "bfs.hpp"
#include <theta_intersection.hpp>
#include <tuple_union.hpp>
using namespace mc;
using namespace fam;
using namespace datasketches;

// ---------------- per-family traits ----------------
// make(arena): fresh object whose allocator instance belongs to `arena`;  a(x): light content operation; b(x): operation that
// moves the object through its modes; merge / merge_move where the family has them; obs(x): public observation; reset where offered.
template<class T> struct ItemGen { static T make(int i) { return Gen<T>::make(i); } };

// is_view(x): the object does not own its state but is a view of caller memory (wrapped Bloom filters). Copying a view yields
// another view of the same memory by design, so the independence clause is applied to objects that own their state
struct TrBase { template<class S> static bool is_view(const S&) { return false; }
  // residue(x): private state that no observation shows but that later operations depend on (allocation sizes, caches). It is part
  // of the canonical state only (two states are merged only if their futures are the same), never of an equality a copy must meet
  template<class S> static std::string residue(S&) { return std::string(); } static const bool has_merge = true; static const bool has_reset = false; template<class S> static void reset(S&) {} static const bool obs_mutates = false; };

template<class T, int KIND> struct QuantTr : TrBase {
  typedef typename QuantTypes<T, KIND>::Sk Sk; typedef typename LessOf<T>::type C;
  static std::string nm() { return std::string(QuantTypes<T, KIND>::nm()) + "<item>"; }
  template<int K = KIND> static typename std::enable_if<K != 1, Sk*>::type make(int arena) { return new Sk(KIND == 0 ? 16 : 2, C(), TrackAlloc<T>(arena)); }
  template<int K = KIND> static typename std::enable_if<K == 1, Sk*>::type make(int arena) { return new Sk(4, true, C(), TrackAlloc<T>(arena)); }
  static void a(Sk& s, int n) { s.update(Gen<T>::make(n)); }
  // the mode-changing operation also absorbs an estimating sketch of a smaller k where the family allows it (KLL), so that
  // state which differs from the configuration (the smallest contributing k behind the published error) exists and must be carried by copies and moves
  template<int K = KIND> static typename std::enable_if<K == 0, void>::type absorb_smaller(Sk& s, int n) { Sk o(8, C(), s.get_allocator()); for (int i = 0; i < 40; ++i) o.update(Gen<T>::make(300 * n + i)); s.merge(o); }
  template<int K = KIND> static typename std::enable_if<K != 0, void>::type absorb_smaller(Sk&, int) {}
  // classic quantiles (k = 2): 16 = 8k items leave the level pattern 100, i.e. empty levels below a full one
  static void b(Sk& s, int n) { for (int i = 0; i < (KIND == 2 ? 16 : 30); ++i) s.update(Gen<T>::make(100 * n + i)); absorb_smaller(s, n); }
  static void merge(Sk& s, const Sk& o) { s.merge(o); } static void merge_move(Sk& s, Sk&& o) { s.merge(std::move(o)); }
  // REQ keeps state that no query shows at once but that decides when the sketch compacts next (the capacity it compares its
  // retained count with, per-level section geometry and compaction counters): part of "a move transfers the exact state"
  template<int K = KIND> static typename std::enable_if<K == 1, std::string>::type hidden(Sk& s) {
    std::string h = "|maxnom=" + str(s.max_nom_size_) + "|retained=" + str(s.num_retained_);
    for (size_t l = 0; l < s.compactors_.size(); ++l) h += "|L" + str(l) + ":" + str(s.compactors_[l].state_) + "/" + str((int)s.compactors_[l].num_sections_) + "/" + str(s.compactors_[l].section_size_) + "/" + str((int)s.compactors_[l].coin_);
    return h;
  }
  template<int K = KIND> static typename std::enable_if<K != 1, std::string>::type hidden(Sk&) { return std::string(); }
  static std::string obs(Sk& s) { return QObj<Sk, T, KIND>::obs_of(s) + hidden(s); }
  static std::string residue(Sk& s) { return s.sorted_view_ != nullptr ? "cached-view" : ""; }
  static void ser(Sk& s) { s.serialize(0, typename SerdeOf<T>::type()); }
};
struct ThetaUpdTr : TrBase {
  typedef UTheta Sk; static std::string nm() { return "theta-update"; }
  static Sk* make(int arena) { return new Sk(Sk::builder(A64(arena)).set_lg_k(5).build()); }
  static void a(Sk& s, int n) { s.update((uint64_t)n); } static void b(Sk& s, int n) { for (int i = 0; i < 80; ++i) s.update((uint64_t)(1000 * n + i)); }
  static const bool has_merge = false; static void merge(Sk&, const Sk&) {} static void merge_move(Sk&, Sk&&) {}
  static const bool has_reset = true; static void reset(Sk& s) { s.reset(); }
  static std::string obs(Sk& s) { return theta_obs(s) + "|lgk=" + str((int)s.get_lg_k()); }
  static std::string residue(Sk& s) { return "lgcur" + str((int)s.table_.lg_cur_size_); }
  static void ser(Sk& s) { s.compact().serialize(); }
};
struct ThetaCompactTr : TrBase {
  typedef CTheta Sk; static std::string nm() { return "theta-compact"; }
  static UTheta src(int arena, int n) { UTheta u = UTheta::builder(A64(arena)).set_lg_k(5).build(); for (int i = 0; i < n; ++i) u.update((uint64_t)i); return u; }
  static Sk* make(int arena) { return new Sk(src(arena, 0), true); }
  static void a(Sk& s, int n) { s = Sk(src(s.get_allocator().arena, 3 + n), true); } static void b(Sk& s, int n) { s = Sk(src(s.get_allocator().arena, 90 + n), false); }
  static const bool has_merge = false; static void merge(Sk&, const Sk&) {} static void merge_move(Sk&, Sk&&) {}
  static std::string obs(Sk& s) { return theta_obs(s); }
  static void ser(Sk& s) { s.serialize(); s.serialize_compressed(); }
};
struct ThetaUnionTr : TrBase {
  typedef theta_union_alloc<A64> Sk; static std::string nm() { return "theta-union"; }
  static Sk* make(int arena) { return new Sk(Sk::builder(A64(arena)).set_lg_k(arena == 1 ? 6 : 5).build()); }
  static void a(Sk& s, int n) { s.update(ThetaCompactTr::src(7, 3 + n)); } static void b(Sk& s, int n) { UTheta u = ThetaCompactTr::src(8, 70 + n); s.update(std::move(u)); }
  static const bool has_merge = false; static void merge(Sk&, const Sk&) {} static void merge_move(Sk&, Sk&&) {}
  static const bool has_reset = true; static void reset(Sk& s) { s.reset(); }
  static std::string obs(Sk& s) { return theta_obs(s.get_result(true)); }
  static void ser(Sk& s) { s.get_result(false).serialize(); }
};
struct ThetaInterTr : TrBase {
  typedef theta_intersection_alloc<A64> Sk; static std::string nm() { return "theta-intersection"; }
  static Sk* make(int arena) { return new Sk(DEFAULT_SEED, A64(arena)); }
  static void a(Sk& s, int n) { s.update(ThetaCompactTr::src(7, 40 + n)); } static void b(Sk& s, int n) { UTheta u = ThetaCompactTr::src(8, 70 + n); s.update(std::move(u)); }
  static const bool has_merge = false; static void merge(Sk&, const Sk&) {} static void merge_move(Sk&, Sk&&) {}
  static std::string obs(Sk& s) { return s.has_result() ? theta_obs(s.get_result(true)) : std::string("no-result"); }
  static void ser(Sk& s) { if (s.has_result()) s.get_result(false).serialize(); }
};
struct TupleUpdTr : TrBase {
  typedef std::string S; typedef TrackAlloc<S> AS; typedef update_tuple_sketch<S, S, TuplePolicy<S>, AS> Sk; static std::string nm() { return "tuple-update<string>"; }
  static Sk* make(int arena) { return new Sk(Sk::builder(TuplePolicy<S>(), AS(arena)).set_lg_k(5).build()); }
  static void a(Sk& s, int n) { s.update((uint64_t)n, SumGen<S>::make(n)); s.update((uint64_t)n, SumGen<S>::make(n + 1)); }
  static void b(Sk& s, int n) { for (int i = 0; i < 80; ++i) s.update((uint64_t)(1000 * n + i), SumGen<S>::make(i)); }
  static const bool has_merge = false; static void merge(Sk&, const Sk&) {} static void merge_move(Sk&, Sk&&) {}
  static const bool has_reset = true; static void reset(Sk& s) { s.reset(); }
  static std::string obs(Sk& s) { return TupleObj<S>::obs_of(s.compact(true)); }
  static void ser(Sk& s) { s.compact().serialize(); }
};
struct TupleUnionTr : TrBase {
  typedef std::string S; typedef TrackAlloc<S> AS; struct Pol { void operator()(S& a, const S& b) const { a += b; } };
  typedef tuple_union<S, Pol, AS> Sk; static std::string nm() { return "tuple-union<string>"; }
  static Sk* make(int arena) { return new Sk(Sk::builder(Pol(), AS(arena)).set_lg_k(5).build()); }
  static TupleUpdTr::Sk src(int arena, int n) { TupleUpdTr::Sk u = TupleUpdTr::Sk::builder(TuplePolicy<S>(), AS(arena)).set_lg_k(5).build(); for (int i = 0; i < n; ++i) u.update((uint64_t)i, SumGen<S>::make(i)); return u; }
  static void a(Sk& s, int n) { s.update(src(7, 3 + n)); } static void b(Sk& s, int n) { TupleUpdTr::Sk u = src(8, 70 + n); s.update(std::move(u)); }
  static const bool has_merge = false; static void merge(Sk&, const Sk&) {} static void merge_move(Sk&, Sk&&) {}
  static const bool has_reset = true; static void reset(Sk& s) { s.reset(); }
  static std::string obs(Sk& s) { return TupleObj<S>::obs_of(s.get_result(true)); }
  static void ser(Sk& s) { s.get_result().serialize(); }
};
// tuple sketches whose summary is an instrumented item (construction / destruction counted) and whose hash table GROWS:
// lg_k 6 with resize factor X2 starts at 32 slots and reaches 128 during b(); reset() then has to give back a grown table
struct ItemUpdPolicy { Item create() const { return Item(0); } void update(Item& s, const int& v) const { s = Item(s.get() + v); } };
struct TupleItemTr : TrBase {
  typedef Item S; typedef TrackAlloc<S> AS; typedef update_tuple_sketch<S, int, ItemUpdPolicy, AS> Sk; static std::string nm() { return "tuple-update<item>/growing"; }
  static Sk* make(int arena) { return new Sk(Sk::builder(ItemUpdPolicy(), AS(arena)).set_lg_k(6).set_resize_factor(theta_constants::resize_factor::X2).build()); }
  static void a(Sk& s, int n) { s.update((uint64_t)n, 1 + n); s.update((uint64_t)n, 2); }
  static void b(Sk& s, int n) { for (int i = 0; i < (n % 2 ? 40 : 150); ++i) s.update((uint64_t)(1000 * n + i), i); }
  static const bool has_merge = false; static void merge(Sk&, const Sk&) {} static void merge_move(Sk&, Sk&&) {}
  static const bool has_reset = true; static void reset(Sk& s) { s.reset(); }
  static std::string obs(Sk& s) { return TupleObj<S>::obs_of(s.compact(true)) + "|lgcur=" + str((int)s.map_.lg_cur_size_); }
  static void ser(Sk& s) { s.compact().serialize(0, ItemSerde()); }
};
struct TupleItemUnionTr : TrBase {
  typedef Item S; typedef TrackAlloc<S> AS; struct Pol { void operator()(S& a, const S& b) const { a = Item(a.get() + b.get()); } };
  typedef tuple_union<S, Pol, AS> Sk; static std::string nm() { return "tuple-union<item>/growing"; }
  static Sk* make(int arena) { return new Sk(Sk::builder(Pol(), AS(arena)).set_lg_k(6).set_resize_factor(theta_constants::resize_factor::X2).build()); }
  static TupleItemTr::Sk src(int arena, int n) { TupleItemTr::Sk u = TupleItemTr::Sk::builder(ItemUpdPolicy(), AS(arena)).set_lg_k(6).build(); for (int i = 0; i < n; ++i) u.update((uint64_t)i, i); return u; }
  static void a(Sk& s, int n) { s.update(src(7, 3 + n)); } static void b(Sk& s, int n) { TupleItemTr::Sk u = src(8, (n % 2 ? 40 : 150) + n); s.update(std::move(u)); }
  static const bool has_merge = false; static void merge(Sk&, const Sk&) {} static void merge_move(Sk&, Sk&&) {}
  static const bool has_reset = true; static void reset(Sk& s) { s.reset(); }
  static std::string obs(Sk& s) { return TupleObj<S>::obs_of(s.get_result(true)); }
  static void ser(Sk& s) { s.get_result().serialize(0, ItemSerde()); }
};
// array-of-doubles update sketch: every summary owns a heap array obtained from the user's allocator; growing table as above
struct AodUpdTr : TrBase {
  typedef AodObj::AD AD; typedef AodObj::Arr Arr; typedef default_array_tuple_update_policy<Arr, AD> Pol; typedef update_array_tuple_sketch<Arr, Pol, AD> Sk;
  static std::string nm() { return "array-of-doubles-update/growing"; }
  static Sk* make(int arena) { return new Sk(Sk::builder(Pol(2, AD(arena)), AD(arena)).set_lg_k(6).set_resize_factor(theta_constants::resize_factor::X2).build()); }
  static void one(Sk& s, uint64_t key, double v) { Arr x(2, 0.0, s.get_allocator()); x[0] = v; x[1] = -v; s.update(key, x); }
  static void a(Sk& s, int n) { one(s, (uint64_t)n, n); one(s, (uint64_t)n, 0.5); }
  static void b(Sk& s, int n) { for (int i = 0; i < (n % 2 ? 40 : 150); ++i) one(s, (uint64_t)(1000 * n + i), i); }
  static const bool has_merge = false; static void merge(Sk&, const Sk&) {} static void merge_move(Sk&, Sk&&) {}
  static const bool has_reset = true; static void reset(Sk& s) { s.reset(); }
  static std::string obs(Sk& s) { AodObj::CA c = s.compact(true); return AodObj::obs_of(c); }
  static void ser(Sk& s) { s.compact().serialize(); }
};
// compact array-of-doubles sketches; merge_move feeds the source BY MOVE into a union (its entries are taken out, its summaries are
// left moved-from), so that a later assignment to that source meets moved-from summaries
struct AodCompactTr : TrBase {
  typedef AodObj::AD AD; typedef AodObj::Arr Arr; typedef AodObj::CA Sk; typedef default_array_tuple_update_policy<Arr, AD> Pol; typedef update_array_tuple_sketch<Arr, Pol, AD> UA;
  typedef array_tuple_union<Arr, default_array_tuple_union_policy<Arr>, AD> Un;
  static std::string nm() { return "array-of-doubles-compact"; }
  static Sk src(int arena, int n, int base) { UA u = UA::builder(Pol(2, AD(arena)), AD(arena)).set_lg_k(5).build(); Arr x(2, 0.0, AD(arena)); for (int i = 0; i < n; ++i) { x[0] = base + i; x[1] = -i; u.update((uint64_t)(base + i), x); } return u.compact(true); }
  // all slots share ONE arena here: with equal allocators a container assignment re-uses the target's storage and assigns element
  // by element (with unequal ones it reallocates), which is the path on which a moved-from summary is assigned to
  static Sk* make(int) { return new Sk(src(1, 0, 0)); }
  static void a(Sk& s, int n) { s = src(s.get_allocator().arena, 3 + n % 3, 10 * n); } static void b(Sk& s, int n) { s = src(s.get_allocator().arena, 9, 100 * n); }
  static Un make_union(int arena) { return Un::builder(default_array_tuple_union_policy<Arr>(2), AD(arena)).set_lg_k(5).build(); }
  static void merge(Sk& s, const Sk& o) { Un u = make_union(s.get_allocator().arena); u.update(s); u.update(o); s = u.get_result(true); }
  static void merge_move(Sk& s, Sk&& o) { Un u = make_union(s.get_allocator().arena); u.update(s); u.update(std::move(o)); s = u.get_result(true); }
  static std::string obs(Sk& s) { return AodObj::obs_of(s); }
  static void ser(Sk& s) { s.serialize(); }
};
// HLL_4 at lg_k 4 driven by injected coupons so that the auxiliary exception map is created, survives one cur_min shift and is
// emptied by another: slot 0 holds value 15 (an exception while cur_min is 0, an ordinary nibble once cur_min is 1), or 20
struct HllAuxTr : TrBase {
  typedef Hll Sk; static std::string nm() { return "hll-sketch/HLL_4-aux-map"; }
  static Sk* make(int arena) { return new Sk(4, HLL_4, false, A8(arena)); }
  static uint32_t cp(int slot, int val) { return ((uint32_t)val << 26) | (uint32_t)slot; }
  static void a(Sk& s, int n) { s.coupon_update(cp(1 + n % 15, 1 + n % 3)); }
  static void b(Sk& s, int n) {
    s.coupon_update(cp(0, n % 2 ? 15 : 20)); s.coupon_update(cp(5, 16));     // two exceptions while cur_min is 0
    for (int slot = 1; slot < 16; ++slot) s.coupon_update(cp(slot, 1));            // every slot above 0: cur_min becomes 1; value 15 stops being an exception
    if (n % 2) for (int slot = 0; slot < 16; ++slot) s.coupon_update(cp(slot, 2)); // cur_min 2: value 16 stops being one too, the map is empty
  }
  static const bool has_merge = false; static void merge(Sk&, const Sk&) {} static void merge_move(Sk&, Sk&&) {}
  static const bool has_reset = true; static void reset(Sk& s) { s.reset(); }
  static std::string obs(Sk& s) { return HllObj::obs_of(s); }
  static void ser(Sk& s) { s.serialize_compact(); s.serialize_updatable(); }
};
struct HllTr : TrBase {
  typedef Hll Sk; static std::string nm() { return "hll-sketch"; }
  static Sk* make(int arena) { return new Sk(8, HLL_4, false, A8(arena)); }
  static void a(Sk& s, int n) { s.update((uint64_t)n); } static void b(Sk& s, int n) { for (int i = 0; i < (n % 2 ? 20 : 300); ++i) s.update((uint64_t)(1000 * n + i)); }
  static const bool has_merge = false; static void merge(Sk&, const Sk&) {} static void merge_move(Sk&, Sk&&) {}
  static const bool has_reset = true; static void reset(Sk& s) { s.reset(); }
  static std::string obs(Sk& s) { return HllObj::obs_of(s); }
  static void ser(Sk& s) { s.serialize_compact(); s.serialize_updatable(); }
};
struct HllUnionTr : TrBase {
  typedef HllU Sk; static std::string nm() { return "hll-union"; }
  static Sk* make(int arena) { return new Sk(arena == 1 ? 9 : 8, A8(arena)); }   // slots differ in lg_max_k
  static Hll src(int n, target_hll_type t, int lgk) { Hll h((uint8_t)lgk, t, false, A8(7)); for (int i = 0; i < n; ++i) h.update((uint64_t)i * 31); return h; }
  static void a(Sk& s, int n) { s.update(src(5 + n, HLL_8, 8)); } static void b(Sk& s, int n) { Hll h = src(400 + n, n % 2 ? HLL_4 : HLL_6, 9); s.update(std::move(h)); }
  static const bool has_merge = false; static void merge(Sk&, const Sk&) {} static void merge_move(Sk&, Sk&&) {}
  static const bool has_reset = true; static void reset(Sk& s) { s.reset(); }
  static std::string obs(Sk& s) { Hll r = s.get_result(HLL_8); return HllObj::obs_of(r); }
  static void ser(Sk& s) { s.get_result(HLL_4).serialize_compact(); }
};
struct CpcTr : TrBase {
  typedef Cpc Sk; static std::string nm() { return "cpc-sketch"; }
  static Sk* make(int arena) { return new Sk(arena == 1 ? 6 : 5, DEFAULT_SEED, A8(arena)); }
  static void a(Sk& s, int n) { s.update((uint64_t)n); } static void b(Sk& s, int n) { for (int i = 0; i < (n % 2 ? 20 : 150); ++i) s.update((uint64_t)(1000 * n + i)); }
  static const bool has_merge = false; static void merge(Sk&, const Sk&) {} static void merge_move(Sk&, Sk&&) {}
  static std::string obs(Sk& s) { return CpcObj::obs_of(s); }
  static void ser(Sk& s) { s.serialize(); }
};
struct CpcUnionTr : TrBase {
  typedef CpcU Sk; static std::string nm() { return "cpc-union"; }
  static Sk* make(int arena) { return new Sk(arena == 1 ? 7 : 5, DEFAULT_SEED, A8(arena)); }   // slots differ in lg_k
  static Cpc src(int n, int lgk) { Cpc c((uint8_t)lgk, DEFAULT_SEED, A8(7)); for (int i = 0; i < n; ++i) c.update((uint64_t)i * 31); return c; }
  static void a(Sk& s, int n) { s.update(src(3 + n, 5)); } static void b(Sk& s, int n) { Cpc c = src(200 + n, 6); s.update(std::move(c)); }
  static const bool has_merge = false; static void merge(Sk&, const Sk&) {} static void merge_move(Sk&, Sk&&) {}
  static std::string obs(Sk& s) { Cpc r = s.get_result(); return CpcObj::obs_of(r); }
  static void ser(Sk& s) { s.get_result().serialize(); }
};
struct FiTr : TrBase {
  typedef FiObj<Item>::Sk Sk; static std::string nm() { return "frequent_items<item>"; }
  static Sk* make(int arena) { return new Sk(arena == 1 ? 4 : 3, 3, ItemEqual(), TrackAlloc<Item>(arena)); }
  static void a(Sk& s, int n) { s.update(Item(n), 2); } static void b(Sk& s, int n) { for (int i = 0; i < 9; ++i) s.update(Item(100 * n + i), 1 + i % 3); }
  static void merge(Sk& s, const Sk& o) { s.merge(o); } static void merge_move(Sk& s, Sk&& o) { s.merge(std::move(o)); }
  static std::string obs(Sk& s) { return FiObj<Item>::obs_of(s); }
  static std::string residue(Sk& s) { return "lgcur" + str((int)s.map.lg_cur_size_); }
  static void ser(Sk& s) { s.serialize(0, ItemSerde()); }
};
struct CmTr : TrBase {
  typedef CmObj::Sk Sk; static std::string nm() { return "count_min"; }
  static Sk* make(int arena) { return new Sk(2, 5, DEFAULT_SEED, TrackAlloc<uint64_t>(arena)); }
  static void a(Sk& s, int n) { s.update((uint64_t)n, 2); } static void b(Sk& s, int n) { for (int i = 0; i < 9; ++i) s.update((uint64_t)(100 * n + i), 1); }
  static void merge(Sk& s, const Sk& o) { s.merge(o); } static void merge_move(Sk& s, Sk&& o) { s.merge(o); }
  static std::string obs(Sk& s) { return CmObj::obs_of(s); }
  static void ser(Sk& s) { s.serialize(); }
};
struct VoTr : TrBase {
  typedef VoObj<Item>::Sk Sk; static std::string nm() { return "var_opt_sketch<item>"; }
  static Sk* make(int arena) { return new Sk(3, resize_factor::X2, TrackAlloc<Item>(arena)); }
  static void a(Sk& s, int n) { s.update(Item(n), 1.0 + n); } static void b(Sk& s, int n) { for (int i = 0; i < 7; ++i) s.update(Item(100 * n + i), 1.0 + i); }
  static const bool has_merge = false; static void merge(Sk&, const Sk&) {} static void merge_move(Sk&, Sk&&) {}
  static const bool has_reset = true; static void reset(Sk& s) { s.reset(); }
  static std::string obs(Sk& s) { return varopt_obs<Item>(s); }
  static std::string residue(Sk& s) { return "alloc" + str(s.curr_items_alloc_) + (s.filled_data_ ? "F" : "f"); }
  static void ser(Sk& s) { s.serialize(0, ItemSerde()); }
};
struct VuTr : TrBase {
  typedef var_opt_union<Item, TrackAlloc<Item> > Sk; typedef VoObj<Item>::Sk VS; static std::string nm() { return "var_opt_union<item>"; }
  static Sk* make(int arena) { return new Sk(arena == 1 ? 5 : 3, TrackAlloc<Item>(arena)); }   // slots differ in max_k
  static VS src(int n, int k) { VS v((uint32_t)k, resize_factor::X8, TrackAlloc<Item>(7)); for (int i = 0; i < n; ++i) v.update(Item(i), 1.0 + (i % 3)); return v; }
  static void a(Sk& s, int n) { s.update(src(2 + n, 4)); } static void b(Sk& s, int n) { VS v = src(12 + n, 2); s.update(std::move(v)); }
  static const bool has_merge = false; static void merge(Sk&, const Sk&) {} static void merge_move(Sk&, Sk&&) {}
  static const bool has_reset = true; static void reset(Sk& s) { s.reset(); }
  static std::string obs(Sk& s) { Sched sc(0, 4242); VS r = s.get_result(); return varopt_obs<Item>(r); }   // get_result draws: observe under its own fixed schedule
  static void ser(Sk& s) { s.serialize(0, ItemSerde()); }
};
struct EbTr : TrBase {
  typedef EbObj<Item>::Sk Sk; static std::string nm() { return "ebpps<item>"; }
  static Sk* make(int arena) { return new Sk(3, TrackAlloc<Item>(arena)); }
  static void a(Sk& s, int n) { s.update(Item(n), 1.0 + n); } static void b(Sk& s, int n) { for (int i = 0; i < 7; ++i) s.update(Item(100 * n + i), 1.0 + i % 2); }
  static void merge(Sk& s, const Sk& o) { s.merge(o); } static void merge_move(Sk& s, Sk&& o) { s.merge(std::move(o)); }
  static const bool has_reset = true; static void reset(Sk& s) { s.reset(); }
  static std::string obs(Sk& s) { return EbObj<Item>::obs_of(s); }
  static void ser(Sk& s) { s.serialize(0, ItemSerde()); }
};
struct TdTr : TrBase {
  typedef TdObj<double>::Sk Sk; static std::string nm() { return "tdigest<double>"; }
  static Sk* make(int arena) { return new Sk(arena == 1 ? 20 : 10, TrackAlloc<double>(arena)); }
  static void a(Sk& s, int n) { s.update(1.5 * n); } static void b(Sk& s, int n) { for (int i = 0; i < 260; ++i) s.update((i * 37 % 101) + n); }
  static void merge(Sk& s, const Sk& o) { s.merge(o); } static void merge_move(Sk& s, Sk&& o) { s.merge(o); }
  static std::string obs(Sk& s) { return TdObj<double>::obs_of(s) + "|buf=" + str(s.buffer_.size()) + "|cent=" + str(s.centroids_.size()); }
  static void ser(Sk& s) { s.serialize(0, true); }
};
struct BloomTr : TrBase {
  typedef Bloom Sk; static std::string nm() { return "bloom"; }
  static Sk* make(int arena) { return new Sk(Bloom::builder::create_by_size(130, 3, 9001, TrackAlloc<uint8_t>(arena))); }
  static void a(Sk& s, int n) { s.update((uint64_t)n); } static void b(Sk& s, int n) { for (int i = 0; i < 12; ++i) s.update((uint64_t)(100 * n + i)); s.invert(); }
  static void merge(Sk& s, const Sk& o) { s.union_with(o); } static void merge_move(Sk& s, Sk&& o) { s.intersect(o); }
  static const bool has_reset = true; static void reset(Sk& s) { s.reset(); }
  static std::string obs(Sk& s) { return BloomObj::obs_of(s); }
  static void ser(Sk& s) { s.serialize(); }
};
// Bloom filters of MIXED ownership: the filter of slot 0 owns its bit array, the others live in caller memory (one static buffer per
// slot, re-initialised by every construction), so that copies, moves and assignments cross the two kinds of ownership
struct BloomMixedTr : TrBase {
  typedef Bloom Sk; static std::string nm() { return "bloom/mixed-ownership"; }
  static uint8_t* buffer(int arena) { static uint8_t buf[4][256]; return buf[arena & 3]; }
  static bool is_view(const Sk& s) { return !s.is_memory_owned(); }
  static Sk* make(int arena) {
    if (arena == 1) return new Sk(Bloom::builder::create_by_size(130, 3, 9001, TrackAlloc<uint8_t>(arena)));
    return new Sk(Bloom::builder::initialize_by_size(buffer(arena), 256, 130, 3, 9001, TrackAlloc<uint8_t>(arena)));
  }
  static void a(Sk& s, int n) { s.update((uint64_t)n); } static void b(Sk& s, int n) { for (int i = 0; i < 12; ++i) s.update((uint64_t)(100 * n + i)); s.get_bits_used(); }
  static void merge(Sk& s, const Sk& o) { s.union_with(o); } static void merge_move(Sk& s, Sk&& o) { s.intersect(o); }
  static const bool has_reset = true; static void reset(Sk& s) { s.reset(); }
  static std::string obs(Sk& s) { return BloomObj::obs_of(s); }
  static void ser(Sk& s) { s.serialize(); }
};
// frequent items at a map size whose purge samples fewer counters than are active (lg_max_map_size 11: 1537 active, 1024 sampled)
struct FiBigTr : TrBase {
  typedef FiObj<Item>::Sk Sk; static std::string nm() { return "frequent_items<item>/lgmax11"; }
  static Sk* make(int arena) { return new Sk(11, 3, ItemEqual(), TrackAlloc<Item>(arena)); }
  static void a(Sk& s, int n) { s.update(Item(n), 2); } static void b(Sk& s, int n) { for (int i = 0; i < 1700; ++i) s.update(Item(10000 * n + i), 1 + i % 3); }
  static void merge(Sk& s, const Sk& o) { s.merge(o); } static void merge_move(Sk& s, Sk&& o) { s.merge(std::move(o)); }
  static std::string obs(Sk& s) { return "n=" + str(s.get_num_active_items()) + "|w=" + str(s.get_total_weight()) + "|err=" + str(s.get_maximum_error()) + "|e5=" + str(s.get_estimate(Item(5))) + "|e10005=" + str(s.get_estimate(Item(10005))); }
  static void ser(Sk& s) { s.serialize(0, ItemSerde()); }
};
struct DensTr : TrBase {
  typedef DensObj::Sk Sk; static std::string nm() { return "density"; }
  static Sk* make(int arena) { return new Sk(3, 2, GaussAny(), TrackAlloc<double>(arena)); }
  static void a(Sk& s, int n) { s.update(DensObj::pt(n, 2)); } static void b(Sk& s, int n) { for (int i = 0; i < 11; ++i) s.update(DensObj::pt(100 * n + i, 2)); }
  static void merge(Sk& s, const Sk& o) { s.merge(o); } static void merge_move(Sk& s, Sk&& o) { s.merge(std::move(o)); }
  static std::string obs(Sk& s) { return DensObj::obs_of(s); }
  static void ser(Sk& s) { s.serialize(); }
};

// ---------------- the lifecycle system ----------------
template<class Tr>
struct LifeSys {
  typedef typename Tr::Sk Sk;
  enum St { EMPTY = 0, LIVE = 1, MOVED = 2 };
  int NS, max_a, max_b;
  struct Slot { Sk* p; int st; int na, nb; char moved_by; Slot(): p(nullptr), st(EMPTY), na(0), nb(0), moved_by('-') {} };   // moved_by: which operation left it moved-from (the residue differs: a move constructor empties containers, a merge by move leaves moved-from elements behind)
  struct State { std::vector<Slot> s; int serial; ~State() { for (size_t i = 0; i < s.size(); ++i) delete s[i].p; } };
  struct Op { char k; int i, j; std::string name; };
  std::vector<Op> ops;
  explicit LifeSys(int ns, int ma = 2, int mb = 1): NS(ns), max_a(ma), max_b(mb) {
    for (int i = 0; i < NS; ++i) { add('N', i, i, "new"); add('A', i, i, "a"); add('B', i, i, "b"); add('Q', i, i, "ser"); add('D', i, i, "del"); if (Tr::has_reset) add('Z', i, i, "reset"); add('S', i, i, "selfassign"); }
    for (int i = 0; i < NS; ++i) for (int j = 0; j < NS; ++j) if (i != j) {
      add('c', j, i, "copyctor"); add('m', j, i, "movector"); add('C', j, i, "copyassign"); add('M', j, i, "moveassign");
      if (Tr::has_merge) { add('G', j, i, "merge"); add('H', j, i, "mergemove"); }
    }
  }
  void add(char k, int i, int j, const std::string& n) { Op o; o.k = k; o.i = i; o.j = j; o.name = n + str(i) + (i != j ? "<-" + str(j) : ""); ops.push_back(o); }
  std::string name() const { return Tr::nm() + "/slots" + str(NS); }
  State* make() { ledger().reset(); items().reset(); State* s = new State; s->s.resize(NS); s->serial = 0; return s; }
  size_t nops() const { return ops.size(); }
  std::string opname(size_t i) const { return ops[i].name; }

  std::vector<std::string> snapshot(State& st) { std::vector<std::string> v(NS); for (int i = 0; i < NS; ++i) if (st.s[i].st == LIVE) v[i] = Tr::obs(*st.s[i].p); return v; }
  void unchanged_except(State& st, const std::vector<std::string>& before, int x, int y, Ctx* c, const char* what) {
    if (!c) return;
    for (int i = 0; i < NS; ++i) if (i != x && i != y && st.s[i].st == LIVE && !Tr::is_view(*st.s[i].p)) c->ok(std::string("independent-of-") + what, Tr::obs(*st.s[i].p) == before[i], "slot " + str(i) + " changed by an operation on other slots");
  }
  bool apply(State& st, size_t opi, Ctx* c) {
    const Op& o = ops[opi]; Slot& d = st.s[o.i]; Slot& src = st.s[o.j];
    Sched sc(0, 5150);   // lifecycle is not about the coin flips: one fixed schedule
    ledger().errors.clear(); items().errors.clear();   // anything recorded while observing the previous state was reported by that state's check()
    std::vector<std::string> before = snapshot(st);   // always: observation may sort buffers / build caches, which later operations can depend on
    switch (o.k) {
      case 'N': if (d.st != EMPTY) return false; d.p = Tr::make(o.i + 1); d.st = LIVE; d.na = d.nb = 0; break;
      case 'A': if (d.st != LIVE || d.na >= max_a) return false; Tr::a(*d.p, 10 * o.i + d.na); d.na++; break;
      case 'B': if (d.st != LIVE || d.nb >= max_b) return false; Tr::b(*d.p, 3 + 2 * o.i + d.nb); d.nb++; break;
      case 'Q': if (d.st != LIVE) return false; Tr::ser(*d.p); if (c && !Tr::obs_mutates) c->ok("serialize-leaves-object-unchanged", Tr::obs(*d.p) == before[o.i], "serialize changed the observable state"); if (!c) {} break;
      case 'D': if (d.st == EMPTY) return false; delete d.p; d.p = nullptr; d.st = EMPTY; d.na = d.nb = 0; break;
      case 'Z': if (d.st != LIVE) return false; Tr::reset(*d.p); d.na = d.nb = 0; break;
      case 'S': if (d.st != LIVE) return false; { Sk& r = *d.p; *d.p = r; } if (c) c->ok("self-assignment-keeps-state", Tr::obs(*d.p) == before[o.i], "a = a changed the object: " + Tr::obs(*d.p).substr(0, 200) + " VS " + before[o.i].substr(0, 200)); break;
      case 'c': if (d.st != EMPTY || src.st != LIVE) return false; d.p = new Sk(*src.p); d.st = LIVE; d.na = 0; d.nb = 0;   /* a copy / assignee may be exercised afresh: what it inherited must carry it through further updates */
        if (c) { c->ok("copy-equals-source", Tr::obs(*d.p) == before[o.j], "copy: " + Tr::obs(*d.p).substr(0, 200) + " VS source: " + before[o.j].substr(0, 200)); c->ok("copy-leaves-source-unchanged", Tr::obs(*src.p) == before[o.j], "source changed by copy construction"); } break;
      case 'm': if (d.st != EMPTY || src.st != LIVE) return false; d.p = new Sk(std::move(*src.p)); d.st = LIVE; d.na = 0; d.nb = 0;   /* a copy / assignee may be exercised afresh: what it inherited must carry it through further updates */ src.st = MOVED; src.moved_by = 'm';
        if (c) c->ok("move-transfers-state", Tr::obs(*d.p) == before[o.j], "moved-to: " + Tr::obs(*d.p).substr(0, 200) + " VS source before: " + before[o.j].substr(0, 200)); break;
      case 'C': if (d.st == EMPTY || src.st != LIVE) return false; *d.p = *src.p; d.st = LIVE; d.na = 0; d.nb = 0;   /* a copy / assignee may be exercised afresh: what it inherited must carry it through further updates */
        if (c) { c->ok("copy-assign-equals-source", Tr::obs(*d.p) == before[o.j], "assigned: " + Tr::obs(*d.p).substr(0, 200) + " VS source: " + before[o.j].substr(0, 200)); c->ok("copy-assign-leaves-source-unchanged", Tr::obs(*src.p) == before[o.j], "source changed by copy assignment"); } break;
      case 'M': if (d.st == EMPTY || src.st != LIVE) return false; *d.p = std::move(*src.p); d.st = LIVE; d.na = 0; d.nb = 0;   /* a copy / assignee may be exercised afresh: what it inherited must carry it through further updates */ src.st = MOVED; src.moved_by = 'M';
        if (c) c->ok("move-assign-transfers-state", Tr::obs(*d.p) == before[o.j], "assigned: " + Tr::obs(*d.p).substr(0, 200) + " VS source before: " + before[o.j].substr(0, 200)); break;
      case 'G': if (d.st != LIVE || src.st != LIVE || d.na + src.na > max_a + 1 || d.nb + src.nb > max_b + 1) return false; Tr::merge(*d.p, *src.p); d.na += src.na; d.nb += src.nb;
        if (c) c->ok("merge-by-reference-leaves-source-unchanged", Tr::obs(*src.p) == before[o.j], "source changed by merge(const&)"); break;
      case 'H': if (d.st != LIVE || src.st != LIVE || d.na + src.na > max_a + 1 || d.nb + src.nb > max_b + 1) return false; Tr::merge_move(*d.p, std::move(*src.p)); d.na += src.na; d.nb += src.nb; src.st = MOVED; src.moved_by = 'H'; break;
    }
    unchanged_except(st, before, o.i, (o.k == 'm' || o.k == 'M' || o.k == 'H') ? o.j : o.i, c, "other-slots");
    if (c) {
      if (!ledger().errors.empty()) { c->fail("allocator-discipline", ledger().errors[0]); ledger().errors.clear(); }
      if (!items().errors.empty()) { c->fail("item-discipline", items().errors[0]); items().errors.clear(); }
    }
    return true;
  }
  std::string canon(State& st) {
    Sched sc(0, 5150);
    std::string c;
    for (int i = 0; i < NS; ++i) { const Slot& s = st.s[i]; c += "[" + str(s.st) + "," + str(s.na) + "," + str(s.nb); if (s.st == LIVE) c += "," + Tr::obs(*s.p) + "~" + Tr::residue(*s.p); if (s.st == MOVED) c += std::string(",by-") + s.moved_by; c += "]"; }
    return c;
  }
  // destructive end-of-history check: all slots die, nothing may remain allocated, every item destroyed exactly once
  void check(State& st, Ctx& c) {
    int live = 0; for (int i = 0; i < NS; ++i) if (st.s[i].st != EMPTY) ++live;
    { Sched sc(0, 5150); for (int i = 0; i < NS; ++i) { delete st.s[i].p; st.s[i].p = nullptr; st.s[i].st = EMPTY; } }
    if (!ledger().errors.empty()) { c.fail("allocator-discipline", ledger().errors[0]); ledger().errors.clear(); }
    if (!items().errors.empty()) { c.fail("item-discipline", items().errors[0]); items().errors.clear(); }
    c.ok("nothing-remains-allocated", ledger().live.empty(), str(ledger().live.size()) + " blocks (" + str(ledger().live_bytes) + " bytes) still allocated after the last object died");
    c.eq("items-constructed==destroyed", items().live, 0LL);
    c.rep.outcome(Tr::nm() + "|live" + str(live));
  }
};

template<class Tr> static void add_family(std::vector<Task>& tasks, const Config& cfg, int depth_q, int depth_t) {
  const bool q = cfg.quick();
  for (int ns = 2; ns <= (q ? 2 : 3); ++ns) {
    LifeSys<Tr> sys(ns, ns == 3 ? 1 : 2, 1);
    BfsLimits lim; lim.max_depth = q ? depth_q : (ns == 3 ? depth_t - 1 : depth_t); lim.max_states = q ? 60000 : 400000;
    Task t; t.name = sys.name(); t.fn = [sys, lim, &cfg](Report& rep) mutable { explore(sys, rep, cfg, lim); };
    tasks.push_back(t);
  }
}

int main(int argc, char** argv) {
  Config cfg = parse_args(argc, argv);
  forbid_unowned_draws();
  std::vector<Task> tasks;
  { Task t; t.name = "meta"; t.fn = [](Report& rep) {
      rep.assumptions.push_back("each slot's objects are built with an allocator instance of its own arena; memory held when an operation returns must belong to a user arena and be released through the same arena with the same size; transient scratch through std::allocator is not gated");
      rep.assumptions.push_back("content alphabet per slot: at most 2 light and 1 mode-changing operation (3 slots: 1 and 1); depth bound per family in the scenario lines");
      rep.sets("rule", "BFS over lifecycle operations on 2 (quick) / 2 and 3 (thorough) slots; every new state is additionally destroyed completely and the ledgers must balance; distinct = (family, live slots) tag");
    }; tasks.push_back(t); }
  add_family<QuantTr<Item, 0> >(tasks, cfg, 6, 8);
  add_family<QuantTr<Item, 1> >(tasks, cfg, 6, 8);
  add_family<QuantTr<Item, 2> >(tasks, cfg, 6, 8);
  add_family<ThetaUpdTr>(tasks, cfg, 6, 8);
  add_family<ThetaCompactTr>(tasks, cfg, 6, 8);
  add_family<ThetaUnionTr>(tasks, cfg, 6, 8);
  add_family<ThetaInterTr>(tasks, cfg, 6, 8);
  add_family<TupleUpdTr>(tasks, cfg, 6, 8);
  add_family<TupleUnionTr>(tasks, cfg, 6, 8);
  add_family<TupleItemTr>(tasks, cfg, 6, 8);
  add_family<TupleItemUnionTr>(tasks, cfg, 6, 8);
  add_family<AodUpdTr>(tasks, cfg, 6, 8);
  add_family<AodCompactTr>(tasks, cfg, 6, 8);
  add_family<HllTr>(tasks, cfg, 6, 8);
  add_family<HllAuxTr>(tasks, cfg, 6, 8);
  add_family<HllUnionTr>(tasks, cfg, 6, 8);
  add_family<CpcTr>(tasks, cfg, 6, 8);
  add_family<CpcUnionTr>(tasks, cfg, 6, 8);
  add_family<FiTr>(tasks, cfg, 6, 8);
  add_family<CmTr>(tasks, cfg, 6, 8);
  add_family<VoTr>(tasks, cfg, 6, 8);
  add_family<VuTr>(tasks, cfg, 6, 8);
  add_family<EbTr>(tasks, cfg, 6, 8);
  add_family<TdTr>(tasks, cfg, 6, 8);
  add_family<BloomTr>(tasks, cfg, 6, 8);
  add_family<BloomMixedTr>(tasks, cfg, 6, 8);
  add_family<FiBigTr>(tasks, cfg, 4, 5);
  add_family<DensTr>(tasks, cfg, 6, 8);
  return run_tasks(cfg, "C19", tasks);
}
