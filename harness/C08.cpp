// C08: quantile ranks are unbiased over the internal coin flips; the number of flips is outcome-independent;
// published error on long streams (fixed enumerated family of bit sources).
// E3: complete coin-tree enumeration with Markov merging (mc/prob.hpp) over (i) BFS of distribution-states for all short
// update sequences, (ii) stream shapes, (iii) merge trees over 2-3 slots.
#define MC_MAIN
#include "quant_common.hpp"
#include "prob.hpp"
#include <unordered_set>
using namespace mc;
using namespace qc;

// exact expectation check on a distribution for one slot: sum_leaf p * n * rank_leaf(v) == true count, both criteria
template<class Fam> struct LeafView { double prob; typename QuantSys<Fam>::State* st; uint64_t dmin, dmax; };
template<class Fam>
static void unbiased_core(QuantSys<Fam>& sys, const std::vector<LeafView<Fam> >& d, int slot, Report& rep, const std::string& hist) {
  typedef typename Fam::Item T; typename Fam::Cmp cmp;
  if (d.empty()) return;
  std::vector<T> grid = sys.query_grid(); std::sort(grid.begin(), grid.end(), cmp);
  std::vector<double> ei(grid.size(), 0), ee(grid.size(), 0); double mass = 0; std::vector<T> model; uint64_t dmin = ~0ull, dmax = 0;
  for (size_t i = 0; i < d.size(); ++i) {
    model = d[i].st->slots[slot].model;
    mass += d[i].prob; dmin = std::min(dmin, d[i].dmin); dmax = std::max(dmax, d[i].dmax);
    if (!d[i].st->slots[slot].sk || d[i].st->slots[slot].sk->is_empty()) continue;
    const typename Fam::Sk& sk = *d[i].st->slots[slot].sk;
    for (size_t g = 0; g < grid.size(); ++g) { ei[g] += d[i].prob * sk.get_rank(grid[g], true) * sk.get_n(); ee[g] += d[i].prob * sk.get_rank(grid[g], false) * sk.get_n(); }
  }
  std::sort(model.begin(), model.end(), cmp);
  Ctx c(rep, sys.name(), hist);
  c.near("probability-mass==1", mass, 1.0, 1e-12);
  c.ok("flips-independent-of-outcomes", dmin == dmax, "draws consumed along this history range from " + str(dmin) + " to " + str(dmax) + " depending on the coin outcomes");
  if (!model.empty()) for (size_t g = 0; g < grid.size(); ++g) {
    double le = (double)(std::upper_bound(model.begin(), model.end(), grid[g], cmp) - model.begin());
    double lt = (double)(std::lower_bound(model.begin(), model.end(), grid[g], cmp) - model.begin());
    c.near("E[rank-inclusive]==true", ei[g], le, 1e-11, 1e-9);
    c.near("E[rank-exclusive]==true", ee[g], lt, 1e-11, 1e-9);
  }
  rep.flush_ctx_fails(c.fails, sys.name(), hist);
  rep.evaluations++; rep.count("histories_checked"); rep.count("flips_summed_over_checked_histories", (double)dmax);
  rep.outcome(std::string(Fam::fam()) + "|leaves" + str(d.size() > 1 ? (d.size() > 8 ? ">8" : "2-8") : "1") + "|flips" + str(dmax > 0 ? (dmax > 4 ? ">4" : "1-4") : "0"));
}
template<class Fam>
static void unbiased_check(ProbTree<QuantSys<Fam> >& pt, QuantSys<Fam>& sys, const std::vector<Leaf>& d, int slot, Report& rep, const std::string& hist) {
  std::vector<std::unique_ptr<typename QuantSys<Fam>::State> > keep; std::vector<LeafView<Fam> > v;
  for (size_t i = 0; i < d.size(); ++i) { keep.push_back(pt.replay(d[i].hist, nullptr)); LeafView<Fam> l; l.prob = d[i].prob; l.st = keep.back().get(); l.dmin = d[i].draws_min; l.dmax = d[i].draws_max; v.push_back(l); }
  unbiased_core<Fam>(sys, v, slot, rep, hist);
}
// long fixed histories: live states cloned instead of replayed (mc::LiveTree)
template<class Fam>
static void live_history(QuantSys<Fam> sys, const std::vector<std::string>& opseq, int slot, size_t check_stride, Report& rep, const Config& cfg) {
  if (!cfg.replay_scenario.empty() && cfg.replay_scenario != sys.name()) return;
  std::map<std::string, size_t> idx; for (size_t i = 0; i < sys.nops(); ++i) idx[sys.opname(i)] = i;
  LiveTree<QuantSys<Fam> > lt(sys, rep, 64, 1u << 20);
  std::vector<typename LiveTree<QuantSys<Fam> >::LLeaf> d = lt.root(); std::string hs; size_t maxleaves = 1, done = 0;
  for (size_t i = 0; i < opseq.size(); ++i) {
    if (!idx.count(opseq[i])) { fprintf(stderr, "HARNESS-ERROR unknown op %s in %s\n", opseq[i].c_str(), sys.name().c_str()); abort(); }
    if (rep.past_deadline()) { rep.cap("global deadline reached in " + sys.name() + " after " + str(i) + " of " + str(opseq.size()) + " operations"); break; }
    d = lt.step(d, idx[opseq[i]]); ++done;
    hs += (i ? ";" : "") + opseq[i]; maxleaves = std::max(maxleaves, d.size());
    if ((i + 1) % check_stride == 0 || i + 1 == opseq.size()) {
      // queries build caches and sort level 0: they are put to clones, never to the live states the exploration continues from
      std::vector<std::unique_ptr<typename QuantSys<Fam>::State> > keep;
      std::vector<LeafView<Fam> > v; for (size_t k = 0; k < d.size(); ++k) { keep.emplace_back(sys.clone(*d[k].st)); LeafView<Fam> l; l.prob = d[k].prob; l.st = keep.back().get(); l.dmin = d[k].draws_min; l.dmax = d[k].draws_max; v.push_back(l); }
      unbiased_core<Fam>(sys, v, slot, rep, hs.size() > 200 ? "n=" + str(i + 1) + " prefix of " + sys.name() : hs);
    }
    if (d.size() > 200000) { rep.cap("leaf cap 200000 reached in " + sys.name() + " after " + str(i + 1) + " operations"); break; }
  }
  lt.account();
  rep.scenarios.push_back(sys.name() + ": ops=" + str(done) + " max_merged_leaves=" + str(maxleaves) + " raw_outcomes=" + str(lt.raw_leaves) + " clones=" + str(lt.clones) + " [live]");
  if (lt.draws_outcome_dependent) rep.violation("C08|" + sys.name() + "|flips-per-operation-independent-of-outcomes", "an operation consumed a different number of coin flips on different outcomes", sys.name(), lt.draws_witness);
}

// One-step martingale check along long histories: from every state visited under a fixed coin schedule, the complete set of
// outcomes of the NEXT operation is enumerated and E[n * rank_after(v)] must equal n * rank_before(v) plus the operation's own
// contribution (the new item, or the merged operand's n * rank). Unbiasedness over all coin flips follows by induction over the
// steps for the states visited; the cost is linear in the stream length, so streams long enough to grow many levels are covered.
template<class Fam>
static void martingale_history(QuantSys<Fam> sys, const std::vector<std::string>& opseq, uint64_t schedule, Report& rep, const Config& cfg) {
  typedef typename Fam::Item T; typename Fam::Cmp cmp; typedef typename QuantSys<Fam>::State State;
  if (!cfg.replay_scenario.empty() && cfg.replay_scenario != sys.name()) return;
  case_timeout_s() = 300;   // one step enumerates every outcome of one operation
  std::map<std::string, size_t> idx; for (size_t i = 0; i < sys.nops(); ++i) idx[sys.opname(i)] = i;
  std::vector<T> grid = sys.query_grid(); std::sort(grid.begin(), grid.end(), cmp);
  std::unique_ptr<State> cur(sys.make()); const size_t NS = cur->slots.size();
  auto ranks = [&](State& st, std::vector<std::vector<double> >& out) {   // n * rank per slot, on a clone (queries mutate caches)
    std::unique_ptr<State> q(sys.clone(st)); out.assign(NS, std::vector<double>(2 * grid.size(), 0.0));
    for (size_t sl = 0; sl < NS; ++sl) { if (!q->slots[sl].sk || q->slots[sl].sk->is_empty()) continue; const typename Fam::Sk& sk = *q->slots[sl].sk;
      for (size_t g = 0; g < grid.size(); ++g) { out[sl][2 * g] = sk.get_rank(grid[g], true) * sk.get_n(); out[sl][2 * g + 1] = sk.get_rank(grid[g], false) * sk.get_n(); } }
  };
  uint64_t steps = 0, coin_steps = 0, max_outcomes = 1; ChoiceStats cst;
  for (size_t i = 0; i < opseq.size(); ++i) {
    if (!idx.count(opseq[i])) { fprintf(stderr, "HARNESS-ERROR unknown op %s in %s\n", opseq[i].c_str(), sys.name().c_str()); abort(); }
    if (rep.past_deadline()) { rep.cap("global deadline reached in " + sys.name() + " after " + str(i) + " of " + str(opseq.size()) + " operations"); break; }
    const size_t op = idx[opseq[i]]; const typename QuantSys<Fam>::Op& o = sys.ops[op];
    const std::string hs = "step" + str(i) + ":" + opseq[i] + "/schedule" + str(schedule);
    if (!journal(sys.name(), hs)) continue;
    std::vector<std::vector<double> > before; ranks(*cur, before);
    std::vector<std::vector<double> > expect = before;
    if (o.kind == 'U') { const T x = sys.vals[o.b]; for (size_t g = 0; g < grid.size(); ++g) { if (!cmp(grid[g], x)) expect[o.a][2 * g] += 1; if (cmp(x, grid[g])) expect[o.a][2 * g + 1] += 1; } }
    else if (o.kind == 'M' || o.kind == 'R') { for (size_t g = 0; g < 2 * grid.size(); ++g) expect[o.a][g] += before[o.b][g]; if (o.kind == 'R') expect[o.b].assign(2 * grid.size(), 0.0); }
    State* curp = cur.get(); QuantSys<Fam>* sp = &sys;
    RunFn rf = [curp, sp, op](const std::vector<uint64_t>& tape, uint64_t fill) -> RunResult {
      std::unique_ptr<State> s2(sp->clone(*curp)); Tape t; t.v = tape; t.set_fill(fill); RunResult r;
      try { TapeScope sc(t); sp->apply(*s2, op, nullptr); r.canon = sp->canon(*s2); } catch (const std::exception& e) { r.failed = true; r.canon = e.what(); }
      r.kinds = t.kinds; r.seg = t.seg; return r;
    };
    std::vector<Outcome> outs = enumerate_outcomes(rf, 64, cst);
    std::vector<std::vector<double> > e(NS, std::vector<double>(2 * grid.size(), 0.0)); double mass = 0; size_t nd0 = outs.empty() ? 0 : outs[0].tape.size(); bool dep = false;
    std::vector<std::unique_ptr<State> > after;
    for (size_t k = 0; k < outs.size(); ++k) {
      std::unique_ptr<State> s2(sys.clone(*cur)); Tape t; t.v = outs[k].tape; { TapeScope sc(t); sys.apply(*s2, op, nullptr); }
      std::vector<std::vector<double> > r; ranks(*s2, r);
      for (size_t sl = 0; sl < NS; ++sl) for (size_t g = 0; g < 2 * grid.size(); ++g) e[sl][g] += outs[k].prob * r[sl][g];
      mass += outs[k].prob; if (outs[k].tape.size() != nd0) dep = true;
      after.push_back(std::move(s2));
    }
    Ctx c(rep, sys.name(), hs);
    c.near("probability-mass==1", mass, 1.0, 1e-12);
    c.ok("flips-independent-of-outcomes", !dep, "the operation consumed a different number of draws on different outcomes");
    bool ok = true;
    for (size_t sl = 0; sl < NS && ok; ++sl) for (size_t g = 0; g < 2 * grid.size(); ++g) if (std::fabs(e[sl][g] - expect[sl][g]) > 1e-9 * (1 + std::fabs(expect[sl][g]))) {
      c.fail("one-step-E[n*rank]==before+contribution", "slot " + str(sl) + " at " + Dom<T>::s(grid[g / 2]) + (g % 2 ? " (exclusive)" : " (inclusive)") + ": expectation over " + str(outs.size()) + " outcomes " + str(e[sl][g]) + " expected " + str(expect[sl][g])); ok = false; break; }
    for (size_t k = 0; k < after.size(); ++k) { int a0 = asan_errors(); safe_check(sys, *after[k], c); if (asan_errors() != a0) c.fail("asan", "AddressSanitizer report"); }
    rep.flush_ctx_fails(c.fails, sys.name(), hs);
    ++steps; if (outs.size() > 1) ++coin_steps; max_outcomes = std::max<uint64_t>(max_outcomes, outs.size());
    rep.transitions += outs.size(); rep.states += 1; rep.evaluations++;
    // continue along the fixed schedule
    uint64_t z = schedule * 0x9E3779B97F4A7C15ULL + i * 0xBF58476D1CE4E5B9ULL; z ^= z >> 29; z *= 0x94D049BB133111EBULL; z ^= z >> 32;
    cur = std::move(after[z % after.size()]);
  }
  journal_clear();
  rep.traces += steps; rep.count("martingale_steps_with_coin_outcomes", (double)coin_steps);
  rep.scenarios.push_back(sys.name() + ": one-step checks=" + str(steps) + " of which with several outcomes=" + str(coin_steps) + " max outcomes of one step=" + str(max_outcomes) + " [martingale]");
  rep.outcome(std::string(Fam::fam()) + "|martingale|" + (coin_steps ? "coins" : "nocoins"));
}

// (i) BFS over distribution-states: all update sequences over the domain up to max_n
template<class Fam>
static void dist_bfs(QuantSys<Fam> sys, int max_n, Report& rep, const Config& cfg) {
  if (!cfg.replay_scenario.empty() && cfg.replay_scenario != sys.name()) return;
  ProbTree<QuantSys<Fam> > pt(sys, rep, 64);
  struct Node { std::vector<Leaf> d; int depth; std::vector<size_t> ops; };
  std::deque<Node> q; std::unordered_set<uint64_t> seen;
  Node r; r.d = pt.root(); r.depth = 0; q.push_back(r);
  uint64_t nodes = 0; int maxd = 0; bool deadline = false;
  while (!q.empty()) {
    if (rep.past_deadline()) { deadline = true; break; }
    Node n = q.front(); q.pop_front(); ++nodes; maxd = std::max(maxd, n.depth);
    if (n.depth >= max_n) continue;
    for (size_t op = 0; op < sys.nops(); ++op) {
      std::vector<Leaf> d2 = pt.step(n.d, op);
      std::string key; for (size_t i = 0; i < d2.size(); ++i) key += d2[i].canon + "@" + str(d2[i].prob) + ";";
      if (!seen.insert(fnv1a(key)).second) continue;
      std::string hs; for (size_t i = 0; i < n.ops.size(); ++i) hs += sys.opname(n.ops[i]) + ";"; hs += sys.opname(op);
      unbiased_check(pt, sys, d2, 0, rep, hs);
      Node c; c.d = d2; c.depth = n.depth + 1; c.ops = n.ops; c.ops.push_back(op); q.push_back(c);
    }
  }
  pt.account();
  if (deadline) rep.cap("global deadline reached in " + sys.name() + "; depth fully covered: " + str(q.empty() ? maxd : q.front().depth));
  rep.scenarios.push_back(sys.name() + ": distribution-states=" + str(nodes) + " max_len=" + str(maxd) + " merged_leaves=" + str(pt.merged_states) + " raw_outcomes=" + str(pt.raw_leaves) + " replays=" + str(pt.replays));
  if (pt.draws_outcome_dependent) rep.violation("C08|" + sys.name() + "|flips-per-operation-independent-of-outcomes", "an operation consumed a different number of coin flips on different outcomes", sys.name(), pt.draws_witness);
}

// (ii)/(iii) a fixed operation sequence given by op names; the expectation is checked for `slot` after every step from `check_from`
template<class Fam>
static void fixed_history(QuantSys<Fam> sys, const std::vector<std::string>& opseq, int slot, size_t check_from, Report& rep, const Config& cfg) {
  if (!cfg.replay_scenario.empty() && cfg.replay_scenario != sys.name()) return;
  std::map<std::string, size_t> idx; for (size_t i = 0; i < sys.nops(); ++i) idx[sys.opname(i)] = i;
  ProbTree<QuantSys<Fam> > pt(sys, rep, 64, 1u << 20);
  std::vector<Leaf> d = pt.root(); std::string hs; size_t maxleaves = 1;
  for (size_t i = 0; i < opseq.size(); ++i) {
    if (!idx.count(opseq[i])) { fprintf(stderr, "HARNESS-ERROR unknown op %s in %s\n", opseq[i].c_str(), sys.name().c_str()); abort(); }
    if (rep.past_deadline()) { rep.cap("global deadline reached in " + sys.name()); break; }
    d = pt.step(d, idx[opseq[i]]);
    hs += (i ? ";" : "") + opseq[i]; maxleaves = std::max(maxleaves, d.size());
    if (i + 1 >= check_from && (i + 1 == opseq.size() || (i % 4) == 3 || opseq[i][0] == 'M' || opseq[i][0] == 'R'))
      for (int sl = 0; sl < (int)sys.slot_cfgs.size(); ++sl) unbiased_check(pt, sys, d, sl, rep, hs + " [slot " + str(sl) + "]");
    if (d.size() > 300000) { rep.cap("leaf cap 300000 reached in " + sys.name() + " after " + str(i + 1) + " operations"); break; }
  }
  pt.account();
  rep.scenarios.push_back(sys.name() + ": ops=" + str(opseq.size()) + " max_merged_leaves=" + str(maxleaves) + " raw_outcomes=" + str(pt.raw_leaves) + " replays=" + str(pt.replays));
  if (pt.draws_outcome_dependent) rep.violation("C08|" + sys.name() + "|flips-per-operation-independent-of-outcomes", "an operation consumed a different number of coin flips on different outcomes", sys.name(), pt.draws_witness);
  rep.sample(sys.name() + ": " + hs.substr(0, 160));
}

// value index sequences (all values distinct within one slot: value index = rank in the slot's value range)
static std::vector<int> shape_idx(const std::string& kind, int n) {
  std::vector<int> o;
  for (int i = 0; i < n; ++i) {
    int v;
    if (kind == "sorted") v = i; else if (kind == "reversed") v = n - 1 - i; else if (kind == "zigzag") v = (i % 2) ? n - 1 - i / 2 : i / 2;
    else if (kind == "organ") v = i < (n + 1) / 2 ? 2 * i : 2 * (n - 1 - i) + 1; else if (kind == "constant") v = 0; else v = (int)((i * 7919LL + 3) % n);
    if (v < 0) v = 0; if (v >= n) v = n - 1;
    o.push_back(v);
  }
  return o;
}
static std::vector<std::string> shape(const std::string& kind, int n, int slot, const std::vector<std::string>& vnames, int base = 0, int step = 1) {
  std::vector<std::string> o; std::vector<int> ix = shape_idx(kind, n);
  for (int i = 0; i < n; ++i) o.push_back("U" + str(slot) + ":" + vnames[(size_t)(base + step * ix[i]) % vnames.size()]);
  return o;
}
template<class Fam> static void distinct_domain(QuantSys<Fam>& sys, int n, std::vector<std::string>& vn) {
  typedef typename Fam::Item T;
  sys.vals.clear(); sys.grid_override.clear(); vn.clear();
  for (int i = 0; i < n; ++i) { sys.vals.push_back((T)i); vn.push_back(Dom<T>::s((T)i)); }
  for (int i = -1; i <= n; i += std::max(1, n / 24)) sys.grid_override.push_back((T)i);
  sys.grid_override.push_back((T)(n - 1)); sys.grid_override.push_back((T)n);
  std::sort(sys.grid_override.begin(), sys.grid_override.end()); sys.grid_override.erase(std::unique(sys.grid_override.begin(), sys.grid_override.end()), sys.grid_override.end());
}

template<class Fam>
static void family_tasks(std::vector<Task>& tasks, const Config& cfg, const std::string& fam, Cfg base, const std::vector<Cfg>& other_cfgs, int bfs_n, int shape_n, int merge_n1, int merge_n2, int long_n) {
  typedef typename Fam::Item T;
  std::vector<std::string> vn; { std::vector<T> v = Dom<T>::values(); for (size_t i = 0; i < v.size(); ++i) vn.push_back(Dom<T>::s(v[i])); }
  std::string tag = fam + "/k" + str(base.k) + (fam.find("req") == 0 ? std::string(base.hra ? "/hra" : "/lra") : "");
  { QuantSys<Fam> sys; sys.nm = tag + "/all-sequences"; sys.slot_cfgs.push_back(base); sys.light_check = true; sys.check_published = true; sys.vals.resize(3); sys.add_update_ops(0, false);
    Task t; t.name = sys.nm; t.fn = [sys, bfs_n, &cfg](Report& rep) { dist_bfs<Fam>(sys, bfs_n, rep, cfg); }; tasks.push_back(t); }
  const char* shapes[] = {"sorted", "reversed", "zigzag", "organ", "constant", "mixed"};
  for (int si = 0; si < 6; ++si) {
    QuantSys<Fam> sys; sys.nm = tag + "/shape-" + shapes[si] + "/n" + str(shape_n); sys.slot_cfgs.push_back(base); sys.light_check = true; sys.check_published = true;
    std::vector<std::string> dn; distinct_domain(sys, shape_n, dn); sys.add_update_ops(0, false);
    std::vector<std::string> seq = shape(shapes[si], shape_n, 0, dn);
    Task t; t.name = sys.nm; t.fn = [sys, seq, &cfg](Report& rep) { fixed_history<Fam>(sys, seq, 0, 1, rep, cfg); }; tasks.push_back(t);
  }
  // long streams with the complete coin tree (live states): far enough for the sketch to grow several levels
  for (int si = 0; si < 2; ++si) {
    QuantSys<Fam> sys; const int ln = long_n; sys.nm = tag + "/long-" + (si ? "mixed" : "sorted") + "/n" + str(ln); sys.slot_cfgs.push_back(base); sys.light_check = true; sys.check_published = true;
    std::vector<std::string> dn; distinct_domain(sys, ln, dn); sys.add_update_ops(0, false);
    std::vector<std::string> seq = shape(si ? "mixed" : "sorted", ln, 0, dn);
    Task t; t.name = sys.nm; t.fn = [sys, seq, &cfg](Report& rep) { live_history<Fam>(sys, seq, 0, 10, rep, cfg); }; tasks.push_back(t);
  }
  // one-step martingale checks along long streams and merge chains under several fixed coin schedules.
  // Not for REQ: its odd-numbered compactions reuse the complement of the previous coin, which is unbiased over the pair of
  // compactions but not step by step; REQ gets the complete tree over a small value domain instead (below).
  const bool is_req = fam.find("req") == 0;
  if (is_req) for (int si = 0; si < 3; ++si) {   // lengths sized so that each completes within the tier budget on the idle machine
    const char* shp[] = {"sorted", "zigzag", "mixed"};
    QuantSys<Fam> sys; const int ln = cfg.quick() ? (si == 2 ? 280 : 460) : (si == 0 ? 900 : si == 1 ? 640 : 500); sys.nm = tag + "/long-smalldomain-" + shp[si] + "/n" + str(ln); sys.slot_cfgs.push_back(base); sys.light_check = true; sys.check_published = true;
    std::vector<std::string> dn; distinct_domain(sys, 6, dn); sys.add_update_ops(0, false);
    std::vector<int> ix = shape_idx(shp[si], ln); std::vector<std::string> seq; for (int i = 0; i < ln; ++i) seq.push_back("U0:" + dn[(size_t)((long long)ix[i] * 6 / ln)]);
    Task t; t.name = sys.nm; t.fn = [sys, seq, &cfg](Report& rep) { live_history<Fam>(sys, seq, 0, 20, rep, cfg); }; tasks.push_back(t);
  }
  for (uint64_t sch = 1; !is_req && sch <= (cfg.quick() ? 2 : 6); ++sch) for (int si = 0; si < 2; ++si) {
    QuantSys<Fam> sys; const int mn = long_n * 5; sys.nm = tag + "/martingale-" + (si ? "mixed" : "zigzag") + "/n" + str(mn) + "/schedule" + str(sch);
    sys.slot_cfgs.push_back(base); sys.slot_cfgs.push_back(other_cfgs.back()); sys.light_check = true; sys.check_published = true;
    std::vector<std::string> dn; distinct_domain(sys, mn, dn); sys.add_update_ops(0, false); sys.add_update_ops(1, false); sys.add_slot_merge_ops(0, 1); sys.add_slot_merge_ops(1, 0);
    std::vector<int> ix = shape_idx(si ? "mixed" : "zigzag", mn); std::vector<std::string> seq;
    const bool classic = fam.find("classic") == 0;   // a classic merge of two deep sketches has thousands of outcomes: merge early only
    for (int i = 0; i < mn; ++i) { int slot = (i / 37) % 2; seq.push_back("U" + str(slot) + ":" + dn[ix[i]]);
      if (classic ? (i == 45 || i == 120) : (i % 211 == 210)) seq.push_back((classic ? i == 45 : i % 422 == 210) ? "M01" : "R10"); }
    Task t; t.name = sys.nm; t.fn = [sys, seq, sch, &cfg](Report& rep) { martingale_history<Fam>(sys, seq, sch, rep, cfg); }; tasks.push_back(t);
  }
  // merge trees: A(n1) u B(n2) both directions and by rvalue; unequal k; (AuB)uC vs Au(BuC)
  for (size_t oc = 0; oc < other_cfgs.size(); ++oc) {
    const int n1s[] = {0, 1, merge_n1, merge_n2}; 
    for (int a = 0; a < 4; ++a) for (int b = 0; b < 4; ++b) {
      if (cfg.quick() && (a + b) % 2 == 1 && oc > 0) continue;
      for (int form = 0; form < 4; ++form) {   // form 3: the target was queried before the merge (cached sorted view, sortedness flags set)
        if (form == 3 && (n1s[a] == 0 || n1s[b] == 0)) continue;
        QuantSys<Fam> sys; sys.slot_cfgs.push_back(base); sys.slot_cfgs.push_back(other_cfgs[oc]); sys.light_check = true; sys.check_published = true;
        std::vector<std::string> vn; distinct_domain(sys, 2 * std::max(n1s[a], n1s[b]) + 6, vn);   // distinct values: A gets even indices, B odd ones
        sys.add_update_ops(0, false); sys.add_update_ops(1, false); sys.add_slot_merge_ops(0, 1); sys.add_slot_merge_ops(1, 0); sys.add_query_op(0);
        sys.nm = tag + "/merge/k" + str(other_cfgs[oc].k) + "/n" + str(n1s[a]) + "+" + str(n1s[b]) + (form == 0 ? "/A.merge(B)" : form == 1 ? "/A.merge(move(B))" : form == 2 ? "/B.merge(A)" : "/A.query.merge(B)");
        std::vector<std::string> seq = shape("mixed", n1s[a], 0, vn, 0, 2), s2 = shape("zigzag", n1s[b], 1, vn, 1, 2);
        seq.insert(seq.end(), s2.begin(), s2.end());
        if (form == 3) seq.push_back("Q0");
        seq.push_back(form == 0 || form == 3 ? "M01" : form == 1 ? "R01" : "M10");
        int slot = form == 2 ? 1 : 0;
        for (int e = 0; e < 3; ++e) seq.push_back("U" + str(slot) + ":" + vn[vn.size() - 1 - 2 * e]);   // keep updating the merged sketch
        size_t from = seq.size() - 3;
        Task t; t.name = sys.nm; t.fn = [sys, seq, slot, from, &cfg](Report& rep) { fixed_history<Fam>(sys, seq, slot, from, rep, cfg); }; tasks.push_back(t);
      }
    }
    // three-way: (AuB)uC and Au(BuC)
    for (int assoc = 0; assoc < 2; ++assoc) {
      QuantSys<Fam> sys; sys.slot_cfgs.push_back(base); sys.slot_cfgs.push_back(other_cfgs[oc]); sys.slot_cfgs.push_back(base); sys.light_check = true; sys.check_published = true;
      std::vector<std::string> vn; distinct_domain(sys, 3 * (merge_n2 + 3), vn);
      for (int s = 0; s < 3; ++s) sys.add_update_ops(s, false);
      sys.add_slot_merge_ops(0, 1); sys.add_slot_merge_ops(0, 2); sys.add_slot_merge_ops(1, 2);
      sys.nm = tag + "/merge3/k" + str(other_cfgs[oc].k) + (assoc ? "/A.merge(B.merge(C))" : "/(A.merge(B)).merge(C)");
      std::vector<std::string> seq = shape("sorted", merge_n1, 0, vn, 0, 3), s2 = shape("reversed", merge_n2, 1, vn, 1, 3), s3 = shape("mixed", merge_n1 + 2, 2, vn, 2, 3);
      seq.insert(seq.end(), s2.begin(), s2.end()); seq.insert(seq.end(), s3.begin(), s3.end());
      if (assoc) { seq.push_back("M12"); seq.push_back("M01"); } else { seq.push_back("M01"); seq.push_back("R02"); }
      size_t from = seq.size() - 1;
      Task t; t.name = sys.nm; t.fn = [sys, seq, from, &cfg](Report& rep) { fixed_history<Fam>(sys, seq, 0, from, rep, cfg); }; tasks.push_back(t);
    }
  }
}

// ---- long streams: fixed enumerated family of deterministic bit sources (labelled family_enumeration) ----
static uint64_t g_lfsr = 1;
static uint32_t lfsr_bit() { g_lfsr ^= g_lfsr << 13; g_lfsr ^= g_lfsr >> 7; g_lfsr ^= g_lfsr << 17; return (uint32_t)((g_lfsr >> 33) & 1); }
static uint64_t lfsr_raw() { uint64_t r = 0; for (int i = 0; i < 64; ++i) r = (r << 1) | lfsr_bit(); return r; }

template<class Sk, class MakeFn>
static void long_family(const std::string& name, MakeFn mk, int n, int S, bool is_req, Report& rep, const Config& cfg) {
  if (!cfg.replay_scenario.empty() && cfg.replay_scenario != name) return;
  const char* shapes[] = {"sorted", "reversed", "zigzag", "blocks"};
  const int NQ = 19; // query points at 5%..95%
  for (int sh = 0; sh < 4; ++sh) for (int merged = 0; merged < 2; ++merged) {
    std::vector<int> exceed_single(NQ, 0); int exceed_pmf = 0; double worst = 0; double eps1 = 0, eps2 = 0;
    std::vector<int> req_out(3 * NQ, 0);
    for (int s = 0; s < S; ++s) {
      g_lfsr = 0x9e3779b97f4a7c15ULL * (uint64_t)(s + 1) + 12345;
      datasketches::random_utils::verif_bit_source() = &lfsr_bit; datasketches::random_utils::verif_raw_source() = &lfsr_raw;
      Sk a = mk(), b = mk();
      for (int i = 0; i < n; ++i) {
        float v = sh == 0 ? (float)i : sh == 1 ? (float)(n - 1 - i) : sh == 2 ? (float)((i % 2) ? n - 1 - i / 2 : i / 2) : (float)(((i / 64) * 7919 % (n / 64 + 1)) * 64 + i % 64);
        if (merged && (i % 3 == 0)) b.update(v); else a.update(v);
      }
      if (merged) a.merge(b);
      forbid_unowned_draws();
      // true rank of value x among 0..n-1 (shapes 0..2 are permutations of 0..n-1)
      if (sh == 3) continue; // blocks: values repeat; only structural checks below
      double mx = 0;
      for (int qi = 0; qi < NQ; ++qi) {
        double tr = (qi + 1) * 0.05; float x = (float)((int)(tr * n) - 1); double truth = ((int)(tr * n)) / (double)n;
        double est = a.get_rank(x, true); double err = std::fabs(est - truth);
        mx = std::max(mx, err);
        eps1 = a.get_normalized_rank_error(false); eps2 = a.get_normalized_rank_error(true);
        if (err > eps1) exceed_single[qi]++;
      }
      if (mx > eps2) exceed_pmf++;
      worst = std::max(worst, mx);
      rep.evaluations++;
    }
    if (sh == 3) continue;
    double allow = 0.01 * S + 5 * std::sqrt(S * 0.01 * 0.99);
    std::string hist = std::string(shapes[sh]) + (merged ? "/merged" : "/single") + "/n" + str(n) + "/S" + str(S);
    Ctx c(rep, name, hist);
    for (int qi = 0; qi < NQ; ++qi) c.ok("single-sided-error-within-published", exceed_single[qi] <= allow, "rank " + str((qi + 1) * 0.05) + ": " + str(exceed_single[qi]) + " of " + str(S) + " bit sources exceed eps=" + str(eps1));
    c.ok("pmf-error-within-published", exceed_pmf <= allow, str(exceed_pmf) + " of " + str(S) + " bit sources exceed eps_pmf=" + str(eps2));
    rep.flush_ctx_fails(c.fails, name, hist);
    rep.scenarios.push_back(name + " " + hist + ": worst max-error=" + str(worst) + " eps=" + str(eps1) + " eps_pmf=" + str(eps2) + " exceed_pmf=" + str(exceed_pmf) + " [family_enumeration]");
    rep.outcome("long|" + std::string(worst < eps1 / 2 ? "err<eps/2" : "err>=eps/2"));
  }
  (void)is_req;
}

// REQ long streams: relative bounds at the accurate end
static void long_req(const std::string& name, int k, bool hra, int n, int S, Report& rep, const Config& cfg) {
  if (!cfg.replay_scenario.empty() && cfg.replay_scenario != name) return;
  const double ranks[] = {0.001, 0.01, 0.1, 0.5, 0.9, 0.99, 0.999};
  for (int merged = 0; merged < 2; ++merged) {
    int out[3][7]; memset(out, 0, sizeof out); int exact_wrong = 0;
    for (int s = 0; s < S; ++s) {
      g_lfsr = 0xd1b54a32d192ed03ULL * (uint64_t)(s + 1) + 777;
      datasketches::random_utils::verif_bit_source() = &lfsr_bit; datasketches::random_utils::verif_raw_source() = &lfsr_raw;
      req_sketch<float> a((uint16_t)k, hra), b((uint16_t)k, hra);
      for (int i = 0; i < n; ++i) { float v = (float)((i * 7919LL) % n); if (merged && i % 2) b.update(v); else a.update(v); }
      if (merged) a.merge(b);
      forbid_unowned_draws();
      for (int r = 0; r < 7; ++r) {
        int cnt = (int)std::ceil(ranks[r] * n); float x = (float)(cnt - 1); double truth = cnt / (double)n;
        double est = a.get_rank(x, true);
        for (int sd = 1; sd <= 3; ++sd) {
          double lb = a.get_rank_lower_bound(est, (uint8_t)sd), ub = a.get_rank_upper_bound(est, (uint8_t)sd);
          if (truth < lb - 1e-12 || truth > ub + 1e-12) out[sd - 1][r]++;
          if (sd == 3 && lb == ub && std::fabs(est - truth) > 1e-12) exact_wrong++;
        }
      }
      rep.evaluations++;
    }
    const double nominal[3] = {0.3173, 0.0455, 0.0027};
    std::string hist = std::string(merged ? "merged" : "single") + "/n" + str(n) + "/S" + str(S);
    Ctx c(rep, name, hist);
    for (int sd = 0; sd < 3; ++sd) for (int r = 0; r < 7; ++r) {
      double allow = nominal[sd] * S + 5 * std::sqrt(S * nominal[sd] * (1 - nominal[sd])) + 1;
      // the statement claims REQ's relative bounds "at the accurate end" only (high ranks for HRA, low ranks for LRA); the other
      // half is recorded in the scenario line below and not gated (the 1-sd bounds at the far end cover noticeably less than 68 %)
      const bool accurate_half = hra ? ranks[r] >= 0.5 : ranks[r] <= 0.5;
      if (!accurate_half) { if (out[sd][r] > allow) rep.count("req_bounds_below_nominal_coverage_at_the_inaccurate_end(diagnostic)"); continue; }
      c.ok("req-bounds-cover-true-rank", out[sd][r] <= allow, "rank " + str(ranks[r]) + " sd " + str(sd + 1) + ": true rank outside [lb,ub] for " + str(out[sd][r]) + " of " + str(S) + " bit sources");
    }
    c.eq("req-exact-region-is-exact", exact_wrong, 0);
    rep.flush_ctx_fails(c.fails, name, hist);
    rep.scenarios.push_back(name + " " + hist + ": outside-3sd counts per rank=" + str(out[2][0]) + "," + str(out[2][1]) + "," + str(out[2][2]) + "," + str(out[2][3]) + "," + str(out[2][4]) + "," + str(out[2][5]) + "," + str(out[2][6]) + " [family_enumeration]");
  }
}

int main(int argc, char** argv) {
  Config cfg = parse_args(argc, argv);
  forbid_unowned_draws();
  case_timeout_s() = 900;   // one journalled case is the complete expansion of one leaf
  const bool q = cfg.quick();
  std::vector<Task> tasks;
  { Task t; t.name = "meta"; t.fn = [](Report& rep) {
      rep.assumptions.push_back("exhaustive part: smallest legal k (KLL 8, REQ 4, classic 2), 3-4 value domain; every coin outcome enumerated, leaves merged by canonical state (Markov merging)");
      rep.assumptions.push_back("long-stream part: decided only over the fixed enumerated family of S xorshift bit sources x shapes stated in the scenarios (family_enumeration), with a 5-sigma allowance");
      rep.sets("rule", "for every explored history the complete coin tree is enumerated and E[n*rank(v)] is compared with the true count for every grid value and both criteria; distinct = distinct (family, leaves, flips) tag");
    }; tasks.push_back(t); }
  { typedef KllFam<float, std::less<float> > F; Cfg c; c.k = 8; std::vector<Cfg> oc; oc.push_back(c); Cfg c2; c2.k = 9; oc.push_back(c2); c2.k = 16; if (!q) oc.push_back(c2);
    family_tasks<F>(tasks, cfg, "kll-float", c, oc, q ? 13 : 19, q ? 40 : 64, 9, q ? 20 : 27, q ? 90 : 160); }
  { typedef KllFam<float, std::less<float> > F;   // C(k small) merged into B(k large), then B into A(k large), and the reverse nesting
    for (int v = 0; v < 4; ++v) {
      QuantSys<F> sys; Cfg big; big.k = v < 2 ? 16 : 32; Cfg small; small.k = v % 2 ? 9 : 8;
      sys.slot_cfgs.push_back(big); sys.slot_cfgs.push_back(big); sys.slot_cfgs.push_back(small); sys.light_check = true; sys.check_published = true;
      std::vector<std::string> vn; distinct_domain(sys, 150, vn);
      for (int sl = 0; sl < 3; ++sl) sys.add_update_ops(sl, false);
      sys.add_slot_merge_ops(0, 1); sys.add_slot_merge_ops(1, 2); sys.add_slot_merge_ops(0, 2);
      sys.nm = "kll-float/mixedk-chain/k" + str(big.k) + "<-k" + str(big.k) + "<-k" + str(small.k);
      std::vector<std::string> seq = shape("mixed", 20, 0, vn, 0, 3), s2 = shape("zigzag", 24, 1, vn, 1, 3), s3 = shape("sorted", 30, 2, vn, 2, 3);
      seq.insert(seq.end(), s2.begin(), s2.end()); seq.insert(seq.end(), s3.begin(), s3.end());
      seq.push_back("M12"); seq.push_back(v % 2 ? "R01" : "M01"); seq.push_back("U0:" + vn[149]);
      size_t from = seq.size() - 3;
      Task t; t.name = sys.nm; t.fn = [sys, seq, from, &cfg](Report& rep) { fixed_history<F>(sys, seq, 0, from, rep, cfg); }; tasks.push_back(t);
    } }
  for (int h = 0; h < 2; ++h) for (int ic = 0; ic < 1; ++ic) { typedef ReqFam<float, std::less<float> > F;
    Cfg c; c.k = 4; c.hra = h == 1; c.init_coin = ic; std::vector<Cfg> oc; oc.push_back(c); Cfg c2 = c; c2.k = 6; oc.push_back(c2);
    family_tasks<F>(tasks, cfg, "req-float", c, oc, q ? 26 : 30, q ? 160 : 320, 24, q ? 47 : 50, q ? 200 : 320); }   // 47: one short of the two-level capacity, so the update after a merge compacts
  { typedef ClassicFam<int, std::less<int> > F; Cfg c; c.k = 2; std::vector<Cfg> oc; oc.push_back(c); Cfg c2; c2.k = 4; oc.push_back(c2); c2.k = 8; if (!q) oc.push_back(c2);
    family_tasks<F>(tasks, cfg, "classic-int", c, oc, q ? 10 : 14, q ? 30 : 48, 5, q ? 9 : 13, q ? 40 : 60);
    // larger k merged into smaller k exercises the down-sampling merge (raw uniform offset): base k=4 with k=2 operand and vice versa
    Cfg c4; c4.k = 4; std::vector<Cfg> oc4; oc4.push_back(c);
    family_tasks<F>(tasks, cfg, "classic-int", c4, oc4, q ? 8 : 12, q ? 24 : 40, 9, q ? 12 : 17, q ? 60 : 90); }
  // classic down-sampling merges with a k ratio of 4 and 8 whose larger-k side is in estimation mode (n > 2k): the offset of the
  // stride is a raw draw over [0, ratio); both directions and by rvalue
  { typedef ClassicFam<int, std::less<int> > F;
    const int rk[][4] = {{2, 8, 5, 19}, {2, 8, 9, 35}, {4, 16, 9, 37}, {2, 16, 3, 35}, {4, 32, 5, 67}};
    for (int ri = 0; ri < (q ? 3 : 5); ++ri) for (int form = 0; form < 3; ++form) {
      Cfg ca; ca.k = rk[ri][0]; Cfg cb; cb.k = rk[ri][1]; const int na = rk[ri][2], nb = rk[ri][3];
      QuantSys<F> sys; sys.slot_cfgs.push_back(ca); sys.slot_cfgs.push_back(cb); sys.light_check = true; sys.check_published = true;
      std::vector<std::string> vn; distinct_domain(sys, 2 * std::max(na, nb) + 6, vn);
      sys.add_update_ops(0, false); sys.add_update_ops(1, false); sys.add_slot_merge_ops(0, 1); sys.add_slot_merge_ops(1, 0);
      sys.nm = "classic-int/k" + str(ca.k) + "/merge-ratio" + str(cb.k / ca.k) + "/k" + str(cb.k) + "/n" + str(na) + "+" + str(nb) + (form == 0 ? "/A.merge(B)" : form == 1 ? "/A.merge(move(B))" : "/B.merge(A)");
      std::vector<std::string> seq = shape("mixed", na, 0, vn, 0, 2), s2 = shape("zigzag", nb, 1, vn, 1, 2);
      seq.insert(seq.end(), s2.begin(), s2.end());
      seq.push_back(form == 0 ? "M01" : form == 1 ? "R01" : "M10");
      const int slot = form == 2 ? 1 : 0;
      for (int e = 0; e < 2; ++e) seq.push_back("U" + str(slot) + ":" + vn[vn.size() - 1 - 2 * e]);
      const size_t from = seq.size() - 2;
      Task t; t.name = sys.nm; t.fn = [sys, seq, slot, from, &cfg](Report& rep) { fixed_history<F>(sys, seq, slot, from, rep, cfg); }; tasks.push_back(t);
    } }
  // long streams
  const int S = q ? 48 : 512, N = q ? 20000 : 100000;
  for (int ki = 0; ki < 3; ++ki) {
    const int ks[] = {32, 100, 200}; int k = ks[ki];
    { Task t; t.name = "long/kll/k" + str(k); std::string nm = t.name; t.fn = [nm, k, N, S, &cfg](Report& rep) { long_family<kll_sketch<float> >(nm, [k] { return kll_sketch<float>((uint16_t)k); }, N, S, false, rep, cfg); }; tasks.push_back(t); }
    const int cks[] = {32, 64, 128}; int ck = cks[ki];
    { Task t; t.name = "long/classic/k" + str(ck); std::string nm = t.name; t.fn = [nm, ck, N, S, &cfg](Report& rep) { long_family<quantiles_sketch<float> >(nm, [ck] { return quantiles_sketch<float>((uint16_t)ck); }, N, S, false, rep, cfg); }; tasks.push_back(t); }
    const int rks[] = {12, 20, 50}; int rk = rks[ki];
    for (int h = 0; h < 2; ++h) { Task t; t.name = "long/req/k" + str(rk) + (h ? "/hra" : "/lra"); std::string nm = t.name; t.fn = [nm, rk, h, N, S, &cfg](Report& rep) { long_req(nm, rk, h == 1, N, S, rep, cfg); }; tasks.push_back(t); }
  }
  // the longest tasks first, so that the budget ends no task in the middle
  std::stable_partition(tasks.begin(), tasks.end(), [](const Task& t) { return t.name == "meta" || t.name.find("long-smalldomain") != std::string::npos; });
  return run_tasks(cfg, "C08", tasks);
}
