// shared by C03/C04: coupon/register reference model, independent views of an hll_sketch (private fields,
// library iterator, and a decoder of the documented HLL_8 serialize_updatable image), canonical state strings,
// serialization round trips, operand builders.
#ifndef HLL_COMMON_HPP
#define HLL_COMMON_HPP
#include "core.hpp"
#include "oracle_hash.hpp"
#include <hll.hpp>
#include <set>
#include <cmath>
#include <sstream>

namespace hc {
using namespace datasketches;
typedef std::allocator<uint8_t> A;
typedef hll_sketch Sk;

static const uint32_t ADDR_MASK = (1u << 26) - 1;
inline uint32_t mk_coupon(uint32_t addr, unsigned value) { return ((uint32_t)value << 26) | (addr & ADDR_MASK); }
inline uint32_t c_addr(uint32_t c) { return c & ADDR_MASK; }
inline unsigned c_val(uint32_t c) { return c >> 26; }
inline const char* type_name(target_hll_type t) { return t == HLL_4 ? "H4" : t == HLL_6 ? "H6" : "H8"; }
inline const char* mode_name(int m) { return m == LIST ? "LIST" : m == SET ? "SET" : "HLL"; }
static const target_hll_type TYPES[3] = { HLL_4, HLL_6, HLL_8 };

// Documented coupon of a 128-bit hash: address = low 26 bits of h1, value = min(number of leading zeros of h2, 62) + 1
inline uint32_t coupon_of_hash(const oracle::H128& h) {
  unsigned lz = 0;
  for (int b = 63; b >= 0 && !((h.h2 >> b) & 1); --b) ++lz;
  if (lz > 62) lz = 62;
  return mk_coupon((uint32_t)(h.h1 & ADDR_MASK), lz + 1);
}

// lazy oracle helpers: the check id and message strings are only built when the check fails (string building dominates the
// cost of a check under ASan otherwise). They expect a mc::Ctx named c and a std::string prefix named p in scope.
inline bool near_eq(double a, double b, double rel = 1e-9, double abs = 1e-12) {
  double d = a > b ? a - b : b - a; double m = std::max(a < 0 ? -a : a, b < 0 ? -b : b);
  return d <= abs || d <= rel * m;   // NaN fails
}
#define HC_OK(id, cond, msg) do { if (!(cond)) c.fail(p + id, msg); } while (0)
#define HC_EQ(id, a, b) do { if (!((a) == (b))) c.fail(p + id, "got " + mc::str(a) + " expected " + mc::str(b)); } while (0)
#define HC_NEAR(id, a, b, rel, abs) do { if (!hc::near_eq((a), (b), (rel), (abs))) c.fail(p + id, "got " + mc::str(a) + " expected " + mc::str(b)); } while (0)

// ---- reference model -------------------------------------------------------------------------
inline std::vector<uint8_t> fold(const std::set<uint32_t>& coupons, int lg_k) {
  std::vector<uint8_t> r((size_t)1 << lg_k, 0);
  const uint32_t mask = (1u << lg_k) - 1;
  for (std::set<uint32_t>::const_iterator i = coupons.begin(); i != coupons.end(); ++i) {
    uint8_t v = (uint8_t)c_val(*i); uint8_t& x = r[c_addr(*i) & mask]; if (v > x) x = v;
  }
  return r;
}
inline std::vector<uint8_t> fold(const std::vector<uint32_t>& coupons, int lg_k) {
  std::vector<uint8_t> r((size_t)1 << lg_k, 0);
  const uint32_t mask = (1u << lg_k) - 1;
  for (size_t i = 0; i < coupons.size(); ++i) { uint8_t v = (uint8_t)c_val(coupons[i]); uint8_t& x = r[c_addr(coupons[i]) & mask]; if (v > x) x = v; }
  return r;
}
inline std::vector<uint8_t> fold_regs(const std::vector<uint8_t>& regs, int lg_k) { // registers of 2^n slots folded to 2^lg_k slots
  std::vector<uint8_t> r((size_t)1 << lg_k, 0);
  const size_t mask = ((size_t)1 << lg_k) - 1;
  for (size_t i = 0; i < regs.size(); ++i) if (regs[i] > r[i & mask]) r[i & mask] = regs[i];
  return r;
}

struct Derived { unsigned minv; uint32_t n_at_min, zeros; double kxq0, kxq1; };
inline Derived derive(const std::vector<uint8_t>& r) {
  Derived d; d.minv = 255; d.n_at_min = 0; d.zeros = 0; d.kxq0 = 0; d.kxq1 = 0;
  for (size_t i = 0; i < r.size(); ++i) {
    unsigned v = r[i];
    if (v < d.minv) { d.minv = v; d.n_at_min = 1; } else if (v == d.minv) d.n_at_min++;
    if (v == 0) d.zeros++;
    if (v < 32) d.kxq0 += std::ldexp(1.0, -(int)v); else d.kxq1 += std::ldexp(1.0, -(int)v);
  }
  return d;
}

inline std::string regs_str(const std::vector<uint8_t>& r) {
  std::string s; for (size_t i = 0; i < r.size(); ++i) { if (i) s += ","; s += std::to_string((unsigned)r[i]); } return s;
}
inline std::string first_diff(const std::vector<uint8_t>& got, const std::vector<uint8_t>& exp) {
  if (got.size() != exp.size()) return "sizes " + std::to_string(got.size()) + " vs " + std::to_string(exp.size());
  for (size_t i = 0; i < got.size(); ++i) if (got[i] != exp[i]) return "slot " + std::to_string(i) + ": got " + std::to_string((unsigned)got[i]) + " expected " + std::to_string((unsigned)exp[i]);
  return "equal";
}
inline std::string coupons_diff(const std::vector<uint32_t>& got, const std::vector<uint32_t>& exp) {   // both sorted
  std::string m = "got " + std::to_string(got.size()) + " coupons expected " + std::to_string(exp.size());
  for (size_t i = 0; i < exp.size(); ++i) if (!std::binary_search(got.begin(), got.end(), exp[i])) { m += " missing (addr " + std::to_string(c_addr(exp[i])) + ", value " + std::to_string(c_val(exp[i])) + ")"; break; }
  for (size_t i = 0; i < got.size(); ++i) if (!std::binary_search(exp.begin(), exp.end(), got[i])) { m += " extra (addr " + std::to_string(c_addr(got[i])) + ", value " + std::to_string(c_val(got[i])) + ")"; break; }
  return m;
}
inline std::string coupons_diff(const std::vector<uint32_t>& got, const std::set<uint32_t>& exp) {
  std::string m = "got " + std::to_string(got.size()) + " coupons expected " + std::to_string(exp.size());
  for (std::set<uint32_t>::const_iterator i = exp.begin(); i != exp.end(); ++i) if (!std::binary_search(got.begin(), got.end(), *i)) { m += " missing (addr " + std::to_string(c_addr(*i)) + ", value " + std::to_string(c_val(*i)) + ")"; break; }
  for (size_t i = 0; i < got.size(); ++i) if (!exp.count(got[i])) { m += " extra (addr " + std::to_string(c_addr(got[i])) + ", value " + std::to_string(c_val(got[i])) + ")"; break; }
  return m;
}

// ---- views of an hll_sketch --------------------------------------------------------------------
struct View {
  int mode, lg_k, type; bool ooo, rebuild, full;
  std::vector<uint32_t> coupons;   // LIST/SET: sorted non-empty coupons
  uint32_t coupon_count;           // LIST/SET: the stored count
  std::vector<uint8_t> regs;       // HLL
  unsigned cur_min; uint32_t num_at_cur_min, aux_count; double hip, kxq0, kxq1;
  View(): mode(0), lg_k(0), type(0), ooo(false), rebuild(false), full(false), coupon_count(0), cur_min(0), num_at_cur_min(0), aux_count(0), hip(0), kxq0(0), kxq1(0) {}
  // content at a given lg_k: registers, folding coupons if still in coupon mode
  std::vector<uint8_t> regs_at(int lg) const { return mode == HLL ? (lg == lg_k ? regs : fold_regs(regs, lg)) : fold(coupons, lg); }
};

// private view: reads the fields directly; c (optional) receives structural inconsistencies under check ids prefixed by pfx
inline View view_private(const Sk& s, mc::Ctx* c, const std::string& pfx) {
  View v; const HllSketchImpl<A>* impl = s.sketch_impl;
  v.mode = impl->getCurMode(); v.lg_k = impl->getLgConfigK(); v.type = impl->getTgtHllType(); v.ooo = impl->isOutOfOrderFlag(); v.full = impl->isStartFullSize();
  if (v.mode != HLL) {
    const CouponList<A>* cl = static_cast<const CouponList<A>*>(impl);
    v.coupon_count = cl->couponCount_;
    for (size_t i = 0; i < cl->coupons_.size(); ++i) if (cl->coupons_[i] != 0) v.coupons.push_back(cl->coupons_[i]);
    std::sort(v.coupons.begin(), v.coupons.end());
    if (c) {
      if (std::adjacent_find(v.coupons.begin(), v.coupons.end()) != v.coupons.end()) c->fail(pfx + "coupon-array-no-duplicates", "a coupon is stored twice");
      if ((size_t)v.coupon_count != v.coupons.size()) c->fail(pfx + "coupon-count==stored", "count field " + mc::str(v.coupon_count) + " but " + mc::str(v.coupons.size()) + " coupons stored");
      std::vector<uint32_t> it; for (coupon_iterator<A> i = cl->begin(); i != cl->end(); ++i) it.push_back(*i);
      std::sort(it.begin(), it.end());
      if (it != v.coupons) c->fail(pfx + "coupon-iterator==array", "iterating the coupon list does not yield the stored coupons");
    }
    return v;
  }
  const HllArray<A>* ha = static_cast<const HllArray<A>*>(impl);
  v.cur_min = ha->curMin_; v.num_at_cur_min = ha->numAtCurMin_; v.hip = ha->hipAccum_; v.kxq0 = ha->kxq0_; v.kxq1 = ha->kxq1_; v.rebuild = ha->rebuild_kxq_curmin_;
  const uint32_t k = 1u << v.lg_k; v.regs.assign(k, 0);
  if (v.type == HLL_4) {
    const Hll4Array<A>* h4 = static_cast<const Hll4Array<A>*>(ha);
    const AuxHashMap<A>* aux = h4->auxHashMap_; uint32_t tokens = 0;
    v.aux_count = aux ? aux->auxCount : 0;
    for (uint32_t i = 0; i < k; ++i) {
      unsigned raw = h4->getSlot(i);
      if (raw == 15) {
        ++tokens;
        bool found = false; unsigned val = 0;
        if (aux) for (size_t j = 0; j < aux->entries.size(); ++j) if (aux->entries[j] != 0 && (c_addr(aux->entries[j]) & (k - 1)) == i) { if (found && c) c->fail(pfx + "aux-duplicate-slot", "slot " + mc::str(i) + " twice in the exception table"); found = true; val = c_val(aux->entries[j]); }
        if (!found) { if (c) c->fail(pfx + "aux-entry-missing", "slot " + mc::str(i) + " holds the exception token but has no exception entry"); val = 255; }
        else if (c && val < v.cur_min + 15) c->fail(pfx + "aux-value>=curmin+15", "exception value " + mc::str(val) + " at cur_min " + mc::str(v.cur_min));
        v.regs[i] = (uint8_t)val;
      } else v.regs[i] = (uint8_t)(raw + v.cur_min);
    }
    if (c) {
      if (v.aux_count != tokens) c->fail(pfx + "aux-count==tokens", "exception count " + mc::str(v.aux_count) + " but " + mc::str(tokens) + " slots hold the exception token");
      if (aux) { uint32_t n = 0; for (size_t j = 0; j < aux->entries.size(); ++j) if (aux->entries[j] != 0) ++n; if (v.aux_count != n) c->fail(pfx + "aux-count==entries", "exception count " + mc::str(v.aux_count) + " but " + mc::str(n) + " entries stored"); }
    }
  } else if (v.type == HLL_6) {
    const Hll6Array<A>* h6 = static_cast<const Hll6Array<A>*>(ha);
    for (uint32_t i = 0; i < k; ++i) v.regs[i] = h6->getSlot(i);
  } else {
    const Hll8Array<A>* h8 = static_cast<const Hll8Array<A>*>(ha);
    for (uint32_t i = 0; i < k; ++i) v.regs[i] = h8->getSlot(i);
  }
  if (c) { // the library's own iterator over all slots must tell the same story
    std::vector<uint8_t> it(k, 0); uint32_t n = 0; bool ok = true;
    try { for (HllArray<A>::const_iterator i = ha->begin(true); i != ha->end(); ++i, ++n) { uint32_t p = *i; if (c_addr(p) < k) it[c_addr(p)] = (uint8_t)c_val(p); } }
    catch (const std::exception& e) { ok = false; c->fail(pfx + "iterator-threw", e.what()); }
    if (ok) { if (n != k) c->fail(pfx + "iterator-visits-k-slots", "visited " + mc::str(n)); if (it != v.regs) c->fail(pfx + "iterator==getSlot", "register iterator vs slot reads: " + first_diff(it, v.regs)); }
  }
  return v;
}

// public view: decode the documented updatable image of an HLL_8 copy (preamble bytes per HllUtil.hpp / the Java memory layout)
inline uint32_t rd32(const uint8_t* p) { return (uint32_t)p[0] | ((uint32_t)p[1] << 8) | ((uint32_t)p[2] << 16) | ((uint32_t)p[3] << 24); }
inline double rdf64(const uint8_t* p) { uint64_t u = 0; for (int i = 7; i >= 0; --i) u = (u << 8) | p[i]; double d; memcpy(&d, &u, 8); return d; }
inline bool decode_image(const uint8_t* b, size_t n, View& v, std::string& err) {
  if (n < 8) { err = "image shorter than 8 bytes"; return false; }
  int pre = b[0]; if (b[1] != 1) { err = "serial version " + mc::str((int)b[1]); return false; } if (b[2] != 7) { err = "family id " + mc::str((int)b[2]); return false; }
  v.lg_k = b[3]; v.mode = b[7] & 3; v.type = (b[7] >> 2) & 3; v.ooo = (b[5] & 16) != 0; v.full = (b[5] & 32) != 0;
  const bool compact = (b[5] & 8) != 0;
  if (v.mode == LIST) {
    if (pre != 2) { err = "LIST image with preamble ints " + mc::str(pre); return false; }
    v.coupon_count = b[6]; size_t slots = compact ? v.coupon_count : 8;
    if (n < 8 + 4 * slots) { err = "LIST image too short"; return false; }
    for (size_t i = 0; i < slots; ++i) { uint32_t c = rd32(b + 8 + 4 * i); if (c) v.coupons.push_back(c); }
  } else if (v.mode == SET) {
    if (pre != 3 || n < 12) { err = "SET image with preamble ints " + mc::str(pre); return false; }
    v.coupon_count = rd32(b + 8); size_t slots = compact ? v.coupon_count : ((size_t)1 << b[4]);
    if (n < 12 + 4 * slots) { err = "SET image too short"; return false; }
    for (size_t i = 0; i < slots; ++i) { uint32_t c = rd32(b + 12 + 4 * i); if (c) v.coupons.push_back(c); }
  } else if (v.mode == HLL) {
    if (pre != 10 || n < 40) { err = "HLL image with preamble ints " + mc::str(pre); return false; }
    v.cur_min = b[6]; v.hip = rdf64(b + 8); v.kxq0 = rdf64(b + 16); v.kxq1 = rdf64(b + 24); v.num_at_cur_min = rd32(b + 32); v.aux_count = rd32(b + 36);
    if (v.type != HLL_8) { err = "decoder handles HLL_8 register arrays only"; return false; }
    size_t k = (size_t)1 << v.lg_k; if (n < 40 + k) { err = "HLL_8 image too short"; return false; }
    v.regs.assign(b + 40, b + 40 + k);
  } else { err = "mode bits 3"; return false; }
  std::sort(v.coupons.begin(), v.coupons.end());
  return true;
}
inline bool view_image(const Sk& s, View& v, std::string& err) {
  Sk h8(s, HLL_8);
  Sk::vector_bytes img = h8.serialize_updatable();
  return decode_image(img.data(), img.size(), v, err);
}

inline std::string hexbytes(const uint8_t* p, size_t n) { static const char* d = "0123456789abcdef"; std::string s; s.reserve(2 * n); for (size_t i = 0; i < n; ++i) { s += d[p[i] >> 4]; s += d[p[i] & 15]; } return s; }
inline std::string dbits(double d) { uint64_t u; memcpy(&u, &d, 8); return mc::hex64(u); }

// canonical state string: every field of the implementation object (raw arrays, so over-fine)
inline std::string canon(const Sk& s, bool with_hip) {
  const HllSketchImpl<A>* impl = s.sketch_impl;
  std::string c = std::string(mode_name(impl->getCurMode())) + "/" + mc::str((int)impl->getLgConfigK()) + "/" + type_name(impl->getTgtHllType()) + (impl->isStartFullSize() ? "/F" : "/f");
  if (impl->getCurMode() != HLL) {
    const CouponList<A>* cl = static_cast<const CouponList<A>*>(impl);
    c += "/n" + mc::str(cl->couponCount_) + (cl->oooFlag_ ? "/O" : "/o") + "[";
    for (size_t i = 0; i < cl->coupons_.size(); ++i) { if (cl->coupons_[i]) c += mc::str(cl->coupons_[i]); c += ","; }
    return c + "]";
  }
  const HllArray<A>* ha = static_cast<const HllArray<A>*>(impl);
  c += "/cm" + mc::str((int)ha->curMin_) + "/n" + mc::str(ha->numAtCurMin_) + "/q" + dbits(ha->kxq0_) + "," + dbits(ha->kxq1_) + (ha->oooFlag_ ? "/O" : "/o") + (ha->rebuild_kxq_curmin_ ? "/R" : "/r");
  if (with_hip) c += "/h" + dbits(ha->hipAccum_);
  c += "[" + hexbytes(ha->hllByteArr_.data(), ha->hllByteArr_.size()) + "]";
  if (impl->getTgtHllType() == HLL_4) {
    const AuxHashMap<A>* aux = static_cast<const Hll4Array<A>*>(ha)->auxHashMap_;
    if (aux) { c += "X" + mc::str((int)aux->lgAuxArrInts) + "/" + mc::str(aux->auxCount) + "["; for (size_t j = 0; j < aux->entries.size(); ++j) { if (aux->entries[j]) c += mc::str(aux->entries[j]); c += ","; } c += "]"; }
  }
  return c;
}

// ---- serialization round trips -------------------------------------------------------------------
enum SerKind { SER_COMPACT_BYTES = 0, SER_UPDATABLE_BYTES, SER_COMPACT_STREAM, SER_UPDATABLE_STREAM };
inline const char* ser_name(int k) { return k == 0 ? "ser-compact-bytes" : k == 1 ? "ser-updatable-bytes" : k == 2 ? "ser-compact-stream" : "ser-updatable-stream"; }
inline Sk round_trip(const Sk& s, int kind) {
  if (kind == SER_COMPACT_BYTES) { Sk::vector_bytes b = s.serialize_compact(); return Sk::deserialize(b.data(), b.size()); }
  if (kind == SER_UPDATABLE_BYTES) { Sk::vector_bytes b = s.serialize_updatable(); return Sk::deserialize(b.data(), b.size()); }
  std::stringstream ss(std::ios::in | std::ios::out | std::ios::binary);
  if (kind == SER_COMPACT_STREAM) s.serialize_compact(ss); else s.serialize_updatable(ss);
  return Sk::deserialize(ss);
}

// one register of an HLL-mode sketch, read through the private slot accessors
inline unsigned reg_at(const Sk& s, uint32_t slot) {
  const HllArray<A>* ha = static_cast<const HllArray<A>*>(s.sketch_impl);
  if (ha->getTgtHllType() == HLL_4) {
    const Hll4Array<A>* h4 = static_cast<const Hll4Array<A>*>(ha);
    unsigned raw = h4->getSlot(slot);
    return raw == 15 ? h4->auxHashMap_->mustFindValueFor(slot) : raw + ha->curMin_;
  }
  if (ha->getTgtHllType() == HLL_6) return static_cast<const Hll6Array<A>*>(ha)->getSlot(slot);
  return static_cast<const Hll8Array<A>*>(ha)->getSlot(slot);
}

// build a sketch by coupon injection
inline Sk build(int lg_k, target_hll_type t, bool full, const std::vector<uint32_t>& coupons) {
  Sk s((uint8_t)lg_k, t, full);
  for (size_t i = 0; i < coupons.size(); ++i) s.coupon_update(coupons[i]);
  return s;
}

} // namespace hc
#endif
