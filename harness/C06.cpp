// C06: distinct-count estimates are accurate and their confidence bounds consistent.
// No BFS: complete GRID enumeration of the pure estimator functions, complete per-update sweeps of real sketches
// through the public API (part 1: order / nesting / exactness clauses), and complete enumeration of a fixed,
// deterministic family of streams (part 2: statistical clauses, labelled family_enumeration, not claimed beyond
// the family; T = 1024 trials in both tiers). Oracles are written from the statement and the documentation:
//   * binomial bounds: exact binomial tails computed here, with delta(sd) = Phi(-sd) ("number of standard deviations
//     of the normal distribution") in the ranges the header documents as exact;
//   * CPC ICON and the HLL coupon estimator: the estimator's definition (the N whose expected coupon count equals the
//     observed one) solved by bisection on the closed form k * sum_j (1 - (1 - 2^-j / k)^N);
//   * HLL linear-counting: harmonic numbers by direct summation;
//   * sketches: the true number of distinct inputs is known by construction (distinct integers).
#define MC_MAIN
#include "core.hpp"
#include "choice.hpp"
#include "oracle_hash.hpp"
#include "hll_common.hpp"
#include <binomial_bounds.hpp>
#include <theta_sketch.hpp>
#include <theta_union.hpp>
#include <theta_intersection.hpp>
#include <theta_a_not_b.hpp>
#include <bounds_on_ratios_in_theta_sketched_sets.hpp>
#include <tuple_sketch.hpp>
#include <tuple_union.hpp>
#include <tuple_intersection.hpp>
#include <tuple_a_not_b.hpp>
#include <hll.hpp>
#include <cpc_sketch.hpp>
#include <cpc_union.hpp>
#include <cmath>
#include <set>
#include <map>

using namespace mc;
using namespace datasketches;

// ------------------------------------------------------------------------------------------------------------
// scenario plumbing: one Scn per task; every evaluated grid point counts as one state / transition / evaluation
struct Scn {
  Report& rep; std::string name; uint64_t pts;
  std::map<std::string, double> mx;
  Scn(Report& r, const std::string& n): rep(r), name(n), pts(0) {}
  void pt(uint64_t n = 1) { rep.evaluations += n; rep.states += n; rep.transitions += n; pts += n; }
  void fail(const std::string& check, const std::string& hist, const std::string& msg) {
    rep.violation(rep.property + "|" + name + "|" + check, msg, name, hist);
  }
  void maxi(const char* k, double v) { std::map<std::string, double>::iterator i = mx.find(k); if (i == mx.end()) mx[k] = v; else if (v > i->second) i->second = v; }
  void tag(const std::string& t) { rep.outcome(t); }
  void done(const std::string& more = "") {
    std::string s = name + ": " + str(pts) + " points";
    for (std::map<std::string, double>::iterator i = mx.begin(); i != mx.end(); ++i) { char b[64]; snprintf(b, sizeof b, "%.4g", i->second); s += "; " + i->first + "=" + b; }
    if (!more.empty()) s += "; " + more;
    rep.scenarios.push_back(s);
    journal_clear();
  }
};
// lazily built history / message: strings are only constructed when the check fails
#define REQ(S, id, cond, hist, msg) do { if (!(cond)) (S).fail(id, hist, msg); } while (0)
static inline bool fin(double x) { return x == x && x - x == 0; }
static std::string g17(double v) { char b[40]; snprintf(b, sizeof b, "%.17g", v); return b; }

// ------------------------------------------------------------------------------------------------------------
// independent oracles
namespace ora {
// log of the Binomial(N,p) probability of j successes; N may be far beyond 2^53-safe lgamma differences
static double log_pmf(double N, double p, double j) {
  double lc;
  if (N < 1e7) lc = lgamma(N + 1) - lgamma(j + 1) - lgamma(N - j + 1);
  else { // log(N!/(N-j)!) = j log N + sum_{i<j} log(1 - i/N), three terms of the expansion (j <= 4096 here)
    double s = -j * (j - 1) / (2 * N) - (j - 1) * j * (2 * j - 1) / (12 * N * N) - j * j * (j - 1) * (j - 1) / (12 * N * N * N);
    lc = -lgamma(j + 1) + j * log(N) + s;
  }
  return lc + j * log(p) + (N - j) * log1p(-p);
}
static double cdf_le(double N, double p, double k) { // P(Bin(N,p) <= k)
  if (k >= N) return 1.0;
  if (k < 0) return 0.0;
  const double mode = floor((N + 1) * p);
  if (k >= mode) {
    double j0 = k + 1, t = exp(log_pmf(N, p, j0)), s = t;
    for (double j = j0; j < N; ++j) { t *= (N - j) / (j + 1) * p / (1 - p); s += t; if (t < 1e-18 * s) break; }
    return 1.0 - s;
  }
  double t = exp(log_pmf(N, p, k)), s = t;
  for (double j = k; j > 0; --j) { t *= j / (N - j + 1) * (1 - p) / p; s += t; if (t < 1e-18 * s) break; }
  return s;
}
static double tail_ge(double N, double p, double k) { // P(Bin(N,p) >= k)
  if (k <= 0) return 1.0;
  if (k > N) return 0.0;
  const double mode = floor((N + 1) * p);
  if (k - 1 < mode) return 1.0 - cdf_le(N, p, k - 1);
  double t = exp(log_pmf(N, p, k)), s = t;
  for (double j = k; j < N; ++j) { t *= (N - j) / (j + 1) * p / (1 - p); s += t; if (t < 1e-18 * s) break; }
  return s;
}
static double phi_neg(int sd) { return 0.5 * erfc(sd / sqrt(2.0)); } // one-sided normal tail of sd standard deviations

// expected number of distinct coupons after N distinct items in a k-row FM85 / coupon scheme: cell (row, col j>=1)
// is hit by an item with probability 2^-j / k
static double expected_coupons(double k, double N) {
  double tot = 0;
  for (int j = 128; j >= 1; --j) tot += -expm1(N * log1p(-1.0 / (k * ldexp(1.0, j))));
  return k * tot;
}
// the ICON estimate by its definition: the N with expected_coupons(k, N) == C
static double exact_icon(double k, double C, double hint) {
  if (C == 0) return 0;
  double lo = C * 0.999999, hi = std::max(2 * C, hint * 1.1 + 2);
  while (expected_coupons(k, hi) < C) hi *= 2;
  for (int i = 0; i < 200 && (hi - lo) > 1e-13 * hi; ++i) { double m = 0.5 * (lo + hi); if (expected_coupons(k, m) < C) lo = m; else hi = m; }
  return 0.5 * (lo + hi);
}
}

// ------------------------------------------------------------------------------------------------------------
// Part 1a: binomial_bounds over the grid
struct BinGrid { std::vector<double> thetas; std::vector<unsigned long long> ns; unsigned long long dense; };
static BinGrid bin_grid(bool quick) {
  BinGrid g;
  const int den = quick ? 64 : 256;
  for (int j = 1; j <= den; ++j) g.thetas.push_back((double)j / den);
  for (int j = 1; j <= 30; ++j) g.thetas.push_back(ldexp(1.0, -j));
  for (int j = 1; j <= 20; ++j) g.thetas.push_back(1 - ldexp(1.0, -j));
  std::sort(g.thetas.begin(), g.thetas.end()); g.thetas.erase(std::unique(g.thetas.begin(), g.thetas.end()), g.thetas.end());
  g.dense = quick ? 4096 : 8192;
  for (unsigned long long i = 0; i <= g.dense; ++i) g.ns.push_back(i);
  for (double x = (double)g.dense; x < (double)(1u << 26); x *= 1.07) { unsigned long long v = (unsigned long long)ceil(x); if (v > g.ns.back()) g.ns.push_back(v); }
  g.ns.push_back(1ull << 26);
  return g;
}

static void binomial_task(Report& rep, const Config& cfg, const std::string& name, size_t part, size_t parts) {
  Scn S(rep, name);
  const BinGrid g = bin_grid(cfg.quick());
  // gates of the calibration clause outside the documented exact ranges: tail probability at the bound / nominal delta.
  // measured on the unchanged tree: lb 1.000 1.113 1.485, ub 1.000 1.015 3.062 (sd 1,2,3)
  const double gate_lb[4] = {0, 1.25, 1.5, 2.25}, gate_ub[4] = {0, 1.25, 1.5, 4.6};
  double delta[4]; for (int sd = 1; sd <= 3; ++sd) delta[sd] = ora::phi_neg(sd);
  uint64_t strict_drops = 0;
  if (part == 0) { // documented argument checks
    journal(name, "argument-checks");
    const double bad_theta[] = {-0.5, -1e-9, 1.0000001, 2.0, 1e300, -1e300};
    for (size_t i = 0; i < sizeof bad_theta / sizeof bad_theta[0]; ++i) for (int up = 0; up < 2; ++up) {
      bool threw = false;
      try { if (up) binomial_bounds::get_upper_bound(10, bad_theta[i], 2); else binomial_bounds::get_lower_bound(10, bad_theta[i], 2); }
      catch (const std::invalid_argument&) { threw = true; }
      S.pt(); REQ(S, "theta-outside-[0,1]-throws", threw, "theta=" + g17(bad_theta[i]) + (up ? ",ub" : ",lb"), "no invalid_argument");
    }
    const unsigned bad_sd[] = {0, 4, 5, 255, 1000, 0xffffffffu};
    for (size_t i = 0; i < sizeof bad_sd / sizeof bad_sd[0]; ++i) for (int up = 0; up < 2; ++up) {
      bool threw = false;
      try { if (up) binomial_bounds::get_upper_bound(10, 0.5, bad_sd[i]); else binomial_bounds::get_lower_bound(10, 0.5, bad_sd[i]); }
      catch (const std::invalid_argument&) { threw = true; }
      S.pt(); REQ(S, "std-devs-outside-1..3-throws", threw, "sd=" + str(bad_sd[i]) + (up ? ",ub" : ",lb"), "no invalid_argument");
    }
    S.tag("binomial|argument-checks");
  }
  for (size_t ti = part; ti < g.thetas.size(); ti += parts) {
    const double t = g.thetas[ti];
    journal(name, "theta=" + g17(t));
    double plb[4] = {0, 0, 0, 0}, pub[4] = {0, 0, 0, 0};
    for (size_t ni = 0; ni < g.ns.size(); ++ni) {
      const unsigned long long n = g.ns[ni];
      const double est = (double)n / t;
      double lb[4], ub[4]; bool okv = true;
      for (int sd = 1; sd <= 3; ++sd) {
#define BH ("ns=" + str(n) + ",theta=" + g17(t) + ",sd=" + str(sd))
        try { lb[sd] = binomial_bounds::get_lower_bound(n, t, sd); ub[sd] = binomial_bounds::get_upper_bound(n, t, sd); }
        catch (const std::exception& e) { S.fail("bounds-throw-on-legal-input", BH, e.what()); okv = false; S.pt(); continue; }
        S.pt();
        REQ(S, "finite", fin(lb[sd]) && fin(ub[sd]), BH, "lb=" + g17(lb[sd]) + " ub=" + g17(ub[sd]));
        REQ(S, "lb<=estimate", lb[sd] <= est, BH, "lb=" + g17(lb[sd]) + " est=" + g17(est));
        REQ(S, "estimate<=ub", est <= ub[sd], BH, "ub=" + g17(ub[sd]) + " est=" + g17(est));
        REQ(S, "lb>=num_samples", lb[sd] >= (double)n, BH, "lb=" + g17(lb[sd]));
        if (t == 1.0) REQ(S, "exact-at-theta-1", lb[sd] == (double)n && ub[sd] == (double)n, BH, "lb=" + g17(lb[sd]) + " ub=" + g17(ub[sd]));
        if (ni > 0) {
          // bounds are counts; the header rounds them with a granularity of one item ("fake round down/up"), so a drop
          // of less than one item between consecutive num_samples is below their resolution. Strict drops are counted.
          if (lb[sd] < plb[sd] || ub[sd] < pub[sd]) ++strict_drops;
          REQ(S, "lb-monotone-in-num_samples(within-1)", lb[sd] > plb[sd] - 1.0, BH, "previous " + g17(plb[sd]) + " now " + g17(lb[sd]));
          REQ(S, "ub-monotone-in-num_samples(within-1)", ub[sd] > pub[sd] - 1.0, BH, "previous " + g17(pub[sd]) + " now " + g17(ub[sd]));
        }
        plb[sd] = lb[sd]; pub[sd] = ub[sd];
        // calibration against exact binomial tails
        if (t < 1.0 && n <= g.dense) {
          const bool mid = n <= 120 && t <= 1 - 1e-5 && !(t < n / 360.0);   // the range the header computes "exactly"
          const bool lb_exact = n == 1 || (n >= 2 && mid), ub_exact = n == 0 || (n >= 1 && mid);
          const double L = floor(lb[sd]), U = ceil(ub[sd]);
          if (lb[sd] > (double)n && lb[sd] < est) { // not clamped
            const double r = ora::tail_ge(L, t, (double)n) / delta[sd];
            if (lb_exact) {
              const double r2 = ora::tail_ge(L + 1, t, (double)n) / delta[sd];
              REQ(S, "exact-range-lb==largest-N-with-tail<=delta", r <= 1 + 1e-3 && r2 >= 1 - 1e-3, BH, "lb=" + g17(lb[sd]) + " P(Bin(lb,theta)>=ns)/delta=" + g17(r) + " P(Bin(lb+1,theta)>=ns)/delta=" + g17(r2));
              S.tag("binomial|lb-exact-range");
            } else {
              REQ(S, "approx-range-lb-tail<=gate*delta", r <= gate_lb[sd], BH, "lb=" + g17(lb[sd]) + " P(Bin(lb,theta)>=ns)/delta=" + g17(r));
              S.maxi(sd == 1 ? "lb-tail/delta@1" : sd == 2 ? "lb-tail/delta@2" : "lb-tail/delta@3", r);
              S.tag("binomial|lb-approx-range");
            }
          } else S.tag(lb[sd] == (double)n ? "binomial|lb-clamped-to-num_samples" : "binomial|lb-clamped-to-estimate");
          if (ub[sd] > est) {
            const double r = ora::cdf_le(U, t, (double)n) / delta[sd];
            if (ub_exact) {
              const double r2 = ora::cdf_le(U - 1, t, (double)n) / delta[sd];
              REQ(S, "exact-range-ub==smallest-N-with-tail<=delta", r <= 1 + 1e-3 && r2 >= 1 - 1e-3, BH, "ub=" + g17(ub[sd]) + " P(Bin(ub,theta)<=ns)/delta=" + g17(r) + " P(Bin(ub-1,theta)<=ns)/delta=" + g17(r2));
              S.tag("binomial|ub-exact-range");
            } else {
              REQ(S, "approx-range-ub-tail<=gate*delta", r <= gate_ub[sd], BH, "ub=" + g17(ub[sd]) + " P(Bin(ub,theta)<=ns)/delta=" + g17(r));
              S.maxi(sd == 1 ? "ub-tail/delta@1" : sd == 2 ? "ub-tail/delta@2" : "ub-tail/delta@3", r);
              S.tag("binomial|ub-approx-range");
            }
          } else S.tag("binomial|ub-clamped-to-estimate");
        }
#undef BH
      }
      if (okv) REQ(S, "interval-widens-with-std-devs", lb[3] <= lb[2] && lb[2] <= lb[1] && ub[1] <= ub[2] && ub[2] <= ub[3], "ns=" + str(n) + ",theta=" + g17(t),
                   "lb " + g17(lb[1]) + " " + g17(lb[2]) + " " + g17(lb[3]) + " ub " + g17(ub[1]) + " " + g17(ub[2]) + " " + g17(ub[3]));
    }
  }
  rep.count("binomial_strict_monotonicity_drops_below_one_item", (double)strict_drops);
  if (strict_drops) S.tag("binomial|sub-unit-drop-at-regime-switch");
  S.done("thetas " + str(g.thetas.size()) + " (part " + str(part) + "/" + str(parts) + ") x num_samples " + str(g.ns.size()) + " x sd 3");
}

// ------------------------------------------------------------------------------------------------------------
// Part 1b: Theta and Tuple sketches through the API
struct IntersectSum { void operator()(int& a, const int& b) const { a += b; } };
struct ThetaFam {
  typedef update_theta_sketch U; typedef compact_theta_sketch C;
  static const char* nm() { return "theta"; }
  static U make(int lg, float p) { return U::builder().set_lg_k((uint8_t)lg).set_p(p).build(); }
  static void upd(U& u, uint64_t v) { u.update(v); }
  template<class A, class B> static C uni(int lg, const A& a, const B& b) { theta_union u = theta_union::builder().set_lg_k((uint8_t)lg).build(); u.update(a); u.update(b); return u.get_result(); }
  template<class A, class B> static C inter(const A& a, const B& b) { theta_intersection i; i.update(a); i.update(b); return i.get_result(); }
  template<class A, class B> static C anotb(const A& a, const B& b) { theta_a_not_b x; return x.compute(a, b); }
};
struct TupleFam {
  typedef update_tuple_sketch<int> U; typedef compact_tuple_sketch<int> C;
  static const char* nm() { return "tuple"; }
  static U make(int lg, float p) { return U::builder().set_lg_k((uint8_t)lg).set_p(p).build(); }
  static void upd(U& u, uint64_t v) { u.update(v, 1); }
  template<class A, class B> static C uni(int lg, const A& a, const B& b) { tuple_union<int> u = tuple_union<int>::builder().set_lg_k((uint8_t)lg).build(); u.update(a); u.update(b); return u.get_result(); }
  template<class A, class B> static C inter(const A& a, const B& b) { tuple_intersection<int, IntersectSum> i; i.update(a); i.update(b); return i.get_result(); }
  template<class A, class B> static C anotb(const A& a, const B& b) { tuple_a_not_b<int> x; return x.compute(a, b); }
};

struct EB { double est, lb[4], ub[4]; };   // estimate and bounds as observed
template<class S> static EB observe_theta(const S& s) { EB e; e.est = s.get_estimate(); for (uint8_t sd = 1; sd <= 3; ++sd) { e.lb[sd] = s.get_lower_bound(sd); e.ub[sd] = s.get_upper_bound(sd); } return e; }

// order, nesting, finiteness of an (estimate, bounds) observation. Returns true when all held.
template<class H> static bool check_order(Scn& S, const char* what, const EB& e, const H& hist) {
  bool okk = fin(e.est) && e.est >= 0;
  for (int sd = 1; sd <= 3; ++sd) okk = okk && fin(e.lb[sd]) && fin(e.ub[sd]) && e.lb[sd] >= 0;
  if (!okk) { S.fail(std::string(what) + "finite-and-non-negative", hist(), "est=" + g17(e.est) + " lb1=" + g17(e.lb[1]) + " ub1=" + g17(e.ub[1]) + " lb3=" + g17(e.lb[3]) + " ub3=" + g17(e.ub[3])); return false; }
  bool r = true;
  if (!(e.lb[1] <= e.est)) { S.fail(std::string(what) + "lb<=estimate", hist(), "lb(1)=" + g17(e.lb[1]) + " est=" + g17(e.est)); r = false; }
  if (!(e.est <= e.ub[1])) { S.fail(std::string(what) + "estimate<=ub", hist(), "ub(1)=" + g17(e.ub[1]) + " est=" + g17(e.est)); r = false; }
  if (!(e.lb[3] <= e.lb[2] && e.lb[2] <= e.lb[1])) { S.fail(std::string(what) + "lb-nesting", hist(), "lb " + g17(e.lb[1]) + " " + g17(e.lb[2]) + " " + g17(e.lb[3])); r = false; }
  if (!(e.ub[1] <= e.ub[2] && e.ub[2] <= e.ub[3])) { S.fail(std::string(what) + "ub-nesting", hist(), "ub " + g17(e.ub[1]) + " " + g17(e.ub[2]) + " " + g17(e.ub[3])); r = false; }
  return r;
}
static bool same_eb(const EB& a, const EB& b) {
  if (a.est != b.est) return false;
  for (int sd = 1; sd <= 3; ++sd) if (a.lb[sd] != b.lb[sd] || a.ub[sd] != b.ub[sd]) return false;
  return true;
}
struct StrHist { std::string s; StrHist(const std::string& x): s(x) {} std::string operator()() const { return s; } };

// a theta-like sketch whose true distinct count is `truth`
template<class Sk, class H> static void check_theta_like(Scn& S, const char* what, const Sk& s, double truth, const H& hist) {
  const EB e = observe_theta(s);
  check_order(S, what, e, hist);
  if (!s.is_estimation_mode()) {
    if (!(e.est == truth)) S.fail(std::string(what) + "exact-when-not-estimation-mode", hist(), "est=" + g17(e.est) + " true count " + g17(truth));
    for (int sd = 1; sd <= 3; ++sd) if (!(e.lb[sd] == truth && e.ub[sd] == truth)) { S.fail(std::string(what) + "bounds-exact-when-not-estimation-mode", hist(), "sd=" + str(sd) + " lb=" + g17(e.lb[sd]) + " ub=" + g17(e.ub[sd]) + " true count " + g17(truth)); break; }
  }
}

template<class F> static void theta_api_task(Report& rep, const Config&, const std::string& name, int lg, float p) {
  Scn S(rep, name);
  const uint32_t k = 1u << lg, nmax = 16 * k;
  journal(name, "stream 0.." + str(nmax));
  typename F::U u = F::make(lg, p);
  rep.traces++;
  bool seen_est = false;
  for (uint32_t n = 0; n <= nmax; ++n) {
    if (n > 0) F::upd(u, (uint64_t)n - 1);
    struct H { uint32_t n; std::string operator()() const { return "n=" + str(n); } } h; h.n = n;
    S.pt();
    const EB e = observe_theta(u);
    check_order(S, "", e, h);
    const bool em = u.is_estimation_mode();
    if (!em) {
      REQ(S, "exact-when-not-estimation-mode", e.est == (double)n, h(), "est=" + g17(e.est));
      REQ(S, "bounds-exact-when-not-estimation-mode", e.lb[1] == n && e.ub[1] == n && e.lb[2] == n && e.ub[2] == n && e.lb[3] == n && e.ub[3] == n, h(), "lb(1)=" + g17(e.lb[1]) + " ub(3)=" + g17(e.ub[3]));
    }
    if (p == 1.0f && n <= k) REQ(S, "exact-up-to-k-at-p=1", !em && e.est == (double)n, h(), "est=" + g17(e.est) + " estimation_mode=" + str(em));
    if (em && !seen_est) { seen_est = true; S.tag(std::string(F::nm()) + "|first-estimation-mode-at-n" + (n <= k ? "<=k" : ">k")); }
    S.tag(std::string(F::nm()) + (em ? "|estimation" : n == 0 ? "|empty" : "|exact") + (p < 1 ? "|p<1" : "|p=1"));
    // compact forms expose the same estimate and bounds
    const typename F::C c = u.compact((n & 1) != 0);
    const EB ec = observe_theta(c);
    REQ(S, "compact-same-estimate-and-bounds", same_eb(e, ec), h(), "update est=" + g17(e.est) + " compact est=" + g17(ec.est) + " lb2 " + g17(e.lb[2]) + "/" + g17(ec.lb[2]) + " ub2 " + g17(e.ub[2]) + "/" + g17(ec.ub[2]));
    REQ(S, "compact-same-mode", c.is_estimation_mode() == em, h(), "");
  }
  S.done("lg_k " + str(lg) + " p " + str(p) + ", every n in 0.." + str(nmax) + ", update + compact forms");
}

template<class F> static void theta_setops_task(Report& rep, const Config& cfg, const std::string& name, int lg, float pa, float pb) {
  Scn S(rep, name);
  const uint32_t k = 1u << lg;
  std::vector<uint32_t> card;
  const uint32_t base[] = {0, 1, 2, k / 2, k - 1, k, k + 1, 2 * k - 4, 2 * k, 3 * k, 4 * k, 16 * k};
  for (size_t i = 0; i < sizeof base / sizeof base[0]; ++i) card.push_back(base[i]);
  if (!cfg.quick()) { card.push_back(k / 4); card.push_back(15 * k / 8); card.push_back(15 * k / 8 + 1); card.push_back(8 * k); }
  std::sort(card.begin(), card.end()); card.erase(std::unique(card.begin(), card.end()), card.end());
  for (size_t ai = 0; ai < card.size(); ++ai) for (size_t bi = 0; bi < card.size(); ++bi) {
    const uint32_t a = card[ai], b = card[bi], mn = std::min(a, b);
    const uint32_t ovs[] = {0, mn / 2, mn};
    for (int oi = 0; oi < 3; ++oi) {
      if (oi > 0 && ovs[oi] == ovs[oi - 1]) continue;
      const uint32_t o = ovs[oi];
      const std::string hs = "a=" + str(a) + ",b=" + str(b) + ",overlap=" + str(o);
      journal(name, hs);
      StrHist h(hs);
      typename F::U A = F::make(lg, pa), B = F::make(lg, pb);
      for (uint32_t i = 0; i < a; ++i) F::upd(A, i);
      for (uint32_t i = 0; i < b; ++i) F::upd(B, (uint64_t)(a - o) + i);
      rep.traces += 2;
      const typename F::C Bc = B.compact(((ai + bi) & 1) != 0);
      check_theta_like(S, "union:", F::uni(lg, A, B), (double)a + b - o, h);
      check_theta_like(S, "union(update,compact):", F::uni(lg, A, Bc), (double)a + b - o, h);
      check_theta_like(S, "intersection:", F::inter(A, B), (double)o, h);
      check_theta_like(S, "intersection(update,compact):", F::inter(A, Bc), (double)o, h);
      check_theta_like(S, "a-not-b:", F::anotb(A, B), (double)a - o, h);
      check_theta_like(S, "a-not-b(update,compact):", F::anotb(A, Bc), (double)a - o, h);
      S.pt(6);
      const typename F::C r = F::uni(lg, A, B);
      S.tag(std::string(F::nm()) + "-setops|union-" + (r.is_estimation_mode() ? "estimation" : r.is_empty() ? "empty" : "exact") + "|inter-" + (F::inter(A, B).is_estimation_mode() ? "estimation" : "exact") + (o == 0 ? "|disjoint" : o == mn ? "|nested" : "|partial"));
    }
  }
  S.done("lg_k " + str(lg) + " p " + str(pa) + "/" + str(pb) + ", " + str(card.size()) + "^2 cardinality pairs x 3 overlaps x {union, intersection, a-not-b} x {update, compact operand}");
}

// ------------------------------------------------------------------------------------------------------------
// Part 1c: HLL
typedef std::allocator<uint8_t> AU;
static const uint64_t HLL_SEED = 9001; // documented default update seed
static uint32_t hll_coupon_of(uint64_t v) { return hc::coupon_of_hash(oracle::hash_i64((int64_t)v, HLL_SEED)); }
template<class S> static EB observe_hll(const S& s) { EB e; e.est = s.get_estimate(); for (uint8_t sd = 1; sd <= 3; ++sd) { e.lb[sd] = s.get_lower_bound(sd); e.ub[sd] = s.get_upper_bound(sd); } return e; }
// documented coupon-mode accuracy: RSE 0.409 / 2^13 ("COUPON_RSE"); three of them
static const double COUPON_TOL = 3 * 0.409 / 8192.0;

// s holds `distinct` distinct coupons produced by `n` distinct items
template<class H> static void check_hll_sketch(Scn& S, const char* what, const hll_sketch& s, double n, double distinct, const H& hist) {
  const EB e = observe_hll(s);
  check_order(S, what, e, hist);
  const double comp = s.get_composite_estimate();
  if (!(fin(comp) && comp >= 0)) S.fail(std::string(what) + "composite-finite-and-non-negative", hist(), "composite=" + g17(comp));
  const bool coupon_mode = s.get_current_mode() != HLL;
  if (s.is_out_of_order_flag() && !coupon_mode && !(comp == e.est)) S.fail(std::string(what) + "out-of-order-estimate-is-composite", hist(), "est=" + g17(e.est) + " composite=" + g17(comp));
  if (n == 0) { if (!(e.est == 0 && e.lb[3] == 0 && e.ub[3] == 0)) S.fail(std::string(what) + "empty-is-exactly-zero", hist(), "est=" + g17(e.est) + " ub(3)=" + g17(e.ub[3])); return; }
  if (coupon_mode) {
    // nearly exact: the estimate is the coupon count corrected for coupon collisions
    if (!(fabs(e.est - distinct) <= COUPON_TOL * distinct)) S.fail(std::string(what) + "coupon-mode-estimate-within-3-coupon-RSE", hist(), "est=" + g17(e.est) + " distinct coupons " + g17(distinct) + " items " + g17(n));
    if (distinct == n) for (int sd = 1; sd <= 3; ++sd) if (!(e.lb[sd] <= n && n <= e.ub[sd])) { S.fail(std::string(what) + "coupon-mode-bounds-contain-true-count", hist(), "sd=" + str(sd) + " lb=" + g17(e.lb[sd]) + " ub=" + g17(e.ub[sd]) + " n=" + g17(n)); break; }
  }
}

static void hll_api_task(Report& rep, const Config&, const std::string& name, int lg) {
  Scn S(rep, name);
  const uint32_t k = 1u << lg, nmax = 16 * k;
  journal(name, "stream 0.." + str(nmax));
  hll_sketch sk[3] = { hll_sketch((uint8_t)lg, HLL_4), hll_sketch((uint8_t)lg, HLL_6), hll_sketch((uint8_t)lg, HLL_8) };
  rep.traces += 3;
  std::set<uint32_t> coupons;
  for (uint32_t n = 0; n <= nmax; ++n) {
    if (n > 0) { for (int t = 0; t < 3; ++t) sk[t].update((uint64_t)(n - 1)); coupons.insert(hll_coupon_of(n - 1)); }
    struct H { uint32_t n; int t; std::string operator()() const { return std::string(hc::type_name(hc::TYPES[t])) + ",n=" + str(n); } } h; h.n = n;
    for (int t = 0; t < 3; ++t) { h.t = t; check_hll_sketch(S, "", sk[t], (double)n, (double)coupons.size(), h); S.pt(); }
    // documented: the three target types are isomorphic and produce identical estimates
    h.t = 0;
    const double e4 = sk[0].get_estimate(), e6 = sk[1].get_estimate(), e8 = sk[2].get_estimate();
    REQ(S, "three-types-same-estimate", hc::near_eq(e4, e8, 1e-9) && hc::near_eq(e6, e8, 1e-9), h(), "HLL_4 " + g17(e4) + " HLL_6 " + g17(e6) + " HLL_8 " + g17(e8));
    const double c4 = sk[0].get_composite_estimate(), c6 = sk[1].get_composite_estimate(), c8 = sk[2].get_composite_estimate();
    REQ(S, "three-types-same-composite-estimate", hc::near_eq(c4, c8, 1e-9) && hc::near_eq(c6, c8, 1e-9), h(), "HLL_4 " + g17(c4) + " HLL_6 " + g17(c6) + " HLL_8 " + g17(c8));
    S.tag(std::string("hll|") + hc::mode_name(sk[2].get_current_mode()) + (coupons.size() < n ? "|coupon-collision" : "") + (n > k ? "|n>k" : "|n<=k"));
  }
  S.done("lg_k " + str(lg) + " x {HLL_4,HLL_6,HLL_8}, every n in 0.." + str(nmax));
}

static void hll_union_task(Report& rep, const Config& cfg, const std::string& name, int lg) {
  Scn S(rep, name);
  const uint32_t k = 1u << lg;
  std::vector<uint32_t> card;
  const uint32_t base[] = {0, 1, 3, 7, 8, 9, k / 16 + 1, k / 8, k / 4, k / 2, k, 2 * k, 3 * k, 5 * k, 16 * k};
  for (size_t i = 0; i < sizeof base / sizeof base[0]; ++i) card.push_back(base[i]);
  if (!cfg.quick()) { card.push_back(3 * k / 32 + 1); card.push_back(3 * k / 4); card.push_back(8 * k); }
  std::sort(card.begin(), card.end()); card.erase(std::unique(card.begin(), card.end()), card.end());
  // operand sizes relative to the union's lg_max_k: equal, and larger (the union then down-samples its inputs or its gadget)
  static const int DV[4][2] = {{0, 0}, {2, 0}, {0, 1}, {2, 1}};
  const int ndv = cfg.quick() ? (lg <= 6 ? 4 : 1) : (lg <= 9 ? 4 : 1);
  for (size_t ai = 0; ai < card.size(); ++ai) for (size_t bi = 0; bi < card.size(); ++bi) for (int ti = 0; ti < 3; ++ti) for (int dv = 0; dv < ndv; ++dv) {
    const int da = DV[dv][0], db = DV[dv][1];
    if (dv > 0 && lg + std::max(da, db) > 21) continue;
    const uint32_t a = card[ai], b = card[bi], o = (ti == 0) ? 0 : (ti == 1 ? std::min(a, b) / 2 : std::min(a, b));
    const std::string hs = std::string(hc::type_name(hc::TYPES[ti])) + ",a=" + str(a) + ",b=" + str(b) + ",overlap=" + str(o) + (dv ? ",lgA=+" + str(da) + ",lgB=+" + str(db) : std::string());
    journal(name, hs);
    StrHist h(hs);
    hll_sketch A((uint8_t)(lg + da), hc::TYPES[ti]), B((uint8_t)(lg + db), hc::TYPES[(ti + 1) % 3]);
    std::set<uint32_t> coupons;
    for (uint32_t i = 0; i < a; ++i) { A.update((uint64_t)i); coupons.insert(hll_coupon_of(i)); }
    for (uint32_t i = 0; i < b; ++i) { B.update((uint64_t)(a - o) + i); coupons.insert(hll_coupon_of((uint64_t)(a - o) + i)); }
    rep.traces += 2;
    const double truth = (double)a + b - o;
    hll_union u((uint8_t)lg);
    u.update(A); u.update(B);
    { // the union object itself; each accessor ALSO as the first one after the merge, on its own copy (the merge defers a rebuild of
      // the gadget's summary fields that every accessor has to run before it answers)
      EB f; { hll_union c0(u); f.est = c0.get_estimate(); }
      for (uint8_t sd = 1; sd <= 3; ++sd) { { hll_union c1(u); f.ub[sd] = c1.get_upper_bound(sd); } { hll_union c2(u); f.lb[sd] = c2.get_lower_bound(sd); } }
      check_order(S, "union-object(first-accessor):", f, h);
      const EB e = observe_hll(u);
      check_order(S, "union-object:", e, h);
      bool same = e.est == f.est; for (int sd = 1; sd <= 3; ++sd) same = same && e.lb[sd] == f.lb[sd] && e.ub[sd] == f.ub[sd];
      REQ(S, "union-object:answers-do-not-depend-on-which-accessor-came-first", same, h(), "est " + g17(f.est) + "/" + g17(e.est) + " ub(1) " + g17(f.ub[1]) + "/" + g17(e.ub[1]) + " lb(1) " + g17(f.lb[1]) + "/" + g17(e.lb[1]));
      S.pt();
    }
    for (int rt = 0; rt < 3; ++rt) {
      const hll_sketch r = u.get_result(hc::TYPES[rt]);
      check_hll_sketch(S, "union-result:", r, truth, (double)coupons.size(), h);
      if (r.get_current_mode() == HLL) {
        // the registers of a result are a function of the items alone, so its composite estimate (and with it every bound
        // of an out-of-order result) must be that of a sketch of the result's size fed the same items directly
        hll_sketch D(r.get_lg_config_k(), HLL_8);
        for (uint32_t i = 0; i < a; ++i) D.update((uint64_t)i);
        for (uint32_t i = 0; i < b; ++i) D.update((uint64_t)(a - o) + i);
        if (D.get_current_mode() == HLL) REQ(S, "union-result:composite-estimate==directly-fed-sketch-of-result-size", hc::near_eq(r.get_composite_estimate(), D.get_composite_estimate(), 1e-9), h(),
          "result lg_k " + str((int)r.get_lg_config_k()) + " composite " + g17(r.get_composite_estimate()) + " direct " + g17(D.get_composite_estimate()));
      }
      S.pt();
      if (rt == 0) S.tag(std::string(dv ? "hll-union-downsampling|result-" : "hll-union|result-") + hc::mode_name(r.get_current_mode()) + (r.is_out_of_order_flag() ? "|ooo" : "|in-order") + "|A-" + hc::mode_name(A.get_current_mode()) + "|B-" + hc::mode_name(B.get_current_mode()));
    }
  }
  S.done("lg_k " + str(lg) + " (operands at the union's lg_k" + (ndv > 1 ? ", and at +2/+0, +0/+1, +2/+1" : "") + "), " + str(card.size()) + "^2 cardinality pairs x 3 (type pair, overlap) x 3 result types");
}

// bounds on the ratio |B|/|A| for B a subset of A obtained by intersection (theta_B <= theta_A, strictly below when the other set is larger):
// lower <= estimate <= upper, all within [0,1], exact when both sketches are exact
static void theta_ratio_bounds_task(Report& rep, const Config& cfg, const std::string& name) {
  Scn S(rep, name);
  typedef bounds_on_ratios_in_theta_sketched_sets<trivial_extract_key> RB;
  const int nas[] = {1, 5, 20, 31, 32, 33, 64, 100, 400, 2000}, ncs[] = {1, 10, 33, 100, 1000, 20000}; const int lgs[] = {5, 7};
  for (int li = 0; li < 2; ++li) for (size_t ai = 0; ai < sizeof nas / sizeof nas[0]; ++ai) for (size_t ci = 0; ci < sizeof ncs / sizeof ncs[0]; ++ci) for (int ov = 0; ov < 3; ++ov) {
    const int na = nas[ai], nc = ncs[ci]; const int shift = ov == 0 ? 0 : ov == 1 ? na / 2 : na;   // C = shift .. shift+nc-1
    if (cfg.quick() && (ai + ci + ov) % 2 && li == 1) continue;
    const std::string hs = "lgk" + str(lgs[li]) + ",|A|=" + str(na) + ",|C|=" + str(nc) + ",C-starts-at=" + str(shift);
    journal(name, hs); StrHist h(hs);
    update_theta_sketch a = update_theta_sketch::builder().set_lg_k((uint8_t)lgs[li]).build(), c = update_theta_sketch::builder().set_lg_k((uint8_t)lgs[li]).build();
    for (int i = 0; i < na; ++i) a.update((uint64_t)i);
    for (int i = 0; i < nc; ++i) c.update((uint64_t)(shift + i));
    theta_intersection x; x.update(a); x.update(c); compact_theta_sketch b = x.get_result();
    const double lb = RB::lower_bound_for_b_over_a(a, b), est = RB::estimate_of_b_over_a(a, b), ub = RB::upper_bound_for_b_over_a(a, b);
    S.pt();
    REQ(S, "ratio:lower<=estimate<=upper", lb <= est + 1e-12 && est <= ub + 1e-12, h(), "lb " + g17(lb) + " est " + g17(est) + " ub " + g17(ub));
    REQ(S, "ratio:within-[0,1]", lb >= 0 && ub <= 1 + 1e-12 && fin(lb) && fin(est) && fin(ub), h(), "lb " + g17(lb) + " est " + g17(est) + " ub " + g17(ub));
    if (!a.is_estimation_mode() && !b.is_estimation_mode()) {
      const int inter = std::max(0, std::min(na, shift + nc) - shift);
      REQ(S, "ratio:exact-when-both-exact", std::fabs(est - (double)inter / na) <= 1e-12 && lb == est && ub == est, h(), "lb " + g17(lb) + " est " + g17(est) + " ub " + g17(ub) + " true " + g17((double)inter / na));
    }
    S.tag(std::string("ratio|") + (a.is_estimation_mode() ? "A-est" : "A-exact") + (b.get_theta64() < a.get_theta64() ? "|thetaB<thetaA" : "|thetaB==thetaA") + (b.get_num_retained() == 0 ? "|B-nothing-retained" : ""));
  }
  S.done("B = A intersected with C for |A| in 1..2000, |C| in 1..20000, three overlaps, lg_k 5 and 7");
}

// get_rel_err over its whole domain, and the pure table / interpolation functions
static void hll_tables_task(Report& rep, const Config& cfg, const std::string& name) {
  Scn S(rep, name);
  journal(name, "rel-err");
  for (int ooo = 0; ooo < 2; ++ooo) for (int lg = 4; lg <= 21; ++lg) {
    double prev_l = 0, prev_u = 0;
    for (int sd = 1; sd <= 3; ++sd) {
      const std::string hs = std::string(ooo ? "unioned" : "in-order") + ",lg_k=" + str(lg) + ",sd=" + str(sd);
      double l = 0, u = 0;
      try { l = hll_sketch::get_rel_err(false, ooo != 0, (uint8_t)lg, (uint8_t)sd); u = hll_sketch::get_rel_err(true, ooo != 0, (uint8_t)lg, (uint8_t)sd); }
      catch (const std::exception& e) { S.fail("rel-err-throws-on-legal-input", hs, e.what()); continue; }
      S.pt(2);
      REQ(S, "rel-err-finite", fin(l) && fin(u), hs, g17(l) + " " + g17(u));
      // the bounds are est / (1 + relErr): the lower-bound value must be positive, the upper-bound value in (-1, 0)
      REQ(S, "rel-err-lower-bound-value-positive", l > 0, hs, g17(l));
      REQ(S, "rel-err-upper-bound-value-in-(-1,0)", u < 0 && u > -1, hs, g17(u));
      REQ(S, "rel-err-grows-with-std-devs", l > prev_l && -u > prev_u, hs, "lb " + g17(prev_l) + "->" + g17(l) + " ub " + g17(-prev_u) + "->" + g17(u));
      REQ(S, "rel-err-same-through-union-class", l == hll_union::get_rel_err(false, ooo != 0, (uint8_t)lg, (uint8_t)sd) && u == hll_union::get_rel_err(true, ooo != 0, (uint8_t)lg, (uint8_t)sd), hs, "");
      if (sd == 1) { // sd 1 is the published RSE: sqrt(ln 2) (HIP) or sqrt(3 ln 2 - 1) (composite) over sqrt(k), within the small-k deviation of the tables
        const double rse = (ooo ? sqrt(3 * log(2.0) - 1) : sqrt(log(2.0))) / sqrt((double)(1u << lg));
        REQ(S, "rel-err-sd1-near-published-RSE", fabs(l / rse - 1) < 0.05 && fabs(-u / rse - 1) < 0.05, hs, "lb " + g17(l) + " ub " + g17(u) + " published " + g17(rse));
        S.maxi("|relerr(sd1)/RSE-1|", std::max(fabs(l / rse - 1), fabs(-u / rse - 1)));
      }
      prev_l = l; prev_u = -u;
    }
    S.tag(std::string("hll-relerr|") + (lg > 12 ? "formula" : "table") + (ooo ? "|unioned" : "|hip"));
  }
  { // argument checks
    const int bad_lg[] = {0, 3, 22, 255};
    for (size_t i = 0; i < 4; ++i) { bool threw = false; try { hll_sketch::get_rel_err(true, false, (uint8_t)bad_lg[i], 1); } catch (const std::invalid_argument&) { threw = true; } S.pt(); REQ(S, "rel-err-lg_k-outside-4..21-throws", threw, "lg_k=" + str(bad_lg[i]), ""); }
    hll_sketch s(8); s.update((uint64_t)1);
    const int bad_sd[] = {0, 4, 255};
    for (size_t i = 0; i < 3; ++i) for (int up = 0; up < 2; ++up) { bool threw = false; try { if (up) s.get_upper_bound((uint8_t)bad_sd[i]); else s.get_lower_bound((uint8_t)bad_sd[i]); } catch (const std::invalid_argument&) { threw = true; } S.pt(); REQ(S, "std-devs-outside-1..3-throws", threw, "sd=" + str(bad_sd[i]), ""); }
  }
  // composite interpolation table: x[i] is the mean raw estimate at true count i * y_stride -- strictly increasing and smooth
  journal(name, "composite-x-table");
  for (int lg = 4; lg <= 21; ++lg) {
    const double* x = CompositeInterpolationXTable<AU>::get_x_arr((uint8_t)lg);
    const int len = (int)CompositeInterpolationXTable<AU>::get_x_arr_length();
    const double ys = CompositeInterpolationXTable<AU>::get_y_stride((uint8_t)lg);
    for (int i = 0; i < len; ++i) {
      const std::string hs = "lg_k=" + str(lg) + ",i=" + str(i);
      S.pt();
      if (i > 0) REQ(S, "x-table-strictly-increasing", x[i] > x[i - 1], hs, g17(x[i - 1]) + " " + g17(x[i]));
      if (i >= 1 && i + 2 < len) { // third difference over first difference; measured max 1.6e-3 (lg_k 4), gate 8e-3 (> 4x)
        const double d3 = x[i + 2] - 3 * x[i + 1] + 3 * x[i] - x[i - 1], d1 = x[i + 1] - x[i];
        S.maxi("x-table|d3|/d1", fabs(d3) / d1);
        REQ(S, "x-table-smooth(third-difference<=8e-3*first)", fabs(d3) <= 8e-3 * d1, hs, "x[i-1..i+2]=" + g17(x[i - 1]) + " " + g17(x[i]) + " " + g17(x[i + 1]) + " " + g17(x[i + 2]) + " ratio " + g17(fabs(d3) / d1));
      }
      // the interpolated function passes through the knots and is monotone between them
      const double at = CubicInterpolation<AU>::usingXArrAndYStride(x, len, ys, x[i]);
      REQ(S, "interpolation-exact-at-knots", hc::near_eq(at, ys * i, 1e-9, 1e-9), hs, "f(x[i])=" + g17(at) + " expected " + g17(ys * i));
      if (i + 1 < len) {
        double prev = at;
        for (int s = 1; s <= 8; ++s) {
          const double xx = s == 8 ? x[i + 1] : x[i] + (x[i + 1] - x[i]) * s / 8.0;
          const double f = CubicInterpolation<AU>::usingXArrAndYStride(x, len, ys, xx);
          S.pt();
          REQ(S, "interpolation-monotone", f >= prev && fin(f), hs + ",sub=" + str(s), g17(prev) + " -> " + g17(f));
          prev = f;
        }
      }
    }
    S.tag("hll-xtable|lg" + str(lg));
  }
  // coupon-mode estimator == ICON definition with 2^26 rows (coupon = 26 address bits + geometric value)
  journal(name, "coupon-table");
  { double hint = 0, prev = 0; const double cmax = cfg.quick() ? 300000 : 2000000;
    for (double c = 0; c <= cmax; c = (c < (cfg.quick() ? 2048 : 16384) ? c + 1 : ceil(c * 1.01))) {
      const double y = CubicInterpolation<AU>::usingXAndYTables(c);
      const double ex = ora::exact_icon(67108864.0, c, hint); hint = ex;
      const std::string hs = "coupons=" + g17(c);
      S.pt();
      REQ(S, "coupon-estimator==expected-coupon-inverse", fin(y) && fabs(y - ex) <= 1e-9 * std::max(1.0, ex), hs, "table " + g17(y) + " exact " + g17(ex));
      REQ(S, "coupon-estimator-monotone", y >= prev, hs, g17(prev) + " -> " + g17(y));
      if (ex > 0) S.maxi("coupon-table-rel-err", fabs(y - ex) / ex);
      prev = y;
    }
    S.tag("hll-coupon-table");
  }
  // linear-counting ("bit map") estimator == k * (H_k - H_{k - hit})
  journal(name, "harmonic");
  { const int lgmax = 21; const size_t kmax = (size_t)1 << lgmax;
    std::vector<double> H(kmax + 1, 0.0);
    { long double acc = 0; for (size_t i = 1; i <= kmax; ++i) { acc += 1.0L / (long double)i; H[i] = (double)acc; } }
    for (int lg = 4; lg <= lgmax; ++lg) {
      const uint32_t k = 1u << lg; double prev = -1;
      std::vector<uint32_t> hits;
      for (double hd = 0; hd < k; hd = (hd < 4096 ? hd + 1 : ceil(hd * 1.01))) hits.push_back((uint32_t)hd);
      for (uint32_t d = 8; d >= 1; --d) if (k - d > hits.back()) hits.push_back(k - d);
      hits.push_back(k);
      for (size_t hi = 0; hi < hits.size(); ++hi) {
        const uint32_t hit = hits[hi];
        const double lib = HarmonicNumbers<AU>::getBitMapEstimate(k, hit);
        const double ex = (double)k * (H[k] - H[k - hit]);
        const std::string hs = "lg_k=" + str(lg) + ",hit=" + str(hit);
        S.pt();
        REQ(S, "linear-counting==k*(H_k-H_{k-hit})", fin(lib) && fabs(lib - ex) <= 1e-9 * std::max(1.0, ex) + 1e-7, hs, "library " + g17(lib) + " exact " + g17(ex));
        REQ(S, "linear-counting>=hit-and-monotone", lib >= hit - 1e-7 && lib > prev, hs, g17(prev) + " -> " + g17(lib));
        S.maxi("linear-counting-abs-err", fabs(lib - ex));
        prev = lib;
      }
    }
    S.tag("hll-linear-counting");
  }
  S.done();
}

// ------------------------------------------------------------------------------------------------------------
// Part 1d: CPC
struct CpcObs { EB hip, icon; };
static CpcObs observe_cpc(const cpc_sketch& s) {
  CpcObs o; o.hip.est = s.get_hip_estimate(); o.icon.est = s.get_icon_estimate();
  for (int kp = 1; kp <= 3; ++kp) {
    o.hip.lb[kp] = get_hip_confidence_lb<AU>(s, kp); o.hip.ub[kp] = get_hip_confidence_ub<AU>(s, kp);
    o.icon.lb[kp] = get_icon_confidence_lb<AU>(s, kp); o.icon.ub[kp] = get_icon_confidence_ub<AU>(s, kp);
  }
  return o;
}
// approximation error allowed to the exponential branch and at the switch: measured (unchanged tree) 1.17e-2/k + 1.09e-6, gate 4x
static double icon_exp_gate(double k) { return 4 * (1.2e-2 / k + 1.1e-6); }

static void icon_grid_task(Report& rep, const Config& cfg, const std::string& name, int lg) {
  Scn S(rep, name);
  const double k = (double)(1u << lg);
  const double thr = ((lg < 14) ? 5.7 : 5.6) * k;      // documented: exponential approximation above K * (5.6 or 5.7)
  const double cmax = std::min(64.0 * k, 4294967295.0);
  journal(name, "grid");
  // the grid: every C up to 2^16 (2^18 thorough), a dense window around the switch, a geometric grid with short runs up to 64k
  std::vector<uint32_t> cs;
  const double dense = cfg.quick() ? 65536.0 : 262144.0;
  for (double c = 0; c <= std::min(dense, cmax); ++c) cs.push_back((uint32_t)c);
  for (double c = std::max(0.0, floor(thr) - 4096); c <= std::min(cmax, floor(thr) + 4096); ++c) cs.push_back((uint32_t)c);
  for (double c = 16; c <= cmax; c = ceil(c * 1.01)) for (int r = 0; r < 4 && c + r <= cmax; ++r) cs.push_back((uint32_t)(c + r));
  cs.push_back((uint32_t)cmax);
  std::sort(cs.begin(), cs.end()); cs.erase(std::unique(cs.begin(), cs.end()), cs.end());
  cpc_sketch fake((uint8_t)lg);            // carrier for the confidence functions: they read lg_k, num_coupons, hip_est_accum only
  double prev = -1; uint32_t prevc = 0;
  for (size_t i = 0; i < cs.size(); ++i) {
    const uint32_t c = cs[i];
    struct H { int lg; uint32_t c; std::string operator()() const { return "lg_k=" + str(lg) + ",C=" + str(c); } } h; h.lg = lg; h.c = c;
    double e;
    try { e = compute_icon_estimate((uint8_t)lg, c); } catch (const std::exception& ex) { S.fail("icon-throws-on-legal-input", h(), ex.what()); continue; }
    S.pt();
    REQ(S, "icon-finite", fin(e), h(), g17(e));
    REQ(S, "icon>=C", e >= (double)c, h(), g17(e));
    if (c < 2) REQ(S, "icon-exact-for-C<2", e == (double)c, h(), g17(e));
    REQ(S, "icon-non-decreasing-in-C", e >= prev, h(), "C=" + str(prevc) + " -> " + g17(prev) + ", C=" + str(c) + " -> " + g17(e));
    prev = e; prevc = c;
    // confidence bounds on the grid
    fake.num_coupons = c; fake.was_merged = true;
    EB ic; ic.est = fake.get_estimate();
    REQ(S, "merged-sketch-estimate-is-icon", ic.est == e, h(), g17(ic.est));
    for (int kp = 1; kp <= 3; ++kp) { ic.lb[kp] = fake.get_lower_bound(kp); ic.ub[kp] = fake.get_upper_bound(kp); }
    check_order(S, "icon-confidence:", ic, h);
    fake.was_merged = false;
    const double hips[3] = { (double)c, e, e * 1.1 };
    for (int hi = 0; hi < 3; ++hi) {
      fake.hip_est_accum = hips[hi];
      EB hp; hp.est = fake.get_estimate();
      for (int kp = 1; kp <= 3; ++kp) { hp.lb[kp] = fake.get_lower_bound(kp); hp.ub[kp] = fake.get_upper_bound(kp); }
      check_order(S, "hip-confidence:", hp, h);
    }
    S.tag(std::string("icon-grid|") + (c < 2 ? "C<2" : (double)c > thr ? "exponential" : "polynomial") + (lg <= 14 ? "|conf-table" : "|conf-asymptotic"));
  }
  fake.num_coupons = 0; fake.hip_est_accum = 0; fake.was_merged = false;
  { // argument checks of the confidence accessors
    cpc_sketch s((uint8_t)lg); s.update((uint64_t)1);
    const unsigned bad[] = {0, 4, 100};
    for (size_t i = 0; i < 3; ++i) for (int up = 0; up < 2; ++up) { bool threw = false; try { if (up) s.get_upper_bound(bad[i]); else s.get_lower_bound(bad[i]); } catch (const std::invalid_argument&) { threw = true; } S.pt(); REQ(S, "kappa-outside-1..3-throws", threw, "kappa=" + str(bad[i]), ""); }
  }
  // continuity at the polynomial / exponential switch: the step across it against the mean of the neighbouring steps
  { const uint32_t c0 = (uint32_t)floor(thr);
    const double e0 = compute_icon_estimate((uint8_t)lg, c0 - 1), e1 = compute_icon_estimate((uint8_t)lg, c0), e2 = compute_icon_estimate((uint8_t)lg, c0 + 1), e3 = compute_icon_estimate((uint8_t)lg, c0 + 2);
    const double jump = fabs((e2 - e1) - 0.5 * ((e1 - e0) + (e3 - e2))) / e1;
    S.pt(); S.maxi("switch-jump", jump);
    REQ(S, "icon-continuous-at-switch", jump <= icon_exp_gate(k), "lg_k=" + str(lg) + ",C=" + str(c0), "relative jump " + g17(jump) + " gate " + g17(icon_exp_gate(k)) + " values " + g17(e0) + " " + g17(e1) + " " + g17(e2) + " " + g17(e3));
  }
  // against the definition of the estimator, on a sub-grid
  journal(name, "exact");
  { double hint = 0;
    for (double c = 1; c <= cmax; c = (c < 300 ? c + 1 : ceil(c * (cfg.quick() ? 1.02 : 1.005)))) {
      const double e = compute_icon_estimate((uint8_t)lg, (uint32_t)c), ex = ora::exact_icon(k, c, hint); hint = ex;
      const double rel = fabs(e - ex) / ex;
      const bool poly = c <= thr;
      S.pt(); S.maxi(poly ? "poly-rel-err" : "exp-rel-err", rel);
      // polynomial branch: measured 2.0e-7 at worst, gate 1e-6; exponential branch: gate 4x measured
      REQ(S, poly ? "icon-polynomial==definition(1e-6)" : "icon-exponential==definition(gate)", rel <= (poly ? 1e-6 : icon_exp_gate(k)), "lg_k=" + str(lg) + ",C=" + g17(c), "approx " + g17(e) + " exact " + g17(ex) + " rel " + g17(rel));
    }
  }
  S.done("lg_k " + str(lg) + ", C to " + g17(cmax));
}

static void cpc_api_task(Report& rep, const Config&, const std::string& name, int lg) {
  Scn S(rep, name);
  const uint32_t k = 1u << lg, nmax = 16 * k;
  journal(name, "stream 0.." + str(nmax));
  cpc_sketch s((uint8_t)lg);
  rep.traces++;
  for (uint32_t n = 0; n <= nmax; ++n) {
    if (n > 0) s.update((uint64_t)(n - 1));
    struct H { uint32_t n; std::string operator()() const { return "n=" + str(n); } } h; h.n = n;
    S.pt();
    const CpcObs o = observe_cpc(s);
    check_order(S, "hip:", o.hip, h);
    check_order(S, "icon:", o.icon, h);
    EB api; api.est = s.get_estimate(); for (int kp = 1; kp <= 3; ++kp) { api.lb[kp] = s.get_lower_bound(kp); api.ub[kp] = s.get_upper_bound(kp); }
    REQ(S, "unmerged-sketch-reports-hip", same_eb(api, o.hip), h(), "est " + g17(api.est) + " hip " + g17(o.hip.est));
    const uint32_t c = s.get_num_coupons();
    if (n == 0) REQ(S, "empty-is-exactly-zero", api.est == 0 && api.lb[3] == 0 && api.ub[3] == 0 && o.icon.est == 0, h(), g17(api.est));
    if (n == 1) REQ(S, "one-item-is-exactly-one", api.est == 1 && o.icon.est == 1, h(), "hip " + g17(api.est) + " icon " + g17(o.icon.est));
    if (c == n && n > 0 && 32 * n < 3 * k) { // small range (sparse flavor, no coupon collision): the intervals contain the true count
      bool in = true; for (int kp = 1; kp <= 3; ++kp) in = in && o.hip.lb[kp] <= n && n <= o.hip.ub[kp] && o.icon.lb[kp] <= n && n <= o.icon.ub[kp];
      REQ(S, "small-range-intervals-contain-true-count", in && o.hip.est >= n && o.icon.est >= n, h(), "hip " + g17(o.hip.est) + " icon " + g17(o.icon.est));
      S.maxi("small-range-rel-err", std::max(fabs(o.hip.est / n - 1), fabs(o.icon.est / n - 1)));
    }
    S.tag(std::string("cpc|") + (n == 0 ? "empty" : 32 * c < 3 * k ? "sparse" : 2 * c < k ? "hybrid" : 8 * c < 27 * k ? "pinned" : "sliding") + (c < n ? "|collisions" : ""));
  }
  S.done("lg_k " + str(lg) + ", every n in 0.." + str(nmax) + ", HIP and ICON");
}

static void cpc_union_task(Report& rep, const Config& cfg, const std::string& name, int lg) {
  Scn S(rep, name);
  const uint32_t k = 1u << lg;
  std::vector<uint32_t> card;
  const uint32_t base[] = {0, 1, 2, k / 16 + 1, k / 4, k / 2, k, 2 * k, 4 * k, 16 * k};
  for (size_t i = 0; i < sizeof base / sizeof base[0]; ++i) card.push_back(base[i]);
  if (!cfg.quick()) { card.push_back(3 * k); card.push_back(8 * k); card.push_back(3 * k / 32); }
  std::sort(card.begin(), card.end()); card.erase(std::unique(card.begin(), card.end()), card.end());
  for (size_t ai = 0; ai < card.size(); ++ai) for (size_t bi = 0; bi < card.size(); ++bi) for (int oi = 0; oi < 3; ++oi) {
    const uint32_t a = card[ai], b = card[bi], mn = std::min(a, b), o = oi == 0 ? 0 : oi == 1 ? mn / 2 : mn;
    if (oi > 0 && o == (oi == 1 ? 0u : mn / 2)) continue;
    const std::string hs = "a=" + str(a) + ",b=" + str(b) + ",overlap=" + str(o);
    journal(name, hs);
    StrHist h(hs);
    cpc_sketch A((uint8_t)lg), B((uint8_t)lg);
    for (uint32_t i = 0; i < a; ++i) A.update((uint64_t)i);
    for (uint32_t i = 0; i < b; ++i) B.update((uint64_t)(a - o) + i);
    rep.traces += 2;
    cpc_union u((uint8_t)lg); u.update(A); u.update(B);
    const cpc_sketch r = u.get_result();
    S.pt();
    EB api; api.est = r.get_estimate(); for (int kp = 1; kp <= 3; ++kp) { api.lb[kp] = r.get_lower_bound(kp); api.ub[kp] = r.get_upper_bound(kp); }
    check_order(S, "union-result:", api, h);
    const double truth = (double)a + b - o;
    if (truth == 0) REQ(S, "union-of-empties-is-exactly-zero", api.est == 0 && api.ub[3] == 0, hs, g17(api.est));
    else { // a merged sketch has no HIP accumulator: its estimate is the ICON function of its coupon count
      REQ(S, "union-result-estimate==icon(num_coupons)", api.est == compute_icon_estimate((uint8_t)lg, r.get_num_coupons()), hs, g17(api.est));
    }
    if (truth > 0 && r.get_num_coupons() == truth && 32 * truth < 3 * k) REQ(S, "union-small-range-interval-contains-true-count", api.lb[3] <= truth && truth <= api.ub[1] && api.est >= truth, hs, "est " + g17(api.est));
    S.tag(std::string("cpc-union|") + (truth == 0 ? "empty" : truth <= k ? "n<=k" : "n>k") + (o == 0 ? "|disjoint" : o == mn ? "|nested" : "|partial"));
  }
  S.done("lg_k " + str(lg) + ", " + str(card.size()) + "^2 cardinality pairs x <=3 overlaps");
}

// ------------------------------------------------------------------------------------------------------------
// Part 2: statistical clauses over a fixed, completely enumerated family of streams (family_enumeration).
// Stream (t, n) = { t*2^32 + i : i < n } for every trial t < T and every n of the grid; union operands are the disjoint
// half-streams { t*2^32 + i } and { t*2^32 + 2^31 + i }. Everything is deterministic: same tree, same verdict.
static const double NOMINAL[4] = {0, 0.6827, 0.9545, 0.9973};
struct Cell { double s1, s2; uint32_t cnt; uint32_t cov[4]; Cell(): s1(0), s2(0), cnt(0) { cov[0] = cov[1] = cov[2] = cov[3] = 0; } };
struct Series {
  std::string label; bool bounds; double bias_allow;   // bias allowance = bias_allow * RSE^2 (second-order bias of a non-linear estimator)
  std::vector<double> rse; std::vector<Cell> cells;
  Series(const std::string& l, bool b, double ba, size_t n): label(l), bounds(b), bias_allow(ba), rse(n, 0.0), cells(n) {}
  void add(size_t gi, double n, const EB& e) {
    Cell& c = cells[gi]; c.cnt++;
    const double rel = n > 0 ? e.est / n - 1 : e.est;
    c.s1 += rel; c.s2 += rel * rel;
    if (bounds) for (int sd = 1; sd <= 3; ++sd) if (e.lb[sd] <= n && n <= e.ub[sd]) c.cov[sd]++;
  }
};
static std::vector<uint32_t> n_grid(uint32_t k) {
  std::set<uint32_t> g;
  for (uint32_t i = 0; i <= 32; ++i) g.insert(i);
  for (double x = 32; x <= 16.0 * k; x *= 1.19) g.insert((uint32_t)x);
  const uint32_t sp[] = {k / 8, k / 4, k / 2, k - 1, k, k + 1, 3 * k / 2, 15 * k / 8, 15 * k / 8 + 1, 2 * k, 5 * k / 2, 3 * k, 4 * k, 6 * k, 8 * k, 12 * k, 16 * k};
  for (size_t i = 0; i < sizeof sp / sizeof sp[0]; ++i) g.insert(sp[i]);
  std::vector<uint32_t> v; for (std::set<uint32_t>::iterator i = g.begin(); i != g.end() && *i <= 16 * k; ++i) v.push_back(*i);
  return v;
}
static std::string evaluate_series(Scn& S, const Series& se, const std::vector<uint32_t>& grid, uint32_t T) {
  double worst_bias = 0, worst_std = 0, worst_cov[4] = {0, 1e9, 1e9, 1e9}; uint32_t at_bias = 0, at_std = 0;
  for (size_t gi = 0; gi < grid.size(); ++gi) {
    const Cell& c = se.cells[gi]; const uint32_t n = grid[gi]; const double rse = se.rse[gi];
    const std::string hs = se.label + ",n=" + str(n) + ",T=" + str(T);
    S.pt();
    if (c.cnt != T) { S.fail("family-cell-incomplete", hs, str(c.cnt)); continue; }
    const double mean = c.s1 / T, var = std::max(0.0, (c.s2 - T * mean * mean) / (T - 1)), sd_ = sqrt(var);
    if (n == 0) { REQ(S, se.label + ":empty-stream-estimate-exactly-zero", c.s1 == 0 && c.s2 == 0, hs, g17(mean)); if (se.bounds) REQ(S, se.label + ":empty-stream-interval-contains-zero", c.cov[1] == T && c.cov[3] == T, hs, ""); continue; }
    const double bias_gate = 5 * rse / sqrt((double)T) + se.bias_allow * rse * rse, std_gate = rse * (1 + 5 / sqrt(2.0 * T)) + 1e-12;
    REQ(S, se.label + ":mean-relative-error-within-5-sigma-of-zero", fabs(mean) <= bias_gate, hs, "mean rel err " + g17(mean) + " gate " + g17(bias_gate) + " (published RSE " + g17(rse) + ")");
    REQ(S, se.label + ":spread-within-published-RSE", sd_ <= std_gate, hs, "std of rel err " + g17(sd_) + " gate " + g17(std_gate) + " (published RSE " + g17(rse) + ")");
    if (rse > 0) { if (fabs(mean) / rse * sqrt((double)T) > worst_bias) { worst_bias = fabs(mean) / rse * sqrt((double)T); at_bias = n; } if (sd_ / rse > worst_std) { worst_std = sd_ / rse; at_std = n; } }
    if (se.bounds) for (int k = 1; k <= 3; ++k) {
      const double cov = (double)c.cov[k] / T, gate = NOMINAL[k] - 5 * sqrt(NOMINAL[k] * (1 - NOMINAL[k]) / T);
      REQ(S, se.label + ":coverage-of-" + str(k) + "-sd-interval>=nominal-5-sigma", cov >= gate, hs, "coverage " + g17(cov) + " gate " + g17(gate) + " nominal " + g17(NOMINAL[k]));
      worst_cov[k] = std::min(worst_cov[k], cov);
    }
    S.tag("family|" + se.label + (rse == 0 ? "|exact-range" : sd_ == 0 ? "|no-spread" : "|spread") + (se.bounds && c.cov[3] < T ? "|3sd-miss" : ""));
  }
  char b[256]; snprintf(b, sizeof b, "%s: max |mean|*sqrt(T)/RSE %.2f (n=%u), max std/RSE %.3f (n=%u), min coverage %.3f/%.3f/%.3f", se.label.c_str(), worst_bias, at_bias, worst_std, at_std, se.bounds ? worst_cov[1] : 1.0, se.bounds ? worst_cov[2] : 1.0, se.bounds ? worst_cov[3] : 1.0);
  return b;
}
static void family_assumptions(Report& rep, uint32_t T) {
  rep.assumptions.push_back("family_enumeration: bias / spread / coverage clauses are decided only over the fixed deterministic family of streams {t*2^32 .. t*2^32+n-1}, every trial t < T=" + str(T) + ", every n of the stated grid (and disjoint half-streams for unions); nothing is claimed for streams outside the family");
}

// published relative standard errors (documentation constants, recomputed here from their closed forms)
static double rse_hll_hip(double k) { return sqrt(log(2.0)) / sqrt(k); }               // 0.8326 / sqrt(k)
static double rse_hll_composite(double k) { return sqrt(3 * log(2.0) - 1) / sqrt(k); } // 1.039 / sqrt(k)
static double rse_cpc_hip(double k) { return sqrt(log(2.0) / 2) / sqrt(k); }           // 0.5887 / sqrt(k)
static double rse_cpc_icon(double k) { return log(2.0) / sqrt(k); }                    // 0.6931 / sqrt(k)
static double rse_theta(double k, double p, double n) {                                // 1/sqrt(k) class; binomial sampling while theta == p
  const double kmv = 1 / sqrt(k - 1);
  if (p >= 1) return n <= k ? 0.0 : kmv;
  return std::max(kmv, sqrt((1 - p) / (p * n)));
}
static uint64_t item(uint32_t t, uint32_t half, uint32_t i) { return ((uint64_t)t << 32) | ((uint64_t)half << 31) | i; }

// Bias allowance. HIP (HLL, CPC) and the Theta estimator are unbiased by construction: none. ICON and the HLL composite
// estimator are non-linear functions of the sketch state and carry a second-order bias of order 1/k = RSE^2 (the library
// documents the resulting asymmetry in the separate high-side / low-side tables of cpc_confidence.hpp and
// RelativeErrorTables-internal.hpp); measured mean relative error on the unchanged tree at T=1024 (sampling noise included): 0.93 RSE^2 (ICON lg_k 4),
// 1.3 RSE^2 (ICON lg_k 5); one RSE^2 is allowed on top of the 5-sigma term.
static const double BIAS_NONE = 0, BIAS_SECOND_ORDER = 1;

static void family_hll_task(Report& rep, const Config&, const std::string& name, int lg, int ti, uint32_t T) {
  Scn S(rep, name); family_assumptions(rep, T);
  const uint32_t k = 1u << lg; const std::vector<uint32_t> grid = n_grid(k);
  Series hip("hip", true, BIAS_NONE, grid.size()), comp("composite", false, BIAS_SECOND_ORDER, grid.size()), uni("union", true, BIAS_SECOND_ORDER, grid.size());
  for (size_t gi = 0; gi < grid.size(); ++gi) { hip.rse[gi] = rse_hll_hip(k); comp.rse[gi] = rse_hll_composite(k); uni.rse[gi] = rse_hll_composite(k); }
  for (uint32_t t = 0; t < T; ++t) {
    journal(name, "trial " + str(t));
    hll_sketch s((uint8_t)lg, hc::TYPES[ti]), A((uint8_t)lg, hc::TYPES[ti]), B((uint8_t)lg, hc::TYPES[ti]);
    uint32_t fed = 0, fa = 0, fb = 0;
    for (size_t gi = 0; gi < grid.size(); ++gi) {
      const uint32_t n = grid[gi];
      while (fed < n) s.update(item(t, 0, fed++));
      EB e = observe_hll(s); hip.add(gi, n, e);
      EB c; c.est = s.get_composite_estimate(); comp.add(gi, n, c);
      const uint32_t a = (n + 1) / 2, b = n - a;
      while (fa < a) A.update(item(t, 0, fa++));
      while (fb < b) B.update(item(t, 1, fb++));
      hll_union u((uint8_t)lg); u.update(A); u.update(B);
      uni.add(gi, n, observe_hll(u.get_result(hc::TYPES[ti])));
    }
    rep.traces += 3;
  }
  const std::string sum = evaluate_series(S, hip, grid, T) + " | " + evaluate_series(S, comp, grid, T) + " | " + evaluate_series(S, uni, grid, T);
  S.done(sum + " | lg_k " + str(lg) + " " + hc::type_name(hc::TYPES[ti]) + ", T=" + str(T) + ", " + str(grid.size()) + " cardinalities to 16k [family_enumeration]");
}

static void family_cpc_task(Report& rep, const Config&, const std::string& name, int lg, uint32_t T) {
  Scn S(rep, name); family_assumptions(rep, T);
  const uint32_t k = 1u << lg; const std::vector<uint32_t> grid = n_grid(k);
  Series hip("hip", true, BIAS_NONE, grid.size()), icon("icon", true, BIAS_SECOND_ORDER, grid.size()), uni("union", true, BIAS_SECOND_ORDER, grid.size());
  for (size_t gi = 0; gi < grid.size(); ++gi) { hip.rse[gi] = rse_cpc_hip(k); icon.rse[gi] = rse_cpc_icon(k); uni.rse[gi] = rse_cpc_icon(k); }
  for (uint32_t t = 0; t < T; ++t) {
    journal(name, "trial " + str(t));
    cpc_sketch s((uint8_t)lg), A((uint8_t)lg), B((uint8_t)lg);
    uint32_t fed = 0, fa = 0, fb = 0;
    for (size_t gi = 0; gi < grid.size(); ++gi) {
      const uint32_t n = grid[gi];
      while (fed < n) s.update(item(t, 0, fed++));
      const CpcObs o = observe_cpc(s); hip.add(gi, n, o.hip); icon.add(gi, n, o.icon);
      const uint32_t a = (n + 1) / 2, b = n - a;
      while (fa < a) A.update(item(t, 0, fa++));
      while (fb < b) B.update(item(t, 1, fb++));
      cpc_union u((uint8_t)lg); u.update(A); u.update(B);
      const cpc_sketch r = u.get_result();
      EB e; e.est = r.get_estimate(); for (int kp = 1; kp <= 3; ++kp) { e.lb[kp] = r.get_lower_bound(kp); e.ub[kp] = r.get_upper_bound(kp); }
      uni.add(gi, n, e);
    }
    rep.traces += 3;
  }
  const std::string sum = evaluate_series(S, hip, grid, T) + " | " + evaluate_series(S, icon, grid, T) + " | " + evaluate_series(S, uni, grid, T);
  S.done(sum + " | lg_k " + str(lg) + ", T=" + str(T) + ", " + str(grid.size()) + " cardinalities to 16k [family_enumeration]");
}

template<class F> static void family_theta_task(Report& rep, const Config&, const std::string& name, int lg, float p, uint32_t T) {
  Scn S(rep, name); family_assumptions(rep, T);
  const uint32_t k = 1u << lg; const std::vector<uint32_t> grid = n_grid(k);
  Series est("estimate", true, BIAS_NONE, grid.size()), uni("union", true, BIAS_NONE, grid.size());
  for (size_t gi = 0; gi < grid.size(); ++gi) { est.rse[gi] = rse_theta(k, p, grid[gi]); uni.rse[gi] = p >= 1 ? (grid[gi] <= k ? 0.0 : 1 / sqrt(k - 1.0)) : rse_theta(k, p, grid[gi]); }
  for (uint32_t t = 0; t < T; ++t) {
    journal(name, "trial " + str(t));
    typename F::U s = F::make(lg, p), A = F::make(lg, p), B = F::make(lg, p);
    uint32_t fed = 0, fa = 0, fb = 0;
    for (size_t gi = 0; gi < grid.size(); ++gi) {
      const uint32_t n = grid[gi];
      while (fed < n) F::upd(s, item(t, 0, fed++));
      est.add(gi, n, observe_theta(s));
      const uint32_t a = (n + 1) / 2, b = n - a;
      while (fa < a) F::upd(A, item(t, 0, fa++));
      while (fb < b) F::upd(B, item(t, 1, fb++));
      uni.add(gi, n, observe_theta(F::uni(lg, A, B)));
    }
    rep.traces += 3;
  }
  const std::string sum = evaluate_series(S, est, grid, T) + " | " + evaluate_series(S, uni, grid, T);
  S.done(sum + " | lg_k " + str(lg) + " p " + str(p) + ", T=" + str(T) + ", " + str(grid.size()) + " cardinalities to 16k [family_enumeration]");
}

// ------------------------------------------------------------------------------------------------------------
int main(int argc, char** argv) {
  Config cfg = parse_args(argc, argv);
  std::string ht = oracle::self_test();
  if (!ht.empty()) { fprintf(stderr, "HARNESS-ERROR oracle hash self-test failed: %s\n", ht.c_str()); return 3; }
  forbid_unowned_draws();
  case_timeout_s() = 1800;   // journal() is called per row / per trial, not per grid point
  const bool q = cfg.quick();
  const uint32_t T = 1024;   // both tiers (quick: lg_k <= 8, thorough: lg_k <= 10)
  std::vector<Task> tasks;
#define ADD(nm, body) do { Task t_; t_.name = (nm); const std::string name = t_.name; t_.fn = [=, &cfg](Report& rep) body; tasks.push_back(t_); } while (0)
  // heaviest first
  { const size_t parts = q ? 8 : 16;
    for (size_t i = 0; i < parts; ++i) ADD("grid/binomial/part" + str(i), {
      if (i == 0) {
        rep.sets("rule", "complete grid enumeration of the pure estimator functions (binomial bounds, ICON, HLL tables) against oracles written from their definitions; every update of real sketches to 16k through the API (order, nesting, exactness); complete enumeration of a fixed deterministic stream family for the statistical clauses (family_enumeration). One state / transition / evaluation = one grid point or one observed sketch state. Distinct = distinct (function, regime, mode) outcome tag.");
        rep.assumptions.push_back("sketch sizes: Theta/Tuple lg_k 5..8 with p in {1, 0.5}; HLL per-update sweeps lg_k 4..10 (thorough 12); CPC per-update sweeps lg_k 4..8 (thorough 11); stream family at lg_k 4..8 (thorough 12) with T=1024 trials in both tiers; pure functions over their whole documented lg_k range (ICON 4..26, HLL tables 4..21)");
        rep.assumptions.push_back("HLL unions are taken at the operands' lg_k (the down-sampling union path is C04's subject)");
        rep.assumptions.push_back("binomial bounds: monotonicity in num_samples is demanded only up to the bounds' own rounding granularity of one item; exact-tail calibration uses delta(sd) = Phi(-sd) with 1e-3 relative tolerance in the ranges the header documents as exact, and measured gates elsewhere");
      }
      binomial_task(rep, cfg, name, i, parts); });
  }
  for (int lg = 26; lg >= 4; --lg) ADD("grid/icon/lgk" + str(lg), { icon_grid_task(rep, cfg, name, lg); });
  ADD("grid/hll-tables", { hll_tables_task(rep, cfg, name); });
  const int hll_max = q ? 10 : 12, cpc_max = q ? 8 : 11, fam_max = q ? 8 : 12;
  for (int lg = hll_max; lg >= 4; --lg) { ADD("api/hll/lgk" + str(lg), { hll_api_task(rep, cfg, name, lg); }); ADD("api/hll-union/lgk" + str(lg), { hll_union_task(rep, cfg, name, lg); }); }
  for (int lg = cpc_max; lg >= 4; --lg) { ADD("api/cpc/lgk" + str(lg), { cpc_api_task(rep, cfg, name, lg); }); ADD("api/cpc-union/lgk" + str(lg), { cpc_union_task(rep, cfg, name, lg); }); }
  const float ps[2] = {1.0f, 0.5f};
  for (int lg = 8; lg >= 5; --lg) for (int pi = 0; pi < 2; ++pi) {
    const float p = ps[pi];
    if (lg == 5 && p == 1.0f) ADD("api/theta-ratio-bounds", { theta_ratio_bounds_task(rep, cfg, name); });
    ADD("api/theta/lgk" + str(lg) + "/p" + str(p), { theta_api_task<ThetaFam>(rep, cfg, name, lg, p); });
    ADD("api/tuple/lgk" + str(lg) + "/p" + str(p), { theta_api_task<TupleFam>(rep, cfg, name, lg, p); });
    ADD("api/theta-setops/lgk" + str(lg) + "/p" + str(p), { theta_setops_task<ThetaFam>(rep, cfg, name, lg, p, 1.0f); });
    ADD("api/tuple-setops/lgk" + str(lg) + "/p" + str(p), { theta_setops_task<TupleFam>(rep, cfg, name, lg, 1.0f, p); });
    ADD("family_enumeration/theta/lgk" + str(lg) + "/p" + str(p), { family_theta_task<ThetaFam>(rep, cfg, name, lg, p, T); });
    ADD("family_enumeration/tuple/lgk" + str(lg) + "/p" + str(p), { family_theta_task<TupleFam>(rep, cfg, name, lg, p, T); });
  }
  for (int lg = fam_max; lg >= 4; --lg) {
    for (int ti = 0; ti < 3; ++ti) ADD(std::string("family_enumeration/hll/") + hc::type_name(hc::TYPES[ti]) + "/lgk" + str(lg), { family_hll_task(rep, cfg, name, lg, ti, T); });
    ADD("family_enumeration/cpc/lgk" + str(lg), { family_cpc_task(rep, cfg, name, lg, T); });
  }
  if (!cfg.replay_scenario.empty()) { // replay = re-run the named scenario (deterministic: the same witness is found again)
    std::vector<Task> keep; for (size_t i = 0; i < tasks.size(); ++i) if (tasks[i].name == cfg.replay_scenario) keep.push_back(tasks[i]);
    tasks.swap(keep);
  }
  return run_tasks(cfg, "C06", tasks);
}
