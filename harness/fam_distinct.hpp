// corpus adapters: theta (compact v3, compressed v4, wrapped), tuple compact, array-of-doubles compact, HLL, CPC
#ifndef FAM_DISTINCT_HPP
#define FAM_DISTINCT_HPP
#include "families.hpp"
#include <theta_sketch.hpp>
#include <theta_union.hpp>
#include <theta_intersection.hpp>
#include <theta_a_not_b.hpp>
#include <tuple_intersection.hpp>
#include <tuple_a_not_b.hpp>
#include <array_tuple_intersection.hpp>
#include <array_tuple_a_not_b.hpp>
#include <array_tuple_union.hpp>
#include <tuple_sketch.hpp>
#include <array_tuple_sketch.hpp>
#include <hll.hpp>
#include <cpc_sketch.hpp>
#include <cpc_union.hpp>

namespace fam {
using namespace datasketches;
typedef mc::TrackAlloc<uint64_t> A64;
typedef mc::TrackAlloc<uint8_t> A8;

// ---------------- theta ----------------
typedef update_theta_sketch_alloc<A64> UTheta; typedef compact_theta_sketch_alloc<A64> CTheta; typedef wrapped_compact_theta_sketch_alloc<A64> WTheta;

template<class Sk> std::string theta_obs(const Sk& sk) {
  std::string o = "empty=" + str(sk.is_empty()) + "|ordered=" + str(sk.is_ordered()) + "|theta=" + mc::hex64(sk.get_theta64()) + "|n=" + str(sk.get_num_retained()) + "|seedhash=" + str(sk.get_seed_hash()) +
    "|est=" + str(sk.get_estimate()) + "|estmode=" + str(sk.is_estimation_mode());
  for (uint8_t s = 1; s <= 3; ++s) o += "|b" + str((int)s) + "=" + str(sk.get_lower_bound(s)) + "," + str(sk.get_upper_bound(s));
  o += "|e=";
  std::vector<uint64_t> e; for (auto it = sk.begin(); it != sk.end(); ++it) e.push_back(*it);
  if (!sk.is_ordered()) std::sort(e.begin(), e.end());   // an unordered form does not promise an order
  for (size_t i = 0; i < e.size(); ++i) o += mc::hex64(e[i]) + ",";
  return o;
}
struct ThetaObj : Obj {
  CTheta sk; bool compressed;
  ThetaObj(CTheta&& s, bool c): sk(std::move(s)), compressed(c) {}
  std::string obs() { return theta_obs(sk); }
  Bytes ser(unsigned h) { return compressed ? to_bytes(sk.serialize_compressed(h)) : to_bytes(sk.serialize(h)); }
  Bytes ser_stream() { std::ostringstream os; if (compressed) sk.serialize_compressed(os); else sk.serialize(os); std::string s = os.str(); return Bytes(s.begin(), s.end()); }
  long advertised_size() { return (long)sk.get_serialized_size_bytes(compressed); }
  // continuation: feed the sketch to a union together with a fixed operand and read the result back
  size_t ncont() { return 2; }
  std::string cont_name(size_t i) { return i == 0 ? "union-with-operand" : "recompact-ordered"; }
  void cont(size_t i) {
    if (i == 0) {
      theta_union_alloc<A64> u = theta_union_alloc<A64>::builder(A64(1)).set_lg_k(5).build();
      UTheta b = UTheta::builder(A64(1)).set_lg_k(5).build(); for (int j = 0; j < 40; ++j) b.update((uint64_t)(5000 + j));
      u.update(sk); u.update(b); sk = u.get_result(true);
    } else { CTheta t(sk, true); sk = std::move(t); }
  }
};
struct WThetaObj : Obj {   // read-only view; the buffer must outlive it
  Bytes keep; WTheta sk;
  WThetaObj(const void* p, size_t n): keep((const uint8_t*)p, (const uint8_t*)p + n), sk(WTheta::wrap(keep.data(), keep.size())) {}
  std::string obs() { return theta_obs(sk); }
  Bytes ser(unsigned) { return keep; } Bytes ser_stream() { return keep; }
};
inline void theta_states(bool quick, const StateCb& cb, bool compressed) {
  const int lgks[] = {5, 6, 12}; const float ps[] = {1.0f, 0.5f, 0.01f};
  for (int li = 0; li < 3; ++li) for (int pi = 0; pi < 3; ++pi) {
    int lgk = lgks[li]; if (lgk == 12 && pi == 1) continue;
    std::vector<int> ns; int nmax = lgk == 5 ? (quick ? 40 : 80) : 12;
    for (int n = 0; n <= nmax; ++n) ns.push_back(n);
    const int more[] = {100, 200, 513, 2000, 9000}; for (int i = 0; i < 5; ++i) if (!(quick && lgk != 5 && i > 2)) ns.push_back(more[i]);
    for (size_t ni = 0; ni < ns.size(); ++ni) for (int ord = 0; ord < 2; ++ord) {
      int n = ns[ni]; if (ord == 0 && n > 20 && n % 7) continue;
      UTheta u = UTheta::builder(A64(1)).set_lg_k((uint8_t)lgk).set_p(ps[pi]).build();
      for (int i = 0; i < n; ++i) u.update((uint64_t)((uint64_t)i * 0x9E3779B97F4A7C15ULL + (uint64_t)n));
      ThetaObj o(u.compact(ord == 1), compressed);
      cb("lgk" + str(lgk) + "/p" + str(ps[pi]) + "/n" + str(n) + (ord ? "/ordered" : "/unordered"), o);
    }
  }
  // every delta width 1..63 of the compressed format x entry counts 1..17 (blocks of 8 plus every tail length) x delta patterns,
  // built through the private constructor from synthetic ordered entries
  for (int w = 1; w <= 63; ++w) for (int cnt = 1; cnt <= 17; ++cnt) for (int pat = 0; pat < 3; ++pat) {
    if (quick && !(cnt == 1 || cnt == 7 || cnt == 8 || cnt == 9 || cnt == 17) ) continue;
    const uint64_t big = w == 63 ? 0x4000000000000000ULL : ((uint64_t)1 << (w - 1)) | (pat == 1 && w > 1 ? (((uint64_t)1 << (w - 1)) - 1) : 0);   // top bit of the width set (pattern 1: all ones)
    std::vector<uint64_t, A64> e((A64(1))); uint64_t v = 0; bool ok = true;
    for (int i = 0; i < cnt; ++i) { uint64_t d = (pat == 2 ? (i == cnt - 1) : (i == 0)) ? big : (pat == 1 ? 1 : 1 + (uint64_t)(i % 3)); if (d > big) d = big; if (v + d < v || v + d >= 0x7fffffffffffffffULL) { ok = false; break; } v += d; e.push_back(v); }
    if (!ok || e.empty()) continue;
    const uint64_t theta = e.back() + 1 < 0x7fffffffffffffffULL ? e.back() + 1 : 0x7fffffffffffffffULL;
    ThetaObj o(CTheta(false, true, compute_seed_hash(DEFAULT_SEED), theta, std::move(e)), compressed);
    cb("bitpack/w" + str(w) + "/cnt" + str(cnt) + "/pat" + str(pat), o);
  }
  // union results (theta below the minimum input theta, trimmed to k)
  for (int lgk = 5; lgk <= 6; ++lgk) for (int n = 20; n <= 400; n += 95) {
    theta_union_alloc<A64> u = theta_union_alloc<A64>::builder(A64(1)).set_lg_k((uint8_t)lgk).build();
    UTheta a = UTheta::builder(A64(1)).set_lg_k(7).build(), b = UTheta::builder(A64(1)).set_lg_k(5).set_p(0.5f).build();
    for (int i = 0; i < n; ++i) { a.update((uint64_t)i); b.update((uint64_t)(i + n / 2)); }
    u.update(a); u.update(b);
    ThetaObj o(u.get_result(n % 2 == 0), compressed);
    cb("union/lgk" + str(lgk) + "/n" + str(n), o);
  }
  // intersection / A-not-B results: not empty yet nothing retained (exact and estimating), a state updates alone never produce
  for (int na = 3; na <= 300; na += 99) for (int ord = 0; ord < 2; ++ord) {
    UTheta a = UTheta::builder(A64(1)).set_lg_k(5).build(), b = UTheta::builder(A64(1)).set_lg_k(5).build();
    for (int i = 0; i < na; ++i) { a.update((uint64_t)i); b.update((uint64_t)(i + 100000)); }
    theta_intersection_alloc<A64> x(DEFAULT_SEED, A64(1)); x.update(a); x.update(b);
    { ThetaObj o(x.get_result(ord == 1), compressed); cb("inter-disjoint/n" + str(na) + (ord ? "/ordered" : "/unordered"), o); }
    theta_a_not_b_alloc<A64> d(DEFAULT_SEED, A64(1));
    { ThetaObj o(d.compute(a, a, ord == 1), compressed); cb("anotb-self/n" + str(na) + (ord ? "/ordered" : "/unordered"), o); }
    { ThetaObj o(d.compute(a, b, ord == 1), compressed); cb("anotb-disjoint/n" + str(na) + (ord ? "/ordered" : "/unordered"), o); }
  }
}
inline void register_theta_families() {
  for (int c = 0; c < 2; ++c) {
    Family f; f.name = c ? "theta-compressed" : "theta-compact"; f.preamble_bytes = 24;
    bool comp = c == 1;
    f.states = [comp](bool q, const StateCb& cb) { theta_states(q, cb, comp); };
    f.from_bytes = [comp](const void* p, size_t n) { return ObjP(new ThetaObj(CTheta::deserialize(p, n, DEFAULT_SEED, A64(1)), comp)); };
    f.from_stream = [comp](std::istream& is) { return ObjP(new ThetaObj(CTheta::deserialize(is, DEFAULT_SEED, A64(1)), comp)); };
    f.wrap = [](const void* p, size_t n) { return ObjP(new WThetaObj(p, n)); };
    registry().push_back(f);
  }
}

// ---------------- tuple (int64 summary, string summary) ----------------
template<class S> struct SumGen;
template<> struct SumGen<int64_t> { static int64_t make(int i) { return (int64_t)i * 7 - 3; } static const char* nm() { return "i64"; } };
template<> struct SumGen<std::string> { static std::string make(int i) { return "v" + std::to_string(i) + std::string((size_t)(i % 9), 'y'); } static const char* nm() { return "string"; } };
template<class S> struct TuplePolicy { S create() const { return S(); } void update(S& s, const S& u) const { s += u; } };

template<class S> struct TupleObj : Obj {
  typedef mc::TrackAlloc<S> AS; typedef compact_tuple_sketch<S, AS> CT;
  CT sk;
  explicit TupleObj(CT&& s): sk(std::move(s)) {}
  std::string obs() { return obs_of(sk); }
  template<class AnyTuple> static std::string obs_of(const AnyTuple& sk) {
    std::string o = "empty=" + str(sk.is_empty()) + "|ordered=" + str(sk.is_ordered()) + "|theta=" + mc::hex64(sk.get_theta64()) + "|n=" + str(sk.get_num_retained()) + "|seedhash=" + str(sk.get_seed_hash()) + "|est=" + str(sk.get_estimate());
    for (uint8_t s = 1; s <= 3; ++s) o += "|b" + str((int)s) + "=" + str(sk.get_lower_bound(s)) + "," + str(sk.get_upper_bound(s));
    std::vector<std::string> e; for (auto it = sk.begin(); it != sk.end(); ++it) e.push_back(mc::hex64(it->first) + ":" + vstr(it->second));
    if (!sk.is_ordered()) std::sort(e.begin(), e.end());
    o += "|e="; for (size_t i = 0; i < e.size(); ++i) o += e[i] + ",";
    return o;
  }
  Bytes ser(unsigned h) { return to_bytes(sk.serialize(h)); }
  Bytes ser_stream() { std::ostringstream os; sk.serialize(os); std::string s = os.str(); return Bytes(s.begin(), s.end()); }
  size_t ncont() { return 1; }
  std::string cont_name(size_t) { return "filter-and-recompact"; }
  void cont(size_t) { CT t = sk.filter([](const S& s) { return !(s == S()); }); sk = std::move(t); }
};
template<class S> void register_tuple_family() {
  typedef mc::TrackAlloc<S> AS; typedef compact_tuple_sketch<S, AS> CT; typedef update_tuple_sketch<S, S, TuplePolicy<S>, AS> UT;
  Family f; f.name = std::string("tuple<") + SumGen<S>::nm() + ">"; f.preamble_bytes = 24;
  f.states = [](bool quick, const StateCb& cb) {
    const float ps[] = {1.0f, 0.5f};
    for (int lgk = 5; lgk <= 6; ++lgk) for (int pi = 0; pi < 2; ++pi) {
      std::vector<int> ns; for (int n = 0; n <= (quick ? 24 : 50); ++n) ns.push_back(n); ns.push_back(100); ns.push_back(300); if (!quick) ns.push_back(2000);
      for (size_t ni = 0; ni < ns.size(); ++ni) for (int ord = 0; ord < 2; ++ord) {
        int n = ns[ni]; if (ord == 0 && n > 10 && n % 5) continue;
        UT u = typename UT::builder(TuplePolicy<S>(), AS(1)).set_lg_k((uint8_t)lgk).set_p(ps[pi]).build();
        for (int i = 0; i < n; ++i) { u.update((uint64_t)i * 31 + 5, SumGen<S>::make(i)); if (i % 3 == 0) u.update((uint64_t)i * 31 + 5, SumGen<S>::make(i + 1)); }
        TupleObj<S> o(u.compact(ord == 1));
        cb("lgk" + str(lgk) + "/p" + str(ps[pi]) + "/n" + str(n) + (ord ? "/ordered" : "/unordered"), o);
      }
    }
    // not empty yet nothing retained: every update rejected by a low sampling probability; intersection of disjoint inputs; A-not-B
    for (int n = 1; n <= 5; ++n) for (int ord = 0; ord < 2; ++ord) {
      UT u = typename UT::builder(TuplePolicy<S>(), AS(1)).set_lg_k(5).set_p(0.01f).build();
      for (int i = 0; i < n; ++i) u.update((uint64_t)i * 31 + 5, SumGen<S>::make(i));
      TupleObj<S> o(u.compact(ord == 1));
      cb("lgk5/p0.01/n" + str(n) + (ord ? "/ordered" : "/unordered"), o);
    }
    for (int na = 3; na <= 300; na += 99) for (int ord = 0; ord < 2; ++ord) {
      UT a = typename UT::builder(TuplePolicy<S>(), AS(1)).set_lg_k(5).build(), b = typename UT::builder(TuplePolicy<S>(), AS(1)).set_lg_k(5).build();
      for (int i = 0; i < na; ++i) { a.update((uint64_t)i, SumGen<S>::make(i)); b.update((uint64_t)(i + 100000), SumGen<S>::make(i)); }
      struct IPol { void operator()(S& x, const S& y) const { x += y; } };
      tuple_intersection<S, IPol, AS> x(DEFAULT_SEED, IPol(), AS(1)); x.update(a); x.update(b);
      { TupleObj<S> o(x.get_result(ord == 1)); cb("inter-disjoint/n" + str(na) + (ord ? "/ordered" : "/unordered"), o); }
      tuple_a_not_b<S, AS> d(DEFAULT_SEED, AS(1));
      { TupleObj<S> o(d.compute(a, a, ord == 1)); cb("anotb-self/n" + str(na) + (ord ? "/ordered" : "/unordered"), o); }
      { TupleObj<S> o(d.compute(a, b, ord == 1)); cb("anotb-disjoint/n" + str(na) + (ord ? "/ordered" : "/unordered"), o); }
    }
  };
  f.from_bytes = [](const void* p, size_t n) { return ObjP(new TupleObj<S>(CT::deserialize(p, n, DEFAULT_SEED, serde<S>(), AS(1)))); };
  f.from_stream = [](std::istream& is) { return ObjP(new TupleObj<S>(CT::deserialize(is, DEFAULT_SEED, serde<S>(), AS(1)))); };
  registry().push_back(f);
}

// ---------------- array of doubles ----------------
struct AodObj : Obj {
  typedef mc::TrackAlloc<double> AD; typedef array<double, AD> Arr; typedef compact_array_tuple_sketch<Arr, AD> CA;
  CA sk;
  explicit AodObj(CA&& s): sk(std::move(s)) {}
  std::string obs() { return obs_of(sk); }
  static std::string obs_of(const CA& sk) {
    std::string o = "empty=" + str(sk.is_empty()) + "|ordered=" + str(sk.is_ordered()) + "|theta=" + mc::hex64(sk.get_theta64()) + "|n=" + str(sk.get_num_retained()) + "|nv=" + str((int)sk.get_num_values()) + "|seedhash=" + str(sk.get_seed_hash()) + "|est=" + str(sk.get_estimate());
    std::vector<std::string> e;
    for (auto it = sk.begin(); it != sk.end(); ++it) { std::string s = mc::hex64(it->first) + ":"; for (uint8_t j = 0; j < it->second.size(); ++j) s += str(it->second[j]) + ";"; e.push_back(s); }
    if (!sk.is_ordered()) std::sort(e.begin(), e.end());
    o += "|e="; for (size_t i = 0; i < e.size(); ++i) o += e[i] + ",";
    return o;
  }
  Bytes ser(unsigned h) { return to_bytes(sk.serialize(h)); }
  Bytes ser_stream() { std::ostringstream os; sk.serialize(os); std::string s = os.str(); return Bytes(s.begin(), s.end()); }
};
inline void register_aod_family() {
  typedef AodObj::AD AD; typedef AodObj::Arr Arr; typedef AodObj::CA CA; typedef default_array_tuple_update_policy<Arr, AD> Pol; typedef update_array_tuple_sketch<Arr, Pol, AD> UA;
  Family f; f.name = "array-of-doubles"; f.preamble_bytes = 24;
  f.states = [](bool quick, const StateCb& cb) {
    for (int nv = 1; nv <= 3; nv += 2) for (int lgk = 5; lgk <= 6; ++lgk) {
      std::vector<int> ns; for (int n = 0; n <= (quick ? 20 : 45); ++n) ns.push_back(n); ns.push_back(90); ns.push_back(400);
      for (size_t ni = 0; ni < ns.size(); ++ni) for (int ord = 0; ord < 2; ++ord) {
        int n = ns[ni]; if (ord == 0 && n > 10 && n % 4) continue;
        UA u = UA::builder(Pol((uint8_t)nv, AD(1)), AD(1)).set_lg_k((uint8_t)lgk).build();
        Arr v((uint8_t)nv, 0.0, AD(1));
        for (int i = 0; i < n; ++i) { for (int j = 0; j < nv; ++j) v[j] = i + 0.25 * j; u.update((uint64_t)i * 17 + 1, v); if (i % 4 == 1) u.update((uint64_t)i * 17 + 1, v); }
        AodObj o(u.compact(ord == 1));
        cb("nv" + str(nv) + "/lgk" + str(lgk) + "/n" + str(n) + (ord ? "/ordered" : "/unordered"), o);
      }
    }
    // sampling probability below 1 (estimation mode from the first update; with p = 0.01 not empty yet nothing retained);
    // results of set operations that retain nothing
    for (int nv = 1; nv <= 2; ++nv) for (int pi = 0; pi < 2; ++pi) for (int n = 1; n <= (pi ? 5 : 12); ++n) for (int ord = 0; ord < 2; ++ord) {
      const float p = pi ? 0.01f : 0.5f;
      UA u = UA::builder(Pol((uint8_t)nv, AD(1)), AD(1)).set_lg_k(5).set_p(p).build();
      Arr v((uint8_t)nv, 0.0, AD(1));
      for (int i = 0; i < n; ++i) { for (int j = 0; j < nv; ++j) v[j] = i + 0.5 * j; u.update((uint64_t)i * 17 + 1, v); }
      AodObj o(u.compact(ord == 1));
      cb("nv" + str(nv) + "/lgk5/p" + str(p) + "/n" + str(n) + (ord ? "/ordered" : "/unordered"), o);
    }
    for (int na = 3; na <= 300; na += 99) for (int ord = 0; ord < 2; ++ord) {
      UA a = UA::builder(Pol(2, AD(1)), AD(1)).set_lg_k(5).build(), b = UA::builder(Pol(2, AD(1)), AD(1)).set_lg_k(5).build();
      Arr v(2, 0.0, AD(1));
      for (int i = 0; i < na; ++i) { v[0] = i; v[1] = -i; a.update((uint64_t)i, v); b.update((uint64_t)(i + 100000), v); }
      struct IPol { uint8_t get_num_values() const { return 2; } void operator()(Arr& x, const Arr& y) const { for (uint8_t j = 0; j < x.size(); ++j) x[j] += y[j]; } };
      array_tuple_intersection<Arr, IPol, AD> x(DEFAULT_SEED, IPol(), AD(1)); x.update(a); x.update(b);
      { AodObj o(x.get_result(ord == 1)); cb("inter-disjoint/n" + str(na) + (ord ? "/ordered" : "/unordered"), o); }
      array_tuple_a_not_b<Arr, AD> d(DEFAULT_SEED, AD(1));
      { AodObj o(d.compute(a, a, ord == 1)); cb("anotb-self/n" + str(na) + (ord ? "/ordered" : "/unordered"), o); }
    }
  };
  f.from_bytes = [](const void* p, size_t n) { return ObjP(new AodObj(CA::deserialize(p, n, DEFAULT_SEED, AD(1)))); };
  f.from_stream = [](std::istream& is) { return ObjP(new AodObj(CA::deserialize(is, DEFAULT_SEED, AD(1)))); };
  registry().push_back(f);
}

// ---------------- HLL ----------------
typedef hll_sketch_alloc<A8> Hll; typedef hll_union_alloc<A8> HllU;
struct HllObj : Obj {
  Hll sk; bool updatable;
  HllObj(Hll&& s, bool u): sk(std::move(s)), updatable(u) {}
  std::string obs() { return obs_of(sk); }
  static std::string obs_of(const Hll& sk) {
    std::string o = "lgk=" + str((int)sk.get_lg_config_k()) + "|type=" + str((int)sk.get_target_type()) + "|empty=" + str(sk.is_empty()) + "|mode=" + str((int)sk.get_current_mode()) + "|ooo=" + str(sk.is_out_of_order_flag()) +
      "|est=" + str(sk.get_estimate()) + "|comp=" + str(sk.get_composite_estimate());
    for (uint8_t s = 1; s <= 3; ++s) o += "|b" + str((int)s) + "=" + str(sk.get_lower_bound(s)) + "," + str(sk.get_upper_bound(s));
    // logical content: coupons (list/set) or per-slot values (hll), order-independent
    std::vector<uint32_t> c;
    if (sk.get_current_mode() == hll_mode::HLL) { const HllArray<A8>* ha = static_cast<const HllArray<A8>*>(sk.sketch_impl); for (auto it = ha->begin(false); it != ha->end(); ++it) c.push_back(*it); }
    else { const CouponList<A8>* cl = static_cast<const CouponList<A8>*>(sk.sketch_impl); for (auto it = cl->begin(false); it != cl->end(); ++it) c.push_back(*it); }
    std::sort(c.begin(), c.end());
    o += "|c="; uint64_t h = 1469598103934665603ULL; for (size_t i = 0; i < c.size(); ++i) { if (c.size() <= 64) o += str(c[i]) + ","; h = mc::fnv1a(&c[i], 4, h); }
    o += "#" + str(c.size()) + ":" + mc::hex64(h);
    return o;
  }
  Bytes ser(unsigned h) { return updatable ? to_bytes(sk.serialize_updatable()) : to_bytes(sk.serialize_compact(h)); }
  Bytes ser_stream() { std::ostringstream os; if (updatable) sk.serialize_updatable(os); else sk.serialize_compact(os); std::string s = os.str(); return Bytes(s.begin(), s.end()); }
  // SET mode stores its coupons in hash-table order; HLL_4 keeps exceptions in an auxiliary hash map
  bool unordered_layout() { return sk.get_current_mode() == hll_mode::SET || (sk.get_current_mode() == hll_mode::HLL && sk.get_target_type() == HLL_4); }
  long advertised_size() { return updatable ? (long)sk.get_updatable_serialization_bytes() : (long)sk.get_compact_serialization_bytes(); }
  // hll.hpp documents that for HLL_4 the advertised maximum "can be exceeded in extremely rare cases" (large aux map): not gated for HLL_4
  long max_size() { return updatable && sk.get_target_type() != HLL_4 ? (long)Hll::get_max_updatable_serialization_bytes(sk.get_lg_config_k(), sk.get_target_type()) : -1; }
  void exercise() { sk.serialize_compact(); sk.serialize_updatable(); for (int t = 0; t < 3; ++t) { Hll c(sk, (target_hll_type)t); c.get_estimate(); c.serialize_compact(); } sk.to_string(true, true, true, true); }
  size_t ncont() { return 4; }
  std::string cont_name(size_t i) { return i == 0 ? "update x5" : i == 1 ? "update x lots" : i == 2 ? "union-with-operand" : "reset, update x40"; }
  void cont(size_t i) {
    if (i == 3) { sk.reset(); for (int j = 0; j < 40; ++j) sk.update((uint64_t)(555000 + j)); }
    else if (i == 0) for (int j = 0; j < 5; ++j) sk.update((uint64_t)(777000 + j));
    else if (i == 1) for (int j = 0; j < 300; ++j) sk.update((uint64_t)(888000 + j));
    else { HllU u(sk.get_lg_config_k(), A8(1)); Hll b(7, HLL_8, false, A8(1)); for (int j = 0; j < 90; ++j) b.update((uint64_t)(999000 + j)); u.update(sk); u.update(b); sk = u.get_result(sk.get_target_type()); }
  }
};
inline void hll_states(bool quick, const StateCb& cb, bool updatable) {
  const int lgks[] = {4, 7, 8, 10};
  for (int li = 0; li < 4; ++li) for (int ty = 0; ty < 3; ++ty) for (int full = 0; full < 2; ++full) {
    int lgk = lgks[li]; if (full && ty != 2) continue;
    std::vector<int> ns; for (int n = 0; n <= (quick ? 12 : 40); ++n) ns.push_back(n);
    const int more[] = {20, 23, 24, 25, 48, 96, 97, 130, 200, 400, 1000, 5000, 40000}; for (int i = 0; i < 13; ++i) if (!(quick && (i % 2 == 1) && i > 4)) ns.push_back(more[i]);
    for (size_t ni = 0; ni < ns.size(); ++ni) {
      int n = ns[ni]; if (lgk == 10 && n > 5000) continue;
      HllObj o(Hll((uint8_t)lgk, (target_hll_type)ty, full == 1, A8(1)), updatable);
      for (int i = 0; i < n; ++i) o.sk.update((uint64_t)((uint64_t)i * 2654435761ULL + 11));
      cb("lgk" + str(lgk) + "/type" + str(ty) + (full ? "/full" : "") + "/n" + str(n), o);
    }
  }
  // HLL_4 with auxiliary exceptions (values >= cur_min + 15), injected as coupons; also in the other types for comparison
  for (int ty = 0; ty < 3; ++ty) for (int nex = 1; nex <= 5; nex += 2) for (int lgk = 4; lgk <= 8; lgk += 4) {
    HllObj o(Hll((uint8_t)lgk, (target_hll_type)ty, false, A8(1)), updatable);
    for (int i = 0; i < 40; ++i) o.sk.update((uint64_t)((uint64_t)i * 2654435761ULL + 11));
    for (int e = 0; e < nex; ++e) o.sk.coupon_update(((uint32_t)(20 + 9 * e) << 26) | (uint32_t)(e * 3 + 1));
    cb("aux/lgk" + str(lgk) + "/type" + str(ty) + "/exceptions" + str(nex), o);
  }
  // union results (out-of-order flag set, estimator state differs) in each type
  for (int ty = 0; ty < 3; ++ty) for (int n = 5; n <= 3000; n = n * 5 + 3) {
    HllU u(8, A8(1)); Hll a(9, HLL_4, false, A8(1)), b(8, HLL_6, false, A8(1));
    for (int i = 0; i < n; ++i) { a.update((uint64_t)i); b.update((uint64_t)(i + n / 3)); }
    u.update(a); u.update(b);
    HllObj o(u.get_result((target_hll_type)ty), updatable);
    cb("union/type" + str(ty) + "/n" + str(n), o);
  }
}
inline void register_hll_families() {
  for (int up = 0; up < 2; ++up) {
    Family f; f.name = up ? "hll-updatable" : "hll-compact"; f.preamble_bytes = 40; f.has_header = up == 0;
    bool updatable = up == 1;
    f.unordered_entries = false;
    f.states = [updatable](bool q, const StateCb& cb) { hll_states(q, cb, updatable); };
    f.from_bytes = [updatable](const void* p, size_t n) { return ObjP(new HllObj(Hll::deserialize(p, n, A8(1)), updatable)); };
    f.from_stream = [updatable](std::istream& is) { return ObjP(new HllObj(Hll::deserialize(is, A8(1)), updatable)); };
    registry().push_back(f);
  }
}

// ---------------- CPC ----------------
typedef cpc_sketch_alloc<A8> Cpc; typedef cpc_union_alloc<A8> CpcU;
struct CpcObj : Obj {
  Cpc sk;
  explicit CpcObj(Cpc&& s): sk(std::move(s)) {}
  std::string obs() { return obs_of(sk); }
  static std::string obs_of(const Cpc& sk) {
    std::string o = "lgk=" + str((int)sk.get_lg_k()) + "|empty=" + str(sk.is_empty()) + "|c=" + str(sk.get_num_coupons()) + "|est=" + str(sk.get_estimate()) + "|valid=" + str(sk.validate());
    for (unsigned s = 1; s <= 3; ++s) o += "|b" + str(s) + "=" + str(sk.get_lower_bound(s)) + "," + str(sk.get_upper_bound(s));
    auto m = sk.build_bit_matrix(); uint64_t h = 1469598103934665603ULL; for (size_t i = 0; i < m.size(); ++i) h = mc::fnv1a(&m[i], 8, h);
    o += "|matrix=" + mc::hex64(h) + "|flavor=" + str((int)sk.determine_flavor()) + "|woff=" + str((int)sk.window_offset) + "|fic=" + str((int)sk.first_interesting_column) + "|merged=" + str(sk.was_merged);
    if (!sk.was_merged) o += "|kxp=" + str(sk.kxp) + "|hip=" + str(sk.hip_est_accum);   // HIP registers are meaningful (and serialized) only for un-merged sketches
    return o;
  }
  Bytes ser(unsigned h) { return to_bytes(sk.serialize(h)); }
  Bytes ser_stream() { std::ostringstream os; sk.serialize(os); std::string s = os.str(); return Bytes(s.begin(), s.end()); }
  long max_size() { return (long)Cpc::get_max_serialized_size_bytes(sk.get_lg_k()); }
  size_t ncont() { return 3; }
  std::string cont_name(size_t i) { return i == 0 ? "update x3" : i == 1 ? "update x lots" : "union-with-operand"; }
  void cont(size_t i) {
    if (i == 0) for (int j = 0; j < 3; ++j) sk.update((uint64_t)(777000 + j));
    else if (i == 1) for (int j = 0; j < 200; ++j) sk.update((uint64_t)(888000 + j));
    else { CpcU u(sk.get_lg_k(), DEFAULT_SEED, A8(1)); Cpc b(6, DEFAULT_SEED, A8(1)); for (int j = 0; j < 70; ++j) b.update((uint64_t)(999000 + j)); u.update(sk); u.update(b); sk = u.get_result(); }
  }
};
inline void register_cpc_family() {
  Family f; f.name = "cpc"; f.preamble_bytes = 40;
  f.states = [](bool quick, const StateCb& cb) {
    const int lgks[] = {4, 5, 8, 11};
    for (int li = 0; li < 4; ++li) {
      int lgk = lgks[li]; int k = 1 << lgk;
      std::vector<int> ns; int dense = lgk <= 5 ? (quick ? 16 * k : 40 * k) : 20;
      for (int n = 0; n <= dense; n += (lgk <= 5 && n > 4 * k ? 3 : 1)) ns.push_back(n);
      if (lgk > 5) { const double fr[] = {0.05, 3.0 / 32, 0.2, 0.5, 0.6, 1, 2, 27.0 / 8, 3.5, 5, 8, 12}; for (int i = 0; i < 12; ++i) { ns.push_back((int)(fr[i] * k) - 1); ns.push_back((int)(fr[i] * k) + 2); } }
      for (size_t ni = 0; ni < ns.size(); ++ni) {
        int n = ns[ni]; if (n < 0) continue;
        CpcObj o(Cpc((uint8_t)lgk, DEFAULT_SEED, A8(1)));
        for (int i = 0; i < n; ++i) o.sk.update((uint64_t)((uint64_t)i * 0x9E3779B97F4A7C15ULL + 3));
        cb("lgk" + str(lgk) + "/n" + str(n), o);
      }
    }
    for (int n = 3; n <= 4000; n = n * 4 + 1) {   // union results (merged flag: ICON estimator, no HIP registers)
      CpcU u(8, DEFAULT_SEED, A8(1)); Cpc a(10, DEFAULT_SEED, A8(1)), b(8, DEFAULT_SEED, A8(1));
      for (int i = 0; i < n; ++i) { a.update((uint64_t)i); b.update((uint64_t)(i + n / 2)); }
      u.update(a); u.update(b);
      CpcObj o(u.get_result());
      cb("union/n" + str(n), o);
    }
  };
  f.from_bytes = [](const void* p, size_t n) { return ObjP(new CpcObj(Cpc::deserialize(p, n, DEFAULT_SEED, A8(1)))); };
  f.from_stream = [](std::istream& is) { return ObjP(new CpcObj(Cpc::deserialize(is, DEFAULT_SEED, A8(1)))); };
  registry().push_back(f);
}

inline void register_distinct_families() {
  register_theta_families();
  register_tuple_family<int64_t>();
  register_tuple_family<std::string>();
  register_aod_family();
  register_hll_families();
  register_cpc_family();
}

} // namespace fam
#endif
