// families.hpp -- the state corpus shared by C09 (round trip), C10 (layout / golden images) and C11 (fault enumeration):
// one adapter per serializable type and image kind, exposing type-erased live objects with a full public observation
// vector, their images, readers, and one-step continuation operations.
// All sketches are instantiated with mc::TrackAlloc so that leaks of rejected images and allocator misuse are visible.
#ifndef FAMILIES_HPP
#define FAMILIES_HPP
#include "core.hpp"
#include "choice.hpp"
#include "alloc.hpp"
#include <sstream>
#include <memory>
#include <functional>
#include <limits>

namespace fam {
using mc::str;
typedef std::vector<uint8_t> Bytes;
template<class V> Bytes to_bytes(const V& v) { return Bytes(v.begin(), v.end()); }
inline std::string hexs(const Bytes& b, size_t max = 64) { std::string s; char t[4]; for (size_t i = 0; i < b.size() && i < max; ++i) { snprintf(t, sizeof t, "%02x", b[i]); s += t; } if (b.size() > max) s += "..."; return s; }

struct Obj {
  virtual ~Obj() {}
  virtual std::string obs() = 0;                       // full public observation vector
  virtual Bytes ser(unsigned header) = 0;              // byte-vector form
  virtual Bytes ser_stream() = 0;                      // stream form
  virtual bool unordered_layout() { return false; }   // this state's image stores a hash table whose order is unspecified
  virtual long advertised_size() { return -1; }        // get_serialized_size_bytes() where offered
  virtual long max_size() { return -1; }               // get_max_serialized_size_bytes(...) where offered
  virtual size_t ncont() { return 0; }                 // continuation operations (deterministic given the installed tape)
  virtual std::string cont_name(size_t) { return ""; }
  virtual void cont(size_t) {}
  virtual void exercise() {}                           // further use of an accepted object (other serialization formats, conversions, iteration)
};
typedef std::unique_ptr<Obj> ObjP;
typedef std::function<void(const std::string& label, Obj& o)> StateCb;

struct Family {
  std::string name;
  bool unordered_entries = false;      // layout stores a hash table whose order is unspecified: re-serialization compared via obs only
  bool rebuild_changes_bytes = false;
  size_t alloc_cap = (size_t)1 << 30;  // C11: a single allocation request above this is refused by the harness allocator; it counts as unbounded unless it is <= alloc_legal_max
  size_t alloc_legal_max = 0;          // requests up to this size are within the format's own documented limits: refusing them (std::bad_alloc) is a rejection, not a finding
  size_t preamble_bytes = 8;           // bytes subject to corruption in C11 (at least 8, at most 40)
  std::function<void(bool quick, const StateCb&)> states;
  std::function<ObjP(const void*, size_t)> from_bytes;
  std::function<ObjP(std::istream&)> from_stream;
  std::function<ObjP(const void*, size_t)> wrap;       // optional: read-only view over caller memory
  bool has_header = true;                              // serialize(header_size_bytes) offered
};

inline std::vector<Family>& registry() { static std::vector<Family> r; return r; }

// helper to build a sketch under a fixed coin/raw schedule (deterministic corpus)
struct Sched { mc::Tape t; mc::TapeScope sc; explicit Sched(uint64_t bit_fill, uint64_t seed = 0): t(), sc(init(t, bit_fill, seed)) {} static mc::Tape& init(mc::Tape& t, uint64_t b, uint64_t seed) { t.bit_fill = b; if (seed) t.fill_seed = seed | 2; return t; } };

template<class T> std::string vstr(const T& v) { return str(v); }
inline std::string vstr(const std::string& v) { return "'" + v + "'"; }
inline std::string vstr(const mc::Item& v) { return "I" + str(v.get()); }
inline std::string vstr(float v) { if (std::isnan(v)) return "nan"; return str(v); }
inline std::string vstr(double v) { if (std::isnan(v)) return "nan"; return str(v); }

template<class F> std::string guarded(F f) { try { return f(); } catch (const std::exception& e) { return std::string("EXC(") + e.what() + ")"; } }

} // namespace fam
#endif
