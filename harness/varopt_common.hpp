// varopt_common.hpp -- systems and oracle shared by the VarOpt harness (C16).
//  VSys : one var_opt_sketch<int> fed a weighted stream (items are ints carrying their arrival index), optional
//         serialize/deserialize operations.
//  USys : up to three operand sketches + one var_opt_union + the last get_result().
// The oracle (check_sketch) is written from the property statement: sample size, samples drawn from the input,
// heavy items exact, total weight conserved, bounds ordered; it never looks at how the library chooses.
#ifndef VAROPT_COMMON_HPP
#define VAROPT_COMMON_HPP

#include "core.hpp"
#include "choice.hpp"
#include "bfs.hpp"
#include "prob.hpp"
#include <var_opt_sketch.hpp>
#include <var_opt_union.hpp>
#include <cmath>
#include <sstream>

namespace vo {
using namespace mc;
using namespace datasketches;
typedef var_opt_sketch<int> Sk;
typedef var_opt_union<int> Un;

// exploring all outcomes of one operation can take longer than the journal's per-case alarm; every replay that completes
// is progress, so the alarm is re-armed from apply(): it still fires when a single library call does not return.
inline void progress_tick() { static unsigned c = 0; if ((++c & 0x1fff) == 0) alarm(mc::case_timeout_s()); }
inline std::string wstr(double w) { char b[32]; if (w == std::floor(w)) snprintf(b, sizeof b, "%d", (int)w); else snprintf(b, sizeof b, "%g", w); return b; }
inline std::string join_w(const std::vector<double>& w, const char* sep = "_") { std::string s; for (size_t i = 0; i < w.size(); ++i) { if (i) s += sep; s += wstr(w[i]); } return s; }
inline std::vector<double> split_w(const std::string& s, char sep = '_') {
  std::vector<double> v; size_t i = 0;
  while (i < s.size()) { size_t e = s.find(sep, i); if (e == std::string::npos) e = s.size(); if (e > i) v.push_back(atof(s.substr(i, e - i).c_str())); i = e + 1; }
  return v;
}
inline std::vector<std::string> split_s(const std::string& s, char sep) {
  std::vector<std::string> v; size_t i = 0;
  while (i <= s.size()) { size_t e = s.find(sep, i); if (e == std::string::npos) e = s.size(); v.push_back(s.substr(i, e - i)); i = e + 1; }
  return v;
}

// ---- canonical state of a sketch: every field the future depends on, raw bytes (fast; never printed) ----
template<class T> inline void putv(std::string& c, T v) { c.append(reinterpret_cast<const char*>(&v), sizeof v); }
inline void canon_sketch(std::string& c, const Sk& s) {
  putv(c, s.k_); putv(c, s.h_); putv(c, s.m_); putv(c, s.r_); putv(c, s.n_); putv(c, s.total_wt_r_);
  putv(c, (uint8_t)s.rf_); putv(c, s.curr_items_alloc_); putv(c, (uint8_t)s.filled_data_); putv(c, s.num_marks_in_h_);
  putv(c, (uint8_t)(s.marks_ != nullptr));
  for (uint32_t i = 0; i < s.h_; ++i) { putv(c, s.data_[i]); putv(c, s.weights_[i]); if (s.marks_) putv(c, (uint8_t)s.marks_[i]); }
  c += '|';
  if (s.r_ > 0) for (uint32_t i = s.h_ + 1; i < s.h_ + 1 + s.r_; ++i) putv(c, s.data_[i]);   // internal order matters
  c += '#';
}

// ---- ground truth handed to the oracle ----
struct Truth {
  std::vector<double> w;        // true weight by item id; < 0 = no such input item
  uint64_t n; double total;
  Truth(): n(0), total(0) { w.reserve(24); }
  void add(int id, double wt) { if ((size_t)id >= w.size()) w.resize(id + 1, -1.0); w[id] = wt; n++; total += wt; }
  bool has(int id) const { return id >= 0 && (size_t)id < w.size() && w[id] >= 0; }
};

struct P_all { bool operator()(const int&) const { return true; } };
struct P_none { bool operator()(const int&) const { return false; } };
struct P_even { bool operator()(const int& i) const { return (i & 1) == 0; } };
struct P_heavy { const Truth* t; bool operator()(const int& i) const { return t->has(i) && t->w[i] >= 10; } };

struct Obs { uint64_t n; uint32_t k, ns, h, r; double twr; std::vector<std::pair<int, double> > items;
  bool operator==(const Obs& o) const { return n == o.n && k == o.k && ns == o.ns && h == o.h && r == o.r && twr == o.twr && items == o.items; } };
inline Obs observe(const Sk& sk) {
  Obs o; o.n = sk.get_n(); o.k = sk.get_k(); o.ns = sk.get_num_samples(); o.h = sk.h_; o.r = sk.r_; o.twr = sk.total_wt_r_;
  size_t guard = 0;
  for (Sk::const_iterator it = sk.begin(); it != sk.end() && guard < 1000; ++it, ++guard) o.items.push_back(std::make_pair((*it).first, (*it).second));
  return o;
}

// The oracle for one sketch. single: a sketch fed a stream directly (k_cfg = its configured k);
// otherwise a union result (k_cfg = max_k of the union).
inline void check_sketch(const Sk& sk, const Truth& t, Ctx& c, bool single, uint32_t k_cfg) {
  const uint64_t n = sk.get_n(); const uint32_t k = sk.get_k(); const uint32_t ns = sk.get_num_samples();
  c.eq("n-exact", n, t.n);
  if (single) { c.eq("k-unchanged", k, k_cfg); c.eq("num_samples==min(n,k)", (uint64_t)ns, std::min<uint64_t>(n, k)); }
  else { c.ok("result-k<=max_k", k <= k_cfg, "result k " + str(k) + " max_k " + str(k_cfg)); c.ok("num_samples<=effective-k", ns <= k && ns <= k_cfg, "samples " + str(ns) + " result k " + str(k) + " max_k " + str(k_cfg)); c.ok("num_samples<=n", ns <= n, ""); }
  c.eq("is_empty", sk.is_empty(), t.n == 0);
  Obs o = observe(sk);
  c.eq("iterated==num_samples", o.items.size(), (size_t)ns);
  // samples are input items, no duplicates
  std::vector<int> ids; bool all_valid = true;
  for (size_t i = 0; i < o.items.size(); ++i) { ids.push_back(o.items[i].first); if (!t.has(o.items[i].first)) { all_valid = false; c.fail("sample-is-input-item", "sample " + str(o.items[i].first) + " was never fed"); } }
  std::sort(ids.begin(), ids.end());
  c.ok("no-duplicate-sample", std::adjacent_find(ids.begin(), ids.end()) == ids.end(), "an input item is sampled twice");
  // threshold (private view), cross-checked against what the iterator reports for the R region below
  const uint32_t h = sk.h_, r = sk.r_;
  const double tau = r > 0 ? sk.total_wt_r_ / r : 0.0;
  c.ok("h+r==samples", (uint32_t)(h + r) == ns || (r == 0 && h >= ns), "h " + str(h) + " r " + str(r) + " samples " + str(ns));
  if (single) c.eq("estimation-mode-iff-n>k", r > 0, n > k);
  if (r > 0) c.eq("h+r==k", h + r, k);
  c.ok("tau-positive", r == 0 || tau > 0, "tau " + str(tau));
  // heavy items are kept exactly
  double sum_adj = 0, sub_even = 0, sub_heavy = 0;
  std::vector<double> adj(t.w.size(), -1.0);
  for (size_t i = 0; i < o.items.size(); ++i) {
    const int id = o.items[i].first; const double a = o.items[i].second;
    sum_adj += a; if ((id & 1) == 0) sub_even += a;
    if (!t.has(id)) continue;
    if (t.w[id] >= 10) sub_heavy += a;
    adj[id] = a;
    if (i < h) {
      c.ok("H-item-exact-weight", a == t.w[id], "item " + str(id) + " adjusted " + str(a) + " true " + str(t.w[id]));
      if (a < tau * (1 - 1e-12)) { if (single) c.fail("H-item>=tau", "item " + str(id) + " weight " + str(a) + " below tau " + str(tau)); else c.rep.count("info_union_result_H_item_below_tau"); }
    } else {
      c.near("R-item-carries-tau", a, tau, 1e-12);
    }
  }
  for (size_t id = 0; id < t.w.size(); ++id) if (t.w[id] >= 0 && t.w[id] > tau * (1 + 1e-12)) {
    if (adj[id] < 0) c.fail("heavy-item-present", "item " + str(id) + " weight " + str(t.w[id]) + " exceeds tau " + str(tau) + " but is not in the sample");
    else c.ok("heavy-item-exact", adj[id] == t.w[id], "item " + str(id) + " weight " + str(t.w[id]) + " exceeds tau " + str(tau) + " but is reported with " + str(adj[id]));
  }
  // total weight conserved
  c.near("sum-adjusted==total", sum_adj, t.total, 1e-9);
  if (all_valid) {
    P_heavy ph; ph.t = &t;
    subset_summary sa = sk.estimate_subset_sum(P_all()), sn = sk.estimate_subset_sum(P_none()), se = sk.estimate_subset_sum(P_even()), shv = sk.estimate_subset_sum(ph);
    c.near("estimate(all)==total", sa.estimate, t.total, 1e-9);
    c.near("total_sketch_weight==total", sa.total_sketch_weight, t.total, 1e-9);
    c.ok("lb<=est<=ub(all)", sa.lower_bound <= sa.estimate && sa.estimate <= sa.upper_bound, str(sa.lower_bound) + " " + str(sa.estimate) + " " + str(sa.upper_bound));
    c.ok("lb<=est<=ub(none)", sn.lower_bound <= sn.estimate && sn.estimate <= sn.upper_bound, str(sn.lower_bound) + " " + str(sn.estimate) + " " + str(sn.upper_bound));
    c.ok("lb<=est<=ub(even)", se.lower_bound <= se.estimate && se.estimate <= se.upper_bound, str(se.lower_bound) + " " + str(se.estimate) + " " + str(se.upper_bound));
    c.ok("lb<=est<=ub(heavy)", shv.lower_bound <= shv.estimate && shv.estimate <= shv.upper_bound, str(shv.lower_bound) + " " + str(shv.estimate) + " " + str(shv.upper_bound));
    c.near("estimate(none)==0", sn.estimate, 0.0, 1e-9);
    c.near("estimate(even)==sum-adjusted-even", se.estimate, sub_even, 1e-9);
    c.near("estimate(heavy)==sum-adjusted-heavy", shv.estimate, sub_heavy, 1e-9);
  }
  // heap order in H
  // heap order in H (H becomes a heap when the sketch leaves warm-up; before that it is the arrival order)
  // For a union result the statement only speaks about n, total weight, size and unbiasedness; its H order matters only
  // to later updates of the result, so there it is tagged, not failed.
  if (r > 0) for (uint32_t j = 1; j < h; ++j) if (sk.weights_[(j - 1) / 2] > sk.weights_[j]) {
    if (single) c.fail("heap-order", "H slot " + str(j) + " lighter than its parent");
    else { c.rep.outcome("res|H-not-a-heap"); c.rep.count("info_union_result_H_not_a_heap"); }
    break;
  }
  c.rep.outcome(std::string(single ? "sk" : "res") + "|k" + str(k) + (r > 0 ? "|est" : (n == 0 ? "|empty" : "|exact")) + "|h" + str(h) + "|r" + str(r) + (sk.m_ ? "|m" + str(sk.m_) : ""));
}

// ---------------------------------------------------------------------------------------------------------------
// VSys: one sketch. Ops 0..W.size()-1: update(next index, W[op]); then serB (bytes round trip), serS (stream round trip).
struct VSys {
  struct State {
    std::unique_ptr<Sk> sk; Truth t; std::string broken; std::string ser_mismatch; int n_ops;
    State(): n_ops(0) {}
  };
  uint32_t k; resize_factor rf; std::vector<double> W; bool fixed; bool with_ser; bool checks; int id_base; std::string nm;
  VSys(): k(1), rf(resize_factor::X8), fixed(false), with_ser(false), checks(true), id_base(0) {}
  // names are self-describing so that a recorded violation can be replayed from (scenario, history) alone
  static std::string make_name(const std::string& kind, uint32_t k, resize_factor rf, const std::vector<double>& W, bool ser) {
    return kind + "/k" + str(k) + "/rf" + str((int)rf) + "/w" + join_w(W) + (ser ? "/ser" : "");
  }
  static bool parse_name(const std::string& nm, VSys& s) {
    std::vector<std::string> p = split_s(nm, '/');
    if (p.size() < 4 || (p[0] != "seq" && p[0] != "fix")) return false;
    s.fixed = p[0] == "fix"; s.k = (uint32_t)atoi(p[1].c_str() + 1); s.rf = (resize_factor)atoi(p[2].c_str() + 2); s.W = split_w(p[3].substr(1));
    s.with_ser = p.size() > 4 && p[4] == "ser"; s.nm = nm; return true;
  }
  std::string name() const { return nm; }
  State* make() { State* s = new State(); s->sk.reset(new Sk(k, rf)); return s; }
  size_t nops() const { return W.size() + (with_ser ? 2 : 0); }
  std::string opname(size_t i) const {
    if (i < W.size()) return fixed ? "u" + str(i) + "w" + wstr(W[i]) : "w" + wstr(W[i]);
    return i == W.size() ? "serB" : "serS";
  }
  bool apply(State& s, size_t op, Ctx*) {
    progress_tick();
    s.n_ops++; s.ser_mismatch.clear();
    if (!s.broken.empty()) return true;                    // a failed state stays failed; reported once by check()
    if (op < W.size()) {
      const int id = id_base + (int)s.t.n;
      s.t.add(id, W[op]);
      try {
        // an item of weight 0 is documented as ignored: offered before every update, it must leave the sketch exactly as it was
        { std::string c0; canon_sketch(c0, *s.sk); s.sk->update(-1 - id, 0.0); std::string c1; canon_sketch(c1, *s.sk);
          if (c0 != c1) s.broken = "zero-weight-update-changes-nothing|update(item, 0.0) changed the sketch (n " + str(s.sk->get_n()) + ")"; }
        if (s.broken.empty()) s.sk->update(id, W[op]);
      }
      catch (const std::exception& e) { s.broken = std::string("update-threw|update(") + str(id) + "," + wstr(W[op]) + ") threw: " + e.what(); }
      return true;
    }
    try {
      Obs before = observe(*s.sk);
      if (op == W.size()) { Sk::vector_bytes b = s.sk->serialize(); s.sk.reset(new Sk(Sk::deserialize(b.data(), b.size()))); }
      else { std::stringstream ss(std::ios::in | std::ios::out | std::ios::binary); s.sk->serialize(ss); s.sk.reset(new Sk(Sk::deserialize(ss))); }
      Obs after = observe(*s.sk);
      if (!(before == after)) s.ser_mismatch = "restored sketch differs: n " + str(before.n) + "->" + str(after.n) + " samples " + str(before.items.size()) + "->" + str(after.items.size()) + " h " + str(before.h) + "->" + str(after.h) + " r " + str(before.r) + "->" + str(after.r);
    } catch (const std::exception& e) { s.broken = std::string("serialize-roundtrip-threw|") + e.what(); }
    return true;
  }
  std::string canon(State& s) {
    std::string c; c.reserve(160);
    canon_sketch(c, *s.sk);
    putv(c, (uint32_t)s.t.n); for (size_t i = 0; i < s.t.w.size(); ++i) putv(c, s.t.w[i]);   // model (matters in seq mode only; harmless otherwise)
    if (!s.broken.empty()) { c += "B" + s.broken; putv(c, s.n_ops); }
    if (!s.ser_mismatch.empty()) c += "M";
    return c;
  }
  void check(State& s, Ctx& c) {
    if (!checks) return;
    if (!s.broken.empty()) { size_t b = s.broken.find('|'); c.fail(s.broken.substr(0, b), s.broken.substr(b + 1)); c.rep.outcome("sk|broken|" + s.broken.substr(0, b)); return; }
    if (!s.ser_mismatch.empty()) c.fail("serialize-roundtrip-observation", s.ser_mismatch);
    check_sketch(*s.sk, s.t, c, true, k);
  }
};

// ---------------------------------------------------------------------------------------------------------------
// USys: operands A,B,C (built by their own update ops), one union, the last result.
struct OperandSpec { uint32_t k; std::vector<double> w; };
struct USys {
  enum { MAXJ = 16, OP_FEED = 48, OP_FEEDRV = 51, OP_RESULT = 54, OP_USERB = 55, OP_USERS = 56, OP_OSER = 57, OP_URESET = 60, NOPS = 61 };
  struct State {
    std::unique_ptr<Sk> opnd[3]; bool consumed[3]; size_t fed_updates[3];
    std::unique_ptr<Un> u; std::unique_ptr<Sk> result;
    Truth fed; std::string broken; std::string ser_mismatch; int n_ops;
    State(): n_ops(0) { for (int i = 0; i < 3; ++i) { consumed[i] = false; fed_updates[i] = 0; } }
  };
  std::vector<OperandSpec> specs; uint32_t max_k; std::string nm; std::string sched_str;
  static int item_id(size_t o, size_t j) { return (int)(o * 32 + j); }
  static std::string make_name(uint32_t max_k, const std::vector<OperandSpec>& sp, const std::string& sched) {
    std::string s = "un/m" + str(max_k) + "/";
    for (size_t i = 0; i < sp.size(); ++i) { if (i) s += "+"; s += str(sp[i].k) + ":" + join_w(sp[i].w); }
    return s + "/" + sched;
  }
  static bool parse_name(const std::string& nm, USys& s) {
    std::vector<std::string> p = split_s(nm, '/');
    if (p.size() != 4 || p[0] != "un") return false;
    s.max_k = (uint32_t)atoi(p[1].c_str() + 1);
    std::vector<std::string> os = split_s(p[2], '+');
    for (size_t i = 0; i < os.size(); ++i) { OperandSpec o; size_t c = os[i].find(':'); o.k = (uint32_t)atoi(os[i].substr(0, c).c_str()); o.w = split_w(os[i].substr(c + 1)); s.specs.push_back(o); }
    s.sched_str = p[3]; s.nm = nm; return true;
  }
  std::string name() const { return nm; }
  State* make() {
    State* s = new State();
    for (size_t i = 0; i < specs.size(); ++i) s->opnd[i].reset(new Sk(specs[i].k));
    s->u.reset(new Un(max_k));
    return s;
  }
  size_t nops() const { return NOPS; }
  std::string opname(size_t i) const {
    static const char* L = "ABC";
    if (i < OP_FEED) return std::string(1, L[i / MAXJ]) + ".u" + str(i % MAXJ);
    if (i < OP_FEEDRV) return std::string("U<-") + L[i - OP_FEED];
    if (i < OP_RESULT) return std::string("U<=") + L[i - OP_FEEDRV];
    if (i == OP_RESULT) return "res";
    if (i == OP_USERB) return "UserB";
    if (i == OP_USERS) return "UserS";
    if (i == OP_URESET) return "Ureset";
    return std::string(1, L[i - OP_OSER]) + ".ser";
  }
  bool apply(State& s, size_t op, Ctx*) {
    progress_tick();
    s.n_ops++; s.ser_mismatch.clear();
    if (!s.broken.empty()) return true;
    try {
      if (op < OP_FEED) {
        size_t o = op / MAXJ, j = op % MAXJ;
        if (o >= specs.size() || j >= specs[o].w.size() || j != s.fed_updates[o]) return false;
        s.opnd[o]->update(item_id(o, j), specs[o].w[j]); s.fed_updates[o]++;
      } else if (op < OP_RESULT) {
        const bool rv = op >= OP_FEEDRV; size_t o = rv ? op - OP_FEEDRV : op - OP_FEED;
        if (o >= specs.size() || s.consumed[o]) return false;
        s.result.reset();
        for (size_t j = 0; j < s.fed_updates[o]; ++j) s.fed.add(item_id(o, j), specs[o].w[j]);
        s.consumed[o] = true;
        try { if (rv) s.u->update(std::move(*s.opnd[o])); else s.u->update(*s.opnd[o]); }
        catch (const std::exception& e) { s.broken = std::string("union-update-threw|") + opname(op) + " threw: " + e.what(); }
      } else if (op == OP_RESULT) {
        s.result.reset();
        try { s.result.reset(new Sk(s.u->get_result())); }
        catch (const std::exception& e) { s.broken = std::string("get_result-threw|get_result threw: ") + e.what(); }
      } else if (op == OP_URESET) {   // a reset union is a new union: what was fed before no longer counts
        s.result.reset(); s.u->reset(); s.fed = Truth();
      } else if (op == OP_USERB || op == OP_USERS) {
        s.result.reset();
        try {
          if (op == OP_USERB) { Un::vector_bytes b = s.u->serialize(); s.u.reset(new Un(Un::deserialize(b.data(), b.size()))); }
          else { std::stringstream ss(std::ios::in | std::ios::out | std::ios::binary); s.u->serialize(ss); s.u.reset(new Un(Un::deserialize(ss))); }
        } catch (const std::exception& e) { s.broken = std::string("union-serialize-roundtrip-threw|") + e.what(); }
      } else {
        size_t o = op - OP_OSER; if (o >= specs.size() || s.consumed[o]) return false;
        Obs b4 = observe(*s.opnd[o]);
        try { Sk::vector_bytes b = s.opnd[o]->serialize(); s.opnd[o].reset(new Sk(Sk::deserialize(b.data(), b.size()))); }
        catch (const std::exception& e) { s.broken = std::string("serialize-roundtrip-threw|") + e.what(); return true; }
        Obs af = observe(*s.opnd[o]);
        if (!(b4 == af)) s.ser_mismatch = "restored operand differs";
      }
    } catch (const std::exception& e) { s.broken = std::string("operand-update-threw|") + e.what(); }
    return true;
  }
  static void canon_union(std::string& c, const Un& u) {
    putv(c, u.n_); putv(c, u.outer_tau_numer_); putv(c, u.outer_tau_denom_); putv(c, u.max_k_);
    canon_sketch(c, u.gadget_);
  }
  std::string canon(State& s) {
    std::string c; c.reserve(256);
    for (size_t i = 0; i < specs.size(); ++i) { putv(c, (uint8_t)s.consumed[i]); putv(c, (uint8_t)s.fed_updates[i]); if (!s.consumed[i]) canon_sketch(c, *s.opnd[i]); }   // a consumed operand is never used again
    canon_union(c, *s.u);
    if (s.result) { c += 'R'; canon_sketch(c, *s.result); }
    if (!s.broken.empty()) { c += "B" + s.broken; putv(c, s.n_ops); }
    if (!s.ser_mismatch.empty()) c += "M";
    return c;
  }
  void check(State& s, Ctx& c) {
    if (!s.broken.empty()) { size_t b = s.broken.find('|'); c.fail(s.broken.substr(0, b), s.broken.substr(b + 1)); c.rep.outcome("un|broken|" + s.broken.substr(0, b)); return; }
    if (!s.ser_mismatch.empty()) c.fail("serialize-roundtrip-observation", s.ser_mismatch);
    // union bookkeeping visible through the result only; checked when a result is present
    if (s.result) {
      check_sketch(*s.result, s.fed, c, false, max_k);
      // would the result accept further updates? (information only: not part of the statement)
      const Sk& r = *s.result;
      if (r.r_ > 0 && r.h_ > 0 && r.weights_[0] < r.total_wt_r_ / r.r_) c.rep.outcome("res|H-min-below-tau(not-updatable)");
    } else {
      c.rep.outcome(std::string("un|gadget|") + (s.u->gadget_.r_ > 0 ? "est" : "exact") + "|marksH" + str(s.u->gadget_.num_marks_in_h_) + "|k" + str(s.u->gadget_.k_));
    }
  }
};

// history <-> string (same format as mc::ProbTree::hist_str)
template<class Sys> bool parse_hist(const Sys& sys, const std::string& s, Hist& h) {
  std::map<std::string, size_t> idx; for (size_t i = 0; i < sys.nops(); ++i) idx[sys.opname(i)] = i;
  size_t i = 0;
  while (i < s.size()) {
    size_t e = s.find(';', i); if (e == std::string::npos) e = s.size();
    std::string tok = s.substr(i, e - i), tp; size_t t = tok.find('~');
    if (t != std::string::npos) { tp = tok.substr(t + 1); tok = tok.substr(0, t); }
    if (!idx.count(tok)) return false;
    Step st; st.op = (uint16_t)idx[tok]; st.tape = tape_parse(tp); h.push_back(st);
    i = e + 1;
  }
  return true;
}

} // namespace vo
#endif
