// decoders.hpp -- readers written ONLY from the documented layouts (the "Serialized sketch layout" comments in the headers and the
// DataSketches memory-layout documentation they mirror), never from the serializers. Each decoder parses the image of one corpus
// state and compares what it recovers with what the public API of the live object reports.
// A decoder has the signature  void (const fam::Bytes& image, fam::Obj& live, mc::Ctx& c)  and reports through c.ok/c.eq.
#ifndef DECODERS_HPP
#define DECODERS_HPP
#include "families.hpp"
#include "fam_all.hpp"
#include "oracle_hash.hpp"
#include <fstream>

namespace dec {
using namespace fam;
using mc::str;
typedef std::function<void(const Bytes&, Obj&, mc::Ctx&)> DecoderFn;
inline std::map<std::string, DecoderFn>& table() { static std::map<std::string, DecoderFn> t; return t; }

// little-endian field readers with bounds checks (a decoder must never read outside the image either)
struct Rd {
  const Bytes& b; size_t p; bool ok;
  explicit Rd(const Bytes& bytes): b(bytes), p(0), ok(true) {}
  template<class T> T get() { T v = T(); if (p + sizeof(T) > b.size()) { ok = false; return v; } memcpy(&v, b.data() + p, sizeof(T)); p += sizeof(T); return v; }
  uint8_t u8() { return get<uint8_t>(); } uint16_t u16() { return get<uint16_t>(); } uint32_t u32() { return get<uint32_t>(); } uint64_t u64() { return get<uint64_t>(); }
  float f32() { return get<float>(); } double f64() { return get<double>(); }
  void skip(size_t n) { if (p + n > b.size()) ok = false; else p += n; }
  bool at_end() const { return p == b.size(); }
};

// ---------------- KLL<float> (kll_sketch.hpp "Serialized sketch layout") ----------------
// byte 0 preamble ints (2 for empty/single item, 5 otherwise), 1 serial version (2; 1 for old images without min_k), 2 family 15,
// 3 flags (bit0 empty, bit1 level zero sorted, bit2 single item), 4-5 k, 6 m, 7 unused; then N (8 bytes), min_k (2), num_levels (1), unused (1),
// then num_levels 32-bit level offsets (the last offset = capacity is not stored), then min, max, then the retained items.
inline void kll_float(const Bytes& img, Obj& live, mc::Ctx& c) {
  typedef QObj<QuantTypes<float, 0>::Sk, float, 0> O; O* o = dynamic_cast<O*>(&live); if (!o) { c.fail("decoder-type", "unexpected object type"); return; }
  const QuantTypes<float, 0>::Sk& sk = o->sk;
  Rd r(img);
  uint8_t pre = r.u8(), ver = r.u8(), famid = r.u8(), flags = r.u8(); uint16_t k = r.u16(); uint8_t m = r.u8(); r.u8();
  c.eq("kll.family-id", (int)famid, 15); c.eq("kll.k", (int)k, (int)sk.get_k()); c.eq("kll.m", (int)m, 8);
  const bool empty = flags & 1, single = flags & 4;
  c.eq("kll.flag-empty", empty, sk.is_empty());
  c.eq("kll.flag-single-item", single, sk.get_n() == 1);
  c.eq("kll.preamble-ints", (int)pre, (empty || single) ? 2 : 5);
  c.eq("kll.serial-version", (int)ver, single ? 2 : 1);   // Java KllSketch layout: serial version 2 marks the single-item format, 1 the empty and full formats
  if (empty) { c.ok("kll.empty-image-is-8-bytes", r.ok && r.at_end(), "size " + str(img.size())); return; }
  if (single) { float v = r.f32(); c.ok("kll.single-item", r.ok && r.at_end() && v == sk.get_min_item() && v == sk.get_max_item(), "single item image"); return; }
  uint64_t n = r.u64(); uint16_t min_k = r.u16(); uint8_t nl = r.u8(); r.u8();
  c.eq("kll.n", n, sk.get_n()); c.ok("kll.min_k<=k", min_k <= k && min_k >= 8, "min_k " + str(min_k));
  std::vector<uint32_t> lv(nl); for (uint8_t i = 0; i < nl; ++i) lv[i] = r.u32();
  float mn = r.f32(), mx = r.f32();
  c.eq("kll.min", mn, sk.get_min_item()); c.eq("kll.max", mx, sk.get_max_item());
  // items are stored from level-offset[0] to capacity; the retained count is what remains in the image
  if (!c.ok("kll.header-in-bounds", r.ok && nl >= 1, "image too short")) return;
  size_t rest = (img.size() - r.p) / 4; c.eq("kll.retained", rest, (size_t)sk.get_num_retained());
  c.ok("kll.levels-nondecreasing", std::is_sorted(lv.begin(), lv.end()), "level offsets decrease");
  const uint32_t cap = lv[0] + (uint32_t)rest;
  std::vector<std::pair<float, uint64_t> > items; uint64_t wsum = 0;
  for (uint8_t l = 0; l < nl; ++l) { uint32_t from = lv[l], to = l + 1 < nl ? lv[l + 1] : cap; for (uint32_t i = from; i < to; ++i) { float v = r.f32(); items.push_back(std::make_pair(v, (uint64_t)1 << l)); wsum += (uint64_t)1 << l; } }
  c.ok("kll.image-fully-consumed", r.ok && r.at_end(), "trailing or missing bytes");
  c.eq("kll.weights-sum==n", wsum, n);
  std::vector<std::pair<float, uint64_t> > api; for (auto it = sk.begin(); it != sk.end(); ++it) api.push_back(std::make_pair((*it).first, (*it).second));
  std::sort(items.begin(), items.end()); std::sort(api.begin(), api.end());
  c.ok("kll.items-and-weights==api", items == api, "items decoded from the image differ from the iterator");
}

// ---------------- theta compact, serial version 3 (theta_sketch.hpp / Java CompactSketch layout) ----------------
// byte 0 preamble longs (1 empty, 2 exact, 3 estimation; single item: 1 with flag), 1 serial version 3, 2 family 3, 3 lg_nom (unused in compact),
// 4 lg_arr (unused), 5 flags (bit0 big-endian, bit1 read-only, bit2 empty, bit3 compact, bit4 ordered, bit5 single item), 6-7 seed hash;
// preamble long 1: count (4 bytes) + p (4 bytes float, unused); preamble long 2: theta; then the 64-bit hashes.
inline void theta_v3(const Bytes& img, Obj& live, mc::Ctx& c) {
  ThetaObj* o = dynamic_cast<ThetaObj*>(&live); if (!o) { c.fail("decoder-type", "unexpected object type"); return; }
  if (o->compressed) return;   // the compressed (v4) payload is bit-packed deltas; see theta_v4 below
  const CTheta& sk = o->sk; Rd r(img);
  uint8_t pre = r.u8(), ver = r.u8(), famid = r.u8(); r.u8(); r.u8(); uint8_t flags = r.u8(); uint16_t sh = r.u16();
  c.eq("theta.serial-version", (int)ver, 3); c.eq("theta.family-id", (int)famid, 3); c.eq("theta.seed-hash", sh, oracle::seed_hash(datasketches::DEFAULT_SEED));
  c.ok("theta.flag-compact-readonly", (flags & 8) && (flags & 2), "compact/read-only flags not set"); c.ok("theta.flag-little-endian", !(flags & 1), "big-endian flag set");
  c.eq("theta.flag-empty", (bool)(flags & 4), sk.is_empty()); c.eq("theta.flag-ordered", (bool)(flags & 16), sk.is_ordered());
  uint32_t n = 0; uint64_t theta = 0x7fffffffffffffffULL;
  if (sk.is_empty()) { c.eq("theta.preamble-longs-empty", (int)pre, 1); c.ok("theta.empty-image-is-8-bytes", r.ok && r.at_end(), "size " + str(img.size())); return; }
  if (pre == 1) { n = 1; }   // one preamble long and not empty: single-item format (the hash follows the first long)
  else { n = r.u32(); r.u32(); if (pre >= 3) theta = r.u64(); }
  c.eq("theta.preamble-longs", (int)pre, sk.is_estimation_mode() ? 3 : (sk.get_num_retained() == 1 ? 1 : 2));
  c.eq("theta.num-entries", n, sk.get_num_retained()); c.eq("theta.theta", theta, sk.get_theta64());
  std::vector<uint64_t> e(n); for (uint32_t i = 0; i < n; ++i) e[i] = r.u64();
  c.ok("theta.image-fully-consumed", r.ok && r.at_end(), "trailing or missing bytes");
  std::vector<uint64_t> api; for (auto it = sk.begin(); it != sk.end(); ++it) api.push_back(*it);
  c.ok("theta.entries-in-api-order", e == api, "entries in the image differ from iteration order");
  if (flags & 16) c.ok("theta.ordered-entries-sorted", std::is_sorted(e.begin(), e.end()), "ordered flag set but entries unsorted");
  for (size_t i = 0; i < e.size(); ++i) if (!(e[i] != 0 && e[i] < theta)) { c.fail("theta.entries-below-theta", "entry " + mc::hex64(e[i])); break; }
}

// ---------------- reference images shipped with the repository ----------------
inline Bytes slurp(const std::string& path) { std::ifstream f(path.c_str(), std::ios::binary); return Bytes((std::istreambuf_iterator<char>(f)), std::istreambuf_iterator<char>()); }
void legacy_more(mc::Report& rep, const mc::Config& cfg);   // further reference-image checks (decoders_more.hpp)
inline void legacy_images(mc::Report& rep, const mc::Config& cfg) {
  using namespace datasketches;
  const std::string root = getenv("VERIF_REPO") ? getenv("VERIF_REPO") : "/repo";
  size_t n = 0;
  struct Q { const char* file; int n; };
  const Q qs[] = {{"Qk128_n50_v0.3.0.sk", 50}, {"Qk128_n1000_v0.3.0.sk", 1000}, {"Qk128_n50_v0.6.0.sk", 50}, {"Qk128_n1000_v0.6.0.sk", 1000}, {"Qk128_n50_v0.8.0.sk", 50}, {"Qk128_n1000_v0.8.0.sk", 1000}, {"Qk128_n50_v0.8.3.sk", 50}, {"Qk128_n1000_v0.8.3.sk", 1000}};
  for (size_t i = 0; i < sizeof(qs) / sizeof(qs[0]); ++i) {
    std::string h = qs[i].file; if (!mc::journal("legacy", h)) continue; mc::Ctx c(rep, "legacy", h);
    Bytes b = slurp(root + "/quantiles/test/" + qs[i].file);
    if (c.ok("legacy-file-present", !b.empty(), "cannot read " + h)) for (int path = 0; path < 2; ++path) {
      try {
        std::istringstream is(std::string(b.begin(), b.end()));
        quantiles_sketch<double> sk = path ? quantiles_sketch<double>::deserialize(is) : quantiles_sketch<double>::deserialize(b.data(), b.size());
        c.eq("classic-legacy.k", (int)sk.get_k(), 128); c.eq("classic-legacy.n", (uint64_t)sk.get_n(), (uint64_t)qs[i].n);
        c.eq("classic-legacy.estimation-mode", sk.is_estimation_mode(), qs[i].n > 256);
        c.eq("classic-legacy.min", sk.get_min_item(), 1.0); c.eq("classic-legacy.max", sk.get_max_item(), (double)qs[i].n);
        uint64_t w = 0; for (auto it = sk.begin(); it != sk.end(); ++it) w += (*it).second; c.eq("classic-legacy.weights-sum", w, (uint64_t)qs[i].n);
        double med = sk.get_quantile(0.5); c.ok("classic-legacy.median-plausible", med > 0.4 * qs[i].n && med < 0.6 * qs[i].n, "median " + str(med));
      } catch (const std::exception& e) { c.fail("legacy-image-readable", std::string(path ? "stream: " : "bytes: ") + e.what()); }
    }
    rep.flush_ctx_fails(c.fails, "legacy", h); ++n;
  }
  { std::string h = "kll_sketch_float_one_item_v1.sk"; mc::Ctx c(rep, "legacy", h); Bytes b = slurp(root + "/kll/test/" + h);
    if (mc::journal("legacy", h) && c.ok("legacy-file-present", !b.empty(), "cannot read " + h)) for (int path = 0; path < 2; ++path) {
      try { std::istringstream is(std::string(b.begin(), b.end())); kll_sketch<float> sk = path ? kll_sketch<float>::deserialize(is) : kll_sketch<float>::deserialize(b.data(), b.size());
        c.eq("kll-legacy.n", (uint64_t)sk.get_n(), (uint64_t)1); c.eq("kll-legacy.retained", sk.get_num_retained(), 1u); c.eq("kll-legacy.min==max", sk.get_min_item(), sk.get_max_item()); c.eq("kll-legacy.value", sk.get_min_item(), 1.0f); c.ok("kll-legacy.not-estimation", !sk.is_estimation_mode());
      } catch (const std::exception& e) { c.fail("legacy-image-readable", std::string(path ? "stream: " : "bytes: ") + e.what()); } }
    rep.flush_ctx_fails(c.fails, "legacy", h); ++n; }
  struct T { const char* file; bool empty; bool v1; };
  const T ts[] = {{"theta_compact_empty_from_java_v1.sk", true, true}, {"theta_compact_empty_from_java_v2.sk", true, false}, {"theta_compact_estimation_from_java_v1.sk", false, true}, {"theta_compact_estimation_from_java_v2.sk", false, false}};
  for (size_t i = 0; i < 4; ++i) {
    std::string h = ts[i].file; if (!mc::journal("legacy", h)) continue; mc::Ctx c(rep, "legacy", h); Bytes b = slurp(root + "/theta/test/" + h);
    if (c.ok("legacy-file-present", !b.empty(), "cannot read " + h)) for (int path = 0; path < 3; ++path) {
      try {
        std::string obs;
        if (path == 0) { compact_theta_sketch sk = compact_theta_sketch::deserialize(b.data(), b.size()); obs = theta_obs(sk); }
        else if (path == 1) { std::istringstream is(std::string(b.begin(), b.end())); compact_theta_sketch sk = compact_theta_sketch::deserialize(is); obs = theta_obs(sk); }
        else { wrapped_compact_theta_sketch sk = wrapped_compact_theta_sketch::wrap(b.data(), b.size()); obs = theta_obs(sk); }
        static std::map<std::string, std::string> first; if (!first.count(h)) first[h] = obs;
        c.ok("theta-legacy.paths-agree", first[h] == obs, "bytes / stream / wrap disagree on a legacy image");
        c.ok("theta-legacy.emptiness", (obs.find("empty=1") == 0) == ts[i].empty, obs.substr(0, 120));
        if (!ts[i].empty) { c.ok("theta-legacy.estimation-mode", obs.find("estmode=1") != std::string::npos, obs.substr(0, 160)); c.ok("theta-legacy.ordered", obs.find("|ordered=1|") != std::string::npos, obs.substr(0, 160)); }
      } catch (const std::exception& e) { c.fail("legacy-image-readable", std::string(path == 0 ? "bytes: " : path == 1 ? "stream: " : "wrap: ") + e.what()); }
    }
    rep.flush_ctx_fails(c.fails, "legacy", h); ++n;
  }
  const char* tds[] = {"tdigest_ref_k100_n10000_double.sk", "tdigest_ref_k100_n10000_float.sk"};
  for (int i = 0; i < 2; ++i) {
    std::string h = tds[i]; if (!mc::journal("legacy", h)) continue; mc::Ctx c(rep, "legacy", h); Bytes b = slurp(root + "/tdigest/test/" + h);
    if (c.ok("legacy-file-present", !b.empty(), "cannot read " + h)) for (int path = 0; path < 2; ++path) {
      try { std::istringstream is(std::string(b.begin(), b.end()));
        if (i == 0) { tdigest<double> td = path ? tdigest<double>::deserialize(is) : tdigest<double>::deserialize(b.data(), b.size()); c.eq("tdigest-legacy.k", (int)td.get_k(), 100); c.eq("tdigest-legacy.n", td.get_total_weight(), (uint64_t)10000); c.eq("tdigest-legacy.min", td.get_min_value(), 0.0); c.eq("tdigest-legacy.max", td.get_max_value(), 9999.0); double m = td.get_quantile(0.5); c.ok("tdigest-legacy.median", m > 4900 && m < 5100, str(m)); }
        else { tdigest<float> td = path ? tdigest<float>::deserialize(is) : tdigest<float>::deserialize(b.data(), b.size()); c.eq("tdigest-legacy.k", (int)td.get_k(), 100); c.eq("tdigest-legacy.n", td.get_total_weight(), (uint64_t)10000); c.eq("tdigest-legacy.min", td.get_min_value(), 0.0f); c.eq("tdigest-legacy.max", td.get_max_value(), 9999.0f); }
      } catch (const std::exception& e) { c.fail("legacy-image-readable", std::string(path ? "stream: " : "bytes: ") + e.what()); } }
    rep.flush_ctx_fails(c.fails, "legacy", h); ++n;
  }
  mc::journal_clear();
  rep.evaluations += n; rep.states += n; rep.transitions += n; rep.traces += n;
  rep.scenarios.push_back("legacy: shipped reference images read=" + str(n));
  rep.outcome("legacy");
  (void)cfg;
}

void register_more();   // decoders_more.hpp
inline DecoderFn find(const std::string& family) {
  static bool init = false;
  if (!init) { init = true; table()["kll<float>"] = kll_float; table()["theta-compact"] = theta_v3; register_more(); }
  std::map<std::string, DecoderFn>::iterator it = table().find(family);
  return it == table().end() ? DecoderFn() : it->second;
}

} // namespace dec
#include "decoders_more.hpp"
#endif
