// C07: KLL / REQ / classic quantiles sketches conserve weight, keep exact extremes and answer coherently.
// E1 x E3: BFS over update/merge histories; every outcome of the internal coin flips (and of the raw draw of the
// classic down-sampling merge) is a branch. Oracle: exact multiset of accepted items (quant_common.hpp).
#define MC_MAIN
#include "quant_common.hpp"
using namespace mc;
using namespace qc;

template<class Fam> static OperandSpec opnd(const std::string& name, int k, bool hra, const char* vals, uint64_t fill) {
  OperandSpec s; s.name = name; s.cfg.k = k; s.cfg.hra = hra; s.bit_fill = fill;
  for (const char* p = vals; *p; ++p) s.vals.push_back(*p - '0');
  return s;
}
// an operand that is itself a merge result: (k, vals) merged with (k2, vals2)
template<class Fam> static OperandSpec opnd_merged(const std::string& name, int k, const char* vals, int k2, const char* vals2, bool hra, uint64_t fill) {
  OperandSpec s = opnd<Fam>(name, k, hra, vals, fill); s.merged = true; s.cfg2.k = k2; s.cfg2.hra = hra;
  for (const char* p = vals2; *p; ++p) s.vals2.push_back(*p - '0');
  return s;
}
// value-index strings: each char is an index into Dom<T>::values()
static std::string rep(const char* pat, int n) { std::string s; size_t L = strlen(pat); for (int i = 0; i < n; ++i) s += pat[i % L]; return s; }

template<class Fam>
static void add_tasks(std::vector<Task>& tasks, const Config& cfg, const std::string& fam, const std::vector<Cfg>& cfgs, const std::vector<OperandSpec>& menu,
                      int deep_n, int mix_depth, int mix_max_n, size_t deep_vals, unsigned grid = 64, int long_run = 0, int which = 7, int menu_forms = 7) {
  for (size_t ci = 0; ci < cfgs.size(); ++ci) {
    const Cfg c = cfgs[ci];
    std::string tag = fam + "/k" + str(c.k) + (fam.find("req") == 0 ? std::string(c.hra ? "/hra" : "/lra") : "");
    if (which & 1) { // (a) updates only, deep, restricted domain, every coin outcome
      QuantSys<Fam> sys; sys.nm = tag + "/updates-deep"; sys.slot_cfgs.push_back(c); sys.max_n = deep_n;
      sys.vals.resize(deep_vals);
      sys.add_update_ops(0, true);
      BfsLimits lim; lim.max_depth = deep_n + 2; lim.max_states = 1500000; lim.grid = grid;
      Task t; t.name = sys.nm; t.fn = [sys, lim, &cfg](Report& rep) mutable { explore(sys, rep, cfg, lim); };
      tasks.push_back(t);
    }
    if (which & 2) { // (b) updates and merges with the operand menu (lvalue, rvalue, reversed), shallow
      QuantSys<Fam> sys; sys.nm = tag + "/merge-mix"; sys.slot_cfgs.push_back(c); sys.max_n = mix_max_n; sys.menu = menu;
      sys.add_update_ops(0, false); sys.add_query_op(0); sys.add_menu_ops();   // a query builds the cached sorted view: later merges must invalidate it
      BfsLimits lim; lim.max_depth = mix_depth; lim.max_states = 1500000; lim.grid = grid;
      Task t; t.name = sys.nm; t.fn = [sys, lim, &cfg](Report& rep) mutable { explore(sys, rep, cfg, lim); };
      tasks.push_back(t);
    }
    if (long_run && (which & 4)) { // (c) merges (also into the operand) followed by long runs of updates: bookkeeping a merge leaves behind must hold up
      QuantSys<Fam> sys; sys.nm = tag + "/merge-then-long"; sys.slot_cfgs.push_back(c); sys.max_n = mix_max_n + 2 * long_run + 40; sys.menu = menu; sys.light_check = false;
      sys.add_update_ops(0, false); sys.add_menu_ops(menu_forms); sys.add_long_op(long_run, 0); sys.add_long_op(long_run, 1);
      BfsLimits lim; lim.max_depth = 3; lim.max_states = 1500000; lim.grid = grid;
      Task t; t.name = sys.nm; t.fn = [sys, lim, &cfg](Report& rep) mutable { explore(sys, rep, cfg, lim); };
      tasks.push_back(t);
    }
  }
}

int main(int argc, char** argv) {
  Config cfg = parse_args(argc, argv);
  forbid_unowned_draws();
  const bool q = cfg.quick();
  std::vector<Task> tasks;
  { Task t; t.name = "meta"; t.fn = [](Report& rep) {
      rep.assumptions.push_back("smallest legal k (KLL 8, REQ 4, classic 2) plus unequal-k operands; value domain of 3-4 values; merge operands from a fixed enumerated menu built under fixed coin schedules");
      rep.assumptions.push_back("an unsorted level 0 / base buffer is canonicalised as a multiset (the sketches sort it before any use); sortedness flags are part of the canonical state and are checked against the arrays");
      rep.sets("rule", "BFS over update/merge histories, each coin outcome a branch; distinct = distinct (family, exact/estimating, top level) outcome tag");
    }; tasks.push_back(t); }
  { // KLL float
    typedef KllFam<float, std::less<float> > F;
    std::vector<Cfg> cfgs; Cfg c; c.k = 8; cfgs.push_back(c);
    std::vector<OperandSpec> m;
    m.push_back(opnd<F>("empty", 8, true, "", 0)); m.push_back(opnd<F>("one", 8, true, "2", 0)); m.push_back(opnd<F>("five", 8, true, "01230", 0));
    m.push_back(opnd<F>("full8", 8, true, rep("0123", 8).c_str(), 0));
    m.push_back(opnd<F>("n9c0", 8, true, rep("3210", 9).c_str(), 0)); m.push_back(opnd<F>("n9c1", 8, true, rep("3210", 9).c_str(), 1));
    m.push_back(opnd<F>("n26c0", 8, true, rep("0312", 26).c_str(), 0)); m.push_back(opnd<F>("n26c1", 8, true, rep("0312", 26).c_str(), 1));
    m.push_back(opnd<F>("k9n12", 9, true, rep("1203", 12).c_str(), 1)); m.push_back(opnd<F>("k16n3", 16, true, "312", 0)); m.push_back(opnd<F>("k16n20", 16, true, rep("2013", 20).c_str(), 0));
    m.push_back(opnd_merged<F>("k8n2+n26", 8, "03", 8, rep("0312", 26).c_str(), true, 0));      // level 0 empty after the merge
    m.push_back(opnd_merged<F>("k16n20+k9n12", 16, rep("2013", 20).c_str(), 9, rep("1203", 12).c_str(), true, 1));   // min_k below k
    add_tasks<F>(tasks, cfg, "kll-float", cfgs, m, q ? 19 : 27, q ? 3 : 4, 60, 3, 64, 100);
  }
  { // KLL string with a reversing comparator
    typedef KllFam<std::string, std::greater<std::string> > F;
    std::vector<Cfg> cfgs; Cfg c; c.k = 8; cfgs.push_back(c);
    std::vector<OperandSpec> m;
    m.push_back(opnd<F>("empty", 8, true, "", 0)); m.push_back(opnd<F>("one", 8, true, "1", 0));
    m.push_back(opnd<F>("n9c1", 8, true, rep("0123", 9).c_str(), 1)); m.push_back(opnd<F>("n26c0", 8, true, rep("2031", 26).c_str(), 0)); m.push_back(opnd<F>("k10n14", 10, true, rep("3012", 14).c_str(), 0));
    m.push_back(opnd_merged<F>("k8n2+n26", 8, "03", 8, rep("0312", 26).c_str(), true, 1));
    add_tasks<F>(tasks, cfg, "kll-string-rev", cfgs, m, q ? 12 : 19, q ? 3 : 4, 50, 3);
  }
  { // REQ float, HRA and LRA, both construction coins
    typedef ReqFam<float, std::less<float> > F;
    std::vector<Cfg> cfgs;
    for (int h = 0; h < 2; ++h) { Cfg c; c.k = 4; c.hra = h == 1; c.init_coin = 0; cfgs.push_back(c); }   // the construction coin is enumerated by the explorer
    for (int h = 0; h < 2; ++h) {
      std::vector<OperandSpec> m; bool hra = h == 1;
      m.push_back(opnd<F>("empty", 4, hra, "", 0)); m.push_back(opnd<F>("one", 4, hra, "2", 0)); m.push_back(opnd<F>("n10", 4, hra, rep("0123", 10).c_str(), 0));
      m.push_back(opnd<F>("n24c0", 4, hra, rep("3201", 24).c_str(), 0)); m.push_back(opnd<F>("n24c1", 4, hra, rep("3201", 24).c_str(), 1));
      m.push_back(opnd<F>("n60c1", 4, hra, rep("0132", 60).c_str(), 1)); m.push_back(opnd<F>("k6n40", 6, hra, rep("1230", 40).c_str(), 0));
      m.push_back(opnd_merged<F>("n3+n60", 4, "031", 4, rep("0132", 60).c_str(), hra, 0));
      std::vector<Cfg> sub; for (size_t i = 0; i < cfgs.size(); ++i) if (cfgs[i].hra == hra) sub.push_back(cfgs[i]);
      add_tasks<F>(tasks, cfg, "req-float", sub, m, q ? 30 : 52, q ? 3 : 4, 120, q ? 2 : 3, 64, 160);
      // k = 6 is the smallest k whose sections can shrink (nearest even of 6/sqrt2 is the minimum 4), i.e. whose nominal
      // capacity changes with the number of compactions: operands compacted often enough for that, target of the same k
      std::vector<OperandSpec> m6; m6.push_back(opnd<F>("empty", 6, hra, "", 0)); m6.push_back(opnd<F>("k6n40", 6, hra, rep("1230", 40).c_str(), 0));
      m6.push_back(opnd<F>("k6n240c0", 6, hra, rep("0132", 240).c_str(), 0)); m6.push_back(opnd<F>("k6n240c1", 6, hra, rep("3102", 240).c_str(), 1));
      m6.push_back(opnd<F>("k6n500c1", 6, hra, rep("2013", 500).c_str(), 1));
      // operands of a much larger k merged into the k = 4 sketch: the half promoted from the old top level can overflow the level
      // that the same compression pass has just added
      std::vector<OperandSpec> m4; m4.push_back(opnd<F>("empty", 4, hra, "", 0)); m4.push_back(opnd<F>("k12n150c0", 12, hra, rep("0132", 150).c_str(), 0));
      m4.push_back(opnd<F>("k50n290c1", 50, hra, rep("3102", 290).c_str(), 1)); m4.push_back(opnd<F>("k20n130c0", 20, hra, rep("2013", 130).c_str(), 0));
      add_tasks<F>(tasks, cfg, "req-float-bigk-operands", sub, m4, 0, 0, 330, 2, 64, 300, 4);
      std::vector<Cfg> sub6; { Cfg c6; c6.k = 6; c6.hra = hra; c6.init_coin = 0; sub6.push_back(c6); }
      add_tasks<F>(tasks, cfg, "req-float", sub6, m6, 0, 0, 520, 2, 64, 300, 4);
    }
  }
  { // classic quantiles, int and string
    typedef ClassicFam<int, std::less<int> > F;
    std::vector<Cfg> cfgs; Cfg c; c.k = 2; cfgs.push_back(c); c.k = 4; cfgs.push_back(c);
    std::vector<OperandSpec> m;
    m.push_back(opnd<F>("empty", 2, true, "", 0)); m.push_back(opnd<F>("one", 2, true, "3", 0)); m.push_back(opnd<F>("k2n3", 2, true, "102", 0));
    m.push_back(opnd<F>("k2n4", 2, true, "3120", 0)); m.push_back(opnd<F>("k2n13c0", 2, true, rep("2301", 13).c_str(), 0)); m.push_back(opnd<F>("k2n13c1", 2, true, rep("2301", 13).c_str(), 1));
    m.push_back(opnd<F>("k4n5", 4, true, "01232", 0)); m.push_back(opnd<F>("k4n19c1", 4, true, rep("3021", 19).c_str(), 1)); m.push_back(opnd<F>("k8n40c0", 8, true, rep("0123", 40).c_str(), 0));
    m.push_back(opnd_merged<F>("k2n4+k2n4", 2, "3120", 2, "0213", true, 0));   // n = 8 = 4k: base buffer and level 0 both empty
    add_tasks<F>(tasks, cfg, "classic-int", cfgs, m, q ? 13 : 18, q ? 3 : 4, 70, 3, 32);   // down-sampling offsets have at most 8 outcomes here: grid 32 >= 4x
  }
  {
    typedef ClassicFam<std::string, std::less<std::string> > F;
    std::vector<Cfg> cfgs; Cfg c; c.k = 2; cfgs.push_back(c);
    std::vector<OperandSpec> m;
    m.push_back(opnd<F>("empty", 2, true, "", 0)); m.push_back(opnd<F>("k2n5c1", 2, true, "30212", 1)); m.push_back(opnd<F>("k4n11c0", 4, true, rep("1302", 11).c_str(), 0));
    add_tasks<F>(tasks, cfg, "classic-string", cfgs, m, q ? 10 : 14, q ? 3 : 4, 40, 3, 32);
  }
  // (d) the largest legal sizes: KLL k = 65535, classic k = 32768, REQ k = 254 (the constructor keeps k in 8 bits) and the documented
  // default sizes; two long runs and merges with small-k operands in all three forms. At these sizes almost everything stays exact,
  // so every answer is compared with the true value of the multiset
  { typedef KllFam<float, std::less<float> > F; const int ks[] = {65535, 200};
    for (int i = 0; i < 2; ++i) { Cfg c; c.k = ks[i]; std::vector<Cfg> cfgs(1, c); std::vector<OperandSpec> m;
      m.push_back(opnd<F>("empty", 8, true, "", 0)); m.push_back(opnd<F>("k8n26c1", 8, true, rep("0312", 26).c_str(), 1)); m.push_back(opnd<F>("k16n20", 16, true, rep("2013", 20).c_str(), 0));
      add_tasks<F>(tasks, cfg, "kll-float", cfgs, m, 0, 0, 60, 3, 64, q ? 300 : 700, 4, 3); } }   // no reversed form: a tiny-k operand absorbing hundreds of items is one coin per compaction
  { typedef ReqFam<float, std::less<float> > F; const int ks[] = {254, 12};
    for (int i = 0; i < 2; ++i) for (int h = 0; h < 2; ++h) { Cfg c; c.k = ks[i]; c.hra = h == 1; c.init_coin = 0; std::vector<Cfg> cfgs(1, c); std::vector<OperandSpec> m;
      m.push_back(opnd<F>("empty", ks[i], c.hra, "", 0)); m.push_back(opnd<F>("n60c1", ks[i], c.hra, rep("0132", 60).c_str(), 1));
      add_tasks<F>(tasks, cfg, "req-float", cfgs, m, 0, 0, 120, 2, 64, q ? 300 : 700, 4, 3); } }
  { typedef ClassicFam<int, std::less<int> > F; const int ks[] = {32768, 128};
    for (int i = 0; i < 2; ++i) { Cfg c; c.k = ks[i]; std::vector<Cfg> cfgs(1, c); std::vector<OperandSpec> m;
      // operands in exact mode only: an estimating operand of smaller k makes the classic merge take the copy route, in which a copy of
      // the small sketch absorbs the large one (one coin per compaction at k = 2: an exponential tree)
      m.push_back(opnd<F>("empty", 2, true, "", 0)); m.push_back(opnd<F>("k2n3", 2, true, "102", 0)); m.push_back(opnd<F>("k4n5", 4, true, "01232", 0)); m.push_back(opnd<F>("k8n13", 8, true, rep("0123", 13).c_str(), 0));
      add_tasks<F>(tasks, cfg, "classic-int", cfgs, m, 0, 0, 70, 3, 32, q ? 300 : 700, 4, 3); } }
  return run_tasks(cfg, "C07", tasks);
}
