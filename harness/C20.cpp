// C20: the density sketch keeps exact counts and is exact before its first compaction.
// E1 (mc::Bfs, replay-based BFS to fixpoint of a bounded alphabet) with E3 ownership of the coin (random_bit) and of
// the raw draws of std::shuffle: every outcome of every compaction is a separate transition. Oracle: a boring model
// (k, dim, multiset of inputs, "has any compaction happened" observed through the draws consumed) written from the
// property statement and the public documentation of density_sketch.hpp.
//
// State = sketch under test + model. Alphabet:
//   upd(gi)                     update with grid point i (even i by lvalue, odd i by rvalue)
//   upd(dim+1) / upd(dim-1)     wrong-dimension points: must throw, state unchanged
//   merge(B) / merge(move(B)) / B.merge(this)   for every operand B of the menu (the result of B.merge(this) becomes
//                               the state, so merge trees of both shapes are built)
//   wrong-dimension operands    must throw (non-empty) and leave both sides unchanged
// Operands are built from real update() calls under their own tape, one menu entry per distinct outcome of the
// operand's compaction (discovered with mc::enumerate_outcomes when the scenario is set up).
#define MC_MAIN
#include "core.hpp"
#include "choice.hpp"
#include "bfs.hpp"
#include "prob.hpp"
#include <density_sketch.hpp>
#include <cfloat>
#include <cmath>

using namespace mc;
using namespace datasketches;

// ---------------------------------------------------------------------------------------------------------------
// harness kernel: 1/(1+|x-y|_1), strictly positive
template<class T> struct l1_kernel {
  T operator()(const std::vector<T>& a, const std::vector<T>& b) const {
    T s = 0; size_t n = std::min(a.size(), b.size());
    for (size_t i = 0; i < n; ++i) s += std::fabs(a[i] - b[i]);
    return 1 / (1 + s);
  }
};

// reference kernels in double, written from the definitions (Gaussian: exp(-|x-y|_2^2))
template<class K> struct KInfo;
template<class T> struct KInfo<gaussian_kernel<T> > {
  static const char* name() { return "gauss"; }
  static double ref(const std::vector<double>& a, const std::vector<double>& b) {
    double d2 = 0; for (size_t i = 0; i < a.size(); ++i) { double d = a[i] - b[i]; d2 += d * d; }
    return std::exp(-d2);
  }
};
template<class T> struct KInfo<l1_kernel<T> > {
  static const char* name() { return "l1"; }
  static double ref(const std::vector<double>& a, const std::vector<double>& b) {
    double d1 = 0; for (size_t i = 0; i < a.size(); ++i) d1 += std::fabs(a[i] - b[i]);
    return 1.0 / (1.0 + d1);
  }
};
template<class T> struct TInfo;
template<> struct TInfo<double> { static const char* name() { return "f64"; } static double tol() { return 1e-12; } };
template<> struct TInfo<float>  { static const char* name() { return "f32"; } static double tol() { return 2e-5; } };

// point grids. gridset 2: four points so far apart that the Gaussian kernel between two different ones is exactly 0 (every
// discrepancy sum is a tie at 0). gridset 0: four points with equal kernel values between some pairs (ties in the discrepancy sum, and
// duplicates give K = 1 ties); gridset 1: up to seven points in general position (all pairwise distances distinct).
static std::vector<double> grid_point(int gridset, uint32_t dim, int i) {
  static const double g0d1[4] = {0, 1, 2, 3.5};
  static const double g0d2[4][2] = {{0, 0}, {1, 0}, {0, 1}, {1.5, 2}};
  static const double g1d1[7] = {0, 0.7, 1.9, 3.3, 4.2, 5.95, 7.05};
  static const double g1d2[7][2] = {{0, 0}, {0.7, 0.1}, {0.2, 1.3}, {1.9, 0.9}, {2.3, 2.45}, {0.85, 2.9}, {3.1, 0.35}};
  static const double g2d1[4] = {0, 1000, 2000, 3000};
  static const double g2d2[4][2] = {{0, 0}, {1000, 0}, {0, 1000}, {1000, 1000}};
  std::vector<double> p(dim, 0.25 * (i + 1));     // any other dimension: filler values
  if (gridset == 2) { if (dim == 1) p[0] = g2d1[i]; if (dim == 2) { p[0] = g2d2[i][0]; p[1] = g2d2[i][1]; } return p; }
  if (dim == 1) p[0] = gridset ? g1d1[i] : g0d1[i];
  if (dim == 2) { p[0] = gridset ? g1d2[i][0] : g0d2[i][0]; p[1] = gridset ? g1d2[i][1] : g0d2[i][1]; }
  return p;
}
template<class T> static std::vector<T> cast_point(const std::vector<double>& p) { return std::vector<T>(p.begin(), p.end()); }

static std::vector<std::vector<double> > query_grid(int gridset, uint32_t dim, int P) {
  std::vector<std::vector<double> > q;
  for (int i = 0; i < P; ++i) q.push_back(grid_point(gridset, dim, i));
  if (dim == 1) { const double e[3] = {0.5, -2, 40}; for (int i = 0; i < 3; ++i) q.push_back(std::vector<double>(1, e[i])); }
  else { const double e[3][2] = {{0.5, 0.5}, {-2, 3}, {40, -40}}; for (int i = 0; i < 3; ++i) q.push_back(std::vector<double>(e[i], e[i] + 2)); }
  return q;
}

// libstdc++ std::shuffle with a 64-bit URBG on m elements: if m is even one draw over {0,1}, then one draw over
// (i+1)(i+2) for each further pair of positions i, i+1. Used only by the seam cross-check and to size the probe grid.
static std::vector<uint64_t> shuffle_ranges(size_t m) {
  std::vector<uint64_t> r; size_t i = 1;
  if (m < 2) return r;
  if (m % 2 == 0) { r.push_back(2); i = 2; }
  for (; i < m; i += 2) r.push_back((uint64_t)(i + 1) * (i + 2));
  return r;
}
// largest range of a single raw draw when one compaction consumed `raws` raw draws (level of 2*raws or 2*raws+1 points)
static uint64_t max_range_for_raw_run(size_t raws) { return raws == 0 ? 1 : (uint64_t)(2 * raws) * (2 * raws + 1); }
// libstdc++'s uniform_int_distribution (Lemire multiply-shift) REJECTS a raw value v and draws again when the low word of
// v*n is below 2^64 mod n. That happens exactly for v = c*2^64/n integral, i.e. dyadic fractions such as 1/4, 1/2, 3/4
// when n = 6, 12, 20, 30, ... (the ranges std::shuffle uses). The engine's default fill 2^63 and its interval
// representatives (mid-points of merged intervals: [0,1] -> 1/2, [1/5,3/10] -> 1/4, ...) are such values; a constant
// fill is then redrawn for ever and a representative recurses for ever. Every tape the library draws from in this harness
// therefore has its dyadic raw values (low 32 bits zero; coin values 0/1 are untouched) moved up by 0x1234567 (1e-12 of
// the range): low word = n*0x1234567 >= n > threshold, never rejected, and the outcome is the one the value stands for.
// The mapping is a function of the tape alone, so executions and replays agree.
static uint64_t safe_fill(uint64_t v) { return (v != 0 && (v & 0xffffffffULL) == 0) ? v + 0x1234567ULL : v; }
static void fix_tape(Tape* t) {
  if (!t) return;
  t->raw_fill = safe_fill(t->raw_fill);
  for (size_t i = 0; i < t->v.size(); ++i) t->v[i] = safe_fill(t->v[i]);
}
static uint64_t raw_mid(uint64_t r, uint64_t n) { return (uint64_t)((((unsigned __int128)(2 * r + 1)) << 63) / n); }

// ---------------------------------------------------------------------------------------------------------------
template<class T, class Kern>
struct DenSys {
  typedef density_sketch<T, Kern> Sk;
  struct Operand {
    std::string label; uint16_t k; uint32_t dim; std::vector<int> pts; std::vector<uint64_t> tape; bool compacts;
    Operand(): k(2), dim(1), compacts(false) {}
  };
  struct State {
    std::unique_ptr<Sk> sk;
    uint16_t mk;                    // model: configured k of the sketch that is the state
    std::vector<uint32_t> cnt;      // model: multiplicity of every grid point among all inputs
    uint64_t n;                     // model: number of inputs
    bool compacted;                 // model: some compaction has happened in the merge tree (observed: a draw was consumed)
    int upd, mrg;                   // bounds bookkeeping
    std::string last;               // kind of the last operation (for outcome tags)
    State(): mk(0), n(0), compacted(false), upd(0), mrg(0) {}
  };

  // configuration
  uint16_t k; uint32_t dim; int gridset; int P;     // P grid points in the alphabet
  int U;                                            // at most U updates per history
  int M;                                            // at most M non-empty merges per history
  int Um;                                           // merges enabled only while at most Um updates have been applied
  std::string prefix;                               // the first updates are forced to these grid indices (splits one space over several tasks)
  std::vector<Operand> menu;                        // same-dimension operands
  std::vector<Operand> wrong;                       // wrong-dimension operands: [0] non-empty, [1] empty
  std::string nm;
  // measured
  size_t max_raw_run;                               // largest number of raw draws in one compaction seen in any run
  size_t max_level_compacted;                       // largest level size compacted by an operation of the explored history
                                                    // (exact for the first compaction of an operation, else 2*raws+1)
  size_t predicted_first;                           // size of the level the next operation will compact first (0 = none)
  uint64_t runs_since_ctx, heaviest_runs;           // executions spent on the choice tree of one transition (largest seen)
  std::string last_ctx_hist, heaviest_hist;
  int Rmax;                                         // merges enabled only while retained(this) + retained(operand) <= Rmax

  DenSys(): k(2), dim(1), gridset(0), P(4), U(7), M(0), Um(0), max_raw_run(0), max_level_compacted(0), predicted_first(0), runs_since_ctx(0), heaviest_runs(0), Rmax(1 << 20) {}

  enum { FORM_CREF = 0, FORM_MOVE = 1, FORM_INTO = 2 };
  size_t op_wrong_upd() const { return (size_t)P; }
  size_t op_first_merge() const { return (size_t)P + 2; }
  size_t op_first_wrong_merge() const { return op_first_merge() + 3 * menu.size(); }

  std::string name() const { return nm; }
  size_t nops() const { return op_first_wrong_merge() + 3 * wrong.size(); }
  static const char* form_name(size_t f) { return f == FORM_CREF ? "merge(" : f == FORM_MOVE ? "merge(move(" : "into("; }
  std::string opname(size_t i) const {
    if (i < (size_t)P) return "upd(g" + str(i) + ")";
    if (i == op_wrong_upd()) return "upd(dim+1)";
    if (i == op_wrong_upd() + 1) return "upd(dim-1)";
    if (i < op_first_wrong_merge()) { size_t j = (i - op_first_merge()) / 3, f = (i - op_first_merge()) % 3; return std::string(form_name(f)) + menu[j].label + (f == FORM_MOVE ? "))" : ")"); }
    size_t j = (i - op_first_wrong_merge()) / 3, f = (i - op_first_wrong_merge()) % 3;
    return std::string(form_name(f)) + wrong[j].label + (f == FORM_MOVE ? "))" : ")");
  }

  std::vector<std::vector<T> > pts_cache;   // the alphabet's points, built once
  std::vector<T> point(uint32_t d, int i) const {
    if (d == dim && (size_t)i < pts_cache.size()) return pts_cache[(size_t)i];
    return cast_point<T>(grid_point(gridset, d, i));
  }
  void init_cache() { pts_cache.clear(); for (int i = 0; i < (gridset == 1 ? 7 : 4); ++i) pts_cache.push_back(cast_point<T>(grid_point(gridset, dim, i))); }

  State* make() {
    ++runs_since_ctx;
    State* s = new State(); s->sk.reset(new Sk(k, dim, Kern())); s->mk = k; s->cnt.assign((size_t)std::max(P, 7), 0); return s;
  }

  // --- canonical strings ---------------------------------------------------------------------------------------
  // (hot path: executed once per probe of the interval discovery, hence no iostreams)
  static void put_u(std::string& c, char tag, uint64_t v) { char b[24]; int n = snprintf(b, sizeof b, "%c%llu", tag, (unsigned long long)v); c.append(b, (size_t)n); }
  static void put_d(std::string& c, double v) {
    char b[32]; int n;
    if (v == (double)(int)v && std::fabs(v) < 1e6) n = snprintf(b, sizeof b, "%d", (int)v); else n = snprintf(b, sizeof b, "%.17g", v);
    c.append(b, (size_t)n);
  }
  static std::string sk_canon(const Sk& s) {
    std::string c; c.reserve(160);
    put_u(c, 'k', s.k_); put_u(c, 'd', s.dim_); put_u(c, 'n', s.n_); put_u(c, 'r', s.num_retained_); c += '|';
    for (size_t h = 0; h < s.levels_.size(); ++h) {
      put_u(c, 'L', h); c += ':';
      for (size_t i = 0; i < s.levels_[h].size(); ++i) {
        const typename Sk::Vector& p = s.levels_[h][i];
        for (size_t j = 0; j < p.size(); ++j) { if (j) c += ','; put_d(c, (double)p[j]); }
        c += ';';
      }
      c += '|';
    }
    return c;
  }
  std::string canon(State& s) {
    std::string c = sk_canon(*s.sk);
    put_u(c, 'M', s.mk); put_u(c, 'n', s.n); put_u(c, 'c', s.compacted); put_u(c, 'u', (uint64_t)s.upd); put_u(c, 'm', (uint64_t)s.mrg); c += ':';
    for (size_t i = 0; i < s.cnt.size(); ++i) put_u(c, ',', s.cnt[i]);
    return c;
  }

  // --- operands ------------------------------------------------------------------------------------------------
  // kinds of the draws of one operation: every compaction is one coin followed by the raw draws of its shuffle
  void note_draws(const std::vector<uint8_t>& kinds, bool explored) {
    size_t run = 0, ncomp = 0;
    for (size_t i = 0; i <= kinds.size(); ++i) {
      if (i < kinds.size() && kinds[i] == 1) { ++run; if (run > max_raw_run) max_raw_run = run; continue; }
      if (i > 0 && explored) {   // a compaction ended at i-1
        size_t m = 2 * run + 1;
        if (ncomp == 0 && predicted_first >= 2 && (predicted_first == 2 * run || predicted_first == 2 * run + 1)) m = predicted_first;
        if (m > max_level_compacted) max_level_compacted = m;
        ++ncomp;
      }
      run = 0;
    }
  }
  // which level would a density sketch with these level sizes compact first ("first level holding >= k points")? Used only
  // to tell a 6-point from a 7-point shuffle (both consume three raw draws) when judging the enumeration's validated range.
  static size_t first_full(const std::vector<size_t>& sizes, size_t kk) { for (size_t h = 0; h < sizes.size(); ++h) if (sizes[h] >= kk) return sizes[h]; return 0; }
  static std::vector<size_t> level_sizes(const Sk& a) { std::vector<size_t> v; for (size_t h = 0; h < a.levels_.size(); ++h) v.push_back(a.levels_[h].size()); return v; }
  // Builds operand o with real updates under its own tape. The enclosing operation's coverage state is preserved so
  // that the control-flow signature of the enclosing operation's own draws is not disturbed.
  std::unique_ptr<Sk> build(const Operand& o) {
    const bool on = g_cov_on; const uint64_t h = g_cov_hash;
    Tape t; t.v = o.tape; fix_tape(&t);
    std::unique_ptr<Sk> b;
    { TapeScope sc(t); b.reset(new Sk(o.k, o.dim, Kern())); for (size_t i = 0; i < o.pts.size(); ++i) b->update(point(o.dim, o.pts[i])); }
    g_cov_on = on; g_cov_hash = h;
    if (t.kinds.size() != o.tape.size()) { fprintf(stderr, "HARNESS-ERROR: operand %s consumed %zu draws, its recorded tape has %zu\n", o.label.c_str(), t.kinds.size(), o.tape.size()); abort(); }
    note_draws(t.kinds, false);
    return b;
  }
  // one menu entry per distinct outcome of the draws consumed while building (k, dim, pts)
  void add_operand_outcomes(std::vector<Operand>& dst, const std::string& label, uint16_t ok, uint32_t od, const std::vector<int>& pts, unsigned grid, size_t max_entries) {
    DenSys* self = this;
    RunFn rf = [self, ok, od, &pts](const std::vector<uint64_t>& tape, uint64_t fill) -> RunResult {
      Tape t; t.v = tape; t.set_fill(fill); fix_tape(&t); RunResult r; std::unique_ptr<Sk> b;
      try { TapeScope sc(t); b.reset(new Sk(ok, od, Kern())); for (size_t i = 0; i < pts.size(); ++i) b->update(self->point(od, pts[i])); }
      catch (const std::exception& e) { r.failed = true; r.canon = e.what(); }
      if (!r.failed) r.canon = sk_canon(*b);
      r.kinds = t.kinds; r.seg = t.seg; return r;
    };
    ChoiceStats st; std::vector<Outcome> outs = enumerate_outcomes(rf, grid, st);
    std::map<std::string, std::vector<uint64_t> > distinct;
    for (size_t i = 0; i < outs.size(); ++i) if (!distinct.count(outs[i].canon)) distinct[outs[i].canon] = outs[i].tape;
    size_t j = 0;
    for (std::map<std::string, std::vector<uint64_t> >::iterator it = distinct.begin(); it != distinct.end() && j < max_entries; ++it, ++j) {
      Operand o; o.k = ok; o.dim = od; o.pts = pts; o.tape = it->second; o.compacts = !it->second.empty();
      o.label = label + (distinct.size() > 1 ? "#" + str(j) : std::string());
      dst.push_back(o);
    }
    operand_note += label + ":" + str(std::min(distinct.size(), max_entries)) + "/" + str(distinct.size()) + " ";
  }
  std::string operand_note;   // "label:used/discovered outcomes"

  // --- operations ----------------------------------------------------------------------------------------------
  void after_op(State& s) { Tape* t = cur_tape(); if (t && !t->kinds.empty()) { s.compacted = true; note_draws(t->kinds, true); } predicted_first = 0; }

  // Exceptions out of a valid operation are findings (the engine would otherwise take the operation for "not enabled").
  void unexpected(Ctx* c, const std::exception& e) {
    Tape* t = cur_tape();
    if (t && t->runaway) throw;   // the tape's own runaway guard: let the engine see it
    if (c) c->fail("unexpected-exception", std::string("valid operation threw: ") + e.what());
  }
  bool apply_wrong_update(State& s, size_t op, Ctx* c) {
    const uint32_t d = op == op_wrong_upd() ? dim + 1 : dim - 1;
    const std::string before = c ? canon(s) : std::string();
    bool threw = false;
    std::vector<T> p = point(d, 1);
    try { if (d > dim) s.sk->update(p); else s.sk->update(std::move(p)); } catch (const std::exception&) { threw = true; }
    after_op(s);
    s.last = "wrong-upd";
    if (c) {
      c->ok("wrong-dim-update-refused", threw, "update with a point of dimension " + str(d) + " into a sketch of dimension " + str(dim) + " did not throw");
      c->ok("wrong-dim-update-state-unchanged", canon(s) == before, "state changed by a refused update: " + before + " -> " + canon(s));
      c->rep.outcome(std::string("wrong-upd|") + (threw ? "threw" : "accepted"));
    }
    return true;
  }
  bool apply(State& s, size_t op, Ctx* c) {
    fix_tape(cur_tape());
    if (c) alarm(case_timeout_s());   // mc::journal re-arms its alarm only every 64th call; one transition here can be a whole choice tree
    if (c) { if (runs_since_ctx > heaviest_runs) { heaviest_runs = runs_since_ctx; heaviest_hist = last_ctx_hist; } runs_since_ctx = 0; last_ctx_hist = c->history; }
    predicted_first = 0;
    if ((size_t)s.upd < prefix.size() && !(op < (size_t)P && (char)('0' + op) == prefix[(size_t)s.upd])) return op >= (size_t)P && op < op_first_merge() ? apply_wrong_update(s, op, c) : false;
    if (op < (size_t)P) {
      if (s.upd >= U) return false;
      const uint64_t n0 = s.sk->get_n();
      std::vector<T> p = point(dim, (int)op);
      predicted_first = first_full(level_sizes(*s.sk), s.sk->get_k());
      try { if (op % 2 == 0) s.sk->update(p); else s.sk->update(std::move(p)); } catch (const std::exception& e) { unexpected(c, e); }
      s.cnt[op]++; s.n++; s.upd++; s.last = "upd";
      after_op(s);
      if (c) c->eq("update-adds-1-to-n", s.sk->get_n(), n0 + 1);
      return true;
    }
    if (op < op_first_merge()) return apply_wrong_update(s, op, c);
    const bool is_wrong = op >= op_first_wrong_merge();
    const size_t rel = op - (is_wrong ? op_first_wrong_merge() : op_first_merge());
    const Operand& o = is_wrong ? wrong[rel / 3] : menu[rel / 3];
    const size_t form = rel % 3;
    // merging an empty operand, or an empty state into an empty operand, moves no point and is not counted; every other
    // merge (including a non-empty state into the empty operand, which re-houses it in a fresh sketch) is bounded by M, Um
    const bool counted = !is_wrong && !(o.pts.empty() && (form != FORM_INTO || s.n == 0));
    if (!is_wrong) {
      if (M == 0) return false;
      if (counted && (s.mrg >= M || s.upd > Um)) return false;
    }
    std::unique_ptr<Sk> B = build(o);
    if (counted && (int)(B->get_num_retained() + s.sk->get_num_retained()) > Rmax) return false;
    // the big-k operand holds a single uncompacted level: the level the merge result compacts must stay within 6 points
    if (counted && o.label[0] == 'B' && (form == FORM_INTO || B->get_num_retained() + s.sk->get_num_retained() > 6)) return false;   // (absorbing the state into the big-k operand would later compact a level of 2k' points)
    const std::string cb = sk_canon(*B), ca = sk_canon(*s.sk);
    const uint64_t nb = B->get_n(), na = s.sk->get_n();
    if (!is_wrong) {
      std::vector<size_t> a = level_sizes(*s.sk), b2 = level_sizes(*B);
      if (a.size() < b2.size()) a.swap(b2);
      for (size_t h = 0; h < b2.size(); ++h) a[h] += b2[h];
      predicted_first = first_full(a, form == FORM_INTO ? B->get_k() : s.sk->get_k());
    }
    if (is_wrong) {
      // a non-empty sketch of another dimension must be refused; an empty one carries no points (refusing or ignoring
      // it are both in line with the statement), and merging a non-empty state INTO it must be refused
      const std::string before = c ? canon(s) : std::string();
      bool threw = false;
      try {
        if (form == FORM_CREF) s.sk->merge(*B);
        else if (form == FORM_MOVE) s.sk->merge(std::move(*B));
        else B->merge(*s.sk);
      } catch (const std::exception&) { threw = true; }
      after_op(s);
      s.last = "wrong-merge";
      if (c) {
        const bool points_cross = form == FORM_INTO ? na > 0 : nb > 0;   // would points of one dimension enter a sketch of another?
        if (points_cross) c->ok("wrong-dim-merge-refused", threw, std::string(form_name(form)) + o.label + ") across dimensions did not throw");
        c->ok("wrong-dim-merge-state-unchanged", canon(s) == before, "state changed: " + before + " -> " + canon(s));
        if (form != FORM_MOVE) c->ok("wrong-dim-merge-operand-unchanged", sk_canon(*B) == cb, "operand changed: " + cb + " -> " + sk_canon(*B));
        c->rep.outcome(std::string("wrong-merge|") + (points_cross ? "points" : "nopoints") + (threw ? "|threw" : "|silent"));
      }
      return true;
    }
    try {
    if (form == FORM_CREF) {
      s.sk->merge(*B);
      if (c) c->ok("merge-leaves-const-operand-unchanged", sk_canon(*B) == cb, "operand changed by merge(const&): " + cb + " -> " + sk_canon(*B));
    } else if (form == FORM_MOVE) {
      s.sk->merge(std::move(*B));
    } else {
      B->merge(*s.sk);
      if (c) c->ok("merge-leaves-const-operand-unchanged", sk_canon(*s.sk) == ca, "source changed by merge(const&): " + ca + " -> " + sk_canon(*s.sk));
      s.sk.swap(B); s.mk = o.k;
    }
    } catch (const std::exception& e) { unexpected(c, e); }
    for (size_t i = 0; i < o.pts.size(); ++i) s.cnt[(size_t)o.pts[i]]++;
    s.n += o.pts.size();
    if (o.compacts) s.compacted = true;
    if (counted) s.mrg++;
    s.last = form == FORM_CREF ? "merge" : form == FORM_MOVE ? "merge-move" : "merge-into";
    after_op(s);
    if (c) c->eq("merge-adds-n", s.sk->get_n(), na + nb);
    return true;
  }

  // --- oracle --------------------------------------------------------------------------------------------------
  void check(State& s, Ctx& c) {
    const Sk& sk = *s.sk;
    c.eq("k", sk.get_k(), s.mk);
    c.eq("dim", sk.get_dim(), dim);
    c.eq("n-exact", sk.get_n(), s.n);
    c.eq("is_empty", sk.is_empty(), s.n == 0);
    const uint32_t nr = sk.get_num_retained();
    const size_t levels = sk.levels_.size();
    // public iteration vs the level structure
    std::vector<std::pair<std::vector<T>, uint64_t> > seen;
    {
      typename Sk::const_iterator it = sk.begin(), en = sk.end();
      while (it != en && seen.size() <= 4096) { seen.push_back(std::make_pair(std::vector<T>((*it).first.begin(), (*it).first.end()), (*it).second)); ++it; }
      c.ok("iteration-terminates", seen.size() <= 4096, "iteration yielded more than 4096 points");
    }
    size_t sum_levels = 0; bool weights_ok = true, points_ok = true; std::string wmsg;
    for (size_t h = 0; h < levels; ++h) for (size_t i = 0; i < sk.levels_[h].size(); ++i, ++sum_levels) {
      if (sum_levels >= seen.size()) continue;
      if (seen[sum_levels].second != (1ULL << h)) { weights_ok = false; wmsg = "point " + str(sum_levels) + " of level " + str(h) + " yielded with weight " + str(seen[sum_levels].second); }
      if (seen[sum_levels].first != std::vector<T>(sk.levels_[h][i].begin(), sk.levels_[h][i].end())) points_ok = false;
    }
    c.eq("num_retained==iterated", (size_t)nr, seen.size());
    c.eq("num_retained==sum-of-level-sizes", (size_t)nr, sum_levels);
    c.ok("iterated-weight==2^level", weights_ok, wmsg);
    c.ok("iterated-point==level-point", points_ok, "iteration order differs from level order");
    c.ok("num_retained<=k*levels", (uint64_t)nr <= (uint64_t)sk.get_k() * levels, "retained " + str(nr) + " > k " + str(sk.get_k()) + " * levels " + str(levels));
    { // the level count is visible to users through to_string only
      const std::string ts(sk.to_string().c_str()); const std::string key = "Levels         : ";
      size_t p = ts.find(key);
      c.ok("to_string-levels", p != std::string::npos && (size_t)atoi(ts.c_str() + p + key.size()) == levels, "to_string does not report " + str(levels) + " levels");
    }
    c.eq("estimation-mode-iff-compacted", sk.is_estimation_mode(), s.compacted);
    // every retained point is one of the inputs, and no input instance is retained twice
    {
      std::vector<uint32_t> have(s.cnt.size(), 0); bool member = true; std::string mm;
      for (size_t i = 0; i < seen.size(); ++i) {
        int g = -1;
        for (size_t j = 0; j < s.cnt.size() && j < (size_t)std::max(P, 7); ++j) if ((gridset == 1 || j < 4) && seen[i].first == point(dim, (int)j)) { g = (int)j; break; }
        if (g < 0 || s.cnt[(size_t)g] == 0) { member = false; mm = "retained point #" + str(i) + " is not an input"; } else have[(size_t)g]++;
      }
      c.ok("retained-point-is-an-input", member, mm);
      bool mult = true;
      for (size_t j = 0; j < have.size(); ++j) if (have[j] > s.cnt[j]) { mult = false; mm = "grid point g" + str(j) + " retained " + str(have[j]) + " times, was input " + str(s.cnt[j]) + " times"; }
      c.ok("retained-copies<=input-multiplicity", mult, mm);
    }
    // estimates
    const std::vector<std::vector<double> > qs = query_grid(gridset, dim, P);
    std::string etag = "empty";
    if (s.n > 0) {
      etag = s.compacted ? "approx" : "exact";
      for (size_t qi = 0; qi < qs.size(); ++qi) {
        const std::vector<T> q = cast_point<T>(qs[qi]);
        const double e = (double)sk.get_estimate(q);
        c.ok("estimate-finite", std::isfinite(e), "estimate " + str(e) + " at query " + str(qi));
        c.ok("estimate-nonneg", e >= 0, "estimate " + str(e) + " at query " + str(qi));
        if (!s.compacted || !sk.is_estimation_mode()) {
          double mean = 0;
          for (size_t j = 0; j < s.cnt.size(); ++j) if (s.cnt[j]) mean += s.cnt[j] * KInfo<Kern>::ref(grid_point(gridset, dim, (int)j), std::vector<double>(q.begin(), q.end()));
          mean /= (double)s.n;
          if (!s.compacted) c.near("exact-before-first-compaction", e, mean, TInfo<T>::tol(), 1e-300);
          if (!sk.is_estimation_mode()) c.near("exact-when-not-estimation-mode", e, mean, TInfo<T>::tol(), 1e-300);
        }
      }
    } else {
      bool threw = false; double e = 0;
      try { e = (double)sk.get_estimate(cast_point<T>(qs[0])); } catch (const std::exception&) { threw = true; }
      if (!threw) c.ok("estimate-finite", std::isfinite(e) && e >= 0, "estimate of an empty sketch " + str(e));
    }
    // serialization round trip (plain image; the header_size_bytes variants belong to C09)
    try {
      typename Sk::vector_bytes b0 = sk.serialize();
      std::ostringstream os(std::ios::binary); sk.serialize(os);
      const std::string img = os.str();
      c.ok("serde-bytes==stream", img.size() == b0.size() && (b0.empty() || memcmp(img.data(), b0.data(), b0.size()) == 0), "bytes image " + str(b0.size()) + " B, stream image " + str(img.size()) + " B");
      size_t expect = 12;
      if (s.n > 0) { expect = 24; for (size_t h = 0; h < levels; ++h) expect += 4 + sk.levels_[h].size() * dim * sizeof(T); }
      c.eq("serde-size", b0.size(), expect);
      Sk r1 = Sk::deserialize(b0.data(), b0.size(), Kern());
      std::istringstream is(img + "SENTINEL", std::ios::binary);
      Sk r2 = Sk::deserialize(is, Kern());
      c.eq("serde-stream-position", (long)is.tellg(), (long)img.size());
      const std::string c0 = sk_canon(sk);
      c.ok("serde-restored-bytes-equal", sk_canon(r1) == c0, "restored " + sk_canon(r1) + " original " + c0);
      c.ok("serde-restored-stream-equal", sk_canon(r2) == c0, "restored " + sk_canon(r2) + " original " + c0);
      c.eq("serde-restored-estimation-mode", r1.is_estimation_mode(), sk.is_estimation_mode());
      typename Sk::vector_bytes b1 = r1.serialize();
      c.ok("serde-reserialize-equal", b1.size() == b0.size() && memcmp(b1.data(), b0.data(), b0.size()) == 0, "image of the restored sketch differs");
      if (s.n > 0) c.eq("serde-restored-estimate", (double)r2.get_estimate(cast_point<T>(qs[0])), (double)sk.get_estimate(cast_point<T>(qs[0])));
    } catch (const std::exception& e) { c.fail("serde-exception", std::string("round trip threw: ") + e.what()); }
    c.rep.outcome("k" + str(sk.get_k()) + "|" + etag + "|levels" + str(levels) + "|" + (s.last.empty() ? "init" : s.last) + (nr == (uint64_t)sk.get_k() * levels ? "|full" : ""));
  }
};

// ---------------------------------------------------------------------------------------------------------------
// BFS with the probe grid validated against the largest shuffle that was actually executed.
template<class Sys>
static void run_bfs(Sys sys, Report& rep, const Config& cfg, BfsLimits lim) {
  if (!cfg.only.empty() && sys.name().find(cfg.only) == std::string::npos) return;
  if (!cfg.replay_scenario.empty()) { explore(sys, rep, cfg, lim); return; }
  for (int attempt = 0; attempt < 4; ++attempt) {
    Report r2; r2.property = rep.property; r2.t0 = rep.t0; r2.deadline = rep.deadline;
    sys.max_raw_run = 0; sys.max_level_compacted = 0; sys.heaviest_runs = 0;
    Bfs<Sys> b(sys, r2, lim);
    b.run();
    const uint64_t need = 4 * max_range_for_raw_run(sys.max_raw_run);
    if (need > lim.grid && !r2.past_deadline()) { fprintf(stderr, "[C20] %s: probe grid %u < 4 x %llu (largest shuffle draw range); re-running with %llu\n", sys.name().c_str(), lim.grid, (unsigned long long)(need / 4), (unsigned long long)need); lim.grid = (unsigned)need; continue; }
    if (need > lim.grid) r2.cap("probe grid " + str(lim.grid) + " smaller than 4 x largest shuffle draw range " + str(need / 4) + " in " + sys.name());
    if (sys.max_level_compacted > 6) r2.cap("a level of " + str(sys.max_level_compacted) + " points was compacted in " + sys.name() + "; the completeness of the outcome enumeration is cross-checked against direct enumeration only for levels of up to 6 points (seam scenarios)");
    if (!r2.scenarios.empty()) r2.scenarios.back() += " | grid=" + str(lim.grid) + " largest_shuffle_draw_range=" + str(max_range_for_raw_run(sys.max_raw_run)) + " largest_level_compacted=" + str(sys.max_level_compacted) + " max_intervals_found=" + str(b.cst.max_intervals) + " heaviest_transition=" + str(sys.heaviest_runs) + "runs@[" + sys.heaviest_hist + "] choice_runs=" + str(b.cst.runs) + " operands{" + sys.operand_note + "}";
    r2.count("choice_runs", (double)b.cst.runs); r2.count("choice_leaves", (double)b.cst.leaves); r2.count("bit_choice_points", (double)b.cst.bit_points); r2.count("raw_choice_points", (double)b.cst.raw_points);
    rep.merge_serialized(r2.serialize());
    return;
  }
}

// Seam cross-check: for the first compaction of a k = m sketch (a level of m points with duplicates), the outcomes found
// by interval discovery must be exactly the outcomes obtained by supplying the mid-point of every interval that
// libstdc++'s shuffle is known to use, with the same probabilities. A mismatch is not a violation of the property: it
// means the exploration cannot be trusted to be complete, so the run is marked non-exhaustive with the reason (and the
// message goes to stderr). The pre-state is found by updating until the library draws, so a change in WHEN the library
// compacts does not break the cross-check itself.
static void seam_check(Report& rep, const Config& cfg, size_t m, uint32_t dim, unsigned grid, bool gating) {
  typedef DenSys<double, gaussian_kernel<double> > S;
  S sys; sys.k = (uint16_t)m; sys.dim = dim; sys.gridset = 0; sys.P = 4; sys.U = (int)m + 4; sys.init_cache(); sys.nm = "seam/m" + str(m) + "/d" + str(dim);
  if (!cfg.replay_scenario.empty()) return;
  if (!journal(sys.nm, "discover")) return;
  alarm(600);
  S* sp = &sys; size_t level_size = 0; size_t* lsp = &level_size;
  RunFn rf = [sp, m, lsp](const std::vector<uint64_t>& tape, uint64_t fill) -> RunResult {
    Tape t; t.v = tape; t.set_fill(fill); RunResult r;   // apply() moves dyadic values off the rejection points
    std::unique_ptr<S::State> s(sp->make());
    try {
      TapeScope sc(t);
      for (size_t i = 0; i < m + 4 && t.kinds.empty(); ++i) { *lsp = s->sk->levels_[0].size(); sp->apply(*s, (i * 3 + i / 4) % 4, nullptr); }
    } catch (const std::exception& e) { r.failed = true; r.canon = e.what(); }
    if (!r.failed) r.canon = sp->canon(*s);
    r.kinds = t.kinds; r.seg = t.seg; return r;
  };
  std::string problem;
  ChoiceStats st; std::vector<Outcome> outs = enumerate_outcomes(rf, grid, st, 100000);
  std::map<std::string, double> found, direct;
  for (size_t i = 0; i < outs.size(); ++i) found[outs[i].canon] += outs[i].prob;
  const std::vector<uint64_t> rg = shuffle_ranges(level_size);
  double total = 2; for (size_t i = 0; i < rg.size(); ++i) total *= (double)rg[i];
  std::vector<uint64_t> idx(rg.size(), 0); uint64_t runs = 0;
  if (level_size < 2 || total > 1e6) problem = "no compaction of a level of >= 2 points within " + str(m + 4) + " updates (level size " + str(level_size) + ")";
  while (problem.empty()) {
    for (uint64_t bit = 0; bit < 2 && problem.empty(); ++bit) {
      std::vector<uint64_t> tape; tape.push_back(bit);
      for (size_t i = 0; i < rg.size(); ++i) tape.push_back(raw_mid(idx[i], rg[i]));
      RunResult r = rf(tape, 0); ++runs;
      if (r.failed || r.kinds.size() != tape.size()) problem = "a compaction of " + str(level_size) + " points consumed " + str(r.kinds.size()) + " draws, " + str(tape.size()) + " expected (std::shuffle differs from the libstdc++ the harness was written for, or the library compacts differently)";
      direct[r.canon] += 1.0 / total;
    }
    size_t i = 0; while (i < rg.size() && ++idx[i] == rg[i]) { idx[i] = 0; ++i; }
    if (i == rg.size()) break;
  }
  if (problem.empty()) {
    bool same = found.size() == direct.size();
    for (std::map<std::string, double>::iterator i = direct.begin(); same && i != direct.end(); ++i) { std::map<std::string, double>::iterator f = found.find(i->first); if (f == found.end() || std::fabs(f->second - i->second) > 1e-9) same = false; }
    if (!same) {
      problem = "interval discovery found " + str(found.size()) + " outcomes, direct enumeration of the " + str(total) + " coin x shuffle outcomes gives " + str(direct.size()) + " (grid " + str(grid) + ")";
      for (std::map<std::string, double>::iterator i = direct.begin(); i != direct.end(); ++i) { std::map<std::string, double>::iterator f = found.find(i->first); if (f == found.end() || std::fabs(f->second - i->second) > 1e-9) { problem += "; first difference: " + i->first + " direct " + str(i->second) + " discovered " + (f == found.end() ? std::string("absent") : str(f->second)); break; } }
    }
  }
  journal_clear();
  rep.evaluations += runs + st.runs; rep.states += found.size(); rep.transitions += outs.size(); rep.traces += found.size();
  if (!problem.empty() && !gating) {   // beyond the validated range: recorded, and no BFS scenario may rely on it (run_bfs caps a scenario that compacts such a level)
    rep.scenarios.push_back(sys.nm + ": NOT validated (informational; no scenario compacts a level this large without being marked non-exhaustive): " + problem);
    rep.outcome("seam|m" + str(m) + "|differs");
    return;
  }
  if (!problem.empty()) {
    fprintf(stderr, "HARNESS-WARNING: %s: seam cross-check failed: %s\n", sys.nm.c_str(), problem.c_str());
    rep.cap(sys.nm + ": seam cross-check failed, completeness of the outcome enumeration is not established: " + problem);
    rep.outcome("seam|m" + str(m) + "|FAILED");
    return;
  }
  rep.scenarios.push_back(sys.nm + ": first compaction (level of " + str(level_size) + " points): interval discovery (grid " + str(grid) + ", " + str(st.runs) + " runs, max " + str(st.max_intervals) + " intervals per draw) and direct enumeration of all " + str(total) + " coin x shuffle outcomes agree on " + str(found.size()) + " distinct end states with equal probabilities");
  rep.outcome("seam|m" + str(m) + "|agree");
}

// E3 over a fixed history (informational, not gating): exact distribution over end states; expected total weight of the
// retained copies of every input point. Karnin-Liberty compaction flips every selection bit with the coin when no
// discrepancy sum is exactly 0, so on tie-free inputs the expectation equals the multiplicity; ties (delta == 0, e.g.
// duplicates) are always dropped, so it is lower there. The statement of C20 claims neither; the numbers are recorded.
template<class Sys>
static void e3_expectation(Sys sys, const std::vector<size_t>& ops, Report& rep, const Config& cfg, unsigned grid) {
  if (!cfg.replay_scenario.empty()) { BfsLimits l; l.grid = grid; explore(sys, rep, cfg, l); return; }
  ProbTree<Sys> pt(sys, rep, grid);
  std::vector<Leaf> d = pt.root();
  for (size_t i = 0; i < ops.size(); ++i) d = pt.step(d, ops[i]);
  double mass = 0; std::vector<double> ew(7, 0); double etot = 0; std::vector<uint32_t> cnt; uint64_t n = 0;
  for (size_t li = 0; li < d.size(); ++li) {
    mass += d[li].prob;
    std::unique_ptr<typename Sys::State> s = pt.replay(d[li].hist, nullptr);
    cnt = s->cnt; n = s->n;
    for (typename Sys::Sk::const_iterator it = s->sk->begin(); it != s->sk->end(); ++it) {
      etot += d[li].prob * (double)(*it).second;
      for (int g = 0; g < 7; ++g) if ((sys.gridset == 1 || g < 4) && std::vector<double>((*it).first.begin(), (*it).first.end()) == grid_point(sys.gridset, sys.dim, g)) ew[(size_t)g] += d[li].prob * (double)(*it).second;
    }
  }
  pt.account();
  if (std::fabs(mass - 1) > 1e-9) {   // branches were lost (a crashing case is skipped after it has been reported): no expectation
    fprintf(stderr, "HARNESS-WARNING: E3 mass %.15g != 1 in %s\n", mass, sys.name().c_str());
    rep.cap(sys.name() + ": probability mass " + str(mass) + " != 1 (branches lost to crashing cases); expectations not computed");
    return;
  }
  double worst = 0; std::string per;
  for (size_t g = 0; g < cnt.size(); ++g) if (cnt[g]) { worst = std::max(worst, std::fabs(ew[g] - cnt[g])); per += "g" + str(g) + ":" + str(ew[g]) + "/" + str(cnt[g]) + " "; }
  char b[640]; snprintf(b, sizeof b, "%s: E3 fixed history of %zu ops: %zu merged end states, mass %.12f, %llu choice runs; expected retained weight per input point / multiplicity = %s(total %.9f / n %llu; max deviation %.3g)",
    sys.name().c_str(), ops.size(), d.size(), mass, (unsigned long long)pt.st.runs, per.c_str(), etot, (unsigned long long)n, worst);
  rep.scenarios.push_back(b);
  rep.outcome(std::string("e3|") + (worst < 1e-9 ? "unbiased" : "biased-by-ties"));
  rep.set("e3_" + sys.name(), "{\"end_states\":" + str(d.size()) + ",\"mass\":" + str(mass) + ",\"expected_total_weight\":" + str(etot) + ",\"n\":" + str(n) + ",\"max_abs_deviation_per_point\":" + str(worst) + "}");
}

// ---------------------------------------------------------------------------------------------------------------
struct Scn { int k; int dim; int kern; /*0 gauss 1 l1 2 gauss-float*/ int gridset; int P; int U; int M; int Um; size_t max_outcomes; int raws; const char* pre; const char* ops; /* operand kinds in the menu, default "EUCD" */ };
static std::string scn_suffix(const Scn& sc) { return (sc.pre && *sc.pre ? std::string("/pre") + sc.pre : std::string()) + (sc.ops && *sc.ops ? std::string("/ops") + sc.ops : std::string()); }

template<class T, class Kern>
static DenSys<T, Kern> make_sys(const Scn& sc, unsigned setup_grid) {
  typedef DenSys<T, Kern> S;
  S sys; sys.k = (uint16_t)sc.k; sys.dim = (uint32_t)sc.dim; sys.gridset = sc.gridset; sys.P = sc.P; sys.U = sc.U; sys.M = sc.M; sys.Um = sc.Um; sys.init_cache();
  sys.nm = "bfs/k" + str(sc.k) + "/d" + str(sc.dim) + "/" + KInfo<Kern>::name() + "-" + TInfo<T>::name() + "/grid" + str(sc.gridset) + "/P" + str(sc.P) + "/U" + str(sc.U) + "/M" + str(sc.M) + (sc.M ? "@" + str(sc.Um) : std::string()) + scn_suffix(sc);
  sys.prefix = sc.pre ? sc.pre : "";
  sys.Rmax = 2 * sc.k + 1;
  const int P = sc.P;
  if (sc.M > 0) {
    std::vector<int> none, under, comp, other;
    for (int i = 0; i < sc.k - 1; ++i) under.push_back((i + 1) % P);
    for (int i = 0; i < sc.k + 1; ++i) comp.push_back(i % 2 ? (P - 1) : (i / 2) % P == P - 1 ? 0 : (i / 2) % P);   // duplicates keep the number of distinct outcomes small
    const int ok = sc.k == 2 ? 3 : 2;
    for (int i = 0; i < ok + 1; ++i) other.push_back((P - 1 - i % P + P) % P);
    // B: an operand of a much larger k that holds 2k (k = 2) or k+1 points in a single level (never compacted; the level
    // the receiver then compacts must stay within 6 points, the size up to which shuffle outcomes are enumerated): absorbing it, an (almost) empty
    // receiver of size k must compact at once
    std::vector<int> big; for (int i = 0; i < (sc.k == 2 ? 4 : sc.k + 1); ++i) big.push_back((i * 2 + i / P) % P);
    const std::string kinds = sc.ops && *sc.ops ? sc.ops : "EUCDB";
    if (kinds.find('B') != std::string::npos) sys.add_operand_outcomes(sys.menu, "B" + str(4 * sc.k), (uint16_t)(4 * sc.k), (uint32_t)sc.dim, big, setup_grid, 1);
    if (kinds.find('E') != std::string::npos) sys.add_operand_outcomes(sys.menu, "E", (uint16_t)sc.k, (uint32_t)sc.dim, none, setup_grid, 1);
    if (kinds.find('U') != std::string::npos) sys.add_operand_outcomes(sys.menu, "U", (uint16_t)sc.k, (uint32_t)sc.dim, under, setup_grid, 1);
    if (kinds.find('C') != std::string::npos) sys.add_operand_outcomes(sys.menu, "C", (uint16_t)sc.k, (uint32_t)sc.dim, comp, setup_grid, sc.max_outcomes);
    if (kinds.find('D') != std::string::npos) sys.add_operand_outcomes(sys.menu, "D" + str(ok), (uint16_t)ok, (uint32_t)sc.dim, other, setup_grid, sc.max_outcomes);
  }
  { std::vector<int> none, two; two.push_back(0); two.push_back(1 % P);
    sys.add_operand_outcomes(sys.wrong, "W", (uint16_t)sc.k, (uint32_t)sc.dim + 1, two, setup_grid, 1);
    sys.add_operand_outcomes(sys.wrong, "WE", (uint16_t)sc.k, (uint32_t)sc.dim + 1, none, setup_grid, 1); }
  return sys;
}

// development aid: C20_EXPAND="<history>" expands the last operation of that history in the scenario selected with
// --only and prints the cost of the choice-tree enumeration
template<class Sys>
static void debug_expand(Sys& sys, const std::string& hs, unsigned grid) {
  Report rep; BfsLimits lim; lim.grid = grid; Bfs<Sys> b(sys, rep, lim); Hist h;
  if (!b.parse_hist(hs, h)) { fprintf(stderr, "cannot parse %s\n", hs.c_str()); return; }
  Bfs<Sys>* self = &b; Hist* hp = &h; uint64_t calls = 0; uint64_t* cp = &calls;
  RunFn rf = [self, hp, cp](const std::vector<uint64_t>& tape, uint64_t fill) -> RunResult {
    hp->back().tape = tape; Tape t; bool e2 = true; RunResult r; ++*cp;
    if (getenv("C20_TRACE") && (*cp % 20000 == 0 || *cp < 40)) fprintf(stderr, "  run %llu tape=%s fill=%llx\n", (unsigned long long)*cp, tape_str(tape).c_str(), (unsigned long long)fill);
    try { std::unique_ptr<typename Sys::State> s2 = self->replay(*hp, nullptr, &e2, &t, fill); r.canon = self->sys.canon(*s2); }
    catch (const std::exception& e) { r.failed = true; r.canon = e.what(); }
    r.kinds = t.kinds; r.seg = t.seg; return r;
  };
  double t0 = now_s(); ChoiceStats st; bool capped = false;
  std::vector<Outcome> outs = enumerate_outcomes(rf, grid, st, 1u << 16, &capped);
  std::set<std::string> distinct; for (size_t i = 0; i < outs.size(); ++i) distinct.insert(outs[i].canon);
  fprintf(stderr, "expand %s: leaves=%zu distinct=%zu runs=%llu raw_points=%llu bit_points=%llu max_draws=%llu max_intervals=%llu slivers=%llu capped=%d %.2fs\n", hs.c_str(), outs.size(), distinct.size(),
    (unsigned long long)st.runs, (unsigned long long)st.raw_points, (unsigned long long)st.bit_points, (unsigned long long)st.max_draws, (unsigned long long)st.max_intervals, (unsigned long long)st.slivers, (int)capped, now_s() - t0);
}

template<class T, class Kern>
static void add_bfs_task(std::vector<Task>& tasks, const Scn& sc, const Config& cfg) {
  // the scenario name is needed before the (forked) task builds the system: build a name-only copy cheaply
  Scn nsc = sc;
  std::string nm = "bfs/k" + str(sc.k) + "/d" + str(sc.dim) + "/" + KInfo<Kern>::name() + "-" + TInfo<T>::name() + "/grid" + str(sc.gridset) + "/P" + str(sc.P) + "/U" + str(sc.U) + "/M" + str(sc.M) + (sc.M ? "@" + str(sc.Um) : std::string()) + scn_suffix(sc);
  Task t; t.name = nm;
  t.fn = [nsc, &cfg](Report& rep) {
    const unsigned grid = (unsigned)(4 * max_range_for_raw_run((size_t)nsc.raws));
    DenSys<T, Kern> sys = make_sys<T, Kern>(nsc, std::max(grid, 96u));
    BfsLimits lim; lim.max_depth = 64; lim.max_states = 4000000; lim.grid = grid;
    if (const char* e = getenv("C20_EXPAND")) { if (!cfg.only.empty() && sys.name().find(cfg.only) != std::string::npos) debug_expand(sys, e, grid); return; }
    run_bfs(sys, rep, cfg, lim);
  };
  tasks.push_back(t);
}
static void add_scn(std::vector<Task>& tasks, const Scn& sc, const Config& cfg) {
  if (sc.kern == 0) add_bfs_task<double, gaussian_kernel<double> >(tasks, sc, cfg);
  else if (sc.kern == 1) add_bfs_task<double, l1_kernel<double> >(tasks, sc, cfg);
  else add_bfs_task<float, gaussian_kernel<float> >(tasks, sc, cfg);
}

int main(int argc, char** argv) {
  Config cfg = parse_args(argc, argv);
  forbid_unowned_draws();
  case_timeout_s() = cfg.quick() ? 60 : 300;   // one transition = the complete choice tree of one operation (up to ~10^6 executions under load), not a hang
  const bool q = cfg.quick();
  std::vector<Task> tasks;
  { Task t; t.name = "seam"; t.fn = [&cfg, q](Report& rep) {
      if (!cfg.only.empty() && std::string("seam").find(cfg.only) == std::string::npos) return;
      for (size_t m = 2; m <= (q ? 6u : 7u); ++m) seam_check(rep, cfg, m, m % 2 ? 2 : 1, (unsigned)(4 * max_range_for_raw_run(m / 2)), m <= 6);
      rep.assumptions.push_back("std::shuffle is libstdc++'s: for a level of m points it consumes one raw draw over {0,1} if m is even and then one raw draw over (i+1)(i+2) outcomes per further pair of positions, every outcome an equal sub-interval of the raw range; re-validated at start-up by the seam scenarios (interval discovery == direct enumeration of all outcomes with equal probabilities for levels of m = 2..6 points, with duplicate points; for m = 7 the engine's interval discovery finds every end state but mis-weights a few of the 10080 outcomes, so a scenario that compacts a level of more than 6 points is marked non-exhaustive)");
      rep.assumptions.push_back("raw-draw probe grid G >= 4 x the largest single-draw range of any shuffle executed in the scenario; the range is derived from the number of raw draws per compaction actually consumed (recorded per scenario as grid= / largest_shuffle_draw_range=); a scenario whose grid turns out too small is re-run with a larger one");
      rep.assumptions.push_back("bounds: k in {2,3,4}, dim in {1,2}, T=double (one float scenario), Gaussian and 1/(1+|x-y|_1) kernels; points from a 4-point grid (with ties and duplicates) or a general-position grid; at most U updates and M point-moving merges per history, merges only after at most Um updates and while retained(state)+retained(operand) <= 2k+1 (U, M, Um in the scenario name); operand menu = empty, k-1 points, k+1 points (every distinct compaction outcome), another k with one compaction (every outcome), wrong dimension empty/non-empty");
      rep.assumptions.push_back("self-merge (a.merge(a)) is not in the alphabet; header_size_bytes > 0 serialization is left to C09");
      rep.sets("rule", "BFS (history replay, de-duplication by canonical state = k, dim, n, num_retained, every level's points in order, model multiset, bounds counters) to the fixpoint of the bounded alphabet; every operation that draws is expanded into one transition per outcome of the coin and of every shuffle draw (interval discovery). Oracle evaluated in every new state, transition checks on every transition. Distinct = distinct (k, exact/approx/empty, number of levels, last operation kind, full) outcome tag.");
    }; tasks.push_back(t); }
  // name:            k dim kern gridset P U M Um max_outcomes raws
  std::vector<Scn> scns;
  if (q) {
    // sized for <= 0.9M history replays per task (about 20 s each on an idle core)
    const Scn s[] = {
      {2, 1, 0, 0, 3, 7, 0, 0, 0, 1}, {2, 2, 1, 0, 3, 7, 0, 0, 0, 1}, {2, 1, 1, 0, 4, 5, 0, 0, 0, 1}, {2, 2, 0, 0, 4, 5, 0, 0, 0, 1},
      {2, 1, 0, 0, 2, 4, 1, 3, 2, 2}, {2, 2, 1, 0, 2, 4, 1, 3, 2, 2},
      {3, 1, 1, 0, 2, 8, 0, 0, 0, 2}, {3, 2, 0, 0, 2, 8, 0, 0, 0, 2},
      {3, 1, 0, 0, 2, 4, 1, 3, 2, 2},
      {4, 1, 0, 0, 2, 10, 0, 0, 0, 2}, {4, 2, 1, 0, 2, 10, 0, 0, 0, 2}, {4, 1, 1, 0, 3, 7, 0, 0, 0, 2},
      {4, 2, 0, 0, 2, 5, 1, 2, 2, 2},
      {2, 1, 2, 0, 3, 6, 0, 0, 0, 1},
      // far-apart points (kernel exactly 0 between different points): a compaction may keep nothing at all
      {2, 1, 0, 2, 3, 6, 0, 0, 0, 1}, {2, 2, 0, 2, 2, 4, 1, 3, 2, 2}, {3, 1, 0, 2, 2, 7, 0, 0, 0, 2},
      // deep merge: five forced updates, then the different-k operand in all three forms (a merge that needs two compactions)
      {3, 1, 0, 0, 2, 5, 1, 5, 2, 2, "01000", "D"},
    };
    scns.assign(s, s + sizeof s / sizeof s[0]);
  } else {
    const Scn s[] = {
      // (largest tasks first: the task runner starts tasks in this order)
      // k = 4: 2 points to 2k+3 = 11 updates (split over eight tasks by the first three points; second compaction = 6 points)
      {4, 1, 0, 0, 2, 11, 0, 0, 0, 3, "001"}, {4, 1, 0, 0, 2, 11, 0, 0, 0, 3, "010"}, {4, 1, 0, 0, 2, 11, 0, 0, 0, 3, "011"}, {4, 1, 0, 0, 2, 11, 0, 0, 0, 3, "100"},
      {4, 1, 0, 0, 2, 11, 0, 0, 0, 3, "101"}, {4, 1, 0, 0, 2, 11, 0, 0, 0, 3, "110"}, {4, 1, 0, 0, 2, 11, 0, 0, 0, 3, "000"}, {4, 1, 0, 0, 2, 11, 0, 0, 0, 3, "111"},
      // k = 3 and k = 2 with one merge (full operand menu, every compaction outcome) after <= 3 updates, <= 5 updates in total
      {3, 1, 0, 0, 3, 5, 1, 3, 99, 2, "1"}, {3, 1, 0, 0, 3, 5, 1, 3, 99, 2, "0"}, {3, 1, 0, 0, 3, 5, 1, 3, 99, 2, "2"},
      {2, 1, 0, 0, 3, 5, 1, 3, 99, 2}, {2, 2, 1, 0, 3, 5, 1, 3, 99, 2},
      // k = 4 with one merge
      {4, 1, 0, 0, 2, 6, 1, 2, 4, 2}, {4, 2, 1, 0, 2, 6, 1, 2, 4, 2},
      // k = 3: 3 points to 8 updates; k = 4: 4 points to 8 updates
      {3, 1, 1, 0, 3, 8, 0, 0, 0, 2}, {3, 2, 0, 0, 3, 8, 0, 0, 0, 2},
      {4, 1, 0, 0, 4, 8, 0, 0, 0, 2}, {4, 2, 1, 0, 4, 8, 0, 0, 0, 2},
      // k = 2: every sequence of <= 2k+3 = 7 updates over the 4-point grid, both dimensions, both kernels; general-position grid
      {2, 1, 0, 0, 4, 7, 0, 0, 0, 1}, {2, 2, 0, 0, 4, 7, 0, 0, 0, 1}, {2, 1, 1, 0, 4, 7, 0, 0, 0, 1}, {2, 2, 1, 0, 4, 7, 0, 0, 0, 1},
      {2, 1, 0, 1, 4, 7, 0, 0, 0, 1},
      // k = 2 with two merges
      {2, 2, 0, 0, 2, 4, 2, 2, 2, 2},
      // k = 3: 2 points to 2k+3 = 9 updates, 4 points to 7; one merge after <= 4 updates; deep merges (two compactions in one merge)
      {3, 1, 0, 0, 2, 9, 0, 0, 0, 2}, {3, 2, 1, 0, 2, 9, 0, 0, 0, 2},
      {3, 2, 1, 0, 2, 6, 1, 4, 99, 2},
      {3, 1, 0, 0, 2, 5, 1, 5, 99, 2, "01", "D"}, {3, 2, 1, 0, 2, 5, 1, 5, 99, 2, "10", "D"},
      {3, 1, 0, 0, 4, 7, 0, 0, 0, 2}, {3, 2, 1, 0, 4, 7, 0, 0, 0, 2},
      // k = 4: 3 points to 9, 2 points to 10 updates
      {4, 1, 1, 0, 3, 9, 0, 0, 0, 2}, {4, 2, 0, 0, 3, 9, 0, 0, 0, 2},
      {4, 2, 1, 0, 2, 10, 0, 0, 0, 2},
      // float
      {2, 1, 2, 0, 4, 7, 0, 0, 0, 1}, {3, 2, 2, 0, 2, 9, 0, 0, 0, 2},
      // far-apart points (kernel exactly 0 between different points)
      {2, 1, 0, 2, 4, 7, 0, 0, 0, 1}, {2, 2, 0, 2, 3, 5, 1, 3, 99, 2}, {3, 1, 0, 2, 3, 8, 0, 0, 0, 2}, {3, 2, 0, 2, 2, 5, 1, 4, 99, 2}, {4, 1, 0, 2, 2, 10, 0, 0, 0, 2},
    };
    scns.assign(s, s + sizeof s / sizeof s[0]);
  }
  for (size_t i = 0; i < scns.size(); ++i) add_scn(tasks, scns[i], cfg);
  // E3 over fixed histories (informational expectations; sys.check still gates on every branch)
  // k dim gridset: tie-free = seven distinct points in general position; ties = duplicates and equidistant points
  const int e3cfg[4][3] = {{2, 1, 1}, {2, 2, 0}, {3, 2, 1}, {3, 1, 0}};
  for (int v = 0; v < (q ? 2 : 4); ++v) {
    const int ek = e3cfg[v][0], ed = e3cfg[v][1], eg = e3cfg[v][2];
    Task t; t.name = "e3/k" + str(ek) + "/d" + str(ed) + (eg ? "/tie-free" : "/ties");
    const std::string tname = t.name;
    t.fn = [ek, ed, eg, tname, &cfg](Report& rep) {
      Scn sc = {ek, ed, 0, eg, eg ? 7 : 4, 16, 0, 0, 0, 2, "", ""};
      typedef DenSys<double, gaussian_kernel<double> > S;
      S sys = make_sys<double, gaussian_kernel<double> >(sc, 96);
      sys.nm = tname;
      if (!cfg.only.empty() && tname.find(cfg.only) == std::string::npos) return;
      std::vector<size_t> ops;
      if (eg) for (size_t i = 0; i < 7; ++i) ops.push_back(i);
      else { const size_t o[8] = {0, 0, 1, 0, 2, 1, 3, 0}; ops.assign(o, o + 8); }
      e3_expectation(sys, ops, rep, cfg, 96);
    };
    tasks.push_back(t);
  }
  return run_tasks(cfg, "C20", tasks);
}
