// C17: t-digest conserves weight, keeps exact extremes and is monotone.
// E1 (BFS by history replay, depth bound): short histories over a small value domain, compress-inducing queries,
//     serialization, merges in both directions over an operand menu, self-merge; also from start states restored
//     from hand-built images in the reference (Java t-digest) format whose extreme centroids are heavier than 1.
// E2 (all paths with <= d deviations): long default streams (sorted, reversed, constant, two clusters, alternating
//     extremes, shuffled) that walk through several automatic compressions with alternating merge direction;
//     deviations = query / merge / duplicate run / +-inf inserted at every position.
// Oracle: exact multiset of the accepted values + the clauses of the statement, evaluated on a COPY (queries compress).
#define MC_MAIN
#include "core.hpp"
#include "choice.hpp"
#include "bfs.hpp"
#include "paths.hpp"
#include <tdigest.hpp>
#include <cmath>
#include <limits>

using namespace mc;
using namespace datasketches;

// Fixed multiples of the k2 bucket width (q(1-q)/k + 1/n) allowed for the rank error at true mid-rank q on the enumerated
// long streams (n >= 200). The scale function of the header admits a cluster of up to n*q(1-q)*z/(2k) values with
// z = 4 ln(n/2k) + 24, i.e. about z/2 (18..20 for n <= 1000) times q(1-q)/k of the mass, so ratios of that size are inherent
// (they occur for streams with a gap that a merged digest fills). Worst ratios observed on the unchanged tree over everything
// enumerated in the thorough tier: 20.93 overall, 2.01 for q < 0.01 or q > 0.99. Both constants keep >= 2x margin.
// The much smaller tail multiple is the "smaller still towards the tails" clause of the statement.
static const double ACC_MULTIPLE = 45.0;
static const double ACC_TAIL_MULTIPLE = 6.0;

typedef std::vector<std::pair<std::string, std::string> > Fails;
#define F_GET(_1, _2, _3, _4, NAME, ...) NAME
#define F4(fl, id, cond, msg) do { if (!(cond)) (fl).push_back(std::make_pair(std::string(id), std::string(msg))); } while (0)
#define F3(fl, id, cond) F4(fl, id, cond, "")
#define F(...) F_GET(__VA_ARGS__, F4, F3, F2, F1)(__VA_ARGS__)

static std::string fb(double v) { uint64_t u; memcpy(&u, &v, 8); return hex64(u); }
static std::string fb(float v) { uint32_t u; memcpy(&u, &v, 4); char b[12]; snprintf(b, sizeof b, "%08x", u); return b; }
template<class T> struct Big;
template<> struct Big<double> { static double v() { return 1e300; } static const char* name() { return "double"; } };
template<> struct Big<float> { static float v() { return 1e30f; } static const char* name() { return "float"; } };

static size_t doc_capacity(uint16_t k) { return 2 * (size_t)k + (k < 30 ? 30 : 10); }   // "Centroids capacity" printed by to_string()

enum Kind { K_UPD, K_BLOCK, K_RANK, K_QUANT, K_SER, K_COMPRESS, K_MERGE_IN, K_MERGE_INTO, K_SELF, K_DUPRUN };

template<class T> struct Op { Kind kind; T val; int a; int b; bool def; std::string label; };

// big-endian writers for the reference format (host is little-endian; asserted in main)
static void put_be(std::vector<uint8_t>& o, const void* p, size_t n) { const uint8_t* c = static_cast<const uint8_t*>(p); for (size_t i = n; i > 0; --i) o.push_back(c[i - 1]); }
static void be_d(std::vector<uint8_t>& o, double v) { put_be(o, &v, 8); }
static void be_f(std::vector<uint8_t>& o, float v) { put_be(o, &v, 4); }
static void be_u32(std::vector<uint8_t>& o, uint32_t v) { put_be(o, &v, 4); }
static void be_u16(std::vector<uint8_t>& o, uint16_t v) { put_be(o, &v, 2); }

struct ImgCentroid { double mean; double weight; };
// image variants: (min, max, centroid list) and one multiset of values the image is a legal summary of
static void image_def(int image, double& mn, double& mx, std::vector<ImgCentroid>& cs, std::vector<double>& values, bool& small_encoding) {
  cs.clear(); values.clear(); small_encoding = false;
  ImgCentroid c;
  if (image == 1) {        // both extremes heavy
    mn = 0; mx = 10;
    c.mean = 1; c.weight = 3; cs.push_back(c); c.weight = 1; c.mean = 5; cs.push_back(c); c.mean = 6; cs.push_back(c); c.mean = 7; cs.push_back(c); c.mean = 9; c.weight = 3; cs.push_back(c);
    const double v[] = {0, 1, 2, 5, 6, 7, 8, 9, 10}; values.assign(v, v + 9);
  } else if (image == 2) { // small (float) encoding, heavier
    small_encoding = true; mn = 0; mx = 31;
    c.mean = 1.5; c.weight = 4; cs.push_back(c); c.weight = 1; c.mean = 10; cs.push_back(c); c.mean = 20; cs.push_back(c); c.mean = 30.5; c.weight = 2; cs.push_back(c);
    const double v[] = {0, 1, 2, 3, 10, 20, 30, 31}; values.assign(v, v + 8);
  } else if (image == 3) { // first only
    mn = -1; mx = 6;
    c.mean = 0; c.weight = 2; cs.push_back(c); c.weight = 1; c.mean = 4; cs.push_back(c); c.mean = 6; cs.push_back(c);
    const double v[] = {-1, 1, 4, 6}; values.assign(v, v + 4);
  } else {                 // last only
    mn = 0; mx = 8;
    c.weight = 1; c.mean = 0; cs.push_back(c); c.mean = 4; cs.push_back(c); c.mean = 7; c.weight = 2; cs.push_back(c);
    const double v[] = {0, 4, 6, 8}; values.assign(v, v + 4);
  }
}
static std::vector<uint8_t> image_bytes(int image, uint16_t k, std::vector<double>& values) {
  double mn, mx; std::vector<ImgCentroid> cs; bool small_enc;
  image_def(image, mn, mx, cs, values, small_enc);
  std::vector<uint8_t> o; o.push_back(0); o.push_back(0); o.push_back(0); o.push_back(small_enc ? 2 : 1);
  be_d(o, mn); be_d(o, mx);
  if (!small_enc) { be_d(o, (double)k); be_u32(o, (uint32_t)cs.size()); for (size_t i = 0; i < cs.size(); ++i) { be_d(o, cs[i].weight); be_d(o, cs[i].mean); } }
  else { be_f(o, (float)k); be_u16(o, (uint16_t)doc_capacity(k)); be_u16(o, (uint16_t)(4 * doc_capacity(k))); be_u16(o, (uint16_t)cs.size()); for (size_t i = 0; i < cs.size(); ++i) { be_f(o, (float)cs[i].weight); be_f(o, (float)cs[i].mean); } }
  return o;
}

template<class T>
struct TdSys {
  typedef tdigest<T> TD;
  struct State {
    TD d; std::vector<T> model; bool has_inf; uint64_t steps; bool seen_rm; unsigned since_full; bool force_full;
    Fails deferred;
    explicit State(TD&& x): d(std::move(x)), has_inf(false), steps(0), seen_rm(false), since_full(1000), force_full(true) {}
  };
  std::string nm; uint16_t k; int image; bool e2; unsigned periodic; size_t def_len; std::vector<Op<T> > ops; std::vector<T> stream;
  // measured over the run of this scenario
  double worst_ratio, worst_tail, worst_mid, worst_tail_items, worst_tail_ratio; std::string worst_at; size_t max_centroids; uint64_t acc_states, heavy_api_states, n_full;
  TdSys(): k(10), image(0), e2(false), periodic(0), def_len(0), worst_ratio(0), worst_tail(0), worst_mid(0), worst_tail_items(0), worst_tail_ratio(0), max_centroids(0), acc_states(0), heavy_api_states(0), n_full(0) {}

  std::string name() const { return nm; }
  size_t nops() const { return ops.size(); }
  std::string opname(size_t i) const { return ops[i].label; }

  State* make() {
    if (image == 0) return new State(TD(k));
    std::vector<double> vals; std::vector<uint8_t> img = image_bytes(image, k, vals);
    State* s = new State(TD::deserialize(img.data(), img.size()));
    for (size_t i = 0; i < vals.size(); ++i) s->model.push_back((T)vals[i]);
    std::sort(s->model.begin(), s->model.end());
    return s;
  }

  // ---- operand menu: recipe j -> phases of values, compress() after a phase if flagged; returns k of the operand
  static uint16_t operand(int j, uint16_t k, std::vector<std::vector<T> >& phases, std::vector<bool>& compress_after) {
    phases.clear(); compress_after.clear();
    std::vector<T> forty; for (int i = 0; i < 40; ++i) forty.push_back((T)(-5 + 0.5 * i));
    std::vector<T> p;
    switch (j) {
      case 0: break;                                                                 // empty
      case 1: p.push_back(3); phases.push_back(p); compress_after.push_back(false); break;   // single value
      case 2: { const T v[] = {0, 2, 4, 7, 2}; p.assign(v, v + 5); phases.push_back(p); compress_after.push_back(false); break; }  // buffer only
      case 3: phases.push_back(forty); compress_after.push_back(true); break;        // compressed (one compression: reverse_merge set)
      case 4: { phases.push_back(forty); compress_after.push_back(true); const T v[] = {2, 100, -7}; p.assign(v, v + 3); phases.push_back(p); compress_after.push_back(false); break; }
      case 5: { phases.push_back(forty); compress_after.push_back(true); for (int i = 0; i < 12; ++i) p.push_back((T)(1.25 * i)); phases.push_back(p); compress_after.push_back(true); break; } // two compressions
      case 7: { for (int i = 0; i < 1500; ++i) p.push_back((T)((i * 37 % 1500) * 0.01 - 3)); phases.push_back(p); compress_after.push_back(true); return 200; }   // a much larger k, compressed into far more centroids than a small k allows
      default: { for (int i = 0; i < 60; ++i) p.push_back((T)(0.3 * i - 4)); phases.push_back(p); compress_after.push_back(true);          // different k
                 const T v[] = {1, (T)1e6}; p.assign(v, v + 2); phases.push_back(p); compress_after.push_back(false); return k == 10 ? 20 : 10; }
    }
    return k;
  }
  static TD build_operand(int j, uint16_t k, std::vector<T>& values) {
    std::vector<std::vector<T> > ph; std::vector<bool> ca; uint16_t kk = operand(j, k, ph, ca);
    TD b(kk);
    for (size_t i = 0; i < ph.size(); ++i) { for (size_t x = 0; x < ph[i].size(); ++x) { b.update(ph[i][x]); values.push_back(ph[i][x]); } if (ca[i]) b.compress(); }
    return b;
  }

  static void model_add(State& s, T v) {
    if (std::isnan(v)) return;
    if (std::isinf(v)) s.has_inf = true;
    s.model.insert(std::upper_bound(s.model.begin(), s.model.end(), v), v);
  }
  static void model_merge(State& s, std::vector<T>& vals) {
    std::sort(vals.begin(), vals.end());
    std::vector<T> out(s.model.size() + vals.size());
    std::merge(s.model.begin(), s.model.end(), vals.begin(), vals.end(), out.begin());
    s.model.swap(out);
  }

  std::string digest_canon(const TD& d) const {
    std::string c = str(d.k_) + (d.reverse_merge_ ? "R" : "F") + str(d.centroids_weight_) + "[";
    for (size_t i = 0; i < d.centroids_.size(); ++i) c += fb(d.centroids_[i].get_mean()) + ":" + str(d.centroids_[i].get_weight()) + ",";
    c += "]B{";
    std::vector<T> b(d.buffer_.begin(), d.buffer_.end()); std::sort(b.begin(), b.end());   // the future depends on the buffer as a multiset only
    for (size_t i = 0; i < b.size(); ++i) c += fb(b[i]) + ",";
    c += "}m" + fb(d.min_) + "M" + fb(d.max_);
    return c;
  }
  std::string canon(State& s) {
    std::string c = digest_canon(s.d) + "|";
    for (size_t i = 0; i < s.model.size(); ++i) c += fb(s.model[i]) + ",";
    return c;
  }

  void route(State& s, Ctx* ctx, Fails& fl) {
    if (!ctx || fl.empty()) return;
    if (!e2) { for (size_t i = 0; i < fl.size(); ++i) ctx->fails.push_back(fl[i]); return; }
    // E2: the path engine stops a path at its first failure; defer (first failure per check id) so that one pervasive
    // defect does not hide the rest of the path. Flushed when the default path is complete.
    for (size_t i = 0; i < fl.size(); ++i) {
      bool have = false; for (size_t j = 0; j < s.deferred.size(); ++j) if (s.deferred[j].first == fl[i].first) have = true;
      if (!have) s.deferred.push_back(std::make_pair(fl[i].first, "after default step " + str(s.steps) + ": " + fl[i].second));
    }
  }
  // F(fl, id, cond [, message]) -- the message expression is only evaluated on failure

  // 0: inside; 1: outside by rounding only (a few ulps); 2: grossly outside (or NaN)
  static int within(T v, T mn, T mx) {
    if (v >= mn && v <= mx) return 0;
    double slack = 8.0 * (double)std::numeric_limits<T>::epsilon() * std::max(std::fabs((double)mn), std::fabs((double)mx));
    return ((double)v >= (double)mn - slack && (double)v <= (double)mx + slack) ? 1 : 2;
  }
  bool apply(State& s, size_t opi, Ctx* ctx) {
    const Op<T>& op = ops[opi];
    Fails fl;
    if (op.def) s.steps++; else s.force_full = true;
    switch (op.kind) {
      case K_UPD: s.d.update(op.val); model_add(s, op.val); break;
      case K_BLOCK: for (int i = 0; i < op.b; ++i) { T v = stream[(size_t)op.a + i]; s.d.update(v); model_add(s, v); } break;
      case K_DUPRUN: for (int i = 0; i < op.a; ++i) { s.d.update(op.val); model_add(s, op.val); } break;
      case K_COMPRESS: s.d.compress(); break;
      case K_RANK: case K_QUANT: {
        if (s.model.empty()) {
          std::string before = ctx ? digest_canon(s.d) : std::string();
          bool threw = false;
          try { if (op.kind == K_RANK) s.d.get_rank(op.val); else s.d.get_quantile((double)op.val); } catch (const std::runtime_error&) { threw = true; }
          if (ctx) { F(fl, "query-on-empty-throws", threw, op.label + " on an empty digest did not throw"); F(fl, "failed-query-leaves-state", digest_canon(s.d) == before, "state changed by a throwing query"); }
        } else if (op.kind == K_RANK) {
          double r = s.d.get_rank(op.val);
          if (ctx && !s.has_inf) F(fl, "rank-in-[0,1]", r >= 0 && r <= 1, "get_rank(" + str(op.val) + ") = " + str(r));
        } else {
          T v = s.d.get_quantile((double)op.val);
          if (ctx && !s.has_inf) {
            int w = within(v, s.model.front(), s.model.back());
            F(fl, "quantile-within-[min,max]", w != 2, "get_quantile(" + str(op.val) + ") = " + str(v) + " outside [" + str(s.model.front()) + "," + str(s.model.back()) + "]");
            F(fl, "quantile-within-[min,max]-to-the-last-bit", w != 1, "get_quantile(" + str(op.val) + ") = " + str(v) + " outside [" + str(s.model.front()) + "," + str(s.model.back()) + "]");
          }
        }
        break;
      }
      case K_SER: {
        typename TD::vector_bytes bytes = s.d.serialize(0, false);
        if (ctx) {
          TD r = TD::deserialize(bytes.data(), bytes.size());
          F(fl, "roundtrip-total-weight", r.get_total_weight() == (uint64_t)s.model.size(), "restored weight " + str(r.get_total_weight()) + " expected " + str(s.model.size()));
          if (!s.model.empty()) { F(fl, "roundtrip-min", r.get_min_value() == s.model.front(), "restored min " + str(r.get_min_value())); F(fl, "roundtrip-max", r.get_max_value() == s.model.back(), "restored max " + str(r.get_max_value())); }
        }
        break;
      }
      case K_MERGE_IN: { std::vector<T> vals; TD b = build_operand(op.a, k, vals); s.d.merge(b); model_merge(s, vals); break; }
      case K_MERGE_INTO: { std::vector<T> vals; TD b = build_operand(op.a, k, vals); b.merge(s.d); s.d = std::move(b); model_merge(s, vals); break; }
      case K_SELF: { s.d.merge(s.d); std::vector<T> vals(s.model); model_merge(s, vals); break; }
    }
    route(s, ctx, fl);
    return true;
  }

  // invariants of the representation + the cheap clauses (weight, extremes, boundedness)
  void cheap_checks(const TD& d, const std::vector<T>& model, Fails& fl, const std::string& tag) {
    F(fl, tag + "total-weight==accepted", d.get_total_weight() == (uint64_t)model.size(), "total weight " + str(d.get_total_weight()) + " accepted " + str(model.size()));
    F(fl, tag + "is_empty", d.is_empty() == model.empty(), "is_empty " + str(d.is_empty()) + " with " + str(model.size()) + " accepted values");
    uint64_t w = 0; bool pos = true;
    for (size_t i = 0; i < d.centroids_.size(); ++i) { w += d.centroids_[i].get_weight(); if (d.centroids_[i].get_weight() < 1) pos = false; }
    F(fl, tag + "centroid-weights+buffer==total", w + d.buffer_.size() == d.get_total_weight() && w == d.centroids_weight_, "sum of centroid weights " + str(w) + " + buffered " + str(d.buffer_.size()) + " vs total " + str(d.get_total_weight()));
    F(fl, tag + "centroid-weight>=1", pos, "a centroid has weight 0");
    const size_t cap = doc_capacity(d.get_k());
    F(fl, tag + "centroids<=2k+30", d.centroids_.size() <= cap, str(d.centroids_.size()) + " centroids, k=" + str(d.get_k()));
    F(fl, tag + "buffer<=4(2k+30)", d.buffer_.size() <= 4 * cap, str(d.buffer_.size()) + " buffered values, k=" + str(d.get_k()));
    if (d.centroids_.size() > max_centroids) max_centroids = d.centroids_.size();
    if (!model.empty()) {
      F(fl, tag + "min-exact", d.get_min_value() == model.front(), "min " + str(d.get_min_value()) + " expected " + str(model.front()));
      F(fl, tag + "max-exact", d.get_max_value() == model.back(), "max " + str(d.get_max_value()) + " expected " + str(model.back()));
    }
  }
  static bool means_sorted(const TD& d) { for (size_t i = 1; i < d.centroids_.size(); ++i) if (!(d.centroids_[i - 1].get_mean() <= d.centroids_[i].get_mean())) return false; return true; }

  template<class Fn> static bool throws(Fn fn) { try { fn(); } catch (const std::exception&) { return true; } return false; }

  void full_checks(State& s, Fails& fl, Report& rep) {
    n_full++;
    const std::vector<T>& model = s.model; const size_t n = model.size();
    TD q(s.d);   // queries compress: observe on a copy
    F(fl, "copy-equal", digest_canon(q) == digest_canon(s.d), "copy differs from the original");
    std::string tagk = "k" + str(q.get_k());
    if (n == 0) {
      bool t1 = throws([&q]() { q.get_min_value(); }), t2 = throws([&q]() { q.get_max_value(); }), t3 = throws([&q]() { q.get_rank(1); }), t4 = throws([&q]() { q.get_quantile(0.5); });
      const T sp[] = {1, 2};
      bool t5 = throws([&q, &sp]() { q.get_CDF(sp, 2); }), t6 = throws([&q, &sp]() { q.get_PMF(sp, 2); });
      F(fl, "empty-queries-throw", t1 && t2 && t3 && t4 && t5 && t6, std::string("min/max/rank/quantile/CDF/PMF threw: ") + str(t1) + str(t2) + str(t3) + str(t4) + str(t5) + str(t6));
      // observation only (not a clause of the statement): with zero split points an empty digest answers {1} instead of throwing
      bool t7 = throws([&q]() { q.get_CDF(nullptr, 0); });
      rep.outcome(std::string("empty|") + tagk + (t7 ? "|cdf0-throws" : "|cdf0-returns"));
      return;
    }
    const T mn = model.front(), mx = model.back();
    const bool heavy_first = !s.d.centroids_.empty() && s.d.buffer_.empty() && s.d.centroids_.front().get_mean() != s.d.min_;
    const bool heavy_last = !s.d.centroids_.empty() && s.d.buffer_.empty() && s.d.centroids_.back().get_mean() != s.d.max_;
    F(fl, "centroid-means-sorted", means_sorted(s.d), "centroid means out of order");
    if (s.has_inf) {
      // the statement is about finite values; with an infinity accepted only weight and extremes are demanded (cheap checks);
      // queries are still executed so that a crash or a sanitizer report is seen
      try { q.get_rank(0); q.get_quantile(0.5); q.get_quantile(0.01); q.get_quantile(0.99); q.get_rank(mn); q.get_rank(mx); } catch (const std::exception&) {}
      Fails f2; cheap_checks(q, model, f2, "after-query:"); for (size_t i = 0; i < f2.size(); ++i) fl.push_back(f2[i]);
      rep.outcome("inf|" + tagk + (std::isinf(mn) ? "|-inf" : "") + (std::isinf(mx) ? "|+inf" : ""));
      return;
    }
    // ---- value grid: below min, every distinct value, midpoints, above max
    std::vector<T> dist; std::vector<size_t> cnt_below, cnt_eq;
    for (size_t i = 0; i < n; ) { size_t j = i; while (j < n && model[j] == model[i]) ++j; dist.push_back(model[i]); cnt_below.push_back(i); cnt_eq.push_back(j - i); i = j; }
    std::vector<T> grid; std::vector<int> grid_dist;   // grid_dist: index into dist or -1
    const T lowest = -std::numeric_limits<T>::max(), highest = std::numeric_limits<T>::max();
    if (mn - 1 < mn) { grid.push_back(mn - 1); grid_dist.push_back(-1); }
    { T b = std::nextafter(mn, lowest); if (b < mn && (grid.empty() || b > grid.back())) { grid.push_back(b); grid_dist.push_back(-1); } }
    const size_t n_below = grid.size();
    for (size_t i = 0; i < dist.size(); ++i) {
      grid.push_back(dist[i]); grid_dist.push_back((int)i);
      if (i + 1 < dist.size()) { T m = dist[i] / 2 + dist[i + 1] / 2; if (m > dist[i] && m < dist[i + 1]) { grid.push_back(m); grid_dist.push_back(-1); } }
    }
    const size_t first_above = grid.size();
    { T a = std::nextafter(mx, highest); if (a > mx) { grid.push_back(a); grid_dist.push_back(-1); } }
    if (mx + 1 > grid.back()) { grid.push_back(mx + 1); grid_dist.push_back(-1); }
    // ---- rank
    std::vector<double> ranks(grid.size());
    double prev = 0; bool mono = true, inrange = true; std::string mono_msg, range_msg;
    for (size_t i = 0; i < grid.size(); ++i) {
      double r = q.get_rank(grid[i]); ranks[i] = r;
      if (!(r >= 0 && r <= 1)) { if (inrange) range_msg = "get_rank(" + str(grid[i]) + ") = " + str(r); inrange = false; }
      if (i > 0 && !(r >= prev - 1e-12)) { if (mono) mono_msg = "get_rank(" + str(grid[i - 1]) + ") = " + str(prev) + " > get_rank(" + str(grid[i]) + ") = " + str(r); mono = false; }
      prev = r;
    }
    F(fl, "rank-in-[0,1]", inrange, range_msg);
    F(fl, "rank-non-decreasing", mono, mono_msg);
    for (size_t i = 0; i < n_below; ++i) F(fl, "rank-below-min==0", ranks[i] == 0, "get_rank(" + str(grid[i]) + ") = " + str(ranks[i]) + ", min " + str(mn));
    for (size_t i = first_above; i < grid.size(); ++i) F(fl, "rank-above-max==1", ranks[i] == 1, "get_rank(" + str(grid[i]) + ") = " + str(ranks[i]) + ", max " + str(mx));
    // the queried copy must still satisfy every representation clause
    { Fails f2; cheap_checks(q, model, f2, "after-query:"); for (size_t i = 0; i < f2.size(); ++i) fl.push_back(f2[i]); }
    F(fl, "after-query:centroid-means-sorted", means_sorted(q), "centroid means out of order after compression");
    if (n > 1) F(fl, "query-compresses-buffer", q.buffer_.empty(), "buffer not empty after get_rank");
    // ---- quantile
    {
      T pv = mn; bool qmono = true, qin = true, qulp = true; std::string m1, m2, m3;
      const double tol_rel = std::max(1e-12, 4.0 * (double)std::numeric_limits<T>::epsilon());
      for (int j = 0; j <= 256; ++j) {
        double r = j / 256.0; T v = q.get_quantile(r);
        if (!(v >= mn && v <= mx)) {
          bool ulps = within(v, mn, mx) == 1;
          std::string m = "get_quantile(" + str(r) + ") = " + str(v) + " outside [" + str(mn) + "," + str(mx) + "]";
          if (ulps) { if (qulp) m3 = m; qulp = false; } else { if (qin) m1 = m; qin = false; }
        }
        double tol = tol_rel * std::max(std::fabs((double)pv), std::fabs((double)v));
        if (j > 0 && !((double)v >= (double)pv - tol)) { if (qmono) m2 = "get_quantile(" + str((j - 1) / 256.0) + ") = " + str(pv) + " > get_quantile(" + str(r) + ") = " + str(v); qmono = false; }
        pv = v;
      }
      F(fl, "quantile-within-[min,max]", qin, m1);
      F(fl, "quantile-within-[min,max]-to-the-last-bit", qulp, m3);
      F(fl, "quantile-non-decreasing", qmono, m2);
      T q0 = q.get_quantile(0), q1 = q.get_quantile(1);
      F(fl, "quantile(0)==min", q0 == mn, "get_quantile(0) = " + str(q0) + ", min " + str(mn));
      F(fl, "quantile(1)==max", q1 == mx, "get_quantile(1) = " + str(q1) + ", max " + str(mx));
    }
    // ---- the same clauses when the query is the FIRST one the digest sees (each on its own fresh copy: an earlier query
    // compresses the buffer and can hide what a query does with values still waiting in it)
    {
      TD c0(s.d), c1(s.d), ch(s.d);
      T f0 = c0.get_quantile(0), f1 = c1.get_quantile(1), fh = ch.get_quantile(0.5);
      F(fl, "first-query:quantile(0)==min", f0 == mn, "get_quantile(0) as the first query = " + str(f0) + ", min " + str(mn));
      F(fl, "first-query:quantile(1)==max", f1 == mx, "get_quantile(1) as the first query = " + str(f1) + ", max " + str(mx));
      F(fl, "first-query:quantile-within-[min,max]", fh >= mn && fh <= mx, "get_quantile(0.5) as the first query = " + str(fh) + " outside [" + str(mn) + "," + str(mx) + "]");
      TD cr(s.d); const T mid = dist[dist.size() / 2];
      double rlo = cr.get_rank(mn), rmid = TD(s.d).get_rank(mid), rhi = TD(s.d).get_rank(mx);
      F(fl, "first-query:rank-in-[0,1]-and-ordered", rlo >= 0 && rlo <= rmid + 1e-12 && rmid <= rhi + 1e-12 && rhi <= 1, "get_rank(min), get_rank(median value), get_rank(max) as first queries = " + str(rlo) + ", " + str(rmid) + ", " + str(rhi));
      TD cc(s.d); const T spl[1] = {mid};
      typename TD::vector_double fc = cc.get_CDF(spl, 1);
      F(fl, "first-query:cdf", fc.size() == 2 && fc[0] >= 0 && fc[0] <= 1 && fc[1] == 1, "get_CDF({median value}) as the first query has size " + str(fc.size()));
    }
    // ---- CDF / PMF agree with rank
    {
      // split points: the whole grid, thinned to every 3rd point (ends kept) when it is long
      std::vector<T> sp; std::vector<size_t> spi;
      const size_t stride = grid.size() > 256 ? 3 : 1;
      for (size_t i = 0; i < grid.size(); ++i) if (i % stride == 0 || i + 3 > grid.size() || i < 3) { sp.push_back(grid[i]); spi.push_back(i); }
      typename TD::vector_double cdf = q.get_CDF(sp.data(), (uint32_t)sp.size());
      typename TD::vector_double pmf = q.get_PMF(sp.data(), (uint32_t)sp.size());
      bool sz = cdf.size() == sp.size() + 1 && pmf.size() == sp.size() + 1;
      F(fl, "cdf-pmf-size", sz, "CDF size " + str(cdf.size()) + " PMF size " + str(pmf.size()) + " for " + str(sp.size()) + " split points");
      if (sz) {
        bool same = true, nonneg = true, diff = true; double sum = 0; std::string m;
        for (size_t i = 0; i < sp.size(); ++i) if (!(cdf[i] == ranks[spi[i]])) { if (same) m = "CDF[" + str(i) + "] = " + str(cdf[i]) + " but get_rank(" + str(sp[i]) + ") = " + str(ranks[spi[i]]); same = false; }
        F(fl, "cdf==ranks", same, m);
        F(fl, "cdf-last==1", cdf.back() == 1, "last CDF entry " + str(cdf.back()));
        for (size_t i = 0; i < pmf.size(); ++i) {
          sum += pmf[i]; if (!(pmf[i] >= -1e-12)) nonneg = false;
          double expect = i == 0 ? cdf[0] : cdf[i] - cdf[i - 1]; if (!(std::fabs(pmf[i] - expect) <= 1e-12)) diff = false;
        }
        F(fl, "pmf>=0", nonneg, "a PMF entry is negative");
        F(fl, "pmf==cdf-differences", diff, "PMF is not the difference of CDF");
        F(fl, "pmf-sums-to-1", std::fabs(sum - 1) <= 1e-9, "PMF sums to " + str(sum));
      }
      typename TD::vector_double c0 = q.get_CDF(nullptr, 0);
      F(fl, "cdf-no-splits=={1}", c0.size() == 1 && c0[0] == 1, "CDF without split points");
    }
    // ---- invalid queries throw
    {
      const T nan = std::numeric_limits<T>::quiet_NaN();
      const T bad1[] = {1, nan}, bad2[] = {2, 1}, bad3[] = {1, 1};
      bool t1 = throws([&q, nan]() { q.get_rank(nan); }), t2 = throws([&q]() { q.get_quantile(-0.01); }), t3 = throws([&q]() { q.get_quantile(1.01); });
      bool t4 = throws([&q, &bad1]() { q.get_CDF(bad1, 2); }), t5 = throws([&q, &bad2]() { q.get_CDF(bad2, 2); }), t6 = throws([&q, &bad3]() { q.get_PMF(bad3, 2); });
      F(fl, "invalid-queries-throw", t1 && t2 && t3 && t4 && t5 && t6, std::string("rank(NaN)/quantile(<0)/quantile(>1)/CDF(NaN)/CDF(unsorted)/PMF(duplicate) threw: ") + str(t1) + str(t2) + str(t3) + str(t4) + str(t5) + str(t6));
    }
    // ---- accuracy clause over the enumerated long streams
    bool acc = false;
    if (e2 && n >= 200) {
      acc = true; acc_states++;
      double wt = -1, wm = -1, wr = 0, wtr = 0; std::string worst_msg, tail_msg;
      const double kk = (double)q.get_k();
      for (size_t gi = 0; gi < grid.size(); ++gi) {
        if (grid_dist[gi] < 0) continue;
        size_t di = (size_t)grid_dist[gi];
        double truth = ((double)cnt_below[di] + 0.5 * (double)cnt_eq[di]) / (double)n;
        double err = std::fabs(ranks[gi] - truth);
        double unit = truth * (1 - truth) / kk + 1.0 / (double)n;
        if (err / unit > wr) { wr = err / unit; worst_msg = "value " + str(grid[gi]) + ": rank " + str(ranks[gi]) + " true " + str(truth) + " error " + str(err) + " = " + str(err / unit) + " x (q(1-q)/k + 1/n), n=" + str(n) + " k=" + str(kk); }
        if (truth < 0.01 || truth > 0.99) { wt = std::max(wt, err); if (err / unit > wtr) { wtr = err / unit; tail_msg = "value " + str(grid[gi]) + ": rank " + str(ranks[gi]) + " true " + str(truth) + " error " + str(err) + " = " + str(err / unit) + " x (q(1-q)/k + 1/n), n=" + str(n) + " k=" + str(kk); } }
        if (truth >= 0.25 && truth <= 0.75) wm = std::max(wm, err);
      }
      F(fl, "rank-error<=multiple-of-bucket-width", wr <= ACC_MULTIPLE, worst_msg);
      // relative clause ("smaller still towards the tails"): for true ranks below 0.01 / above 0.99 a much smaller multiple of the
      // same q-dependent unit is allowed, so that the tail allowance (about 0.01 at n=650, k=10) is far below the middle one
      F(fl, "tail-rank-error<=small-multiple-of-bucket-width", wtr <= ACC_TAIL_MULTIPLE, tail_msg);
      worst_tail_ratio = std::max(worst_tail_ratio, wtr);
      if (wr > worst_ratio) worst_at = worst_msg + " @" + str(s.steps);
      worst_tail_items = std::max(worst_tail_items, wt * (double)n);
      worst_ratio = std::max(worst_ratio, wr); worst_tail = std::max(worst_tail, wt); worst_mid = std::max(worst_mid, wm);
    }
    // ---- reachability of heavy extreme centroids through the public API (DESIGN: flagged branches of get_rank)
    const bool qheavy = q.centroids_.front().get_mean() != q.min_ || q.centroids_.back().get_mean() != q.max_;
    if (image == 0 && (qheavy || heavy_first || heavy_last)) heavy_api_states++;
    // ---- vacuity tag
    bool merged = false; for (size_t i = 0; i < q.centroids_.size(); ++i) if (q.centroids_[i].get_weight() > 1) merged = true;
    std::string tag = tagk + (n == 1 ? "|single" : n < 200 ? "|short" : "|long") + (s.d.buffer_.empty() ? "" : "|buffered") + (s.d.centroids_.empty() ? "" : "|centroids")
      + (merged ? "|merged" : "|singletons") + (s.d.reverse_merge_ ? "|rev" : "|fwd") + (dist.size() < n ? "|dups" : "") + (qheavy ? "|heavy-extreme" : "") + (acc ? "|acc" : "") + (image ? "|image" : "");
    rep.outcome(tag);
  }

  void check(State& s, Ctx& c) {
    Fails fl;
    cheap_checks(s.d, s.model, fl, "");
    bool full = !e2 || s.force_full || s.d.reverse_merge_ != s.seen_rm || (periodic && s.since_full >= periodic) || s.steps >= def_len;
    if (full) { full_checks(s, fl, c.rep); s.seen_rm = s.d.reverse_merge_; s.since_full = 0; s.force_full = false; }
    else s.since_full++;
    route(s, &c, fl);
    if (e2 && s.steps >= def_len && !s.deferred.empty()) { for (size_t i = 0; i < s.deferred.size(); ++i) c.fails.push_back(s.deferred[i]); s.deferred.clear(); }
  }

  void summary(Report& rep) const {
    char b[640]; snprintf(b, sizeof b, "%s: full_checks=%llu max_centroids=%zu (bound %zu) accuracy_states=%llu worst_error_ratio=%.3f (allowed %.1f) worst_tail_ratio=%.3f (allowed %.1f) worst_tail_err=%.5f worst_mid_err=%.5f heavy_extreme_states=%llu",
      nm.c_str(), (unsigned long long)n_full, max_centroids, doc_capacity(k), (unsigned long long)acc_states, worst_ratio, ACC_MULTIPLE, worst_tail_ratio, ACC_TAIL_MULTIPLE, worst_tail, worst_mid, (unsigned long long)heavy_api_states);
    rep.scenarios.push_back(b);
    if (getenv("C17_DEBUG")) fprintf(stderr, "%s: worst at %s; worst tail error in items %.3f\n", nm.c_str(), worst_at.c_str(), worst_tail_items);
    rep.count("full_oracle_evaluations", (double)n_full);
    rep.count("accuracy_states", (double)acc_states);
    if (image == 0) rep.count("states_with_heavy_extreme_centroid_reached_through_public_api", (double)heavy_api_states);
  }
};

template<class T> static Op<T> mk(Kind kind, T val, int a, int b, bool def, const std::string& label) { Op<T> o; o.kind = kind; o.val = val; o.a = a; o.b = b; o.def = def; o.label = label; return o; }

// E1 alphabet
template<class T> static void e1_ops(TdSys<T>& sys, bool merges, bool into) {
  const T nan = std::numeric_limits<T>::quiet_NaN();
  sys.ops.push_back(mk<T>(K_UPD, 1, 0, 0, false, "upd(1)"));
  sys.ops.push_back(mk<T>(K_UPD, 2, 0, 0, false, "upd(2)"));
  sys.ops.push_back(mk<T>(K_UPD, 5, 0, 0, false, "upd(5)"));
  sys.ops.push_back(mk<T>(K_UPD, -3, 0, 0, false, "upd(-3)"));
  sys.ops.push_back(mk<T>(K_UPD, Big<T>::v(), 0, 0, false, "upd(big)"));
  sys.ops.push_back(mk<T>(K_UPD, nan, 0, 0, false, "upd(nan)"));
  sys.ops.push_back(mk<T>(K_RANK, 2, 0, 0, false, "rank(2)"));
  sys.ops.push_back(mk<T>(K_QUANT, (T)0.5, 0, 0, false, "quantile(0.5)"));
  sys.ops.push_back(mk<T>(K_SER, 0, 0, 0, false, "serialize"));
  sys.ops.push_back(mk<T>(K_COMPRESS, 0, 0, 0, false, "compress"));
  sys.ops.push_back(mk<T>(K_SELF, 0, 0, 0, false, "merge(self)"));
  if (merges) for (int j = 0; j <= 7; ++j) sys.ops.push_back(mk<T>(K_MERGE_IN, 0, j, 0, false, "merge(B" + str(j) + ")"));
  if (into) for (int j = 0; j <= 6; ++j) sys.ops.push_back(mk<T>(K_MERGE_INTO, 0, j, 0, false, "B" + str(j) + ".merge(this)"));
}

template<class T> static std::vector<T> make_stream(const std::string& kind, size_t n) {
  std::vector<T> v;
  for (size_t i = 0; i < n; ++i) {
    if (kind == "sorted") v.push_back((T)i);
    else if (kind == "reversed") v.push_back((T)(n - 1 - i));
    else if (kind == "constant") v.push_back((T)7);
    else if (kind == "clusters") v.push_back((T)((i & 1) ? 1000 + 0.001 * (double)i : 0.001 * (double)i));
    else if (kind == "altext") v.push_back((T)((i & 1) ? -(double)i : (double)i));
    else v.push_back((T)((i * 389 + 17) % 1009));   // "shuffled": distinct for n <= 1009
  }
  return v;
}

template<class T> static void add_e1(std::vector<Task>& tasks, const Config& cfg, uint16_t k, int image, const std::string& variant, bool merges, bool into, int depth, size_t max_states) {
  TdSys<T> sys; sys.k = k; sys.image = image; sys.e2 = false;
  e1_ops(sys, merges, into);
  sys.nm = std::string("e1/") + Big<T>::name() + "/k" + str(k) + (image ? "/image" + str(image) : "") + "/" + variant;
  BfsLimits lim; lim.max_depth = depth; lim.max_states = max_states;
  Task t; t.name = sys.nm; t.fn = [sys, lim, &cfg](Report& rep) mutable { explore(sys, rep, cfg, lim); sys.summary(rep); };
  tasks.push_back(t);
}

template<class T> static void add_e2(std::vector<Task>& tasks, const Config& cfg, uint16_t k, const std::string& stream, size_t n, int block, int max_dev, int menu_part = 0) {
  TdSys<T> sys; sys.k = k; sys.image = 0; sys.e2 = true;
  sys.periodic = cfg.quick() ? 0 : 64;   // thorough: additionally a full oracle evaluation every 64 steps between compressions
  sys.stream = make_stream<T>(stream, n);
  std::vector<T> sorted(sys.stream); std::sort(sorted.begin(), sorted.end());
  const T mid = sorted[n / 2], inf = std::numeric_limits<T>::infinity();
  // deviation menu
  sys.ops.push_back(mk<T>(K_QUANT, (T)0.5, 0, 0, false, "quantile(0.5)"));
  sys.ops.push_back(mk<T>(K_RANK, mid, 0, 0, false, "rank(mid)"));
  sys.ops.push_back(mk<T>(K_MERGE_IN, 0, 4, 0, false, "merge(B4)"));
  sys.ops.push_back(mk<T>(K_MERGE_INTO, 0, 5, 0, false, "B5.merge(this)"));
  sys.ops.push_back(mk<T>(K_MERGE_IN, 0, 6, 0, false, "merge(B6)"));
  sys.ops.push_back(mk<T>(K_DUPRUN, mid, 30, 0, false, "duprun(mid,30)"));
  sys.ops.push_back(mk<T>(K_UPD, inf, 0, 0, false, "upd(+inf)"));
  sys.ops.push_back(mk<T>(K_UPD, -inf, 0, 0, false, "upd(-inf)"));
  std::vector<size_t> menu, def;
  for (size_t i = 0; i < sys.ops.size(); ++i) if (menu_part == 0 || (menu_part == 1) == (i < 4)) menu.push_back(i);
  if (block <= 1) for (size_t i = 0; i < n; ++i) { def.push_back(sys.ops.size()); sys.ops.push_back(mk<T>(K_UPD, sys.stream[i], 0, 0, true, "u" + str(i))); }
  else for (size_t i = 0; i < n; i += (size_t)block) { def.push_back(sys.ops.size()); sys.ops.push_back(mk<T>(K_BLOCK, 0, (int)i, (int)std::min((size_t)block, n - i), true, "blk" + str(i))); }
  sys.def_len = def.size();
  sys.nm = std::string("e2/") + Big<T>::name() + "/k" + str(k) + "/" + stream + "/n" + str(n) + "/b" + str(block) + "/d" + str(max_dev) + (menu_part == 1 ? "/menuA" : menu_part == 2 ? "/menuB" : "");
  PathLimits pl; pl.max_dev = max_dev; pl.check_stride = 1;
  Task t; t.name = sys.nm; t.fn = [sys, def, menu, pl, &cfg](Report& rep) mutable { explore_paths(sys, def, menu, rep, cfg, pl); sys.summary(rep); };
  tasks.push_back(t);
}

int main(int argc, char** argv) {
  Config cfg = parse_args(argc, argv);
  { uint16_t one = 1; uint8_t b; memcpy(&b, &one, 1); if (b != 1) { fprintf(stderr, "HARNESS-ERROR big-endian host not supported by the image builder\n"); return 3; } }
  forbid_unowned_draws();
  const bool q = cfg.quick();
  std::vector<Task> tasks;
  { Task t; t.name = "meta"; t.fn = [](Report& rep) {
      rep.sets("rule", "E1: BFS by history replay over update/NaN/query/serialize/compress/merge(B_j)/B_j.merge(this)/self-merge on the product (tdigest x exact multiset) to a depth bound; "
        "E2: every path with <= d deviations (query, merge, duplicate run, +-inf at every position) from long default streams; weight/extremes/boundedness clauses after every step, "
        "the full oracle (value grid, 257 ranks, CDF/PMF, invalid queries, accuracy) on a copy after every deviation, after every compression (change of merge direction), at the end of the path and, thorough tier, every 64 steps. E1: full oracle in every state. "
        "Distinct = distinct tag (k, length class, buffered, centroids, merged/singletons, merge direction, duplicates, heavy extreme, accuracy evaluated, image start).");
      rep.sets("accuracy_multiple", "|rank error at true mid-rank q| <= " + str(ACC_MULTIPLE) + " x (q(1-q)/k + 1/n), and <= " + str(ACC_TAIL_MULTIPLE) + " x the same unit for q < 0.01 or q > 0.99, on every enumerated state with n >= 200; worst observed ratios on the unchanged tree: 20.93 and 2.01 (per scenario: see the scenario lines)");
      rep.assumptions.push_back("k in {10,11,20}; value alphabets are finite; streams up to 650 (thorough 900) values; rank monotonicity tolerance 1e-12 absolute, quantile monotonicity tolerance max(1e-12, 4 eps(T)) relative");
      rep.assumptions.push_back("with an infinity accepted only weight conservation, exact extremes and absence of memory errors are demanded (the statement quantifies over finite values)");
      rep.assumptions.push_back("image start states are hand-built in the reference (big-endian t-digest) layout read by deserialize(); their model is one multiset the image is a legal summary of");
    }; tasks.push_back(t); }
  const uint16_t ks[] = {10, 11, 20};
  // ---- E1
  for (int ki = 0; ki < 3; ++ki) {
    uint16_t k = ks[ki];
    add_e1<double>(tasks, cfg, k, 0, "values", false, false, q ? 6 : 8, 600000);
    add_e1<float>(tasks, cfg, k, 0, "values", false, false, q ? 6 : 8, 600000);
    add_e1<double>(tasks, cfg, k, 0, "merges", true, true, q ? 4 : 5, 1500000);
    add_e1<float>(tasks, cfg, k, 0, "merges", true, true, q ? 3 : 4, 1500000);
  }
  // start states restored from reference-format images with heavy extreme centroids (image 2 uses the small/float encoding)
  add_e1<double>(tasks, cfg, 10, 1, "merges", true, true, q ? 2 : 4, q ? 60000 : 1000000);
  add_e1<float>(tasks, cfg, 10, 2, "merges", true, true, q ? 2 : 4, q ? 60000 : 1000000);
  add_e1<double>(tasks, cfg, 10, 3, "merges", true, true, q ? 2 : 4, q ? 60000 : 1000000);
  add_e1<double>(tasks, cfg, 10, 4, "merges", true, true, q ? 2 : 4, q ? 60000 : 1000000);
  // ---- E2
  const char* streams[] = {"sorted", "reversed", "constant", "clusters", "altext", "shuffled"};
  const bool fine_in_quick[] = {true, false, true, true, true, false};
  for (int si = 0; si < 6; ++si) {
    // quick set (thorough runs the same scenarios under the same names, plus the ones below)
    if (fine_in_quick[si] || !q) { add_e2<double>(tasks, cfg, 10, streams[si], 650, 1, 1, 1); add_e2<double>(tasks, cfg, 10, streams[si], 650, 1, 1, 2); }
    if (!fine_in_quick[si]) add_e2<double>(tasks, cfg, 10, streams[si], 650, 10, 1);
    for (int ki = 0; ki < 3; ++ki) {
      if (ks[ki] != 10) add_e2<double>(tasks, cfg, ks[ki], streams[si], 650, 10, 1);
      add_e2<float>(tasks, cfg, ks[ki], streams[si], 650, 10, 1);
    }
    if (q) continue;
    for (int ki = 0; ki < 3; ++ki) {
      uint16_t k = ks[ki]; size_t n = k == 20 ? 900 : 650;   // k=20: capacity 70, buffer 280 -> three automatic compressions need n > 840
      if (k != 10) add_e2<double>(tasks, cfg, k, streams[si], n, 1, 1);
      add_e2<float>(tasks, cfg, k, streams[si], n, 1, 1);
      add_e2<double>(tasks, cfg, k, streams[si], n, (k == 10 && si % 2 == 0) ? 10 : 25, 2);   // sorted, constant, altext at block 10
      add_e2<float>(tasks, cfg, k, streams[si], n, 50, 2);
    }
  }
  // the largest legal compression parameters (k is a uint16_t; 2k no longer fits one from 32768 on): nothing is merged away at
  // these sizes, so every answer is that of the exact multiset and the accuracy clause allows almost nothing
  { const uint16_t bigk[] = {32767, 32768, 65535};
    for (int i = 0; i < 3; ++i) { add_e2<double>(tasks, cfg, bigk[i], "clusters", 650, 50, 1); if (!q || i == 1) add_e2<float>(tasks, cfg, bigk[i], "altext", 650, 50, 1); } }
  return run_tasks(cfg, "C17", tasks);
}
