// shared by C07/C08: Systems for KLL, REQ and classic quantiles sketches over small value domains,
// exact-multiset reference model, the full oracle of C07.
#ifndef QUANT_COMMON_HPP
#define QUANT_COMMON_HPP
#include "core.hpp"
#include "choice.hpp"
#include "bfs.hpp"
#include <kll_sketch.hpp>
#include <req_sketch.hpp>
#include <quantiles_sketch.hpp>
#include <limits>
#include <cmath>

namespace qc {
using namespace datasketches;
using mc::str;

// ---------- value domains ----------
template<class T> struct Dom;
template<> struct Dom<float> {
  static std::vector<float> values() { float v[] = {-3.0f, 1.0f, 2.0f, 5.0f}; return std::vector<float>(v, v + 4); }
  static std::vector<float> grid() { float v[] = {-4.0f, -3.0f, -1.0f, 1.0f, 1.5f, 2.0f, 3.0f, 5.0f, 6.0f}; return std::vector<float>(v, v + 9); }
  static std::string s(float v) { return str(v); }
  static bool has_nan() { return true; }
  static float nan() { return std::numeric_limits<float>::quiet_NaN(); }
};
template<> struct Dom<int> {
  static std::vector<int> values() { int v[] = {-3, 1, 2, 5}; return std::vector<int>(v, v + 4); }
  static std::vector<int> grid() { int v[] = {-4, -3, -1, 1, 2, 3, 5, 6}; return std::vector<int>(v, v + 8); }
  static std::string s(int v) { return str(v); }
  static bool has_nan() { return false; }
  static int nan() { return 0; }
};
template<> struct Dom<std::string> {
  static std::vector<std::string> values() { const char* v[] = {"a", "b", "bb", "d"}; return std::vector<std::string>(v, v + 4); }
  static std::vector<std::string> grid() { const char* v[] = {"", "a", "aa", "b", "ba", "bb", "c", "d", "e"}; return std::vector<std::string>(v, v + 9); }
  static std::string s(const std::string& v) { return v; }
  static bool has_nan() { return false; }
  static std::string nan() { return ""; }
};

struct Cfg { int k; bool hra; int init_coin; Cfg(): k(8), hra(true), init_coin(0) {} };

// ---------- family adapters (private views for canon and per-level weights) ----------
template<class T, class C> struct KllFam {
  typedef kll_sketch<T, C> Sk; typedef T Item; typedef C Cmp;
  static const char* fam() { return "kll"; }
  static Sk* make(const Cfg& c) { return new Sk((uint16_t)c.k); }
  static std::string canon(const Sk& s) {
    std::string o = "k" + str(s.k_) + "m" + str((int)s.m_) + "mk" + str(s.min_k_) + "L" + str((int)s.num_levels_) + "z" + str(s.is_level_zero_sorted_) + "n" + str(s.n_) + "[";
    for (size_t i = 0; i < s.levels_.size(); ++i) o += str(s.levels_[i] - s.levels_[0]) + ",";
    o += "]";
    // level 0 is consumed as a multiset (it is sorted before any use): canonicalise by sorting it
    std::vector<T> l0(s.items_ + s.levels_[0], s.items_ + s.levels_[1]); std::sort(l0.begin(), l0.end(), C());
    for (size_t i = 0; i < l0.size(); ++i) o += Dom<T>::s(l0[i]) + ",";
    o += "|";
    for (uint32_t i = s.levels_[1]; i < s.levels_[s.num_levels_]; ++i) o += Dom<T>::s(s.items_[i]) + ",";
    o += "|";
    if (s.min_item_) o += Dom<T>::s(*s.min_item_); o += "/"; if (s.max_item_) o += Dom<T>::s(*s.max_item_);
    o += s.sorted_view_ != nullptr ? "|cached-view" : "";   // a cached sorted view is state: later answers may come from it
    return o;
  }
  static void level_items(const Sk& s, std::vector<std::pair<T, uint64_t> >& out, mc::Ctx& c) {
    for (uint8_t l = 0; l < s.num_levels_; ++l) {
      for (uint32_t i = s.levels_[l]; i < s.levels_[l + 1]; ++i) out.push_back(std::make_pair(s.items_[i], (uint64_t)1 << l));
      if (l > 0 || s.is_level_zero_sorted_) c.ok("level-sorted", std::is_sorted(s.items_ + s.levels_[l], s.items_ + s.levels_[l + 1], C()), "level " + str((int)l) + " is not sorted");
    }
  }
  static uint64_t retained_bound(const Sk& s, uint64_t n) { return kll_helper::compute_total_capacity(s.k_, s.m_, kll_helper::ub_on_num_levels(n)); }
  // the published error must be that of the smallest k that contributed compacted data
  static void check_published_error(const Sk& s, int min_k, const std::vector<T>&, const std::vector<T>&, mc::Ctx& c) { for (int pmf = 0; pmf < 2; ++pmf) c.eq("published-error-is-for-smallest-contributing-k", s.get_normalized_rank_error(pmf == 1), Sk::get_normalized_rank_error((uint16_t)min_k, pmf == 1)); }
  static bool retained_exact(const Sk&, uint64_t, uint64_t&) { return false; }
};
template<class T, class C> struct ReqFam {
  typedef req_sketch<T, C> Sk; typedef T Item; typedef C Cmp;
  static const char* fam() { return "req"; }
  // the compactor constructor draws one fair coin: construction therefore happens lazily inside the first operation that touches
  // the sketch, under the explorer's tape, so that this coin is enumerated like every other one (it matters after merges,
  // when an odd compaction counter is inherited and the next compaction uses the complement of the stored coin)
  static Sk* make(const Cfg& c) { return new Sk((uint16_t)c.k, c.hra); }
  static std::string canon(const Sk& s) {
    std::string o = "k" + str(s.k_) + "h" + str(s.hra_) + "n" + str(s.n_) + "r" + str(s.num_retained_) + "M" + str(s.max_nom_size_) + "{";
    for (size_t l = 0; l < s.compactors_.size(); ++l) {
      const typename Sk::Compactor& c = s.compactors_[l];
      o += "lw" + str((int)c.lg_weight_) + "c" + str(c.coin_) + "s" + str(c.sorted_) + "ss" + str(c.section_size_raw_) + "/" + str(c.section_size_) + "ns" + str((int)c.num_sections_) + "st" + str(c.state_) + "[";
      std::vector<T> it(c.begin(), c.end());   // HRA keeps its items at the end of the buffer: use the compactor's own range
      if (!c.sorted_) std::sort(it.begin(), it.end(), C());   // an unsorted level is consumed as a multiset
      for (size_t i = 0; i < it.size(); ++i) o += Dom<T>::s(it[i]) + ",";
      o += "]";
    }
    o += "}";
    if (s.min_item_) o += Dom<T>::s(*s.min_item_); o += "/"; if (s.max_item_) o += Dom<T>::s(*s.max_item_);
    o += s.sorted_view_ != nullptr ? "|cached-view" : "";
    return o;
  }
  static void level_items(const Sk& s, std::vector<std::pair<T, uint64_t> >& out, mc::Ctx& c) {
    for (size_t l = 0; l < s.compactors_.size(); ++l) {
      const typename Sk::Compactor& cp = s.compactors_[l];
      c.eq("compactor-lg-weight", (int)cp.lg_weight_, (int)l);
      c.eq("compactor-range==num_items", (size_t)(cp.end() - cp.begin()), (size_t)cp.num_items_);
      for (const T* p = cp.begin(); p != cp.end(); ++p) out.push_back(std::make_pair(*p, (uint64_t)1 << l));
      if (cp.sorted_) c.ok("level-sorted", std::is_sorted(cp.begin(), cp.end(), C()), "compactor " + str(l) + " flagged sorted but is not");
    }
  }
  static uint64_t retained_bound(const Sk& s, uint64_t) { uint64_t b = 0; for (size_t l = 0; l < s.compactors_.size(); ++l) b += s.compactors_[l].get_nom_capacity(); return b; }
  // REQ publishes rank bounds per query; where it publishes lb == ub (the region it declares exact, at the accurate end) the rank
  // it returns must be the true one -- on every outcome of the coins, not on average
  static void check_published_error(const Sk& s_in, int, const std::vector<T>& model_in, const std::vector<T>& grid, mc::Ctx& c) {
    if (s_in.is_empty()) return;
    const Sk s(s_in);   // queries build the cached sorted view: observe a copy (live states are cloned and compared by canon)
    std::vector<T> model = model_in; std::sort(model.begin(), model.end(), C());
    const double n = (double)model.size();
    for (size_t g = 0; g < grid.size(); ++g) for (int incl = 0; incl < 2; ++incl) {
      const double est = s.get_rank(grid[g], incl == 1);
      if (s.get_rank_lower_bound(est, 3) != s.get_rank_upper_bound(est, 3)) continue;
      const double truth = (double)(incl ? std::upper_bound(model.begin(), model.end(), grid[g], C()) - model.begin() : std::lower_bound(model.begin(), model.end(), grid[g], C()) - model.begin()) / n;
      c.ok("rank-published-as-exact-is-exact", std::fabs(est - truth) <= 1e-12, "get_rank(" + Dom<T>::s(grid[g]) + (incl ? ", inclusive" : ", exclusive") + ") = " + str(est) + " with lower bound == upper bound, true rank " + str(truth));
    }
  }
  static bool retained_exact(const Sk&, uint64_t, uint64_t&) { return false; }
};
template<class T, class C> struct ClassicFam {
  typedef quantiles_sketch<T, C> Sk; typedef T Item; typedef C Cmp;
  static const char* fam() { return "classic"; }
  static Sk* make(const Cfg& c) { return new Sk((uint16_t)c.k); }
  static std::string canon(const Sk& s) {
    std::string o = "k" + str(s.k_) + "n" + str(s.n_) + "bp" + str(s.bit_pattern_) + "z" + str(s.is_base_buffer_sorted_) + "[";
    std::vector<T> bb(s.base_buffer_.begin(), s.base_buffer_.end()); if (!s.is_base_buffer_sorted_) std::sort(bb.begin(), bb.end(), C());
    for (size_t i = 0; i < bb.size(); ++i) o += Dom<T>::s(bb[i]) + ",";
    o += "]";
    for (size_t l = 0; l < s.levels_.size(); ++l) {
      o += "{";
      if (s.bit_pattern_ & ((uint64_t)1 << l)) for (size_t i = 0; i < s.levels_[l].size(); ++i) o += Dom<T>::s(s.levels_[l][i]) + ",";
      o += "}";
    }
    if (s.min_item_) o += Dom<T>::s(*s.min_item_); o += "/"; if (s.max_item_) o += Dom<T>::s(*s.max_item_);
    o += s.sorted_view_ != nullptr ? "|cached-view" : "";
    return o;
  }
  static void level_items(const Sk& s, std::vector<std::pair<T, uint64_t> >& out, mc::Ctx& c) {
    for (size_t i = 0; i < s.base_buffer_.size(); ++i) out.push_back(std::make_pair(s.base_buffer_[i], (uint64_t)1));
    for (size_t l = 0; l < s.levels_.size(); ++l) if (s.bit_pattern_ & ((uint64_t)1 << l)) {
      c.eq("level-size==k", s.levels_[l].size(), (size_t)s.k_);
      for (size_t i = 0; i < s.levels_[l].size(); ++i) out.push_back(std::make_pair(s.levels_[l][i], (uint64_t)2 << l));
      c.ok("level-sorted", std::is_sorted(s.levels_[l].begin(), s.levels_[l].end(), C()), "level " + str(l) + " is not sorted");
    }
  }
  static uint64_t retained_bound(const Sk& s, uint64_t n) { uint64_t e; retained_exact(s, n, e); return e; }
  static void check_published_error(const Sk& s, int, const std::vector<T>&, const std::vector<T>&, mc::Ctx& c) { for (int pmf = 0; pmf < 2; ++pmf) c.eq("published-error-is-for-k", s.get_normalized_rank_error(pmf == 1), Sk::get_normalized_rank_error(s.get_k(), pmf == 1)); }
  static bool retained_exact(const Sk& s, uint64_t n, uint64_t& e) { // documented: base buffer n mod 2k, one k-sized level per set bit of n/2k
    uint64_t k2 = 2ull * s.k_; e = n % k2; uint64_t p = n / k2; while (p) { if (p & 1) e += s.k_; p >>= 1; } return true;
  }
};

// ---------- operand specification (for merge menus) ----------
struct OperandSpec { std::string name; Cfg cfg; std::vector<int> vals; uint64_t bit_fill; Cfg cfg2; std::vector<int> vals2; bool merged; OperandSpec(): bit_fill(0), merged(false) {} };   // merged: a second sketch (cfg2, vals2) is merged into the first

// ---------- the System ----------
// Slots hold sketches; slot 0 is the sketch under study. Ops:
//   U<s>:<v>  update slot s with value index v (v == nvals -> NaN where supported)
//   M<s><t>   slot s merges slot t by const reference;  R<s><t> by rvalue (t is left moved-from and is re-created empty)
//   O<j>l / O<j>r / O<j>x   slot 0 merges menu operand j by lvalue / rvalue / operand.merge(slot0) and the result replaces slot 0
template<class Fam>
struct QuantSys {
  typedef typename Fam::Sk Sk; typedef typename Fam::Item T; typedef typename Fam::Cmp C;
  struct Slot { std::unique_ptr<Sk> sk; std::vector<T> model; Cfg cfg; int min_k; Slot(): min_k(0) {} };
  struct State { std::vector<Slot> slots; };
  struct Op { char kind; int a, b; std::string name; };

  std::string nm; std::vector<Cfg> slot_cfgs; std::vector<OperandSpec> menu; std::vector<Op> ops; std::vector<T> vals;
  std::vector<T> grid_override;   // query grid (defaults to Dom<T>::grid())
  std::vector<T> query_grid() const { return grid_override.empty() ? Dom<T>::grid() : grid_override; }
  int max_n;   // updates/merges that would push n above this are disabled (bounds the space)
  bool light_check, check_published;
  QuantSys(): max_n(1 << 30), light_check(false), check_published(false) { vals = Dom<T>::values(); }

  void add_update_ops(int slot, bool with_nan) {
    for (size_t v = 0; v < vals.size(); ++v) { Op o; o.kind = 'U'; o.a = slot; o.b = (int)v; o.name = "U" + str(slot) + ":" + Dom<T>::s(vals[v]); ops.push_back(o); }
    if (with_nan && Dom<T>::has_nan()) { Op o; o.kind = 'U'; o.a = slot; o.b = (int)vals.size(); o.name = "U" + str(slot) + ":nan"; ops.push_back(o); }
  }
  void add_query_op(int slot) { Op o; o.kind = 'Q'; o.a = slot; o.b = 0; o.name = "Q" + str(slot); ops.push_back(o); }   // a query builds the cached sorted view
  void add_slot_merge_ops(int s, int t) { Op o; o.kind = 'M'; o.a = s; o.b = t; o.name = "M" + str(s) + str(t); ops.push_back(o); o.kind = 'R'; o.name = "R" + str(s) + str(t); ops.push_back(o); }
  // a long run of further updates under a fixed coin schedule (one macro step): states that only show many updates after a merge
  void add_long_op(int count, int fill) { Op o; o.kind = 'L'; o.a = fill; o.b = count; o.name = "L" + str(count) + "c" + str(fill); ops.push_back(o); }
  void add_menu_ops(int forms = 7) {   // bit f: 0 lvalue, 1 rvalue, 2 reversed (the operand absorbs the slot)
    for (size_t j = 0; j < menu.size(); ++j) for (int f = 0; f < 3; ++f) { if (!(forms & (1 << f))) continue; Op o; o.kind = 'O'; o.a = (int)j; o.b = f; o.name = "O" + menu[j].name + (f == 0 ? "l" : f == 1 ? "r" : "x"); ops.push_back(o); }
  }

  std::string name() const { return nm; }
  size_t nops() const { return ops.size(); }
  std::string opname(size_t i) const { return ops[i].name; }
  State* make() {   // sketches are constructed lazily (see ReqFam::make)
    State* s = new State; s->slots.resize(slot_cfgs.size());
    for (size_t i = 0; i < slot_cfgs.size(); ++i) { s->slots[i].cfg = slot_cfgs[i]; s->slots[i].min_k = slot_cfgs[i].k; }
    return s;
  }
  static void ensure(Slot& sl) { if (!sl.sk) sl.sk.reset(Fam::make(sl.cfg)); }
  // deep copy through the sketches' copy constructors (used by mc::LiveTree, which validates every clone against canon)
  State* clone(State& st) {
    State* c = new State; c->slots.resize(st.slots.size());
    for (size_t i = 0; i < st.slots.size(); ++i) { c->slots[i].cfg = st.slots[i].cfg; c->slots[i].min_k = st.slots[i].min_k; c->slots[i].model = st.slots[i].model; if (st.slots[i].sk) c->slots[i].sk.reset(new Sk(*st.slots[i].sk)); }
    return c;
  }
  Sk* build_operand(const OperandSpec& sp, std::vector<T>& model, int* min_k = nullptr) {
    // operands are built with a fixed coin schedule (sp.bit_fill), independent of the tape of the history being explored
    mc::Tape t; t.bit_fill = sp.bit_fill; mc::Tape* prev = mc::cur_tape(); mc::cur_tape() = &t;
    Cfg c = sp.cfg; c.init_coin = (int)sp.bit_fill;
    Sk* o = Fam::make(c);
    mc::cur_tape() = &t;
    for (size_t i = 0; i < sp.vals.size(); ++i) { o->update(vals[sp.vals[i]]); model.push_back(vals[sp.vals[i]]); }
    int mk = sp.cfg.k;
    if (sp.merged) {   // a merge result as operand: shapes that updates alone do not produce (empty level 0, min_k below k)
      Cfg c2 = sp.cfg2; c2.init_coin = (int)sp.bit_fill; std::unique_ptr<Sk> o2(Fam::make(c2)); mc::cur_tape() = &t;
      for (size_t i = 0; i < sp.vals2.size(); ++i) { o2->update(vals[sp.vals2[i]]); model.push_back(vals[sp.vals2[i]]); }
      if (o2->is_estimation_mode()) mk = std::min(mk, sp.cfg2.k);
      o->merge(*o2);
    }
    if (min_k) *min_k = mk;
    mc::cur_tape() = prev;
    return o;
  }
  bool apply(State& st, size_t opi, mc::Ctx* ctx) {
    const Op& o = ops[opi];
    if (o.kind == 'U') {
      Slot& s = st.slots[o.a];
      if ((int)s.model.size() >= max_n) return false;
      ensure(s);
      if (o.b == (int)vals.size()) { s.sk->update(Dom<T>::nan()); return true; }
      s.sk->update(vals[o.b]); s.model.push_back(vals[o.b]); return true;
    }
    if (o.kind == 'L') {
      Slot& s = st.slots[0];
      if ((int)s.model.size() + o.b > max_n) return false;
      ensure(s);
      mc::Tape t; t.bit_fill = (uint64_t)o.a; mc::Tape* prev = mc::cur_tape(); mc::cur_tape() = &t;
      bool reported = false;
      for (int i = 0; i < o.b; ++i) {
        const T& v = vals[(size_t)(i * 7 + i / 5) % vals.size()];
        s.sk->update(v); s.model.push_back(v);
        uint64_t e = 0; const uint64_t n = s.model.size();
        if (ctx && !reported && !Fam::retained_exact(*s.sk, n, e) && s.sk->get_num_retained() > Fam::retained_bound(*s.sk, n)) {
          reported = true; ctx->ok("retained<=space-bound(during-long-run)", false, "after " + str(i + 1) + " further updates retained " + str(s.sk->get_num_retained()) + " bound " + str(Fam::retained_bound(*s.sk, n)));
        }
      }
      mc::cur_tape() = prev;
      return true;
    }
    if (o.kind == 'Q') {
      Slot& s = st.slots[o.a];
      if (s.model.empty()) return false;
      ensure(s);
      s.sk->get_rank(vals[0]);   // builds and caches the sorted view; answers are checked in check()
      return true;
    }
    if (o.kind == 'M' || o.kind == 'R') {
      Slot& s = st.slots[o.a]; Slot& t = st.slots[o.b];
      if ((int)(s.model.size() + t.model.size()) > max_n) return false;
      ensure(s); ensure(t);
      if (t.sk->is_estimation_mode()) s.min_k = std::min(s.min_k, t.min_k);
      if (o.kind == 'M') {
        std::string before = Fam::canon(*t.sk);
        s.sk->merge(*t.sk);
        if (ctx) ctx->ok("merge-leaves-source-unchanged", Fam::canon(*t.sk) == before, "const-ref merge modified its argument");
        s.model.insert(s.model.end(), t.model.begin(), t.model.end());
      } else {
        s.sk->merge(std::move(*t.sk));
        s.model.insert(s.model.end(), t.model.begin(), t.model.end());
        t.sk.reset(Fam::make(t.cfg)); t.model.clear();   // moved-from source is destroyed and replaced by a fresh sketch
      }
      return true;
    }
    // menu operand
    const OperandSpec& sp = menu[o.a]; Slot& s = st.slots[0];
    if ((int)(s.model.size() + sp.vals.size() + sp.vals2.size()) > max_n) return false;
    ensure(s);
    std::vector<T> om; int omk = sp.cfg.k; std::unique_ptr<Sk> b(build_operand(sp, om, &omk));
    if (o.b == 2) { const int mine = s.sk->is_estimation_mode() ? s.min_k : 1 << 30; s.min_k = std::min(omk, mine); }
    else if (b->is_estimation_mode()) s.min_k = std::min(s.min_k, omk);
    if (o.b == 0) { std::string before = Fam::canon(*b); s.sk->merge(*b); if (ctx) ctx->ok("merge-leaves-source-unchanged", Fam::canon(*b) == before, "const-ref merge modified its argument"); }
    else if (o.b == 1) { s.sk->merge(std::move(*b)); }
    else { b->merge(*s.sk); s.sk = std::move(b); s.cfg = sp.cfg; if (s.min_k > sp.cfg.k) s.min_k = sp.cfg.k; }
    s.model.insert(s.model.end(), om.begin(), om.end());
    return true;
  }
  std::string canon(State& st) {
    std::string c;
    for (size_t i = 0; i < st.slots.size(); ++i) {
      c += "S" + str(i) + ":" + (st.slots[i].sk ? Fam::canon(*st.slots[i].sk) : std::string("unconstructed")) + "#mk" + str(st.slots[i].min_k) + "#";
      std::vector<T> m = st.slots[i].model; std::sort(m.begin(), m.end(), C());
      for (size_t j = 0; j < m.size(); ++j) c += Dom<T>::s(m[j]) + ",";
    }
    return c;
  }

  template<class F> static bool throws(F f) { try { f(); } catch (const std::exception&) { return true; } return false; }

  void check_slot(const Sk& sk, const std::vector<T>& model_in, mc::Ctx& c, int min_k = 0) {
    C cmp;
    std::vector<T> model = model_in; std::sort(model.begin(), model.end(), cmp);
    const uint64_t n = model.size();
    c.eq("n", sk.get_n(), n);
    c.eq("is_empty", sk.is_empty(), n == 0);
    // iteration (bounded: a broken iterator must not hang or run away)
    std::vector<std::pair<T, uint64_t> > it_items; uint64_t wsum = 0; size_t guard = (size_t)sk.get_num_retained() + 8; bool runaway = false;
    { typename Sk::const_iterator it = sk.begin(), e = sk.end();
      while (!(it == e)) { if (it_items.size() >= guard) { runaway = true; break; } T v = (*it).first; uint64_t w = (*it).second; it_items.push_back(std::make_pair(v, w)); wsum += w; ++it; } }
    c.ok("iterator-terminates", !runaway, "iteration did not reach end() within num_retained+8 steps");
    if (!runaway) {
      c.eq("iterated==num_retained", it_items.size(), (size_t)sk.get_num_retained());
      c.eq("iterated-weights-sum==n", wsum, n);
    }
    std::vector<std::pair<T, uint64_t> > lv; Fam::level_items(sk, lv, c);
    { // iterator yields exactly the per-level items with weight 2^level
      struct PL { C cmp; bool operator()(const std::pair<T, uint64_t>& a, const std::pair<T, uint64_t>& b) const { if (a.second != b.second) return a.second < b.second; return cmp(a.first, b.first); } } pl;
      std::vector<std::pair<T, uint64_t> > a = it_items, b = lv; std::sort(a.begin(), a.end(), pl); std::sort(b.begin(), b.end(), pl);
      bool same = !runaway && a.size() == b.size();
      for (size_t i = 0; same && i < a.size(); ++i) same = a[i].second == b[i].second && !cmp(a[i].first, b[i].first) && !cmp(b[i].first, a[i].first);
      if (!runaway) c.ok("iterator-weights==2^level", same, "iterator (item,weight) pairs differ from the level structure");
      uint64_t lsum = 0; for (size_t i = 0; i < lv.size(); ++i) lsum += lv[i].second;
      c.eq("level-weights-sum==n", lsum, n);
      c.eq("level-items==num_retained", lv.size(), (size_t)sk.get_num_retained());
      for (size_t i = 0; i < lv.size(); ++i) c.ok("retained-item-is-an-input", std::binary_search(model.begin(), model.end(), lv[i].first, cmp), "retained item " + Dom<T>::s(lv[i].first) + " was never offered");
    }
    // space bound
    { uint64_t e = 0;
      if (Fam::retained_exact(sk, n, e)) c.eq("retained==documented-function-of-(k,n)", (uint64_t)sk.get_num_retained(), e);
      else c.ok("retained<=space-bound", sk.get_num_retained() <= Fam::retained_bound(sk, n), "retained " + str(sk.get_num_retained()) + " bound " + str(Fam::retained_bound(sk, n))); }
    std::vector<T> grid = query_grid(); std::sort(grid.begin(), grid.end(), cmp);   // query grid in the comparator's order
    if (n == 0) {
      c.ok("empty-min-throws", throws([&] { sk.get_min_item(); }));
      c.ok("empty-max-throws", throws([&] { sk.get_max_item(); }));
      c.ok("empty-rank-throws", throws([&] { sk.get_rank(grid[1]); }));
      c.ok("empty-quantile-throws", throws([&] { sk.get_quantile(0.5); }));
      c.ok("empty-cdf-throws", throws([&] { sk.get_CDF(&grid[1], 1); }));
      c.ok("empty-pmf-throws", throws([&] { sk.get_PMF(&grid[1], 1); }));
      c.ok("empty-not-estimation", !sk.is_estimation_mode());
      c.rep.outcome(std::string(Fam::fam()) + "|empty");
      return;
    }
    // extremes
    T mn = sk.get_min_item(), mx = sk.get_max_item();
    c.ok("min-exact", !cmp(mn, model.front()) && !cmp(model.front(), mn), "min " + Dom<T>::s(mn) + " expected " + Dom<T>::s(model.front()));
    c.ok("max-exact", !cmp(mx, model.back()) && !cmp(model.back(), mx), "max " + Dom<T>::s(mx) + " expected " + Dom<T>::s(model.back()));
    // sorted view
    { quantiles_sorted_view<T, C, std::allocator<T> > sv = sk.get_sorted_view();
      c.eq("sorted-view-size", sv.size(), (size_t)sk.get_num_retained());
      uint64_t prev = 0; bool first = true; T prev_item = mn; bool ok_sorted = true, ok_cum = true;
      for (auto it = sv.begin(); it != sv.end(); ++it) {
        T v = (*it).first; uint64_t cw = it.get_cumulative_weight();
        if (!first && cmp(v, prev_item)) ok_sorted = false;
        if (cw <= prev) ok_cum = false;
        prev = cw; prev_item = v; first = false;
      }
      c.ok("sorted-view-ordered", ok_sorted, "sorted view is not ordered");
      c.ok("sorted-view-cumulative-increasing", ok_cum, "cumulative weights not strictly increasing");
      c.eq("sorted-view-total==n", prev, n);
      // the sketch's own answers (which may come from a sorted view it cached earlier) are those of a view built now
      for (size_t g = 0; g < grid.size(); ++g) for (int inc = 0; inc < 2; ++inc)
        c.eq("rank==rank-from-a-freshly-built-sorted-view", sk.get_rank(grid[g], inc == 1), sv.get_rank(grid[g], inc == 1));
      for (int j = 0; j <= 8; ++j) for (int inc = 0; inc < 2; ++inc) { T a = sk.get_quantile(j / 8.0, inc == 1), b = sv.get_quantile(j / 8.0, inc == 1);
        c.ok("quantile==quantile-from-a-freshly-built-sorted-view", !cmp(a, b) && !cmp(b, a), "get_quantile(" + str(j / 8.0) + ") = " + Dom<T>::s(a) + ", a view built now gives " + Dom<T>::s(b)); }
    }
    const bool exact = !sk.is_estimation_mode();
    // ranks over the grid
    double prev_inc = 0, prev_exc = 0;
    for (size_t g = 0; g < grid.size(); ++g) {
      double ri = sk.get_rank(grid[g], true), re = sk.get_rank(grid[g], false);
      c.ok("rank-in-[0,1]", ri >= 0 && ri <= 1 && re >= 0 && re <= 1, "rank out of range");
      c.ok("rank-inclusive>=exclusive", ri >= re, "at " + Dom<T>::s(grid[g]));
      c.ok("rank-monotone", ri >= prev_inc && re >= prev_exc, "rank decreased at " + Dom<T>::s(grid[g]));
      prev_inc = ri; prev_exc = re;
      uint64_t le = std::upper_bound(model.begin(), model.end(), grid[g], cmp) - model.begin();
      uint64_t lt = std::lower_bound(model.begin(), model.end(), grid[g], cmp) - model.begin();
      if (exact) { c.eq("exact-rank-inclusive", ri, (double)le / n); c.eq("exact-rank-exclusive", re, (double)lt / n); }
      if (le == 0) c.eq("rank-below-min==0", ri, 0.0);
      if (lt == n) c.eq("rank-above-max==1", re, 1.0);
      if (le == n) c.eq("rank-at-or-above-max==1", ri, 1.0);
    }
    // quantiles: monotone in rank, within [min,max]; ranks (j+0.5)/m avoid floating-point knife edges
    const int Q = 16;
    for (int inc = 0; inc < 2; ++inc) {
      T prevq = mn;
      for (int j = -1; j <= Q; ++j) {
        double r = j < 0 ? 0.0 : j == Q ? 1.0 : (j + 0.5) / Q;
        T q = sk.get_quantile(r, inc == 1);
        c.ok("quantile-in-[min,max]", !cmp(q, mn) && !cmp(mx, q), "quantile " + Dom<T>::s(q) + " outside [min,max] at rank " + str(r));
        c.ok("quantile-monotone", !cmp(q, prevq), "quantile decreased at rank " + str(r));
        prevq = q;
      }
      if (exact) for (uint64_t j = 0; j < n; ++j) {
        double r = (j + 0.5) / n; T q = sk.get_quantile(r, inc == 1);
        c.ok("exact-quantile", !cmp(q, model[j]) && !cmp(model[j], q), "quantile(" + str(r) + ") = " + Dom<T>::s(q) + " expected " + Dom<T>::s(model[j]));
      }
      // coherence: the quantile at the rank of a retained item is not larger than that item
      for (size_t i = 0; i < lv.size() && i < 6; ++i) {
        double r = sk.get_rank(lv[i].first, true); if (r <= 0) continue;
        T q = sk.get_quantile(r - 0.25 / n, true);
        c.ok("quantile-of-rank-coherent", !cmp(lv[i].first, q), "quantile(rank(x)-) above x for x=" + Dom<T>::s(lv[i].first));
      }
    }
    // CDF / PMF
    { std::vector<T> sp; sp.push_back(grid[1]); sp.push_back(grid[3]); sp.push_back(grid[5]); sp.push_back(grid[7]);
      for (int inc = 0; inc < 2; ++inc) {
        auto cdf = sk.get_CDF(sp.data(), (uint32_t)sp.size(), inc == 1); auto pmf = sk.get_PMF(sp.data(), (uint32_t)sp.size(), inc == 1);
        c.eq("cdf-size", cdf.size(), sp.size() + 1); c.eq("pmf-size", pmf.size(), sp.size() + 1);
        double sum = 0;
        for (size_t i = 0; i < sp.size() && i + 1 < cdf.size(); ++i) c.eq("cdf==rank", cdf[i], sk.get_rank(sp[i], inc == 1));
        if (!cdf.empty()) c.eq("cdf-last==1", cdf.back(), 1.0);
        for (size_t i = 0; i < pmf.size() && i < cdf.size(); ++i) { c.near("pmf==cdf-difference", pmf[i], cdf[i] - (i ? cdf[i - 1] : 0), 1e-12, 1e-15); c.ok("pmf>=0", pmf[i] >= 0); sum += pmf[i]; }
        c.near("pmf-sums-to-1", sum, 1.0, 1e-12);
      }
      // invalid queries
      c.ok("rank-query-below-0-throws", throws([&] { sk.get_quantile(-0.1); }));
      c.ok("rank-query-above-1-throws", throws([&] { sk.get_quantile(1.1); }));
      std::vector<T> bad; bad.push_back(grid[5]); bad.push_back(grid[3]);
      c.ok("unsorted-split-points-throw", throws([&] { sk.get_CDF(bad.data(), 2); }) && throws([&] { sk.get_PMF(bad.data(), 2); }));
      std::vector<T> dup; dup.push_back(grid[3]); dup.push_back(grid[3]);
      c.ok("duplicate-split-points-throw", throws([&] { sk.get_CDF(dup.data(), 2); }));
      if (Dom<T>::has_nan()) { std::vector<T> nn; nn.push_back(Dom<T>::nan()); c.ok("nan-split-point-throws", throws([&] { sk.get_CDF(nn.data(), 1); }) && throws([&] { sk.get_PMF(nn.data(), 1); })); }
    }
    c.rep.outcome(std::string(Fam::fam()) + (exact ? "|exact" : "|estimating") + "|levels" + str(lv.empty() ? 0 : (int)std::log2((double)lv.back().second)));
  }
  void check(State& st, mc::Ctx& c) {
    if (check_published) for (size_t i = 0; i < st.slots.size(); ++i) if (st.slots[i].sk && !st.slots[i].model.empty()) Fam::check_published_error(*st.slots[i].sk, st.slots[i].min_k, st.slots[i].model, query_grid(), c);   // C08: the error a sketch publishes
    if (light_check) return;
    for (size_t i = 0; i < st.slots.size(); ++i) if (st.slots[i].sk) check_slot(*st.slots[i].sk, st.slots[i].model, c);
  }
};

} // namespace qc
#endif
