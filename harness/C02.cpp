// C02: Theta set operations (union, intersection, A-not-B, Jaccard) return the exact set expression over the hash samples.
// E1. Operand menu = every sketch obtainable from the subsets of a small universe under {lg_k 1, 2 (tiny, private
// constructor), 5} x {p 1, 0.5} (+ a few larger operands for table rebuilds, get_result trimming and the v4 block
// iterator), each in seven physical forms. Stateless operations over ALL ordered pairs of the menu; stateful union /
// intersection objects by BFS to fixpoint over update(M_i) / rvalue update / update(own result) / reset.
// Oracle: a set-algebra model over (theta, set<hash>, empty) written from the property statement; operand contents are
// tied to an independent MurmurHash3.
#define MC_MAIN
#include "core.hpp"
#include "choice.hpp"
#include "bfs.hpp"
#include "theta_common.hpp"
#include <theta_union.hpp>
#include <theta_intersection.hpp>
#include <theta_a_not_b.hpp>
#include <theta_jaccard_similarity.hpp>
#include <set>
#include <memory>

using namespace mc;
using namespace datasketches;
typedef update_theta_sketch USk;
typedef compact_theta_sketch CSk;
typedef wrapped_compact_theta_sketch WSk;
static const uint64_t MAXT = theta_constants::MAX_THETA;
static const uint64_t BAD_SEED = 7;

// ------------------------------------------------------------------------------------------------ operands
enum Form { F_U = 0, F_CU, F_CO, F_D3, F_W3U, F_W3O, F_W4, NFORMS };
static const char* const FORM_NAME[] = {"U", "CU", "CO", "D3", "W3U", "W3O", "W4"};
enum Mode { M_EMPTY = 0, M_EXACT, M_ESTP, M_ESTK, M_ZERO, NMODES };
static const char* const MODE_NAME[] = {"empty", "exact", "est-p", "est-k", "zero-retained"};

struct Abs { uint64_t theta; std::vector<uint64_t> set; bool empty; Abs(): theta(MAXT), empty(true) {} };   // set sorted ascending

struct Recipe { int lg_k; float p; uint64_t seed; std::vector<int> items; std::string name; };

struct Operand {
  Recipe r; Form form; Abs a; Mode mode; std::string label; std::vector<uint64_t> seq; bool ordered_flag; bool big;
  std::shared_ptr<USk> upd; std::shared_ptr<CSk> cmp; std::shared_ptr<std::vector<uint8_t> > bytes; std::shared_ptr<WSk> wr;
};

static std::vector<tc::Val> ITEMS;       // global item table: [0,NBASE) base universe, then extension items
static size_t NBASE = 0;

static uint64_t start_theta(float p) { return p < 1 ? (uint64_t)((double)MAXT * p) : MAXT; }

static USk make_update(int lg_k, float p, uint64_t seed) {
  if (lg_k >= 5) return USk::builder().set_lg_k((uint8_t)lg_k).set_p(p).set_seed(seed).build();
  // below the builder's minimum: same template code, 2-slot starting table that resizes by X2 up to 2^(lg_k+1)
  return USk(1, (uint8_t)lg_k, theta_constants::resize_factor::X2, p, start_theta(p), seed, std::allocator<uint64_t>());
}

// what a sketch shows through its public interface
struct View { uint64_t theta; bool empty, ordered, est_mode; uint32_t n; uint16_t seed_hash; double est; std::vector<uint64_t> seq; };
template<class S> static View view_of(const S& s) {
  View v; v.theta = s.get_theta64(); v.empty = s.is_empty(); v.ordered = s.is_ordered(); v.n = s.get_num_retained(); v.seed_hash = s.get_seed_hash();
  v.est_mode = s.is_estimation_mode(); v.est = s.get_estimate();
  size_t guard = 0;
  for (auto it = s.begin(); it != s.end(); ++it) { v.seq.push_back(*it); if (++guard > 100000) throw std::logic_error("iteration does not terminate"); }
  return v;
}

template<class F> static void visit(const Operand& o, F& f) { if (o.upd) f(*o.upd); else if (o.cmp) f(*o.cmp); else f(*o.wr); }
template<class F> static void visit2(const Operand& a, const Operand& b, F& f) {
  if (a.upd) { if (b.upd) f(*a.upd, *b.upd); else if (b.cmp) f(*a.upd, *b.cmp); else f(*a.upd, *b.wr); }
  else if (a.cmp) { if (b.upd) f(*a.cmp, *b.upd); else if (b.cmp) f(*a.cmp, *b.cmp); else f(*a.cmp, *b.wr); }
  else { if (b.upd) f(*a.wr, *b.upd); else if (b.cmp) f(*a.wr, *b.cmp); else f(*a.wr, *b.wr); }
}

struct ViewFn { View v; template<class S> void operator()(const S& s) { v = view_of(s); } };

static Mode mode_of(const Abs& a, float p) {
  if (a.empty) return M_EMPTY;
  if (a.theta == MAXT) return M_EXACT;
  if (a.set.empty()) return M_ZERO;
  return a.theta == start_theta(p) ? M_ESTP : M_ESTK;
}

static Operand materialize(const Recipe& r, Form f) {
  Operand o; o.r = r; o.form = f; o.big = false;
  std::shared_ptr<USk> u(new USk(make_update(r.lg_k, r.p, r.seed)));
  for (size_t i = 0; i < r.items.size(); ++i) tc::do_update(*u, ITEMS[(size_t)r.items[i]]);
  { View v = view_of(*u); o.a.theta = v.theta; o.a.empty = v.empty; o.a.set = v.seq; std::sort(o.a.set.begin(), o.a.set.end()); }
  o.mode = mode_of(o.a, r.p);
  switch (f) {
    case F_U: o.upd = u; break;
    case F_CU: o.cmp.reset(new CSk(u->compact(false))); break;
    case F_CO: o.cmp.reset(new CSk(u->compact(true))); break;
    case F_D3: { CSk::vector_bytes b = u->compact(false).serialize(); o.cmp.reset(new CSk(CSk::deserialize(b.data(), b.size(), r.seed))); break; }
    case F_W3U: o.bytes.reset(new std::vector<uint8_t>(u->compact(false).serialize())); break;
    case F_W3O: o.bytes.reset(new std::vector<uint8_t>(u->compact(true).serialize())); break;
    case F_W4: o.bytes.reset(new std::vector<uint8_t>(u->compact(true).serialize_compressed())); break;
    default: break;
  }
  if (o.bytes) o.wr.reset(new WSk(WSk::wrap(o.bytes->data(), o.bytes->size(), r.seed)));   // the buffer stays alive in the operand
  ViewFn vf; visit(o, vf); o.seq = vf.v.seq; o.ordered_flag = vf.v.ordered;
  o.label = r.name + "/" + FORM_NAME[f];
  return o;
}

struct Menu {
  std::vector<Operand> ops;        // de-duplicated
  std::vector<Operand> bad;        // non-empty operands built with another seed
  size_t candidates; size_t abstract;
  Menu(): candidates(0), abstract(0) {}
  int find(const std::string& label) const { for (size_t i = 0; i < ops.size(); ++i) if (ops[i].label == label) return (int)i; return -1; }
};

static void pick_items(size_t nbase) {
  // base universe: alternating hashes below / above MAX/2 so that p=0.5 screens half of them (zero-retained operands exist)
  std::vector<uint64_t> lo, hi;
  for (uint64_t x = 1000; lo.size() < nbase || hi.size() < nbase; ++x) {
    uint64_t h = oracle::theta_hash(oracle::hash_i64((int64_t)x, DEFAULT_SEED));
    (h < MAXT / 2 ? lo : hi).push_back(x);
  }
  ITEMS.clear();
  for (size_t i = 0; i < nbase; ++i) ITEMS.push_back(tc::vu64(i % 2 == 0 ? lo[i / 2] : hi[i / 2]));
  NBASE = nbase;
  for (uint64_t x = 5000; ITEMS.size() < nbase + 200; ++x) ITEMS.push_back(tc::vu64(x));
}

static std::string cfg_name(int lg_k, float p) { return "lg" + str(lg_k) + (p < 1 ? "p.5" : "p1"); }

static Recipe big_recipe(int lg_k, float p, bool with_base, size_t ext_from, size_t ext_n, const std::string& nm) {
  Recipe r; r.lg_k = lg_k; r.p = p; r.seed = DEFAULT_SEED; r.name = cfg_name(lg_k, p) + "/" + nm;
  if (with_base) for (size_t i = 0; i < NBASE; ++i) r.items.push_back((int)i);
  for (size_t i = 0; i < ext_n; ++i) r.items.push_back((int)(NBASE + ext_from + i));
  return r;
}

static Menu build_menu(bool quick) {
  Menu m;
  std::vector<Recipe> recipes; std::vector<bool> isbig;
  const int lgs[] = {1, 2, 5}; const float ps[] = {1.0f, 0.5f};
  for (int li = 0; li < 3; ++li) for (int pi = 0; pi < 2; ++pi) for (unsigned mask = 0; mask < (1u << NBASE); ++mask) {
    Recipe r; r.lg_k = lgs[li]; r.p = ps[pi]; r.seed = DEFAULT_SEED;
    char b[16]; snprintf(b, sizeof b, "s%02x", mask);
    r.name = cfg_name(r.lg_k, r.p) + "/" + b;
    for (size_t i = 0; i < NBASE; ++i) if (mask & (1u << i)) r.items.push_back((int)i);
    recipes.push_back(r); isbig.push_back(false);
  }
  // larger operands = whole base universe + n extension items: lg_k=2 rebuild (8th entry), >= 8 entries (v4 block iterator:
  // one block + remainder, two blocks + remainder), lg_k=5 rebuild (61st entry),
  // and exact 30/30/70-entry sketches that make a lg_k=5 union trim in get_result (60 entries, no rebuild) and rebuild (70)
  recipes.push_back(big_recipe(2, 1.0f, true, 0, 2, "ext2")); isbig.push_back(true);
  recipes.push_back(big_recipe(2, 1.0f, true, 0, 5, "ext5")); isbig.push_back(true);
  recipes.push_back(big_recipe(2, 0.5f, true, 0, 12, "ext12")); isbig.push_back(true);
  recipes.push_back(big_recipe(5, 1.0f, true, 0, 3, "ext3")); isbig.push_back(true);
  recipes.push_back(big_recipe(5, 1.0f, true, 0, 11, "ext11")); isbig.push_back(true);
  recipes.push_back(big_recipe(5, 0.5f, true, 0, 34, "ext34")); isbig.push_back(true);
  recipes.push_back(big_recipe(5, 1.0f, true, 0, 69, "ext69")); isbig.push_back(true);
  // exactly 8 / 16 / 24 entries: the v4 iterator's "remaining entries == 8" boundary
  if (NBASE < 8) { recipes.push_back(big_recipe(5, 1.0f, true, 0, 8 - NBASE, "tot8")); isbig.push_back(true); }
  recipes.push_back(big_recipe(5, 1.0f, true, 0, 16 - NBASE, "tot16")); isbig.push_back(true);
  recipes.push_back(big_recipe(5, 1.0f, true, 0, 24 - NBASE, "tot24")); isbig.push_back(true);
  recipes.push_back(big_recipe(6, 1.0f, false, 100, 30, "x30a")); isbig.push_back(true);
  recipes.push_back(big_recipe(6, 1.0f, false, 130, 30, "x30b")); isbig.push_back(true);
  recipes.push_back(big_recipe(6, 1.0f, false, 100, 70, "x70")); isbig.push_back(true);
  (void)quick;
  std::set<std::string> seen, abs_seen;
  for (size_t ri = 0; ri < recipes.size(); ++ri) for (int f = 0; f < NFORMS; ++f) {
    Operand o = materialize(recipes[ri], (Form)f); o.big = isbig[ri];
    m.candidates++;
    // de-duplicate by (form, theta, emptiness, ordered flag, entries in iteration order): iteration order is kept because
    // the algorithms under test scan operands in that order (early stop on ordered input)
    std::string key = str(f) + "|" + hex64(o.a.theta) + "|" + str(o.a.empty) + "|" + str(o.ordered_flag) + "|";
    for (size_t i = 0; i < o.seq.size(); ++i) key += hex64(o.seq[i]) + ",";
    std::string akey = hex64(o.a.theta) + "|" + str(o.a.empty) + "|"; for (size_t i = 0; i < o.a.set.size(); ++i) akey += hex64(o.a.set[i]) + ",";
    abs_seen.insert(akey);
    if (!seen.insert(key).second) continue;
    m.ops.push_back(o);
  }
  m.abstract = abs_seen.size();
  // operands hashed with another seed (all non-empty)
  const Form bf[] = {F_U, F_CU, F_CO, F_D3, F_W3U, F_W3O, F_W4};
  for (size_t i = 0; i < 7; ++i) {
    Recipe r; r.lg_k = i % 2 ? 1 : 5; r.p = 1.0f; r.seed = BAD_SEED; r.name = "seed7/" + cfg_name(r.lg_k, r.p) + "/all";
    for (size_t k = 0; k < NBASE; ++k) r.items.push_back((int)k);
    Operand o = materialize(r, bf[i]);
    m.bad.push_back(o);
  }
  return m;
}

// ------------------------------------------------------------------------------------------------ oracle helpers
static std::vector<uint64_t> below(const std::vector<uint64_t>& s, uint64_t theta) { std::vector<uint64_t> r; for (size_t i = 0; i < s.size(); ++i) if (s[i] < theta) r.push_back(s[i]); return r; }
static std::vector<uint64_t> set_union(const std::vector<uint64_t>& a, const std::vector<uint64_t>& b) { std::vector<uint64_t> r; std::set_union(a.begin(), a.end(), b.begin(), b.end(), std::back_inserter(r)); return r; }
static std::vector<uint64_t> set_inter(const std::vector<uint64_t>& a, const std::vector<uint64_t>& b) { std::vector<uint64_t> r; std::set_intersection(a.begin(), a.end(), b.begin(), b.end(), std::back_inserter(r)); return r; }
static std::vector<uint64_t> set_minus(const std::vector<uint64_t>& a, const std::vector<uint64_t>& b) { std::vector<uint64_t> r; std::set_difference(a.begin(), a.end(), b.begin(), b.end(), std::back_inserter(r)); return r; }

static std::string abs_str(const Abs& a) {
  std::string s = std::string(a.empty ? "E" : "N") + "/" + hex64(a.theta) + "/{";
  for (size_t i = 0; i < a.set.size(); ++i) { if (i) s += ","; s += hex64(a.set[i]); }
  return s + "}";
}
static const char* mode_tag(const Abs& a) { return a.empty ? "empty" : a.theta == MAXT ? "exact" : a.set.empty() ? "zero" : "est"; }

// compare a result sketch with the expected (theta, set, empty); `pre` prefixes the stable check ids
static void check_result(Ctx& c, const std::string& pre, const CSk& r, const Abs& exp, bool want_ordered, const std::string& note) {
  View v = view_of(r);
  if (!exp.empty && exp.set.empty() && v.empty && v.theta == MAXT && v.seq.empty())   // one deviation, reported once rather than as theta + emptiness
    c.fail(pre + "-empty-instead-of-zero-retained", "result is the empty sketch (theta 1.0); expected non-empty with nothing retained and theta " + hex64(exp.theta) + " " + note);
  else {
    if (exp.empty && v.empty && v.theta != exp.theta) c.fail(pre + "-empty-result-theta", "empty result reports theta " + hex64(v.theta) + ", an empty sketch has theta 1.0 (" + hex64(MAXT) + ") " + note);
    else if (v.theta != exp.theta) c.fail(pre + "-theta", "theta " + hex64(v.theta) + " expected " + hex64(exp.theta) + " " + note);
    if (v.empty != exp.empty) c.fail(pre + "-empty", "is_empty " + str(v.empty) + " expected " + str(exp.empty) + " " + note);
  }
  std::vector<uint64_t> sorted = v.seq; std::sort(sorted.begin(), sorted.end());
  if (sorted != exp.set) {
    std::string m = "retained " + str(sorted.size()) + " expected " + str(exp.set.size());
    for (size_t i = 0; i < exp.set.size(); ++i) if (!std::binary_search(sorted.begin(), sorted.end(), exp.set[i])) { m += " missing " + hex64(exp.set[i]); break; }
    for (size_t i = 0; i < sorted.size(); ++i) if (!std::binary_search(exp.set.begin(), exp.set.end(), sorted[i])) { m += " extra " + hex64(sorted[i]); break; }
    if (std::adjacent_find(sorted.begin(), sorted.end()) != sorted.end()) m += " (duplicate entry)";
    c.fail(pre + "-entries", m + " " + note);
  }
  c.eq(pre + "-num-retained", (size_t)v.n, v.seq.size());
  if (want_ordered) c.ok(pre + "-ordered-flag", v.ordered, "ordered result requested, is_ordered() is false " + note);
  if (v.ordered) c.ok(pre + "-ordered-is-sorted", v.seq == sorted, "is_ordered() but entries are not ascending " + note);
  c.eq(pre + "-seed-hash", v.seed_hash, oracle::seed_hash(DEFAULT_SEED));
  if (v.theta == exp.theta && v.empty == exp.empty) c.eq(pre + "-estimation-mode", v.est_mode, !exp.empty && exp.theta < MAXT);   // derived from the two above
  if (v.theta == exp.theta && sorted == exp.set) c.near(pre + "-estimate", v.est, (double)exp.set.size() / ((double)exp.theta / (double)MAXT), 1e-12);
}

// ------------------------------------------------------------------------------------------------ menu sanity
static void menu_task(const Menu& m, Report& rep, const Config& cfg) {
  const std::string sc = "menu";
  if (!cfg.replay_scenario.empty() && cfg.replay_scenario != sc) return;
  size_t per_mode[NMODES] = {0, 0, 0, 0, 0};
  for (size_t i = 0; i < m.ops.size(); ++i) {
    const Operand& o = m.ops[i];
    if (!cfg.replay_history.empty() && cfg.replay_history != o.label) continue;
    if (!journal(sc, o.label)) continue;
    Ctx c(rep, sc, o.label); int a0 = asan_errors();
    try {
      // the operand is the exact hash sample of its inputs under the independent hash ...
      std::set<uint64_t> hs;
      for (size_t k = 0; k < o.r.items.size(); ++k) { oracle::H128 h; if (tc::oracle_hash128(ITEMS[(size_t)o.r.items[k]], o.r.seed, h)) hs.insert(oracle::theta_hash(h)); }
      std::vector<uint64_t> expect; for (std::set<uint64_t>::const_iterator it = hs.begin(); it != hs.end(); ++it) if (*it < o.a.theta && *it != 0) expect.push_back(*it);
      c.ok("operand-is-exact-sample", expect == o.a.set, "update sketch entries differ from {oracle hashes < theta}");
      c.eq("operand-empty", o.a.empty, o.r.items.empty());
      if (o.a.empty) c.eq("operand-empty-theta", o.a.theta, MAXT);
      // ... and every physical form shows the same (theta, set, empty)
      ViewFn vf; visit(o, vf);
      std::vector<uint64_t> sorted = vf.v.seq; std::sort(sorted.begin(), sorted.end());
      c.ok("form-same-entries", sorted == o.a.set, "form exposes a different entry set");
      c.eq("form-same-theta", vf.v.theta, o.a.theta);
      c.eq("form-same-empty", vf.v.empty, o.a.empty);
      c.eq("form-num-retained", (size_t)vf.v.n, vf.v.seq.size());
      if (vf.v.ordered) c.ok("form-ordered-is-sorted", vf.v.seq == sorted, "is_ordered() but not ascending");
      if (o.form == F_CO || o.form == F_W3O || o.form == F_W4) c.ok("form-ordered-flag", vf.v.ordered);
      c.eq("form-seed-hash", vf.v.seed_hash, oracle::seed_hash(o.r.seed));
      if (o.form == F_W4 && o.bytes) rep.outcome(std::string("menu|W4-bytes-version") + str((int)(*o.bytes)[1]) + (o.seq.size() >= 8 ? "|block" : "|short"));
    } catch (const std::exception& e) { c.fail("unexpected-exception", e.what()); }
    if (asan_errors() != a0) c.fail("asan", "AddressSanitizer report while reading an operand");
    rep.flush_ctx_fails(c.fails, sc, o.label);
    rep.outcome(std::string("menu|") + FORM_NAME[o.form] + "|" + MODE_NAME[o.mode]);
    per_mode[o.mode]++;
    rep.evaluations++; rep.states++; rep.transitions++; rep.traces++;
  }
  journal_clear();
  rep.scenarios.push_back("menu: " + str(m.ops.size()) + " operands after de-duplication of " + str(m.candidates) + " (" + str(m.abstract) + " distinct (theta,set,empty) x 7 forms); empty=" + str(per_mode[0]) +
    " exact=" + str(per_mode[1]) + " est-p=" + str(per_mode[2]) + " est-k=" + str(per_mode[3]) + " zero-retained=" + str(per_mode[4]) + "; base universe " + str(NBASE) + " items");
  rep.setn("menu_operands", (double)m.ops.size());
  rep.setn("menu_abstract_contents", (double)m.abstract);
  rep.setn("universe_items", (double)NBASE);
  rep.assumptions.push_back("tiny configurations (lg_k 1, 2; unions of nominal lg_k 1, 2) are reached through the private constructors; they run the same template code as legal sizes and are paired with lg_k 5/6");
  rep.assumptions.push_back("operands are the sketches of all subsets of a " + str(NBASE) + "-item universe under 6 configurations plus 10 larger fixed operands (up to 75 items); p in {1, 0.5} only; one seed (plus a second seed for refusal checks)");
  rep.assumptions.push_back("operand content (theta, entries) is read from the update sketch and tied to an independent MurmurHash3 (C01 decides the update sketch itself)");
  rep.assumptions.push_back("stateful operators: sub-menu of operands covering every (form x mode) cell; BFS to fixpoint (depth bound reported if reached)");
  rep.sets("rule", "all ordered pairs of the operand menu for a_not_b (ordered/unordered, rvalue A) and Jaccard (jaccard, exactly_equal, similarity/dissimilarity tests); BFS over the union / intersection object's state with update(lvalue, rvalue, own result), reset, refused other-seed operands, get_result(ordered/unordered) checked in every state. A case is distinct if it yields a distinct (operation, operand modes/forms, result mode) outcome tag.");
}

// ------------------------------------------------------------------------------------------------ stateless: all ordered pairs
static const theta_a_not_b& anotb() { static theta_a_not_b x(DEFAULT_SEED); return x; }

struct PairFn {
  Ctx& c; Report& rep; const Operand& A; const Operand& B; bool quick;
  PairFn(Ctx& c_, Report& r_, const Operand& a_, const Operand& b_, bool q): c(c_), rep(r_), A(a_), B(b_), quick(q) {}

  Abs expect_anotb() const {
    Abs e; if (A.a.empty) return e;               // A empty -> the empty sketch
    e.theta = std::min(A.a.theta, B.a.theta);
    e.set = below(set_minus(A.a.set, B.a.set), e.theta);
    e.empty = e.set.empty() && e.theta == MAXT;   // documented rule: nothing retained and theta == 1.0 is the empty set
    return e;
  }
  template<class SB> void rvalue_a(const CSk& a, const SB& b, const Abs& e) { CSk tmp(a); CSk r = anotb().compute(std::move(tmp), b, true); check_result(c, "anotb-rvalue", r, e, true, ""); rep.evaluations++; }
  template<class SA, class SB> void rvalue_a(const SA&, const SB&, const Abs&) {}

  template<class SA, class SB> void operator()(const SA& a, const SB& b) {
    // A-not-B
    const Abs e = expect_anotb();
    for (int ord = 1; ord >= 0; --ord) {
      CSk r = anotb().compute(a, b, ord == 1);
      check_result(c, "anotb", r, e, ord == 1, ord ? "(ordered=true)" : "(ordered=false)");
      rep.evaluations++;
    }
    rvalue_a(a, b, e);
    rep.outcome(std::string("anotb|") + mode_tag(A.a) + "|" + mode_tag(B.a) + "->" + mode_tag(e) + "|" + (A.ordered_flag ? "o" : "u") + (B.ordered_flag ? "o" : "u"));
    // Jaccard
    const uint64_t th = std::min(A.a.theta, B.a.theta);
    const std::vector<uint64_t> U = below(set_union(A.a.set, B.a.set), th), I = below(set_inter(A.a.set, B.a.set), th);
    const bool exact = A.a.theta == MAXT && B.a.theta == MAXT;
    std::array<double, 3> j = theta_jaccard_similarity::jaccard(a, b);
    rep.evaluations++;
    const double ratio = U.empty() ? 1.0 : (double)I.size() / (double)U.size();
    std::string jt;
    if (exact) {
      c.eq("jaccard-exact-lb", j[0], ratio); c.eq("jaccard-exact-estimate", j[1], ratio); c.eq("jaccard-exact-ub", j[2], ratio);
      jt = std::string("exact|") + (A.a.empty && B.a.empty ? "both-empty" : (A.a.empty || B.a.empty) ? "one-empty" : ratio == 1 ? "equal" : ratio == 0 ? "disjoint" : "partial");
    } else {
      c.ok("jaccard-est-lb<=est<=ub", j[0] <= j[1] && j[1] <= j[2], "lb " + str(j[0]) + " est " + str(j[1]) + " ub " + str(j[2]));
      c.ok("jaccard-est-in-[0,1]", j[0] >= 0 && j[2] <= 1, "lb " + str(j[0]) + " ub " + str(j[2]));
      if (!U.empty()) c.eq("jaccard-est-is-sample-ratio", j[1], ratio);
      jt = std::string("est|") + (U.empty() ? "no-sample" : ratio == 1 ? "equal" : ratio == 0 ? "disjoint" : "partial");
    }
    const bool eq_exp = (A.a.empty && B.a.empty) || (!A.a.empty && !B.a.empty && A.a.theta == B.a.theta && A.a.set == B.a.set);
    c.eq("exactly-equal", theta_jaccard_similarity::exactly_equal(a, b), eq_exp);
    rep.evaluations++;
    const double ths[] = {0.5, 1.0, 0.0};
    for (int t = 0; t < (quick ? 1 : 3); ++t) {
      bool sim = theta_jaccard_similarity::similarity_test(a, b, ths[t]), dis = theta_jaccard_similarity::dissimilarity_test(a, b, ths[t]);
      rep.evaluations += 2;
      if (exact) { c.eq("similarity-test-exact", sim, ratio >= ths[t]); c.eq("dissimilarity-test-exact", dis, ratio <= ths[t]); }
      else { c.eq("similarity-test-consistent", sim, j[0] >= ths[t]); c.eq("dissimilarity-test-consistent", dis, j[2] <= ths[t]); }
    }
    rep.outcome("jaccard|" + jt + (eq_exp ? "|eq" : "|ne"));
  }
};

static void pair_case(const Menu& m, size_t i, size_t k, Report& rep, bool quick) {
  const std::string sc = "pairs";
  const Operand& A = m.ops[i]; const Operand& B = m.ops[k];
  std::string hist = A.label + "|" + B.label;
  if (!journal(sc, hist)) return;
  Ctx c(rep, sc, hist); int a0 = asan_errors();
  try { PairFn f(c, rep, A, B, quick); visit2(A, B, f); }
  catch (const std::exception& e) { c.fail("unexpected-exception", std::string("operation threw: ") + e.what()); }
  if (asan_errors() != a0) c.fail("asan", "AddressSanitizer report during this case");
  if (!c.fails.empty()) { for (size_t q = 0; q < c.fails.size(); ++q) c.fails[q].second += " [A=" + abs_str(A.a) + " B=" + abs_str(B.a) + "]"; rep.flush_ctx_fails(c.fails, sc, hist); }
  rep.states++; rep.transitions++; rep.traces++;
}

static void pairs_task(const Menu& m, size_t chunk, size_t nchunks, Report& rep, const Config& cfg) {
  const std::string sc = "pairs";
  if (!cfg.replay_scenario.empty()) {
    if (cfg.replay_scenario != sc || chunk != 0) return;
    size_t bar = cfg.replay_history.find('|'); if (bar == std::string::npos) return;
    int i = m.find(cfg.replay_history.substr(0, bar)), k = m.find(cfg.replay_history.substr(bar + 1));
    if (i < 0 || k < 0) { rep.violation("C02|pairs|replay-parse", "operand label not found", sc, cfg.replay_history); return; }
    pair_case(m, (size_t)i, (size_t)k, rep, false);
    return;
  }
  double t0 = now_s(); uint64_t n = 0; bool cut = false;
  for (size_t i = chunk; i < m.ops.size() && !cut; i += nchunks) {
    for (size_t k = 0; k < m.ops.size(); ++k) { pair_case(m, i, k, rep, cfg.quick()); ++n; }
    if (rep.past_deadline()) cut = true;
  }
  journal_clear();
  if (cut) rep.cap("global deadline reached in pairs chunk " + str(chunk));
  char b[200]; snprintf(b, sizeof b, "pairs[%zu/%zu]: %llu ordered pairs (A in this chunk x all %zu B) %.1fs", chunk, nchunks, (unsigned long long)n, m.ops.size(), now_s() - t0);
  rep.scenarios.push_back(b);
  if (chunk == 0) rep.sample("pairs: " + m.ops[m.ops.size() / 3].label + "|" + m.ops[m.ops.size() / 2].label);
}

// other-seed operands must be refused by the stateless operations when both operands are non-empty
struct SeedFn {
  Ctx& c; int side;
  SeedFn(Ctx& c_, int s): c(c_), side(s) {}
  template<class SA, class SB> void operator()(const SA& a, const SB& b) {
    bool threw = false;
    try { CSk r = anotb().compute(a, b, true); (void)r; } catch (const std::invalid_argument&) { threw = true; }
    c.ok(side == 0 ? "anotb-other-seed-A-refused" : "anotb-other-seed-B-refused", threw, "a_not_b accepted a non-empty operand hashed with another seed");
    threw = false;
    try { theta_jaccard_similarity::jaccard(a, b); } catch (const std::invalid_argument&) { threw = true; }
    c.ok("jaccard-other-seed-refused", threw, "jaccard accepted a non-empty operand hashed with another seed");
  }
};
static void seed_task(const Menu& m, Report& rep, const Config& cfg) {
  const std::string sc = "seed-mismatch";
  if (!cfg.replay_scenario.empty() && cfg.replay_scenario != sc) return;
  uint64_t n = 0;
  for (size_t i = 0; i < m.bad.size(); ++i) for (size_t k = 0; k < m.ops.size(); ++k) for (int side = 0; side < 2; ++side) {
    const Operand& good = m.ops[k];
    if (good.a.empty) continue;
    if (cfg.quick() && good.big) continue;
    const Operand& A = side == 0 ? m.bad[i] : good; const Operand& B = side == 0 ? good : m.bad[i];
    std::string hist = A.label + "|" + B.label;
    if (!cfg.replay_history.empty() && cfg.replay_history != hist) continue;
    if (!journal(sc, hist)) continue;
    Ctx c(rep, sc, hist); int a0 = asan_errors();
    try { SeedFn f(c, side); visit2(A, B, f); } catch (const std::exception& e) { c.fail("unexpected-exception", e.what()); }
    if (asan_errors() != a0) c.fail("asan", "AddressSanitizer report during this case");
    rep.flush_ctx_fails(c.fails, sc, hist);
    rep.outcome(std::string("seed|") + (side ? "B" : "A") + "|" + FORM_NAME[m.bad[i].form] + "|" + mode_tag(good.a));
    rep.states++; rep.transitions++; rep.traces++; rep.evaluations += 2; ++n;
  }
  journal_clear();
  rep.scenarios.push_back("seed-mismatch: " + str(n) + " (other-seed operand, side, non-empty operand) cases for a_not_b and jaccard");
}

// ------------------------------------------------------------------------------------------------ stateful operators
enum OpKind { K_RESET, K_LVAL, K_RVAL, K_BADSEED, K_SELF_ORD, K_SELF_UNORD };
struct OpSpec { OpKind kind; int idx; std::string name; };

template<class Target> struct UpdFn { Target& t; UpdFn(Target& x): t(x) {} template<class S> void operator()(const S& s) { t.update(s); } };
template<class Target> static void update_rvalue(Target& t, Operand& o) {   // o is a private, freshly built operand
  if (o.upd) t.update(std::move(*o.upd)); else if (o.cmp) t.update(std::move(*o.cmp)); else t.update(std::move(*o.wr));
}

// No update of the alphabets may throw (other-seed operands are handled where they are applied). The BFS engine drops the
// failures of a transition that reports "not enabled", so the failure is flushed here and the transition is then disabled
// (the state after a failed update is not explored further).
static bool op_threw(Ctx* c, const std::exception& e) {
  if (!c) throw;   // cannot happen while replaying a prefix: the transition was never added
  c->fail("unexpected-exception", std::string("operation threw: ") + e.what());
  c->rep.flush_ctx_fails(c->fails, c->scenario, c->history); c->fails.clear();
  return false;
}

static std::string table_canon(const theta_update_sketch_base<uint64_t, trivial_extract_key, std::allocator<uint64_t> >& t) {
  std::string c = str(t.lg_cur_size_) + "," + str(t.lg_nom_size_) + "," + str(t.num_entries_) + "," + hex64(t.theta_) + "," + str(t.is_empty_) + "[";
  if (t.entries_) { size_t size = (size_t)1 << t.lg_cur_size_; for (size_t i = 0; i < size; ++i) { if (t.entries_[i]) c += hex64(t.entries_[i]); c += ","; } }
  return c + "]";
}
static std::string set_canon(const std::set<uint64_t>& s) { std::string c; for (std::set<uint64_t>::const_iterator i = s.begin(); i != s.end(); ++i) c += hex64(*i) + ","; return c; }

static std::vector<OpSpec> make_ops(const std::vector<Operand>& sub, const std::vector<Operand>& bad, bool with_reset, size_t n_rvalue) {
  std::vector<OpSpec> ops;
  if (with_reset) { OpSpec o; o.kind = K_RESET; o.idx = -1; o.name = "reset"; ops.push_back(o); }
  for (size_t i = 0; i < sub.size(); ++i) { OpSpec o; o.kind = K_LVAL; o.idx = (int)i; o.name = "upd(" + sub[i].label + ")"; ops.push_back(o); }
  // rvalue updates: one operand per form, taken from the non-trivial ones
  size_t taken = 0; std::set<int> forms;
  for (size_t i = 0; i < sub.size() && taken < n_rvalue; ++i) {
    if (sub[i].a.set.size() < 2 || forms.count(sub[i].form)) continue;
    forms.insert(sub[i].form); ++taken;
    OpSpec o; o.kind = K_RVAL; o.idx = (int)i; o.name = "upd-rvalue(" + sub[i].label + ")"; ops.push_back(o);
  }
  { OpSpec o; o.kind = K_SELF_ORD; o.idx = -1; o.name = "upd(own-result-ordered)"; ops.push_back(o); o.kind = K_SELF_UNORD; o.name = "upd(own-result-unordered)"; ops.push_back(o); }
  for (size_t i = 0; i < bad.size(); ++i) { OpSpec o; o.kind = K_BADSEED; o.idx = (int)i; o.name = "upd-other-seed(" + bad[i].label + ")"; ops.push_back(o); }
  return ops;
}

struct UnionSys {
  struct State {
    theta_union u; uint64_t tmin; std::set<uint64_t> U; bool any;   // model: min theta, union of the operand hashes below it, any non-empty input
    State(theta_union&& x, uint64_t st): u(std::move(x)), tmin(st), any(false) {}
  };
  int lg_k; float p; std::string nm; std::vector<Operand> sub, bad; std::vector<OpSpec> ops;

  std::string name() const { return nm; }
  State* make() {
    if (lg_k >= 5) return new State(theta_union::builder().set_lg_k((uint8_t)lg_k).set_p(p).build(), start_theta(p));
    return new State(theta_union(1, (uint8_t)lg_k, theta_constants::resize_factor::X2, p, start_theta(p), DEFAULT_SEED, std::allocator<uint64_t>()), start_theta(p));
  }
  size_t nops() const { return ops.size(); }
  std::string opname(size_t i) const { return ops[i].name; }

  static void model_update(State& s, const Abs& x) {
    if (x.empty) return;
    s.any = true; s.tmin = std::min(s.tmin, x.theta);
    s.U.insert(x.set.begin(), x.set.end());
    for (std::set<uint64_t>::iterator it = s.U.begin(); it != s.U.end();) { if (*it >= s.tmin) s.U.erase(it++); else ++it; }
  }
  Abs expected(const State& s) const {
    Abs e; const size_t k = (size_t)1 << lg_k;
    if (!s.any) return e;                       // every input was empty: the empty sketch (theta 1.0)
    e.empty = false;
    std::vector<uint64_t> v; for (std::set<uint64_t>::const_iterator it = s.U.begin(); it != s.U.end(); ++it) if (*it < s.tmin) v.push_back(*it);
    if (v.size() > k) { e.theta = v[k]; v.resize(k); } else e.theta = s.tmin;
    e.set = v; return e;
  }
  std::string impl_canon(const State& s) const { return hex64(s.u.state_.union_theta_) + ";" + table_canon(s.u.state_.table_); }
  std::string canon(State& s) { return impl_canon(s) + "M" + hex64(s.tmin) + "," + str(s.any) + "{" + set_canon(s.U) + "}"; }

  bool apply(State& s, size_t op, Ctx* c) {
    try { return apply_inner(s, op, c); }
    catch (const std::exception& e) { return op_threw(c, e); }
  }
  bool apply_inner(State& s, size_t op, Ctx* c) {
    const OpSpec& o = ops[op];
    switch (o.kind) {
      case K_RESET: s.u.reset(); s.tmin = start_theta(p); s.U.clear(); s.any = false; break;
      case K_LVAL: { UpdFn<theta_union> f(s.u); visit(sub[(size_t)o.idx], f); model_update(s, sub[(size_t)o.idx].a); break; }
      case K_RVAL: { Operand tmp = materialize(sub[(size_t)o.idx].r, sub[(size_t)o.idx].form); update_rvalue(s.u, tmp); model_update(s, sub[(size_t)o.idx].a); break; }
      case K_SELF_ORD: case K_SELF_UNORD: { Abs e = expected(s); CSk r = s.u.get_result(o.kind == K_SELF_ORD); s.u.update(r); model_update(s, e); break; }
      case K_BADSEED: {
        std::string before = impl_canon(s); bool threw = false;
        try { UpdFn<theta_union> f(s.u); visit(bad[(size_t)o.idx], f); } catch (const std::invalid_argument&) { threw = true; }
        if (c) { c->ok("union-other-seed-refused", threw, "union accepted a non-empty sketch hashed with another seed"); c->ok("union-unchanged-after-refusal", impl_canon(s) == before, "union state changed by a refused update"); c->rep.outcome("union|other-seed-refused"); }
        break;
      }
    }
    return true;
  }
  void check(State& s, Ctx& c) {
    const Abs e = expected(s);
    const std::string before = impl_canon(s);
    for (int ord = 1; ord >= 0; --ord) { CSk r = s.u.get_result(ord == 1); check_result(c, "union", r, e, ord == 1, ord ? "(ordered=true)" : "(ordered=false)"); c.rep.evaluations++; }
    { CSk r = s.u.get_result(); c.ok("union-default-is-ordered", r.is_ordered(), "get_result() default must be ordered"); }
    c.ok("union-get-result-is-const", impl_canon(s) == before, "get_result changed the union");
    c.ok("union-theta<=table-theta", s.u.state_.union_theta_ <= s.u.state_.table_.theta_ || !s.any, "union_theta above table theta after an update");
    const size_t k = (size_t)1 << lg_k;
    c.rep.outcome(std::string("union|") + mode_tag(e) + (s.any && s.U.size() > k ? "|trimmed" : "") + (s.u.state_.table_.theta_ < start_theta(p) ? "|table-rebuilt" : "") +
      (s.u.state_.table_.num_entries_ > e.set.size() ? "|dead-entries" : "") + "|lgcur" + str((int)s.u.state_.table_.lg_cur_size_));
  }
};

struct InterSys {
  struct State {
    theta_intersection x; bool any, any_empty; uint64_t theta; std::set<uint64_t> S;
    State(): x(DEFAULT_SEED), any(false), any_empty(false), theta(MAXT) {}
  };
  std::string nm; std::vector<Operand> sub, bad; std::vector<OpSpec> ops;

  std::string name() const { return nm; }
  State* make() { return new State(); }
  size_t nops() const { return ops.size(); }
  std::string opname(size_t i) const { return ops[i].name; }

  static void model_update(State& s, const Abs& x) {
    if (s.any_empty) { s.any = true; return; }                       // the empty set absorbs everything
    if (x.empty) { s.any = true; s.any_empty = true; s.theta = MAXT; s.S.clear(); return; }
    s.theta = std::min(s.theta, x.theta);
    std::set<uint64_t> n;
    if (!s.any) n.insert(x.set.begin(), x.set.end());
    else for (size_t i = 0; i < x.set.size(); ++i) if (s.S.count(x.set[i])) n.insert(x.set[i]);
    for (std::set<uint64_t>::iterator it = n.begin(); it != n.end();) { if (*it >= s.theta) n.erase(it++); else ++it; }
    s.S.swap(n); s.any = true;
  }
  static Abs expected(const State& s) {
    Abs e; if (s.any_empty) return e;
    e.theta = s.theta; e.set.assign(s.S.begin(), s.S.end());
    e.empty = e.set.empty() && e.theta == MAXT;      // documented rule: no retained entries and theta == 1.0 means the empty set
    return e;
  }
  std::string impl_canon(const State& s) const { return str(s.x.state_.is_valid_) + ";" + table_canon(s.x.state_.table_); }
  std::string canon(State& s) { return impl_canon(s) + "M" + str(s.any) + str(s.any_empty) + hex64(s.theta) + "{" + set_canon(s.S) + "}"; }

  bool apply(State& s, size_t op, Ctx* c) {
    try { return apply_inner(s, op, c); }
    catch (const std::exception& e) { return op_threw(c, e); }
  }
  bool apply_inner(State& s, size_t op, Ctx* c) {
    const OpSpec& o = ops[op];
    switch (o.kind) {
      case K_RESET: return false;
      case K_LVAL: { UpdFn<theta_intersection> f(s.x); visit(sub[(size_t)o.idx], f); model_update(s, sub[(size_t)o.idx].a); break; }
      case K_RVAL: { Operand tmp = materialize(sub[(size_t)o.idx].r, sub[(size_t)o.idx].form); update_rvalue(s.x, tmp); model_update(s, sub[(size_t)o.idx].a); break; }
      case K_SELF_ORD: case K_SELF_UNORD: {
        if (!s.any) return false;
        Abs e = expected(s); CSk r = s.x.get_result(o.kind == K_SELF_ORD); s.x.update(r); model_update(s, e); break;
      }
      case K_BADSEED: {
        std::string before = impl_canon(s); bool threw = false;
        try { UpdFn<theta_intersection> f(s.x); visit(bad[(size_t)o.idx], f); } catch (const std::invalid_argument&) { threw = true; }
        if (c) {
          // once the intersection is the empty set no further input can change it; a refusal is demanded only when the input would be used
          if (!s.x.state_.table_.is_empty_) c->ok("inter-other-seed-refused", threw, "intersection accepted a non-empty sketch hashed with another seed");
          c->ok("inter-unchanged-after-refusal", impl_canon(s) == before, "intersection state changed by a refused update");
          c->rep.outcome(std::string("inter|other-seed|") + (threw ? "refused" : "ignored-already-empty"));
        }
        break;
      }
    }
    return true;
  }
  void check(State& s, Ctx& c) {
    c.eq("inter-has-result", s.x.has_result(), s.any);
    const std::string before = impl_canon(s);
    if (!s.any) {
      bool threw = false; try { CSk r = s.x.get_result(); (void)r; } catch (const std::invalid_argument&) { threw = true; }
      c.ok("inter-get-result-before-update-throws", threw, "get_result() on the universe state did not throw");
      c.rep.outcome("inter|universe");
      return;
    }
    const Abs e = expected(s);
    for (int ord = 1; ord >= 0; --ord) { CSk r = s.x.get_result(ord == 1); check_result(c, "inter", r, e, ord == 1, ord ? "(ordered=true)" : "(ordered=false)"); c.rep.evaluations++; }
    { CSk r = s.x.get_result(); c.ok("inter-default-is-ordered", r.is_ordered(), "get_result() default must be ordered"); }
    c.ok("inter-get-result-is-const", impl_canon(s) == before, "get_result changed the intersection");
    c.rep.outcome(std::string("inter|") + mode_tag(e) + (s.any_empty ? "|by-empty-input" : e.empty ? "|by-rule" : "") + "|lgcur" + str((int)s.x.state_.table_.lg_cur_size_));
  }
};

// sub-menu for the stateful operators: `per_cell` operands per (form, mode) cell with pairwise different contents where
// possible; with forms_per_mode < NFORMS only that many (rotating) forms are taken per mode
static std::vector<Operand> pick_submenu(const Menu& m, size_t per_cell, unsigned salt, const std::vector<std::string>& big_names, int forms_per_mode = NFORMS) {
  std::vector<Operand> sub; std::set<std::string> used_abs;
  // three fixed operands first (exact {item0}, exact {item2}, p=0.5 {item0}): the same in both tiers, so that the shortest
  // witness of a failure that needs "two disjoint exact inputs, then an estimating one" has the same history in both
  const char* const fixed[] = {"lg1p1/s01/CU", "lg1p1/s04/CO", "lg1p.5/s01/U"};
  for (size_t b = 0; b < 3; ++b) { int i = m.find(fixed[b]); if (i < 0) { fprintf(stderr, "HARNESS-ERROR: operand %s not in menu\n", fixed[b]); exit(3); } sub.push_back(m.ops[(size_t)i]); used_abs.insert(abs_str(m.ops[(size_t)i].a)); }
  for (int md = 0; md < NMODES; ++md) for (int fi = 0; fi < forms_per_mode; ++fi) {
    const int f = forms_per_mode == NFORMS ? fi : (int)((md * 3 + fi * 2 + salt) % NFORMS);
    std::vector<size_t> cell;
    for (size_t i = 0; i < m.ops.size(); ++i) if (!m.ops[i].big && m.ops[i].form == f && m.ops[i].mode == md) cell.push_back(i);
    if (cell.empty()) continue;
    size_t taken = 0;
    for (size_t j = 0; j < cell.size() && taken < per_cell; ++j) {
      size_t pos = ((size_t)(f * 7 + md * 3 + salt) * 5 + j * 11) % cell.size();
      const Operand& o = m.ops[cell[pos]];
      std::string ak = abs_str(o.a);
      if (used_abs.count(ak) && j + 1 < cell.size() && md != M_EMPTY) continue;   // prefer contents not used yet
      bool dup = false; for (size_t q = 0; q < sub.size(); ++q) if (sub[q].label == o.label) dup = true;
      if (dup) continue;
      used_abs.insert(ak); sub.push_back(o); ++taken;
    }
  }
  for (size_t b = 0; b < big_names.size(); ++b) { int i = m.find(big_names[b]); if (i >= 0) sub.push_back(m.ops[(size_t)i]); else { fprintf(stderr, "HARNESS-ERROR: operand %s not in menu\n", big_names[b].c_str()); exit(3); } }
  return sub;
}

int main(int argc, char** argv) {
  Config cfg = parse_args(argc, argv);
  std::string ht = oracle::self_test();
  if (!ht.empty()) { fprintf(stderr, "HARNESS-ERROR oracle hash self-test failed: %s\n", ht.c_str()); return 3; }
  forbid_unowned_draws();
  const bool q = cfg.quick();
  pick_items(q ? 6 : 8);
  Menu menu;
  try { menu = build_menu(q); }
  catch (const std::exception& e) { fprintf(stderr, "HARNESS-ERROR building the operand menu threw: %s\n", e.what()); return 3; }
  const Menu* mp = &menu;

  std::vector<Task> tasks;
  { Task t; t.name = "menu"; t.fn = [mp, &cfg](Report& rep) { menu_task(*mp, rep, cfg); }; tasks.push_back(t); }
  { Task t; t.name = "seed-mismatch"; t.fn = [mp, &cfg](Report& rep) { seed_task(*mp, rep, cfg); }; tasks.push_back(t); }

  // stateful operators first (longest tasks), then the pair chunks
  const int ulg[] = {1, 2, 5}; const float ups[] = {1.0f, 0.5f};
  for (int li = 0; li < 3; ++li) for (int pi = 0; pi < 2; ++pi) {
    UnionSys sys; sys.lg_k = ulg[li]; sys.p = ups[pi];
    std::vector<std::string> bigs;
    if (sys.lg_k == 1) { bigs.push_back("lg2p1/ext2/CU"); }
    if (sys.lg_k == 2) { bigs.push_back("lg2p1/ext2/W3U"); bigs.push_back("lg5p1/ext3/W4"); if (!q) { bigs.push_back("lg2p.5/ext12/U"); bigs.push_back("lg5p1/tot16/W4"); } }
    if (sys.lg_k == 5) { bigs.push_back("lg6p1/x30a/CU"); bigs.push_back("lg6p1/x30b/W4"); if (!q) { bigs.push_back("lg6p1/x70/U"); bigs.push_back("lg5p1/ext69/CO"); bigs.push_back("lg5p1/ext11/W4"); } }
    // lg_k=5 with the 30/30/70-entry operands: two (rotating) forms per mode keep the fixpoint within the budgets
    sys.sub = sys.lg_k == 5 ? pick_submenu(menu, 1, (unsigned)(li * 2 + pi), bigs, 2) : pick_submenu(menu, q ? 1 : 2, (unsigned)(li * 2 + pi), bigs);
    sys.bad.push_back(menu.bad[0]); sys.bad.push_back(menu.bad[5]); if (!q) { sys.bad.push_back(menu.bad[2]); sys.bad.push_back(menu.bad[6]); sys.bad.push_back(menu.bad[1]); }
    sys.ops = make_ops(sys.sub, sys.bad, true, q ? 3 : 7);
    sys.nm = "union/lgk" + str(sys.lg_k) + "/p" + str(sys.p);
    BfsLimits lim; lim.max_depth = q ? 30 : 40; lim.max_states = q ? 150000 : 1500000;
    Task t; t.name = sys.nm; t.fn = [sys, lim, &cfg](Report& rep) mutable { if (cfg.replay_scenario.empty()) rep.scenarios.push_back(sys.nm + ": alphabet of " + str(sys.ops.size()) + " operations over " + str(sys.sub.size()) + " operands"); explore(sys, rep, cfg, lim); };
    tasks.push_back(t);
  }
  for (int v = 0; v < (q ? 1 : 2); ++v) {
    InterSys sys;
    std::vector<std::string> bigs; bigs.push_back("lg5p1/ext3/W4"); bigs.push_back("lg5p1/ext11/CU"); bigs.push_back("lg5p1/ext11/W4"); bigs.push_back("lg2p1/ext2/W3O"); bigs.push_back("lg5p1/tot16/W4");
    if (!q) { bigs.push_back("lg5p1/tot24/W4"); bigs.push_back("lg5p1/ext69/W4"); bigs.push_back("lg6p1/x70/U"); bigs.push_back("lg6p1/x30a/D3"); }
    sys.sub = pick_submenu(menu, q ? 1 : 2, (unsigned)(10 + v), bigs);
    sys.bad.push_back(menu.bad[0]); sys.bad.push_back(menu.bad[6]); if (!q) { sys.bad.push_back(menu.bad[3]); sys.bad.push_back(menu.bad[4]); }
    sys.ops = make_ops(sys.sub, sys.bad, false, q ? 3 : 7);
    sys.nm = "inter/v" + str(v);
    // update(own unordered result) re-inserts the entries in table order and so permutes the layout of a large table for a
    // long time without changing anything else: the intersection is explored to a depth bound, not to the layout fixpoint
    BfsLimits lim; lim.max_depth = q ? 12 : 14; lim.max_states = q ? 150000 : 1500000;
    Task t; t.name = sys.nm; t.fn = [sys, lim, &cfg](Report& rep) mutable { if (cfg.replay_scenario.empty()) rep.scenarios.push_back(sys.nm + ": alphabet of " + str(sys.ops.size()) + " operations over " + str(sys.sub.size()) + " operands"); explore(sys, rep, cfg, lim); };
    tasks.push_back(t);
  }
  const size_t nchunks = q ? 24 : 48;
  for (size_t ch = 0; ch < nchunks; ++ch) {
    Task t; t.name = "pairs/" + str(ch); t.fn = [mp, ch, nchunks, &cfg](Report& rep) { pairs_task(*mp, ch, nchunks, rep, cfg); };
    tasks.push_back(t);
  }
  return run_tasks(cfg, "C02", tasks);
}
